import EdpVerif.Lemmas.ElixirRange
import EdpVerif.Lemmas.ElixirKeys
import EdpVerif.Lemmas.ElixirLists
import EdpVerif.Lemmas.ElixirUtf8
/-
C20 — Elixir wrappers and proplist/map helpers convert back to what went in.
Property theorems only; the model is Impl/Elixir.lean, the oracle Spec/Elixir.lean, helper lemmas are in Lemmas/.

Where the code violates the property the negation is proved with a concrete witness (`C20_not_…`) and the positive
statement is kept with an explicit decidable guard (`…_partial`).
-/
namespace Edp.Props.C20
open Edp Edp.Ex

/-! ## ranges: `len`, `contains`, `size_hint` and the iterator against Elixir's `Range` -/

/-- the oracle is coherent: membership is membership in the element list, the size is its length -/
theorem C20_range_spec_coherent (f l s v : Int) :
    (Spec.Range.mem f l s v = true ↔ v ∈ Spec.Range.elems f l s) ∧
    (Spec.Range.elems f l s).length = Spec.Range.count f l s :=
  ⟨spec_mem_iff f l s v, spec_length f l s⟩

/-- full strength: for every `i64` range, `len`, `contains`, `size_hint` and the iteration agree and nothing panics -/
def RangeConsistent (r : Range) : Prop :=
  r.len = .ok r.toList.length ∧
  (∀ v, InI64 v → r.contains v = .ok (decide (v ∈ r.toList))) ∧
  r.sizeHint r.iter = .ok r.toList.length ∧
  r.toList = Spec.Range.elems r.first r.last r.step

/-- the property holds whenever the range's own arithmetic fits `i64` and the iterator does not have to saturate
onto `last` (`Range.Safe`, decidable) -/
theorem C20_range_consistent_partial (r : Range) (hw : r.WF) (hs : r.Safe) : RangeConsistent r := by
  have hl : r.toList = Spec.Range.elems r.first r.last r.step := collect_safe r hw hs r.fuel (Nat.le_refl _)
  refine ⟨?_, ?_, ?_, hl⟩
  · rw [len_safe r hs, hl, spec_length]
  · intro v hv
    rw [contains_safe r hw hs v hv, hl]
    congr 1
    have := spec_mem_iff r.first r.last r.step v
    by_cases h : v ∈ Spec.Range.elems r.first r.last r.step
    · simp [h, this.mpr h]
    · cases hm : Spec.Range.mem r.first r.last r.step v with
      | true => exact absurd (this.mp hm) h
      | false => simp [h]
  · rw [sizeHint_safe r hw hs, hl, spec_length]

example : (⟨1, 10, 3⟩ : Range).WF ∧ (⟨1, 10, 3⟩ : Range).Safe := by decide
example : (⟨9223372036854775807, -9223372036854775808, 1⟩ : Range).Safe ∧ (⟨-4611686018427387904, 4611686018427387903, 3⟩ : Range).Safe := by decide

/-- under the same guard the iteration does not depend on how much fuel the model is given -/
theorem C20_range_iter_partial (r : Range) (hw : r.WF) (hs : r.Safe) (fuel : Nat) (hf : r.fuel ≤ fuel) :
    r.collect fuel r.iter = Spec.Range.elems r.first r.last r.step :=
  collect_safe r hw hs fuel hf

example : (⟨-5, 5, 2⟩ : Range).WF ∧ (⟨-5, 5, 2⟩ : Range).Safe ∧ (⟨-5, 5, 2⟩ : Range).fuel ≤ 100 := by decide

/-- for every `i64` range — guard or no guard — the iterator stops (no `next` ever panics: the model's `next` has no
panic outcome because the code uses `saturating_add`), and `toList` is the whole iteration: more calls add nothing -/
theorem C20_range_iter_fuel (r : Range) (hw : r.WF) (fuel : Nat) (hf : r.fuel ≤ fuel) :
    r.collect fuel r.iter = r.toList :=
  collect_stable r hw.2.1 r.fuel r.iter fuel r.fuel hw.1 (mu_iter_le_fuel r) hf (Nat.le_refl _)

example : (⟨I64_MIN, I64_MAX, 1⟩ : Range).WF := by decide

/-- `len` panics on a well-formed range: `i64::MIN..i64::MAX` (`last - first` overflows) -/
theorem C20_not_range_len_total :
    ∃ r : Range, r.WF ∧ r.len = .panic := ⟨⟨I64_MIN, I64_MAX, 1⟩, by decide, by decide⟩

/-- `len` also panics on `0..i64::MAX` (2^63 elements: `diff / step + 1` overflows) and on a step of `i64::MIN` -/
theorem C20_not_range_len_other_sites :
    (⟨0, I64_MAX, 1⟩ : Range).len = .panic ∧ (⟨0, -5, I64_MIN⟩ : Range).len = .panic ∧
    (⟨0, I64_MIN, -1⟩ : Range).len = .panic := by decide

/-- `contains` panics on a well-formed range and value: `0 in i64::MIN..i64::MAX` (`value - first` overflows) -/
theorem C20_not_range_contains_total :
    ∃ (r : Range) (v : Int), r.WF ∧ InI64 v ∧ Spec.Range.mem r.first r.last r.step v = true ∧ r.contains v = .panic :=
  ⟨⟨I64_MIN, I64_MAX, 1⟩, 0, by decide, by decide, by decide, by decide⟩

/-- `size_hint` (hence `ExactSizeIterator::len` and `collect`) panics on a fresh iterator -/
theorem C20_not_range_size_hint_total :
    ∃ r : Range, r.WF ∧ r.sizeHint r.iter = .panic := ⟨⟨I64_MIN, I64_MAX, 1⟩, by decide, by decide⟩

/-- `(i64::MAX-1)..i64::MAX//2`: the iterator yields `i64::MAX` (the saturated sum), which `contains` denies and
`len` does not count; the iterator is exhausted afterwards -/
theorem C20_not_range_iter_consistent :
    ∃ r : Range, r.WF ∧ r.toList = [I64_MAX - 1, I64_MAX] ∧ r.contains I64_MAX = .ok false ∧ r.len = .ok 1 ∧
      Spec.Range.elems r.first r.last r.step = [I64_MAX - 1] ∧
      (r.walk 3 r.iter []).2.2 = true :=
  ⟨⟨I64_MAX - 1, I64_MAX, 2⟩, by decide, by decide, by decide, by decide, by decide, by decide⟩

/-- so the full-strength statement is false of the current code -/
theorem C20_not_range_consistent : ¬ ∀ r : Range, r.WF → RangeConsistent r := by
  intro h
  have := (h ⟨I64_MIN, I64_MAX, 1⟩ (by decide)).1
  exact absurd this (by decide)

/-! ## wrappers: `from_term (to_term x) = x`, in memory and after the wire (`wireNorm`, see Impl/Elixir.lean) -/

theorem C20_range_term_roundtrip (r : Range) : Range.fromTerm r.toTerm = some r := by
  obtain ⟨h0, h1, h2, h3⟩ := range_look
  unfold Range.fromTerm Range.toTerm
  simp only [mkMap_eq, structModule_lift, fldInt_lift, getA_mkA_reidx (range_reidx r), h0, h1, h2, h3, Option.map_some]
  rfl

/-- after the wire a range survives exactly when its three fields fit 32 bits: wider integers come back as
`BigInt`, which `as_integer` does not see -/
theorem C20_range_term_wire (r : Range) :
    Range.fromTerm (wireNorm r.toTerm) = if InI32 r.first ∧ InI32 r.last ∧ InI32 r.step then some r else none := by
  obtain ⟨h0, h1, h2, h3⟩ := range_lookW
  unfold Range.fromTerm Range.toTerm
  simp only [mkMap_eq, wireNorm_map_lift, structModule_lift, fldInt_lift, getA_wire_reidx (range_reidx r), h0, h1, h2, h3, Option.map_some]
  show (if (some (wireNorm (.atom mRange))).bind atomName != some mRange then none else
    match (some (wireNorm (.int r.first))).bind asInt, (some (wireNorm (.int r.last))).bind asInt,
          (some (wireNorm (.int r.step))).bind asInt with
    | some f, some l, some s => some (Range.mk f l s)
    | _, _, _ => none) = _
  simp only [wireNorm, Option.bind_some, asInt_wireInt, atomName, bne_self_eq_false, Bool.false_eq_true, if_false]
  by_cases h1 : InI32 r.first <;> by_cases h2 : InI32 r.last <;> by_cases h3 : InI32 r.step <;> simp [h1, h2, h3]

theorem C20_range_term_wire_partial (r : Range) (h : InI32 r.first ∧ InI32 r.last ∧ InI32 r.step) :
    Range.fromTerm (wireNorm r.toTerm) = some r := by
  rw [C20_range_term_wire, if_pos h]

example : InI32 (⟨1, 10, 1⟩ : Range).first ∧ InI32 (⟨1, 10, 1⟩ : Range).last ∧ InI32 (⟨1, 10, 1⟩ : Range).step := by decide

/-- a well-formed range that does not survive the wire: `2^40..5//2` -/
theorem C20_not_range_term_wire : ∃ r : Range, r.WF ∧ Range.fromTerm (wireNorm r.toTerm) = none :=
  ⟨⟨1099511627776, 5, 2⟩, by decide, by rw [C20_range_term_wire]; decide⟩

theorem C20_date_roundtrip (d : Date) (hw : d.WF) : Date.fromTerm d.toTerm = some d := by
  obtain ⟨h0, h1, h2, h3, -⟩ := date_look
  unfold Date.fromTerm Date.toTerm
  simp only [mkMap_eq, structModule_lift, fldInt_lift, getA_mkA_reidx (date_reidx d), h0, h1, h2, h3, Option.map_some]
  show some (Date.mk (asI32 d.year) (asU8 d.month) (asU8 d.day)) = some d
  obtain ⟨a1, a2, a3⟩ := hw
  unfold InI32 at a1; unfold InU8 at a2 a3
  obtain ⟨y, m, dd⟩ := d
  simp only [asI32, asU8, Option.some.injEq, Date.mk.injEq] at *
  refine ⟨?_, ?_, ?_⟩ <;> omega

example : (⟨2025, 12, 25⟩ : Date).WF := by decide

/-- every date field fits 32 bits, so a date always survives the wire -/
theorem C20_date_wire (d : Date) (hw : d.WF) : Date.fromTerm (wireNorm d.toTerm) = some d := by
  obtain ⟨h0, h1, h2, h3, -⟩ := date_lookW
  unfold Date.fromTerm Date.toTerm
  simp only [mkMap_eq, wireNorm_map_lift, structModule_lift, fldInt_lift, getA_wire_reidx (date_reidx d), h0, h1, h2, h3, Option.map_some]
  show (if (some (wireNorm (.atom mDate))).bind atomName != some mDate then none else
    match (some (wireNorm (.int d.year))).bind asInt, (some (wireNorm (.int d.month))).bind asInt,
          (some (wireNorm (.int d.day))).bind asInt with
    | some y, some mo, some dd => some (Date.mk (asI32 y) (asU8 mo) (asU8 dd))
    | _, _, _ => none) = _
  obtain ⟨a1, a2, a3⟩ := hw
  have b2 : InI32 d.month := by unfold InU8 at a2; unfold InI32; omega
  have b3 : InI32 d.day := by unfold InU8 at a3; unfold InI32; omega
  simp only [wireNorm, Option.bind_some, asInt_wireInt, atomName, bne_self_eq_false, Bool.false_eq_true, if_false, a1, b2, b3, if_true]
  unfold InI32 at a1; unfold InU8 at a2 a3
  obtain ⟨y, m, dd⟩ := d
  simp only [asI32, asU8, Option.some.injEq, Date.mk.injEq] at *
  refine ⟨?_, ?_, ?_⟩ <;> omega

/-- `from_term` fabricates a value: month 300 is accepted and becomes 44 (`as u8`) -/
theorem C20_not_date_rejects :
    ∃ (m : List (Term × Term)) (d : Date), Date.fromTerm (.map m) = some d ∧ fldInt m kMonth = some 300 ∧ d.month = 44 := by
  refine ⟨mkMap [(kStruct, .atom mDate), (kYear, .int 2025), (kMonth, .int 300), (kDay, .int 1), (kCalendar, .atom mCalendarISO)],
    ⟨2025, 44, 1⟩, ?_, ?_, rfl⟩
  · have := date_reidx ⟨2025, 300, 1⟩
    obtain ⟨h0, h1, h2, h3, -⟩ := date_look
    unfold Date.fromTerm
    simp only [mkMap_eq, structModule_lift, fldInt_lift]
    show (if (getA (mkA (Date.fields ⟨2025, 300, 1⟩)) kStruct).bind atomName != some mDate then none else
      match (getA (mkA (Date.fields ⟨2025, 300, 1⟩)) kYear).bind asInt, (getA (mkA (Date.fields ⟨2025, 300, 1⟩)) kMonth).bind asInt,
            (getA (mkA (Date.fields ⟨2025, 300, 1⟩)) kDay).bind asInt with
      | some y, some mo, some d => some (Date.mk (asI32 y) (asU8 mo) (asU8 d))
      | _, _, _ => none) = _
    simp only [getA_mkA_reidx this, h0, h1, h2, h3, Option.map_some]
    decide
  · have := date_reidx ⟨2025, 300, 1⟩
    obtain ⟨h0, h1, h2, h3, -⟩ := date_look
    simp only [mkMap_eq, fldInt_lift]
    show (getA (mkA (Date.fields ⟨2025, 300, 1⟩)) kMonth).bind asInt = _
    simp only [getA_mkA_reidx this, h2, Option.map_some]
    decide

/-- nothing is fabricated when the integers present in the term fit the field types -/
theorem C20_date_faithful_partial (m : List (Term × Term)) (d : Date) (h : Date.fromTerm (.map m) = some d)
    (hr : ∀ y mo dd, fldInt m kYear = some y → fldInt m kMonth = some mo → fldInt m kDay = some dd →
      InI32 y ∧ InU8 mo ∧ InU8 dd) :
    fldInt m kYear = some d.year ∧ fldInt m kMonth = some d.month ∧ fldInt m kDay = some d.day := by
  unfold Date.fromTerm at h
  split at h
  · cases h
  · cases hy : fldInt m kYear with
    | none => simp [hy] at h
    | some y =>
      cases hm : fldInt m kMonth with
      | none => simp [hy, hm] at h
      | some mo =>
        cases hd : fldInt m kDay with
        | none => simp [hy, hm, hd] at h
        | some dd =>
          simp only [hy, hm, hd, Option.some.injEq] at h
          obtain ⟨a1, a2, a3⟩ := hr y mo dd hy hm hd
          unfold InI32 at a1; unfold InU8 at a2 a3
          subst h
          simp only [asI32, asU8, Option.some.injEq]
          refine ⟨?_, ?_, ?_⟩ <;> omega

example : Date.fromTerm (Date.toTerm ⟨2025, 12, 25⟩) = some ⟨2025, 12, 25⟩ := C20_date_roundtrip _ (by decide)

theorem C20_time_roundtrip (x : Time) (hw : x.WF) : Time.fromTerm x.toTerm = some x := by
  obtain ⟨h0, h1, h2, h3, h4, -⟩ := time_look
  unfold Time.fromTerm Time.toTerm
  simp only [mkMap_eq, structModule_lift, fldInt_lift, fld_lift, usPart, getA_mkA_reidx (time_reidx x), h0, h1, h2, h3, h4, Option.map_some]
  show some (Time.mk (asU8 x.hour) (asU8 x.minute) (asU8 x.second) (asU32 x.usValue) (asU8 x.usPrecision)) = some x
  obtain ⟨a1, a2, a3, a4, a5⟩ := hw
  unfold InU8 at a1 a2 a3 a5; unfold InU32 at a4
  obtain ⟨h, mi, sc, uv, up⟩ := x
  simp only [asU8, asU32, Option.some.injEq, Time.mk.injEq] at *
  refine ⟨?_, ?_, ?_, ?_, ?_⟩ <;> omega

example : (⟨14, 30, 0, 999999, 6⟩ : Time).WF := by decide

/-- after the wire a time survives exactly when its microsecond value fits a signed 32-bit integer -/
theorem C20_time_wire (x : Time) (hw : x.WF) :
    Time.fromTerm (wireNorm x.toTerm) = if x.usValue ≤ 2147483647 then some x else none := by
  obtain ⟨h0, h1, h2, h3, h4, -⟩ := time_lookW
  unfold Time.fromTerm Time.toTerm
  simp only [mkMap_eq, wireNorm_map_lift, structModule_lift, fldInt_lift, fld_lift, usPart, getA_wire_reidx (time_reidx x),
    h0, h1, h2, h3, h4, Option.map_some]
  simp only [val, Time.fields, List.map_cons, List.map_nil, List.getD_cons_zero, List.getD_cons_succ, wireNorm, wireNormL,
    Option.bind_some, asInt_wireInt, atomName, bne_self_eq_false, Bool.false_eq_true, if_false]
  obtain ⟨a1, a2, a3, a4, a5⟩ := hw
  have b1 : InI32 x.hour := by unfold InU8 at a1; unfold InI32; omega
  have b2 : InI32 x.minute := by unfold InU8 at a2; unfold InI32; omega
  have b3 : InI32 x.second := by unfold InU8 at a3; unfold InI32; omega
  have b5 : InI32 x.usPrecision := by unfold InU8 at a5; unfold InI32; omega
  simp only [b1, b2, b3, b5, if_true]
  unfold InU8 at a1 a2 a3 a5; unfold InU32 at a4
  obtain ⟨h, mi, sc, uv, up⟩ := x
  by_cases hu : uv ≤ 2147483647
  · have b4 : InI32 uv := by unfold InI32; simp only at a4; omega
    simp only [b4, hu, if_true, asU8, asU32, Option.some.injEq, Time.mk.injEq] at *
    refine ⟨?_, ?_, ?_, ?_, ?_⟩ <;> omega
  · have b4 : ¬ InI32 uv := by unfold InI32; omega
    simp only [b4, hu, if_false]

/-- a well-formed time (`microsecond_value: u32`) that does not survive the wire -/
theorem C20_not_time_wire : ∃ x : Time, x.WF ∧ Time.fromTerm (wireNorm x.toTerm) = none :=
  ⟨⟨1, 2, 3, 3000000000, 6⟩, by decide, by rw [C20_time_wire _ (by decide)]; decide⟩

theorem C20_naive_roundtrip (x : Naive) (hw : x.WF) : Naive.fromTerm x.toTerm = some x := by
  obtain ⟨h0, h1, h2, h3, h4, h5, h6, h7, -⟩ := naive_look
  unfold Naive.fromTerm Naive.toTerm
  simp only [mkMap_eq, structModule_lift, fldInt_lift, fld_lift, usPart, getA_mkA_reidx (naive_reidx x),
    h0, h1, h2, h3, h4, h5, h6, h7, Option.map_some]
  show some (Naive.mk (asI32 x.year) (asU8 x.month) (asU8 x.day) (asU8 x.hour) (asU8 x.minute) (asU8 x.second)
    (asU32 x.usValue) (asU8 x.usPrecision)) = some x
  obtain ⟨a1, a2, a3, a4, a5, a6, a7, a8⟩ := hw
  unfold InI32 at a1; unfold InU8 at a2 a3 a4 a5 a6 a8; unfold InU32 at a7
  obtain ⟨y, mo, d, hh, mi, sc, uv, up⟩ := x
  simp only [asI32, asU8, asU32, Option.some.injEq, Naive.mk.injEq] at *
  refine ⟨?_, ?_, ?_, ?_, ?_, ?_, ?_, ?_⟩ <;> omega

example : (⟨2025, 12, 25, 14, 30, 0, 0, 0⟩ : Naive).WF := by decide

theorem C20_datetime_roundtrip (x : DateTime) (hw : x.WF) : DateTime.fromTerm x.toTerm = some x := by
  obtain ⟨h0, h1, h2, h3, h4, h5, h6, h7, h8, h9, h10, h11, -⟩ := dt_look
  unfold DateTime.fromTerm DateTime.toTerm
  simp only [mkMap_eq, structModule_lift, fldInt_lift, fld_lift, usPart, getA_mkA_reidx (dt_reidx x),
    h0, h1, h2, h3, h4, h5, h6, h7, h8, h9, h10, h11, Option.map_some]
  show some (DateTime.mk ⟨asI32 x.naive.year, asU8 x.naive.month, asU8 x.naive.day, asU8 x.naive.hour, asU8 x.naive.minute,
    asU8 x.naive.second, asU32 x.naive.usValue, asU8 x.naive.usPrecision⟩ (lossy x.timeZone) (lossy x.zoneAbbr)
    (asI32 x.utcOffset) (asI32 x.stdOffset)) = some x
  obtain ⟨⟨a1, a2, a3, a4, a5, a6, a7, a8⟩, a9, a10, s1, s2⟩ := hw
  unfold IsStr at s1 s2
  rw [s1, s2]
  unfold InI32 at *; unfold InU8 at *; unfold InU32 at *
  obtain ⟨⟨y, mo, d, hh, mi, s, uv, up⟩, tz, za, uo, so⟩ := x
  simp only [asI32, asU8, asU32] at *
  simp only [Option.some.injEq, DateTime.mk.injEq, Naive.mk.injEq]
  refine ⟨⟨?_, ?_, ?_, ?_, ?_, ?_, ?_, ?_⟩, trivial, trivial, ?_, ?_⟩ <;> omega

example : (⟨⟨2025, 12, 25, 14, 30, 0, 0, 0⟩, [85, 84, 67], [85, 84, 67], 0, 0⟩ : DateTime).WF := by decide

/-- the casts `from_term` applies (`as i32`, `as u8`, `as u32`) return the integer found in the term exactly when
it fits the field type; otherwise they return a different number (the fabricated value) -/
theorem C20_casts_exact_iff (i : Int) :
    (asI32 i = i ↔ InI32 i) ∧ (asU8 i = i ↔ InU8 i) ∧ (asU32 i = i ↔ InU32 i) := by
  unfold asI32 asU8 asU32 InI32 InU8 InU32
  refine ⟨?_, ?_, ?_⟩ <;> omega

/-- every Rust `String` (valid UTF-8) satisfies the `IsStr` guard used below: `from_utf8_lossy` gives it back -/
theorem C20_string_lossy_fixpoint (b : Bytes) (h : validUtf8 b = true) : IsStr b := isStr_of_valid b h

example : validUtf8 [69, 116, 99, 47, 85, 84, 67] = true := by decide

/-! ## exceptions -/

/-- ArgumentError, RuntimeError, ArithmeticError (any module name): the message comes back, also after the wire -/
theorem C20_msg_exception_roundtrip (module msg : Bytes) (hm : IsStr msg) :
    msgExcFromTerm module (msgExcToTerm module msg) = some msg ∧
    msgExcFromTerm module (wireNorm (msgExcToTerm module msg)) = some msg := by
  obtain ⟨h0, -, h2⟩ := msg_look
  obtain ⟨w0, -, w2⟩ := msg_lookW
  unfold msgExcFromTerm msgExcToTerm excMap
  simp only [mkMap_eq, wireNorm_map_lift, structModule_lift, fld_lift, getA_mkA_reidx (msg_reidx module (.bin msg)),
    getA_wire_reidx (msg_reidx module (.bin msg)), h0, h2, w0, w2, Option.map_some]
  simp only [val, excFields, List.map_cons, List.map_nil, List.getD_cons_zero, List.getD_cons_succ, wireNorm,
    Option.bind_some, atomName, bne_self_eq_false, Bool.false_eq_true, if_false, asErlangString, and_self]
  unfold IsStr at hm
  rw [hm]

example : IsStr [98, 97, 100, 32, 97, 114, 103] ∧ IsStr [230, 151, 165, 230, 156, 172] ∧ ¬ IsStr [240, 159, 152] := by decide

/-- MatchError, BadMapError, BadFunctionError, CaseClauseError, WithClauseError: the carried term comes back; after
the wire it is the wire image of the term -/
theorem C20_term_exception_roundtrip (module : Bytes) (x : Term) :
    termExcFromTerm module (termExcToTerm module x) = some x ∧
    termExcFromTerm module (wireNorm (termExcToTerm module x)) = some (wireNorm x) := by
  obtain ⟨h0, -, h2⟩ := texc_look
  obtain ⟨w0, -, w2⟩ := texc_lookW
  unfold termExcFromTerm termExcToTerm excMap
  simp only [mkMap_eq, wireNorm_map_lift, structModule_lift, fld_lift, getA_mkA_reidx (texc_reidx module x),
    getA_wire_reidx (texc_reidx module x), h0, h2, w0, w2, Option.map_some]
  simp only [val, excFields, List.map_cons, List.map_nil, List.getD_cons_zero, List.getD_cons_succ, wireNorm,
    Option.bind_some, atomName, bne_self_eq_false, Bool.false_eq_true, if_false, and_self]

theorem C20_cond_exception_roundtrip :
    condExcFromTerm condExcToTerm = some () ∧ condExcFromTerm (wireNorm condExcToTerm) = some () := by
  obtain ⟨h0, -⟩ := cond_look
  obtain ⟨w0, -⟩ := cond_lookW
  unfold condExcFromTerm condExcToTerm excMap
  simp only [mkMap_eq, wireNorm_map_lift, structModule_lift, getA_mkA_reidx (cond_reidx mCondClauseError),
    getA_wire_reidx (cond_reidx mCondClauseError), h0, w0, Option.map_some]
  simp only [val, excFields, List.map_cons, List.map_nil, List.getD_cons_zero, wireNorm,
    Option.bind_some, atomName, bne_self_eq_false, Bool.false_eq_true, if_false, and_self]

theorem C20_key_error_roundtrip (e : KeyError) (hm : ∀ b, e.message = some b → IsStr b) :
    (KeyError.fromTerm e.toTerm).map (fun r => (r.key, r.term, r.message)) = some (e.key, e.term, e.message) := by
  obtain ⟨h0, -, h2, h3, h4⟩ := keyerr_look
  unfold KeyError.fromTerm KeyError.toTerm excMap
  simp only [mkMap_eq, structModule_lift, fld_lift,
    getA_mkA_reidx (keyerr_reidx mKeyError e.key e.term (optBin e.message)), h0, h2, h3, h4, Option.map_some]
  simp only [val, excFields, List.map_cons, List.map_nil, List.getD_cons_zero, List.getD_cons_succ,
    Option.bind_some, atomName, bne_self_eq_false, Bool.false_eq_true, if_false]
  cases hmsg : e.message with
  | none => rfl
  | some b =>
    have := hm b hmsg
    unfold IsStr at this
    simp only [optBin, asErlangString, this]
    rfl

example : ∀ b, (⟨.atom [97], .map [], some [107]⟩ : KeyError).message = some b → IsStr b := by
  intro b h; cases h; decide

theorem prefix_append_drop (p s : Bytes) : (p ++ s).drop p.length = s := by simp

/-- UndefinedFunctionError comes back when its module is not already written with the `Elixir.` prefix and the
arity is a `u8` -/
theorem C20_undef_fn_roundtrip_partial (e : UndefFn) (hp : elixirDot.isPrefixOf e.module = false) (ha : InU8 e.arity)
    (hr : ∀ b, e.reason = some b → IsStr b) :
    UndefFn.fromTerm e.toTerm = some e := by
  obtain ⟨h0, -, h2, h3, h4, h5⟩ := undef_look
  unfold UndefFn.fromTerm UndefFn.toTerm excMap
  simp only [mkMap_eq, structModule_lift, fld_lift, fldInt_lift,
    getA_mkA_reidx (undef_reidx mUndefinedFunctionError (.atom (withElixir e.module)) (.atom e.function) (.int e.arity) (optBin e.reason)),
    h0, h2, h3, h4, h5, Option.map_some]
  simp only [val, excFields, List.map_cons, List.map_nil, List.getD_cons_zero, List.getD_cons_succ,
    Option.bind_some, atomName, asInt, bne_self_eq_false, Bool.false_eq_true, if_false]
  have e1 : withoutElixir (withElixir e.module) = e.module := by
    unfold withElixir withoutElixir stripPrefix
    simp only [hp, Bool.false_eq_true, if_false]
    have : elixirDot.isPrefixOf (elixirDot ++ e.module) = true := by simp
    simp only [this, if_true, Option.getD_some]
    exact prefix_append_drop _ _
  have e2 : asU8 e.arity = e.arity := by unfold InU8 at ha; unfold asU8; omega
  have e3 : (some (optBin e.reason)).bind asErlangString = e.reason := by
    cases hre : e.reason with
    | none => rfl
    | some b =>
      have := hr b hre
      unfold IsStr at this
      simp only [optBin, Option.bind_some, asErlangString, this]
  obtain ⟨m, f, a, r⟩ := e
  simp only at e1 e2 e3
  simp only [Option.bind_some] at e3
  simp only [e1, e2, e3]

example : elixirDot.isPrefixOf (⟨[70, 111, 111], [98, 97, 114], 1, none⟩ : UndefFn).module = false ∧
    InU8 (⟨[70, 111, 111], [98, 97, 114], 1, none⟩ : UndefFn).arity ∧
    (∀ b, (⟨[70, 111, 111], [98, 97, 114], 1, none⟩ : UndefFn).reason = some b → IsStr b) :=
  ⟨by decide, by decide, fun b h => by cases h⟩

/-- `UndefinedFunctionError::new("Elixir.Foo", "bar", 1)` comes back with module `"Foo"` -/
theorem C20_not_undef_fn_roundtrip :
    ∃ e : UndefFn, InU8 e.arity ∧ UndefFn.fromTerm e.toTerm ≠ some e := by
  refine ⟨⟨elixirDot ++ [70, 111, 111], [98, 97, 114], 1, none⟩, by decide, ?_⟩
  obtain ⟨h0, -, h2, h3, h4, h5⟩ := undef_look
  unfold UndefFn.fromTerm UndefFn.toTerm excMap
  simp only [mkMap_eq, structModule_lift, fld_lift, fldInt_lift,
    getA_mkA_reidx (undef_reidx mUndefinedFunctionError _ _ _ _), h0, h2, h3, h4, h5, Option.map_some]
  simp only [val, excFields, List.map_cons, List.map_nil, List.getD_cons_zero, List.getD_cons_succ,
    Option.bind_some, atomName, asInt, bne_self_eq_false, Bool.false_eq_true, if_false]
  decide

/-- FunctionClauseError comes back when every field is present, the module carries no prefix, the arity is a `u8`
and the arguments are not the atom `nil` -/
theorem C20_fn_clause_roundtrip_partial (m f : Bytes) (a : Int) (g : Term)
    (hp : elixirDot.isPrefixOf m = false) (ha : InU8 a) (hg : isNilAtom g = false) :
    (FnClause.fromTerm (FnClause.toTerm ⟨some m, some f, some a, some g⟩)).map (fun r => (r.module, r.function, r.arity, r.args)) =
      some (some m, some f, some a, some g) := by
  obtain ⟨h0, -, h2, h3, h4, h5⟩ := fncl_look
  unfold FnClause.fromTerm FnClause.toTerm excMap
  simp only [mkMap_eq, structModule_lift, fld_lift,
    getA_mkA_reidx (fncl_reidx mFunctionClauseError (.atom (withElixir m)) (.atom f) (.int a) g),
    Option.getD_some, h0, h2, h3, h4, h5, Option.map_some]
  simp only [val, excFields, List.map_cons, List.map_nil, List.getD_cons_zero, List.getD_cons_succ,
    Option.bind_some, atomName, asInt, bne_self_eq_false, Bool.false_eq_true, if_false, Option.map_some]
  have e1 : withoutElixir (withElixir m) = m := by
    unfold withElixir withoutElixir stripPrefix
    simp only [hp, Bool.false_eq_true, if_false]
    have : elixirDot.isPrefixOf (elixirDot ++ m) = true := by simp
    simp only [this, if_true, Option.getD_some]
    exact prefix_append_drop _ _
  have e2 : asU8 a = a := by unfold InU8 at ha; unfold asU8; omega
  simp [e1, e2, Option.filter, hg]

example : elixirDot.isPrefixOf [70, 111, 111] = false ∧ InU8 2 ∧ isNilAtom (.list [.int 1]) = false := by decide

/-- `FunctionClauseError::empty()` comes back with module and function `Some("nil")` -/
theorem C20_not_fn_clause_roundtrip :
    (FnClause.fromTerm (FnClause.toTerm ⟨none, none, none, none⟩)).map (fun r => (r.module, r.function, r.arity, r.args)) =
      some (some kNil, some kNil, none, none) := by
  obtain ⟨h0, -, h2, h3, h4, h5⟩ := fncl_look
  unfold FnClause.fromTerm FnClause.toTerm excMap
  simp only [mkMap_eq, structModule_lift, fld_lift,
    getA_mkA_reidx (fncl_reidx mFunctionClauseError (.atom kNil) (.atom kNil) (.atom kNil) (.atom kNil)),
    Option.getD_none, h0, h2, h3, h4, h5, Option.map_some]
  simp only [val, excFields, List.map_cons, List.map_nil, List.getD_cons_zero, List.getD_cons_succ,
    Option.bind_some, atomName, asInt, bne_self_eq_false, Bool.false_eq_true, if_false, Option.map_some]
  rfl

/-- a term that is not a struct of the wrapper's module is rejected by every `from_term` -/
theorem C20_foreign_struct_rejected (t : Term) :
    (structModule t ≠ some mRange → Range.fromTerm t = none) ∧
    (structModule t ≠ some mMapSet → (MapSet.fromTerm t).isNone = true) ∧
    (structModule t ≠ some mDate → Date.fromTerm t = none) ∧
    (structModule t ≠ some mTime → Time.fromTerm t = none) ∧
    (structModule t ≠ some mNaiveDateTime → Naive.fromTerm t = none) ∧
    (structModule t ≠ some mDateTime → DateTime.fromTerm t = none) ∧
    (∀ m, structModule t ≠ some m → msgExcFromTerm m t = none ∧ termExcFromTerm m t = none) ∧
    (structModule t ≠ some mCondClauseError → condExcFromTerm t = none) ∧
    (structModule t ≠ some mKeyError → (KeyError.fromTerm t).isNone = true) ∧
    (structModule t ≠ some mUndefinedFunctionError → UndefFn.fromTerm t = none) ∧
    (structModule t ≠ some mFunctionClauseError → (FnClause.fromTerm t).isNone = true) := by
  have key : ∀ m : Bytes, structModule t ≠ some m → (structModule t != some m) = true := by
    intro m h; simp [bne, h]
  refine ⟨?_, ?_, ?_, ?_, ?_, ?_, ?_, ?_, ?_, ?_, ?_⟩
  · intro h; simp [Range.fromTerm, key _ h]
  · intro h; simp [MapSet.fromTerm, key _ h]
  · intro h; simp [Date.fromTerm, key _ h]
  · intro h; simp [Time.fromTerm, key _ h]
  · intro h; simp [Naive.fromTerm, key _ h]
  · intro h; simp [DateTime.fromTerm, key _ h]
  · intro m h; simp [msgExcFromTerm, termExcFromTerm, key _ h]
  · intro h; simp [condExcFromTerm, key _ h]
  · intro h; simp [KeyError.fromTerm, key _ h]
  · intro h; simp [UndefFn.fromTerm, key _ h]
  · intro h; simp [FnClause.fromTerm, key _ h]

example : structModule (.tuple []) ≠ some mRange := by simp [structModule]

/-! ## map sets -/

/-- a map set (elements in `BTreeSet` order, `Asc`) comes back from its `:sets` v2 struct -/
theorem C20_mapset_roundtrip_partial (s : MapSet) (hs : Asc s.elements) :
    (MapSet.fromTerm s.toTerm).map (·.elements) = some s.elements := by
  obtain ⟨h0, h1⟩ := mapset_look
  have hin : s.inner = s.elements.map (fun e => (e, Term.list [])) := by
    unfold MapSet.inner
    have hid : s.elements.map (fun e => e) = s.elements := by simp
    have := foldl_mapInsert_asc (fun e => e) (fun _ => Term.list []) s.elements [] (by rw [hid]; exact hs)
      (fun p hp => by cases hp)
    simpa using this
  unfold MapSet.fromTerm MapSet.toTerm
  simp only [mkMap_eq, structModule_lift, fld_lift, getA_mkA_reidx (mapset_reidx s), h0, h1, Option.map_some]
  simp only [val, MapSet.fields, List.map_cons, List.map_nil, List.getD_cons_zero, List.getD_cons_succ,
    Option.bind_some, atomName, bne_self_eq_false, Bool.false_eq_true, if_false, Option.map_some, hin, List.map_map]
  have : (List.map ((fun x => x.fst) ∘ fun e => (e, Term.list [])) s.elements) = s.elements := by
    rw [show ((fun x : Term × Term => x.fst) ∘ fun e => (e, Term.list [])) = id from rfl, List.map_id]
  rw [this, foldl_setInsert_asc s.elements [] hs (by simp)]
  simp

example : Asc [.atom [97], .atom [98], .tuple []] := by
  simp [Asc, Term.cmp, Term.norm, Term.normL, Term.cmpN, Term.rank]; decide

/-! ## proplists, maps, builders -/

/-- normalising a proplist first does not change the map it converts to -/
theorem C20_proplist_normalize_map (l : List Term) :
    (normalizeProplist (.list l)).bind proplistToMap = proplistToMap (.list l) := by
  simp only [normalizeProplist, proplistToMap, Option.bind_some]
  congr 2
  suffices h : ∀ acc, (l.filterMap normEl).foldl insEl acc = l.foldl insEl acc from h []
  induction l with
  | nil => intro acc; rfl
  | cons a t ih =>
    intro acc
    cases hn : normEl a with
    | none =>
      rw [List.filterMap_cons_none hn, List.foldl_cons, ih]
      congr 1
      unfold normEl at hn
      split at hn
      · cases hn
      · cases hn
      · rename_i h1 h2
        unfold insEl
        split
        · exact absurd rfl (h1 _ _)
        · exact absurd rfl (h2 _)
        · rfl
    | some b =>
      rw [List.filterMap_cons_some hn, List.foldl_cons, List.foldl_cons, ih]
      congr 1
      unfold normEl at hn
      split at hn
      · cases hn; rfl
      · cases hn; rfl
      · cases hn

/-- a map (keys in `BTreeMap` order) converted to a proplist and back is the same map -/
theorem C20_map_proplist_map_partial (m : List (Term × Term)) (hm : Asc (m.map (·.1))) :
    (mapToProplist (.map m)).bind proplistToMap = some (.map m) := by
  simp only [mapToProplist, proplistToMap, Option.bind_some, Option.some.injEq, Term.map.injEq]
  rw [List.foldl_map]
  have := foldl_mapInsert_asc (fun kv : Term × Term => kv.1) (fun kv => kv.2) m [] hm (by simp)
  simpa [insEl] using this

example : Asc ([(Term.atom [97], Term.int 1), (Term.atom [98], Term.int 2)].map (·.1)) := by
  simp [Asc, cmp_atom]; decide

/-- a proplist of 2-tuples whose keys are ascending (hence distinct) converted to a map and back is the same list -/
theorem C20_proplist_map_proplist_partial (m : List (Term × Term)) (hm : Asc (m.map (·.1))) :
    (proplistToMap (.list (m.map fun kv => .tuple [kv.1, kv.2]))).bind mapToProplist =
      some (.list (m.map fun kv => .tuple [kv.1, kv.2])) := by
  have h := C20_map_proplist_map_partial m hm
  simp only [mapToProplist, Option.bind_some] at h
  rw [h]
  rfl

/-- with a duplicate key the later value wins and the earlier one is lost (pinned by the repository's own test
`test_proplist_to_map_duplicate_keys_last_wins`), while `proplist_get_atom_key` returns the earlier one -/
theorem C20_proplist_duplicate_last_wins :
    proplistToMap (.list [.tuple [.atom [97], .int 1], .tuple [.atom [97], .int 2]]) = some (.map [(.atom [97], .int 2)]) ∧
    proplistGetAtomKey (.list [.tuple [.atom [97], .int 1], .tuple [.atom [97], .int 2]]) [97] = some (.int 1) := by
  constructor
  · simp only [proplistToMap, List.foldl_cons, List.foldl_nil, insEl, mapInsert, cmp_atom]
    rfl
  · rfl

/-- the keyword list and the atom-key map built from the same `put`/`insert` calls convert into one another -/
theorem C20_builders_agree (ps : List (Bytes × Term)) :
    isProplist (kwBuild ps) = true ∧ proplistToMap (kwBuild ps) = some (akmBuild ps) := by
  constructor
  · simp [isProplist, kwBuild, isProplistElement]
  · simp only [kwBuild, akmBuild, proplistToMap, mkMap, Option.some.injEq, Term.map.injEq]
    rw [List.foldl_map]
    rfl

end Edp.Props.C20
