import EdpVerif.Impl.Decode
import EdpVerif.Impl.DistHeader
import EdpVerif.Impl.Recv
/-
Resource model of crates/erltf/src/decoder.rs (C02): WHAT ELSE the parsers do besides computing their result.

`meter` walks the same call tree as `parse_term` / `parse_term_borrowed` and the `parse_*` functions behind them (the
results, and therefore where every next call starts, are those of the decoder model `dec` itself) and records

* `maxDepth` — the largest `depth` argument (`ctx.depth` for the zero-copy twin) with which `parse_term` is entered:
  one stack frame chain per level, so this is the recursion depth;
* `reqs`     — every heap request whose size comes from the wire: `Vec::with_capacity(..)` (tuples, lists, reference
  words, fun free variables), the `collect()` of STRING_EXT, `to_vec()` of binaries / bignum digits / LOCAL_EXT bytes,
  atom texts; each with the number of elements, the element kind and the bytes of input left where it is made;
* `checks`   — every slice / index / subtraction site that panics when its operands are the wrong way round
  (`&rest[consumed..]`, `start[..8 + nested_len]`, `input.len() - remaining.len()`), as pairs `(a, b)` that need `a ≤ b`;
* `infl`     — per COMPRESSED section the declared size and what `take(declared + 1).read_to_end` can have produced.

Panics are explicit outcomes: `Meter.panics k` is true when a request overflows `isize::MAX` of the target
(`Vec::with_capacity` panics with "capacity overflow"; `k.isizeMax` is 2^31-1 or 2^63-1) or a check fails.
Also here: the entry points that had no model yet (`decode_raw_term`, `decode_with_cache`) and the list of all of them.
-/
namespace Edp

/-- what a heap request holds -/
inductive Elem where
  /-- `OwnedTerm` / `BorrowedTerm` -/
  | term
  /-- `u32` -/
  | word
  /-- `u8` -/
  | byte
  /-- a Latin-1 character re-encoded as UTF-8: at most two bytes -/
  | char2
  deriving Repr, BEq, DecidableEq

structure Req where
  /-- number of elements asked for -/
  n : Nat
  elem : Elem
  /-- bytes of the buffer being parsed that are left where the request is made -/
  rem : Nat
  deriving Repr, BEq, DecidableEq

structure Meter where
  maxDepth : Nat := 0
  reqs : List Req := []
  checks : List (Nat × Nat) := []
  infl : List (Nat × Nat) := []
  deriving Repr, BEq

namespace Meter
def add (a b : Meter) : Meter :=
  { maxDepth := max a.maxDepth b.maxDepth, reqs := a.reqs ++ b.reqs, checks := a.checks ++ b.checks, infl := a.infl ++ b.infl }
def enter (d : Nat) : Meter := { maxDepth := d }
def req (n : Nat) (e : Elem) (rem : Nat) : Meter := { reqs := [⟨n, e, rem⟩] }
def check (a b : Nat) : Meter := { checks := [(a, b)] }
def inflated (declared produced : Nat) : Meter := { infl := [(declared, produced)] }
end Meter

/-- the target: `size_of::<OwnedTerm>()` (80 on x86-64; the harness reports the real value) and `isize::MAX` -/
structure Target where
  termSize : Nat := 80
  isizeMax : Nat := 2 ^ 63 - 1

def Target.x64 : Target := {}
def Target.x32 : Target := { termSize := 40, isizeMax := 2 ^ 31 - 1 }

def Elem.size (k : Target) : Elem → Nat
  | .term => k.termSize
  | .word => 4
  | .byte => 1
  | .char2 => 2

def Req.bytes (k : Target) (q : Req) : Nat := q.n * q.elem.size k

/-- a panic site is reached: "capacity overflow" of an allocation, or a slice / subtraction the wrong way round -/
def Meter.panics (k : Target) (m : Meter) : Bool :=
  m.reqs.any (fun q => decide (q.bytes k > k.isizeMax)) || m.checks.any (fun c => decide (c.1 > c.2))

/-- atom text of `len` bytes (`Atom::new`), when the bytes are there -/
def meterAtom (lenBytes : Nat) (e : Elem) (bs : Bytes) : Meter :=
  match rdU lenBytes bs with
  | .error _ => {}
  | .ok (len, r) =>
    if len > MAX_ATOM_SIZE then {} else
    match takeE len r with
    | .error _ => {}
    | .ok _ => .req len e r.length

/-- `digits.to_vec()` of SMALL_BIG_EXT / LARGE_BIG_EXT -/
def meterBig (lenBytes : Nat) (bs : Bytes) : Meter :=
  match rdU lenBytes bs with
  | .error _ => {}
  | .ok (n, r) =>
    match rdU 1 r with
    | .error _ => {}
    | .ok (_, r1) =>
      match takeE n r1 with
      | .error _ => {}
      | .ok _ => .req n .byte r1.length

mutual
/-- `parse_term` / `parse_term_borrowed` with everything they call -/
def meter (x : Ext) (cfg : DecCfg) : Nat → Nat → Bytes → Meter
  | 0, depth, _ => .enter depth
  | _+1, depth, [] => .enter depth
  | fuel+1, depth, tagB :: bs =>
    let tag := tagB.toNat
    let m0 := Meter.enter depth
    if depth > MAX_NESTING_DEPTH then m0 else
    if cfg.borrowed && ownedOnlyTags.contains tag then m0 else
    match tag with
    | 100 => m0.add (meterAtom 2 .char2 bs)
    | 115 => m0.add (meterAtom 1 .char2 bs)
    | 118 => m0.add (meterAtom 2 .byte bs)
    | 119 => m0.add (meterAtom 1 .byte bs)
    | 104 => match rdU 1 bs with
      | .error _ => m0
      | .ok (n, r) => (m0.add (.req (boundedCapacity n r) .term r.length)).add (meterN x cfg fuel (depth + 1) n r)
    | 105 => match rdU 4 bs with
      | .error _ => m0
      | .ok (n, r) =>
        if n > MAX_TUPLE_SIZE then m0 else
        (m0.add (.req (boundedCapacity n r) .term r.length)).add (meterN x cfg fuel (depth + 1) n r)
    | 107 => match rdU 2 bs with
      | .error _ => m0
      | .ok (n, r) => match takeE n r with
        | .error _ => m0
        | .ok _ => m0.add (.req n .term r.length)
    | 108 => match rdU 4 bs with
      | .error _ => m0
      | .ok (n, r) =>
        if n > MAX_LIST_SIZE then m0 else
        let m1 := (m0.add (.req (boundedCapacity n r) .term r.length)).add (meterN x cfg fuel (depth + 1) n r)
        match decN x cfg fuel (depth + 1) n r with
        | .error _ => m1
        | .ok (_, r') => m1.add (meter x cfg fuel (depth + 1) r')
    | 109 => match rdU 4 bs with
      | .error _ => m0
      | .ok (n, r) =>
        if n > MAX_BINARY_SIZE then m0 else
        match takeE n r with
        | .error _ => m0
        | .ok _ => if cfg.borrowed then m0 else m0.add (.req n .byte r.length)
    | 77 => match rdU 4 bs with
      | .error _ => m0
      | .ok (n, r) =>
        if n > MAX_BINARY_SIZE then m0 else
        match rdU 1 r with
        | .error _ => m0
        | .ok (bits, r1) =>
          if bits == 0 || bits > 8 then m0
          else if n == 0 && bits != 8 then m0
          else match takeE n r1 with
            | .error _ => m0
            | .ok _ => if cfg.borrowed then m0 else m0.add (.req n .byte r1.length)
    | 110 => m0.add (meterBig 1 bs)
    | 111 => m0.add (meterBig 4 bs)
    | 116 => match rdU 4 bs with
      | .error _ => m0
      | .ok (n, r) =>
        if n > MAX_MAP_SIZE then m0 else m0.add (meterKV x cfg fuel (depth + 1) n r)
    | 88 => m0.add (meter x cfg fuel (depth + 1) bs)
    | 103 => m0.add (meter x cfg fuel (depth + 1) bs)
    | 120 => m0.add (meter x cfg fuel (depth + 1) bs)
    | 89 => m0.add (meter x cfg fuel (depth + 1) bs)
    | 102 => m0.add (meter x cfg fuel (depth + 1) bs)
    | 101 => m0.add (meter x cfg fuel (depth + 1) bs)
    | 90 => match rdU 2 bs with
      | .error _ => m0
      | .ok (len, r0) =>
        let m1 := m0.add (meter x cfg fuel (depth + 1) r0)
        match dec x cfg fuel (depth + 1) r0 with
        | .ok (.atom _, r) => match rdU 4 r with
          | .error _ => m1
          | .ok (_, r1) => m1.add (.req (boundedCapacity len r1) .word r1.length)
        | _ => m1
    | 114 => match rdU 2 bs with
      | .error _ => m0
      | .ok (len, r0) =>
        let m1 := m0.add (meter x cfg fuel (depth + 1) r0)
        match dec x cfg fuel (depth + 1) r0 with
        | .ok (.atom _, r) => match rdU 1 r with
          | .error _ => m1
          | .ok (_, r1) => m1.add (.req (boundedCapacity len r1) .word r1.length)
        | _ => m1
    | 113 =>
      let m1 := m0.add (meter x cfg fuel (depth + 1) bs)
      match dec x cfg fuel (depth + 1) bs with
      | .ok (.atom _, r) =>
        let m2 := m1.add (meter x cfg fuel (depth + 1) r)
        match dec x cfg fuel (depth + 1) r with
        | .ok (.atom _, r1) => m2.add (meter x cfg fuel (depth + 1) r1)
        | _ => m2
      | _ => m1
    | 112 => match rdU 4 bs with
      | .error _ => m0
      | .ok (_, r0) => match rdU 1 r0 with
        | .error _ => m0
        | .ok (_, r1) => match takeE 16 r1 with
          | .error _ => m0
          | .ok (uniq, r2) => match rdU 4 r2 with
            | .error _ => m0
            | .ok (_, r3) => match rdU 4 r3 with
              | .error _ => m0
              | .ok (numFree, r4) =>
                let m1 := m0.add (meter x cfg fuel (depth + 1) r4)
                match dec x cfg fuel (depth + 1) r4 with
                | .ok (.atom _, r5) =>
                  let m2 := m1.add (meter x cfg fuel (depth + 1) r5)
                  match dec x cfg fuel (depth + 1) r5 with
                  | .ok (.int oi, r6) =>
                    if oi < 0 then m2 else
                    let m3 := m2.add (meter x cfg fuel (depth + 1) r6)
                    match dec x cfg fuel (depth + 1) r6 with
                    | .ok (.int ou, r7) =>
                      if ou < 0 then m3 else
                      let m4 := m3.add (meter x cfg fuel (depth + 1) r7)
                      match dec x cfg fuel (depth + 1) r7 with
                      | .ok (.pid _, r8) =>
                        let m5 := (m4.add (.req (boundedCapacity numFree r8) .term r8.length)).add
                          (meterN x cfg fuel (depth + 1) numFree r8)
                        match decN x cfg fuel (depth + 1) numFree r8 with
                        -- `uniq_array.copy_from_slice(uniq)`: panics unless `uniq.len() == 16`
                        | .ok _ => (m5.add (.check uniq.length 16)).add (.check 16 uniq.length)
                        | .error _ => m5
                      | _ => m4
                    | _ => m3
                  | _ => m2
                | _ => m1
    | 121 => match rdU 8 bs with
      | .error _ => m0
      | .ok (_, r) =>
        let m1 := m0.add (meter x cfg fuel (depth + 1) r)
        match dec x cfg fuel (depth + 1) r with
        | .error _ => m1
        | .ok (_, r') =>
          -- `input.len() - remaining.len()`, `start[..8 + nested_len]`, `.to_vec()`
          ((m1.add (.check r'.length r.length)).add (.check (8 + (r.length - r'.length)) bs.length)).add
            (.req (8 + (r.length - r'.length)) .byte bs.length)
    | 80 => match rdU 4 bs with
      | .error _ => m0
      | .ok (usize, r) =>
        if usize > MAX_BINARY_SIZE then m0 else
        match x.inflate r with
        | none => m0.add (.inflated usize 0)   -- the inflater was set up and gave up
        | some (out, consumed) =>
          -- `(&mut decoder).take(uncompressed_size as u64 + 1).read_to_end(..)`
          let mi := Meter.inflated usize (min out.length (usize + 1))
          if out.length != usize then m0.add mi else
          let m2 := m0.add (mi.add (meter x cfg fuel (depth + 1) out))
          match dec x cfg fuel (depth + 1) out with
          | .ok (_, []) => m2.add (.check consumed r.length)
          | _ => m2
    | _ => m0
/-- the counted loops -/
def meterN (x : Ext) (cfg : DecCfg) : Nat → Nat → Nat → Bytes → Meter
  | _, _, 0, _ => {}
  | 0, _, _+1, _ => {}
  | fuel+1, depth, n+1, bs =>
    let m := meter x cfg fuel depth bs
    match dec x cfg fuel depth bs with
    | .error _ => m
    | .ok (_, r) => m.add (meterN x cfg fuel depth n r)
/-- the loop of `parse_map` -/
def meterKV (x : Ext) (cfg : DecCfg) : Nat → Nat → Nat → Bytes → Meter
  | _, _, 0, _ => {}
  | 0, _, _+1, _ => {}
  | fuel+1, depth, n+1, bs =>
    let m := meter x cfg fuel depth bs
    match dec x cfg fuel depth bs with
    | .error _ => m
    | .ok (_, r) =>
      let m' := m.add (meter x cfg fuel depth r)
      match dec x cfg fuel depth r with
      | .error _ => m'
      | .ok (_, r') => m'.add (meterKV x cfg fuel depth n r')
end

/-! ### Nesting of a decoded term: what `Drop`, `to_owned`, `Clone`, the comparison and serde's deserializer recurse over -/

mutual
def Term.depth : Term → Nat
  | .list l => 1 + Term.depthL l
  | .ilist l t => 1 + max (Term.depthL l) t.depth
  | .map kvs => 1 + Term.depthKV kvs
  | .tuple l => 1 + Term.depthL l
  | .ifun _ _ _ _ _ _ _ _ fr => 1 + Term.depthL fr
  | _ => 0
def Term.depthL : List Term → Nat
  | [] => 0
  | t :: ts => max t.depth (Term.depthL ts)
def Term.depthKV : List (Term × Term) → Nat
  | [] => 0
  | (k, v) :: r => max (max k.depth v.depth) (Term.depthKV r)
end

/-! ### Entry points -/

/-- `decoder::decode_raw_term`: no version byte, one term, nothing behind it -/
def decodeRaw (x : Ext) (bs : Bytes) : Except DErr Term :=
  match dec x {} (bs.length + 1 + x.extra) 0 bs with
  | .error e => .error e
  | .ok (t, []) => .ok t
  | .ok (_, rest) => .error (.trailing rest.length)

/-- `decoder::decode_with_cache`: like `decode_with_atom_cache` on a fresh cache, but what follows the second term is
handed back instead of refused -/
def decodeWithCache (x : Ext) (bs : Bytes) : Except DErr (Term × Option (Term × Bytes)) :=
  let fuel := bs.length + 1 + x.extra
  match bs with
  | [] => .error .err
  | v :: r =>
    if v != 131 then .error .err else
    match r with
    | [] => .error .err
    | tag :: r1 =>
      let (c1, first) : DistHeader.Cache × DRes :=
        if tag == 68 then
          match DistHeader.parseHeader {} r1 with
          | (c1, .error e) => (c1, .error e)
          | (c1, .ok body) => (c1, dec x { cache := c1.atoms } fuel 0 body)
        else ({}, dec x {} fuel 0 (tag :: r1))
      match first with
      | .error e => .error e
      | .ok (t, rest) =>
        if rest.isEmpty then .ok (t, none) else
        match dec x { cache := c1.atoms } fuel 0 rest with
        | .error e => .error e
        | .ok (p, more) => .ok (t, some (p, more))

/-- the public decoding functions of decoder.rs -/
inductive EntryPoint where
  | decode | decodeBorrowed | withTrailing | rawTerm | withCache | withAtomCache | fragHeader | fragCont
  deriving Repr, BEq, DecidableEq

def EntryPoint.all : List EntryPoint :=
  [.decode, .decodeBorrowed, .withTrailing, .rawTerm, .withCache, .withAtomCache, .fragHeader, .fragCont]

/-- how a call ends -/
inductive Outcome where
  | ok | err | panic
  deriving Repr, BEq, DecidableEq

def Outcome.of {α : Type} : Except DErr α → Outcome
  | .ok _ => .ok
  | .error .panic => .panic
  | .error _ => .err

def Outcome.text : Outcome → String
  | .ok => "ok" | .err => "err" | .panic => "panic"

/-- result class of an entry point on `bs` (the atom-cache aware one starting from cache `c`) -/
def EntryPoint.run (x : Ext) (c : DistHeader.Cache) (bs : Bytes) : EntryPoint → Outcome
  | .decode => .of (Edp.decode x bs)
  | .decodeBorrowed => .of (Edp.decodeBorrowed x bs)
  | .withTrailing => .of (Recv.decodeTrailing x bs)
  | .rawTerm => .of (decodeRaw x bs)
  | .withCache => .of (decodeWithCache x bs)
  | .withAtomCache => .of (DistHeader.decodeWithAtomCache x c bs).2
  | .fragHeader => .of (Recv.decodeFragmentHeader bs)
  | .fragCont => .of (Recv.decodeFragmentCont bs)

/-- the terms an entry point parses: (configuration, fuel, input of `parse_term(.., 0)`), in call order -/
def EntryPoint.calls (x : Ext) (c : DistHeader.Cache) (bs : Bytes) : EntryPoint → List (DecCfg × Nat × Bytes)
  | .decode => match bs with
    | v :: r => if v != 131 then [] else [({}, r.length + 1 + x.extra, r)]
    | [] => []
  | .withTrailing => match bs with
    | v :: r => if v != 131 then [] else [({}, bs.length + 1 + x.extra, r)]
    | [] => []
  | .decodeBorrowed => match bs with
    | v :: r => if v != 131 then [] else [({ borrowed := true }, r.length + 1 + x.extra, r)]
    | [] => []
  | .rawTerm => [({}, bs.length + 1 + x.extra, bs)]
  | .fragHeader | .fragCont => []
  | ep =>
    let c := if ep == .withCache then {} else c
    let fuel := bs.length + 1 + x.extra
    match bs with
    | v :: tag :: r1 =>
      if v != 131 then [] else
      let (c1, body) : DistHeader.Cache × Option Bytes :=
        if tag == 68 then
          match DistHeader.parseHeader c r1 with
          | (c1, .error _) => (c1, none)
          | (c1, .ok body) => (c1, some body)
        else (c, some (tag :: r1))
      match body with
      | none => []
      | some body =>
        let cfg : DecCfg := { cache := c1.atoms }
        match dec x cfg fuel 0 body with
        | .ok (_, rest) => if rest.isEmpty then [(cfg, fuel, body)] else [(cfg, fuel, body), (cfg, fuel, rest)]
        | .error _ => [(cfg, fuel, body)]
    | _ => []

/-- everything an entry point does to the stack and the heap on `bs` -/
def EntryPoint.meter (x : Ext) (c : DistHeader.Cache) (bs : Bytes) (ep : EntryPoint) : Meter :=
  (ep.calls x c bs).foldl (fun m (q : DecCfg × Nat × Bytes) => m.add (Edp.meter x q.1 q.2.1 0 q.2.2)) {}

/-- the result class with the panic sites of the resource model folded in -/
def EntryPoint.outcome (k : Target) (x : Ext) (c : DistHeader.Cache) (bs : Bytes) (ep : EntryPoint) : Outcome :=
  if (ep.meter x c bs).panics k then .panic else ep.run x c bs

end Edp
