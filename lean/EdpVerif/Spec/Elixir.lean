/-
Specification oracle for C20, written from the Elixir documentation and not from the Rust code.

* `first..last//step` (Elixir `Range`): the integers `first + i*step`, `i = 0, 1, …`, that do not pass `last`;
  empty when the step points away from `last` (and, as the Rust type allows it, when the step is 0).
  `Range.size/1`, `in` and `Enum.to_list/1` are `count`, `mem` and `elems`.
* struct fields: an Elixir struct with integer fields converts to a value whose fields are those integers.
Everything is over unbounded `Int`; nothing here knows about 64-bit arithmetic.
-/
namespace Edp.Spec.Range

/-- `Range.size(first..last//step)` -/
def count (first last step : Int) : Nat :=
  if step > 0 then (if first > last then 0 else ((last - first) / step + 1).toNat)
  else if step < 0 then (if first < last then 0 else ((first - last) / (-step) + 1).toNat)
  else 0

/-- `v in first..last//step` -/
def mem (first last step v : Int) : Bool :=
  if step > 0 then decide (first ≤ v ∧ v ≤ last ∧ (v - first) % step = 0)
  else if step < 0 then decide (last ≤ v ∧ v ≤ first ∧ (first - v) % (-step) = 0)
  else false

/-- `Enum.to_list(first..last//step)` -/
def elems (first last step : Int) : List Int :=
  (List.range (count first last step)).map fun (i : Nat) => first + (i : Int) * step

/-- `Enum.at(range, i)` -/
def nth (first step : Int) (i : Nat) : Int := first + (i : Int) * step

end Edp.Spec.Range
