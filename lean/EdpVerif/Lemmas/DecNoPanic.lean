import EdpVerif.Impl.Decode
/-! The term decoder's only panic site (`&rest[consumed..]` after inflating) is unreachable, at any nesting, when the
inflater reports no more input consumed than it was given (the contract of flate2's `total_in`). Used by C06. -/
namespace Edp

theorem rdU_ne_panic' (k : Nat) (bs : Bytes) : rdU k bs ≠ .error .panic := by
  unfold rdU; split <;> simp

theorem takeE_ne_panic' (k : Nat) (bs : Bytes) : takeE k bs ≠ .error .panic := by
  unfold takeE; split <;> simp

theorem decAtomBody_ne_panic (k : Nat) (bs : Bytes) : decAtomBody k bs ≠ .error .panic := by
  unfold decAtomBody
  split
  · rename_i e he; intro h; simp at h; subst h; exact rdU_ne_panic' _ _ he
  · split
    · simp
    · split
      · rename_i e he; intro h; simp at h; subst h; exact takeE_ne_panic' _ _ he
      · split <;> simp

theorem decLatin1Body_ne_panic (k : Nat) (bs : Bytes) : decLatin1Body k bs ≠ .error .panic := by
  unfold decLatin1Body
  split
  · rename_i e he; intro h; simp at h; subst h; exact rdU_ne_panic' _ _ he
  · split
    · simp
    · split
      · rename_i e he; intro h; simp at h; subst h; exact takeE_ne_panic' _ _ he
      · simp

theorem decBig_ne_panic (k : Nat) (bs : Bytes) : decBig k bs ≠ .error .panic := by
  unfold decBig
  split
  · rename_i e he; intro h; simp at h; subst h; exact rdU_ne_panic' _ _ he
  · split
    · rename_i e he; intro h; simp at h; subst h; exact rdU_ne_panic' _ _ he
    · split
      · rename_i e he; intro h; simp at h; subst h; exact takeE_ne_panic' _ _ he
      · simp

theorem rdWords_ne_panic : ∀ (n : Nat) (bs : Bytes), rdWords n bs ≠ .error .panic := by
  intro n
  induction n with
  | zero => intro bs; simp [rdWords]
  | succ n ih =>
    intro bs
    unfold rdWords
    split
    · rename_i e he; intro h; simp at h; subst h; exact rdU_ne_panic' _ _ he
    · split
      · rename_i e he; intro h; simp at h; subst h; exact ih _ he
      · simp

set_option hygiene false in
macro "npstep" : tactic => `(tactic| (
  split at h <;> (first
    | (simp at h; done)
    | (rename_i heq; simp at h; subst h; first
        | exact absurd heq (rdU_ne_panic' _ _)
        | exact absurd heq (takeE_ne_panic' _ _)
        | exact absurd heq (rdWords_ne_panic _ _)
        | exact absurd heq (ih1 _ _)
        | exact absurd heq (ih2 _ _ _)
        | exact absurd heq (ih3 _ _ _ _))
    | skip)))

set_option maxHeartbeats 4000000 in
theorem dec_ne_panic (x : Ext) (hx : ∀ z out n, x.inflate z = some (out, n) → n ≤ z.length) (cfg : DecCfg) : ∀ (fuel : Nat),
    (∀ d bs, dec x cfg fuel d bs ≠ .error .panic) ∧
    (∀ d n bs, decN x cfg fuel d n bs ≠ .error .panic) ∧
    (∀ d n bs m, decKV x cfg fuel d n bs m ≠ .error .panic) := by
  intro fuel
  induction fuel with
  | zero =>
    refine ⟨?_, ?_, ?_⟩
    · intro d bs; simp [dec]
    · intro d n bs; cases n <;> simp [decN]
    · intro d n bs m; cases n <;> simp [decKV]
  | succ f ih =>
    obtain ⟨ih1, ih2, ih3⟩ := ih
    refine ⟨?_, ?_, ?_⟩
    · intro d bs h
      cases bs with
      | nil => simp [dec] at h
      | cons t bs =>
        simp only [dec] at h
        split at h
        · simp at h
        · split at h
          · simp at h
          · split at h
            all_goals (first
              | exact absurd h (decAtomBody_ne_panic _ _)
              | exact absurd h (decLatin1Body_ne_panic _ _)
              | exact absurd h (decBig_ne_panic _ _)
              | (simp at h; done)
              | skip)
            all_goals (repeat npstep)
            rename_i hinf _ _ _ _ hgt
            have := hx _ _ _ hinf
            omega
    · intro d n bs h
      cases n with
      | zero => simp [decN] at h
      | succ n =>
        simp only [decN] at h
        npstep
        npstep
    · intro d n bs m h
      cases n with
      | zero => simp [decKV] at h
      | succ n =>
        simp only [decKV] at h
        npstep
        npstep
        exact ih3 _ _ _ _ h

/-- the term decoder never panics, for every input, cache, configuration, fuel and depth -/
theorem dec_never_panics (x : Ext) (hx : ∀ z out n, x.inflate z = some (out, n) → n ≤ z.length)
    (cfg : DecCfg) (fuel d : Nat) (bs : Bytes) : dec x cfg fuel d bs ≠ .error .panic :=
  (dec_ne_panic x hx cfg fuel).1 d bs

end Edp
