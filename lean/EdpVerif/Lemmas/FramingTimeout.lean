import EdpVerif.Impl.Framing
import EdpVerif.Lemmas.Framing
/-! Helper lemmas for C05: what a read that is cut off (timeout = `stall`, failure, end of stream) leaves behind, and
the caller that retries after `Error::Timeout`. Core Lean only. -/
namespace Edp.Framing
open Edp

/-! ### `readExact` over a clean prefix that does not fill the buffer -/

/-- a clean script that delivers fewer than `n` bytes is consumed completely; what `readExact n` returns is decided by
what follows it: a result there is the result here (with the bytes already read put in front). -/
theorem readExact_clean_prefix : ∀ (c : List Ev) (n : Nat) (tail : List Ev), Clean c → (payload c).length < n →
    readExact n (c ++ tail) =
      match readExact (n - (payload c).length) tail with
      | (.ok t, r) => (.ok (payload c ++ t), r)
      | (.error e, r) => (.error e, r) := by
  intro c
  induction c with
  | nil =>
    intro n tail _ _
    simp only [List.nil_append, payload, List.length_nil, Nat.sub_zero]
    cases readExact n tail with
    | mk res r => cases res <;> rfl
  | cons e t ih =>
    intro n tail hc hn
    cases n with
    | zero => simp at hn
    | succ n =>
      cases e with
      | eof => simp [Clean] at hc
      | fail => simp [Clean] at hc
      | stall => simp [Clean] at hc
      | pending =>
        simp only [List.cons_append, readExact_pending]
        have := ih (n+1) tail hc (by simpa [payload] using hn)
        simpa [payload] using this
      | chunk bs =>
        obtain ⟨hne, hct⟩ := hc
        simp only [payload, List.length_append] at hn
        have hlen0 : bs.length ≠ 0 := by
          intro h; exact hne (List.length_eq_zero_iff.mp h)
        have hle : bs.length ≤ n + 1 := by omega
        simp only [List.cons_append, readExact, hlen0, if_false, hle, if_true]
        rw [ih (n + 1 - bs.length) tail hct (by omega)]
        simp only [payload, List.length_append]
        rw [show n + 1 - (bs.length + (payload t).length) = n + 1 - bs.length - (payload t).length by omega]
        cases readExact (n + 1 - bs.length - (payload t).length) tail with
        | mk res r =>
          cases res with
          | error e => rfl
          | ok x => simp

/-- the script a cut-off read leaves behind, and its error: a stall is a timeout, `fail` an I/O error, a 0-byte read or
the end of the script is `UnexpectedEof` -/
def cutErr : List Ev → Option (RErr × List Ev)
  | [] => some (.eof, [])
  | .eof :: r => some (.eof, r)
  | .fail :: r => some (.io, r)
  | .stall :: r => some (.timeout, r)
  | .chunk [] :: r => some (.eof, r)
  | _ => none

theorem readExact_at_cut (k : Nat) (tail : List Ev) (e : RErr) (r : List Ev) (h : cutErr tail = some (e, r)) :
    readExact (k + 1) tail = (.error e, r) := by
  unfold cutErr at h
  split at h <;> simp at h <;> obtain ⟨h1, h2⟩ := h <;> subst h1 <;> subst h2 <;> simp [readExact]

/-- a clean script that delivers fewer than `n` bytes and is then cut off: `readExact n` fails with the error of the
cut, everything before it is consumed (and dropped), the script after the cut is what the next read sees -/
theorem readExact_cut (c : List Ev) (n : Nat) (tail : List Ev) (e : RErr) (r : List Ev) (hc : Clean c)
    (hn : (payload c).length < n) (h : cutErr tail = some (e, r)) :
    readExact n (c ++ tail) = (.error e, r) := by
  rw [readExact_clean_prefix c n tail hc hn]
  obtain ⟨k, hk⟩ : ∃ k, n - (payload c).length = k + 1 := ⟨n - (payload c).length - 1, by omega⟩
  rw [hk, readExact_at_cut k tail e r h]

/-! ### `readFramed` cut off inside a frame -/

/-- **What a cut inside a frame leaves behind.** The script delivers, cleanly, a strict prefix of the frame of `m`
(possibly nothing: then the cut is at a frame boundary) and is then cut off. `read_framed` returns the error of the
cut; every byte it had consumed is gone; the next read starts with the script after the cut. -/
theorem readFramed_cut (cap : Nat) (mode : Mode) (c : List Ev) (m missing : Bytes) (tail : List Ev)
    (e : RErr) (r : List Ev)
    (hc : Clean c) (hp : payload c ++ missing = frame mode m) (hmiss : missing ≠ [])
    (hf : fits mode m) (hcap : m.length ≤ cap) (ht : cutErr tail = some (e, r)) :
    (readFramed cap mode (c ++ tail)).res = .error e ∧ (readFramed cap mode (c ++ tail)).rest = r := by
  unfold frame at hp
  rcases List.append_eq_append_iff.mp hp with ⟨a', h1, h2⟩ | ⟨c', h1, h2⟩
  · by_cases ha : a' = []
    · subst ha
      simp only [List.append_nil] at h1
      simp only [List.nil_append] at h2
      obtain ⟨c1, k1, k2, _, k4⟩ := readExact_clean c (beN mode.prefixSize m.length) [] tail hc (by simp [h1])
      rw [beN_length] at k4
      have hlen : lenOf (beN mode.prefixSize m.length) = m.length := lenOf_beN _ _ hf
      have hm0 : m.length ≠ 0 := by
        intro h; apply hmiss; rw [h2]; exact List.length_eq_zero_iff.mp h
      have hcap' : ¬ m.length > cap := by omega
      have hs := readExact_cut c1 m.length tail e r k1 (by rw [k2]; simp; omega) ht
      simp only [readFramed, k4, hlen, hm0, if_false, hcap', hs, and_self]
    · have hlt : (payload c).length < mode.prefixSize := by
        have := congrArg List.length h1
        rw [beN_length, List.length_append] at this
        have : 0 < a'.length := List.length_pos_iff.mpr ha
        omega
      have hs := readExact_cut c mode.prefixSize tail e r hc hlt ht
      simp only [readFramed, hs, and_self]
  · obtain ⟨c1, k1, k2, _, k4⟩ := readExact_clean c (beN mode.prefixSize m.length) c' tail hc h1
    rw [beN_length] at k4
    have hlen : lenOf (beN mode.prefixSize m.length) = m.length := lenOf_beN _ _ hf
    have hml : m.length = c'.length + missing.length := by rw [h2]; simp
    have hpos : 0 < missing.length := List.length_pos_iff.mpr hmiss
    have hm0 : m.length ≠ 0 := by omega
    have hcap' : ¬ m.length > cap := by omega
    have hs := readExact_cut c1 m.length tail e r k1 (by rw [k2]; omega) ht
    simp only [readFramed, k4, hlen, hm0, if_false, hcap', hs, and_self]

/-! ### weights: every read leaves a script that is not heavier; a timeout leaves a lighter one -/

theorem readExact_weight : ∀ (evs : List Ev) (n : Nat),
    weight (readExact n evs).2 ≤ weight evs ∧
    ((readExact n evs).1 = .error .timeout → weight (readExact n evs).2 < weight evs) := by
  intro evs
  induction evs with
  | nil =>
    intro n
    cases n <;> simp [readExact, weight]
  | cons e t ih =>
    intro n
    cases n with
    | zero => simp [readExact]
    | succ n =>
      cases e with
      | eof => simp [readExact, weight]
      | fail => simp [readExact, weight]
      | stall => simp [readExact, weight]
      | pending =>
        have := ih (n + 1)
        simp only [readExact, weight]
        exact ⟨by omega, fun h => by have := this.2 h; omega⟩
      | chunk bs =>
        simp only [readExact, weight]
        by_cases h0 : bs.length = 0
        · simp [h0]
        · simp only [h0, if_false]
          by_cases hle : bs.length ≤ n + 1
          · simp only [hle, if_true]
            have := ih (n + 1 - bs.length)
            cases hr : readExact (n + 1 - bs.length) t with
            | mk res r' =>
              rw [hr] at this
              simp only at this
              cases res with
              | ok x => simp only; exact ⟨by omega, by intro h; cases h⟩
              | error e =>
                simp only
                exact ⟨by omega, fun h => by
                  have := this.2 (by simpa using h); omega⟩
          · simp only [hle, if_false, weight, List.length_drop]
            exact ⟨by omega, by intro h; cases h⟩

theorem readFramed_weight (cap : Nat) (mode : Mode) (evs : List Ev) :
    (readFramed cap mode evs).res = .error .timeout → weight (readFramed cap mode evs).rest < weight evs := by
  have a := readExact_weight evs mode.prefixSize
  unfold readFramed
  cases h1 : readExact mode.prefixSize evs with
  | mk res r =>
    rw [h1] at a
    simp only at a
    cases res with
    | error e =>
      simp only
      intro h
      exact a.2 (by simpa using h)
    | ok lb =>
      simp only
      by_cases h0 : lenOf lb = 0
      · simp [h0]
      · simp only [h0, if_false]
        by_cases hc : lenOf lb > cap
        · simp [hc]
        · simp only [hc, if_false]
          have b := readExact_weight r (lenOf lb)
          cases h2 : readExact (lenOf lb) r with
          | mk res2 r2 =>
            rw [h2] at b
            simp only at b ⊢
            intro h
            have := b.2 h
            omega

/-! ### the retrying caller -/

theorem iterRetryF_fuel (step : List Ev → RdOut)
    (hstep : ∀ evs m, (step evs).res = .ok m → weight (step evs).rest < weight evs)
    (hto : ∀ evs, (step evs).res = .error .timeout → weight (step evs).rest < weight evs) :
    ∀ (f1 f2 : Nat) (evs : List Ev), weight evs < f1 → weight evs < f2 →
      iterRetryF step f1 evs = iterRetryF step f2 evs := by
  intro f1
  induction f1 with
  | zero => intro f2 evs h; omega
  | succ f1 ih =>
    intro f2 evs h1 h2
    cases f2 with
    | zero => omega
    | succ f2 =>
      simp only [iterRetryF]
      cases hr : (step evs).res with
      | error e =>
        cases e with
        | timeout =>
          simp only
          have := hto evs hr
          rw [ih f2 _ (by omega) (by omega)]
        | eof => rfl
        | io => rfl
        | tooLarge n => rfl
      | ok m =>
        simp only
        have := hstep evs m hr
        rw [ih f2 _ (by omega) (by omega)]

theorem iterRetryF_unfold (step : List Ev → RdOut)
    (hstep : ∀ evs m, (step evs).res = .ok m → weight (step evs).rest < weight evs)
    (hto : ∀ evs, (step evs).res = .error .timeout → weight (step evs).rest < weight evs) (evs : List Ev) :
    iterRetryF step (weight evs + 1) evs =
      match (step evs).res with
      | .error .timeout => .error .timeout :: iterRetryF step (weight (step evs).rest + 1) (step evs).rest
      | .error e => [.error e]
      | .ok m => .ok m :: iterRetryF step (weight (step evs).rest + 1) (step evs).rest := by
  rw [show iterRetryF step (weight evs + 1) evs = (match (step evs).res with
      | .error .timeout => .error .timeout :: iterRetryF step (weight evs) (step evs).rest
      | .error e => [.error e]
      | .ok m => .ok m :: iterRetryF step (weight evs) (step evs).rest) from rfl]
  cases hr : (step evs).res with
  | error e =>
    cases e with
    | timeout =>
      simp only
      have := hto evs hr
      rw [iterRetryF_fuel step hstep hto (weight evs) (weight (step evs).rest + 1) _ this (by omega)]
    | eof => rfl
    | io => rfl
    | tooLarge n => rfl
  | ok m =>
    simp only
    have := hstep evs m hr
    rw [iterRetryF_fuel step hstep hto (weight evs) (weight (step evs).rest + 1) _ this (by omega)]

/-- the fuel of `readRetry` is adequate: one step of the retrying caller -/
theorem readRetry_unfold (cap : Nat) (mode : Mode) (evs : List Ev) :
    readRetry cap mode evs =
      match (readFramed cap mode evs).res with
      | .error .timeout => .error .timeout :: readRetry cap mode (readFramed cap mode evs).rest
      | .error e => [.error e]
      | .ok m => .ok m :: readRetry cap mode (readFramed cap mode evs).rest :=
  iterRetryF_unfold _ (readFramed_step cap mode) (readFramed_weight cap mode) evs

theorem readRetry_pending (cap : Nat) (mode : Mode) (r : List Ev) :
    readRetry cap mode (.pending :: r) = readRetry cap mode r := by
  rw [readRetry_unfold, readFramed_pending, ← readRetry_unfold]

theorem readRetry_skip_pendings (cap : Nat) (mode : Mode) (tail : List Ev) :
    ∀ (c : List Ev), (∀ x ∈ c, x = Ev.pending) → readRetry cap mode (c ++ tail) = readRetry cap mode tail := by
  intro c
  induction c with
  | nil => intro _; rfl
  | cons e t ih =>
    intro h
    have he : e = .pending := h e (by simp)
    subst he
    rw [List.cons_append, readRetry_pending]
    exact ih (fun x hx => h x (by simp [hx]))

/-- whole frames delivered cleanly come out in order, whatever follows is seen by the reads that follow -/
theorem readRetry_clean (cap : Nat) (mode : Mode) (tail : List Ev) :
    ∀ (msgs : List Bytes) (c : List Ev), (∀ m ∈ msgs, fits mode m ∧ m.length ≤ cap) → Clean c →
      payload c = (msgs.map (frame mode)).flatten →
      readRetry cap mode (c ++ tail) = msgs.map .ok ++ readRetry cap mode tail := by
  intro msgs
  induction msgs with
  | nil =>
    intro c _ hc hp
    simp only [List.map_nil, List.flatten_nil] at hp
    simp only [List.map_nil, List.nil_append]
    exact readRetry_skip_pendings cap mode tail c (clean_nil_payload c hc hp)
  | cons m ms ih =>
    intro c hm hc hp
    simp only [List.map_cons, List.flatten_cons] at hp
    obtain ⟨hf, hcap⟩ := hm m (by simp)
    obtain ⟨c', k1, k2, _, k4⟩ := readFramed_clean cap mode c m _ tail hc hp hf hcap
    rw [readRetry_unfold, k4]
    simp only [List.map_cons, List.cons_append]
    rw [ih c' (fun x hx => hm x (by simp [hx])) k1 k2]

/-- a timeout that fires after a strict prefix of a frame was consumed (nothing, at a frame boundary): the caller gets
`Timeout`, and goes on reading at the first byte after the stall -/
theorem readRetry_stall (cap : Nat) (mode : Mode) (c : List Ev) (m missing : Bytes) (tail : List Ev)
    (hc : Clean c) (hp : payload c ++ missing = frame mode m) (hmiss : missing ≠ [])
    (hf : fits mode m) (hcap : m.length ≤ cap) :
    readRetry cap mode (c ++ .stall :: tail) = .error .timeout :: readRetry cap mode tail := by
  obtain ⟨h1, h2⟩ := readFramed_cut cap mode c m missing (.stall :: tail) .timeout tail hc hp hmiss hf hcap rfl
  rw [readRetry_unfold, h1, h2]

theorem readRetry_nil (cap : Nat) (mode : Mode) : readRetry cap mode [] = [.error .eof] := by
  obtain ⟨k, hk⟩ := prefixSize_pos mode
  simp [readRetry, iterRetryF, readFramed, hk, readExact]

/-! ### the second copy -/

theorem recvBodyF_weight (cap : Nat) : ∀ (f : Nat) (evs : List Ev),
    (recvBodyF cap f evs).res = .error .timeout → weight (recvBodyF cap f evs).rest < weight evs := by
  intro f
  induction f with
  | zero => intro evs h; simp [recvBodyF] at h
  | succ f ih =>
    intro evs
    rw [recvBodyF_succ]
    have a := readFramed_weight cap .distribution evs
    have b := readFramed_ok cap .distribution evs
    cases hr : readFramed cap .distribution evs with
    | mk res r al =>
      rw [hr] at a b
      cases res with
      | error e => exact a
      | ok t =>
        cases t with
        | nil =>
          simp only
          intro h
          have := ih r h
          have := (b [] rfl).2.2.2.1
          simp only at this
          omega
        | cons x xs => intro h; cases h

theorem recvRetry_unfold (cap : Nat) (evs : List Ev) :
    recvRetry cap evs =
      match (recvBody cap evs).res with
      | .error .timeout => .error .timeout :: recvRetry cap (recvBody cap evs).rest
      | .error e => [.error e]
      | .ok m => .ok m :: recvRetry cap (recvBody cap evs).rest :=
  iterRetryF_unfold _ (recvBody_step cap) (fun evs => recvBodyF_weight cap _ evs) evs

/-- the second copy cut off inside a (non-tick) frame, or at a frame boundary -/
theorem recvBody_cut (cap : Nat) (c : List Ev) (m missing : Bytes) (tail : List Ev) (e : RErr) (r : List Ev)
    (hc : Clean c) (hp : payload c ++ missing = frame .distribution m) (hmiss : missing ≠ [])
    (hf : fits .distribution m) (hcap : m.length ≤ cap) (ht : cutErr tail = some (e, r)) :
    (recvBody cap (c ++ tail)).res = .error e ∧ (recvBody cap (c ++ tail)).rest = r := by
  obtain ⟨h1, h2⟩ := readFramed_cut cap .distribution c m missing tail e r hc hp hmiss hf hcap ht
  show (recvBodyF cap (weight (c ++ tail) + 1) (c ++ tail)).res = _ ∧ (recvBodyF cap (weight (c ++ tail) + 1) (c ++ tail)).rest = _
  rw [recvBodyF_succ]
  cases hr : readFramed cap .distribution (c ++ tail) with
  | mk res r' al =>
    rw [hr] at h1 h2
    simp only at h1 h2
    subst h1; subst h2
    exact ⟨rfl, rfl⟩

theorem recvRetry_stall (cap : Nat) (c : List Ev) (m missing : Bytes) (tail : List Ev)
    (hc : Clean c) (hp : payload c ++ missing = frame .distribution m) (hmiss : missing ≠ [])
    (hf : fits .distribution m) (hcap : m.length ≤ cap) :
    recvRetry cap (c ++ .stall :: tail) = .error .timeout :: recvRetry cap tail := by
  obtain ⟨h1, h2⟩ := recvBody_cut cap c m missing (.stall :: tail) .timeout tail hc hp hmiss hf hcap rfl
  rw [recvRetry_unfold, h1, h2]

end Edp.Framing
