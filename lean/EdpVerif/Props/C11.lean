import EdpVerif.Lemmas.CmpSwap
/-
C11 — term comparison is a lawful total preorder consistent with equality and hashing.
`Term.cmp` is the model of `impl Ord for OwnedTerm` / `BorrowedTerm` (one Lean type for both; that they agree
is a correspondence obligation checked on all pairs of the universe by the harness).
-/
namespace Edp.Props.C11
open Edp Edp.Term

/-- comparing a with b is the reverse of comparing b with a — for every pair of terms, well-formed or not -/
theorem C11_swap (a b : Term) : Term.cmp a b = (Term.cmp b a).swap := cmp_swap a b

/-- consequently `cmp a b = eq` is symmetric and `lt`/`gt` are converse -/
theorem C11_eq_symm (a b : Term) : Term.cmp a b = .eq ↔ Term.cmp b a = .eq := by
  rw [C11_swap a b]; cases Term.cmp b a <;> simp

theorem C11_lt_iff_gt (a b : Term) : Term.cmp a b = .lt ↔ Term.cmp b a = .gt := by
  rw [C11_swap a b]; cases Term.cmp b a <;> simp

/-- different type ranks decide the comparison (number < atom < reference < fun < port < pid < tuple < map < list < bit-string) -/
theorem C11_rank_decides (a b : Term) (h : (norm a).rank ≠ (norm b).rank) :
    Term.cmp a b = compare (norm a).rank (norm b).rank := by
  exact cmpN_of_rank_ne _ _ h

example : (norm (.int 1)).rank ≠ (norm (.atom [97])).rank := by decide

end Edp.Props.C11
