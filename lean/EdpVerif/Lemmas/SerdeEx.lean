import EdpVerif.Lemmas.SerdeWire
/-!
`derive(ElixirStruct)` (erltf_serde_derive): the generated `Deserialize` rejects a map that names another module under
`__struct__`, and a map that lacks one of the struct's fields — it never fills in a value.
(The model of the generated code is `de (.exStruct …)` / `deExFields` in Impl/Serde.lean.)
-/
namespace Edp.SerdeEx
open Edp Edp.Serde

theorem foreign_module (md : Bytes) (fts : List (Bytes × Ty)) (m : List (Term × Term)) (kv : Term × Term) (hm : kv ∈ m)
    (hk : keyIs sStructKey kv = true) (hv : ∀ s, deStr kv.2 = .ok s → s ≠ sElixirDot ++ md) :
    de (.exStruct md fts) (.map m) = .error .err := by
  simp only [de]
  split
  · rfl
  · split
    · rfl
    · rename_i h2
      exfalso; apply h2
      simp only [Bool.not_eq_true', List.all_eq_false]
      refine ⟨kv, List.mem_filter.mpr ⟨hm, hk⟩, ?_⟩
      cases hs : deStr kv.2 with
      | ok s => simpa using hv s hs
      | error e => simp

theorem missing_field : ∀ (fts : List (Bytes × Ty)) (m : List (Term × Term)) (n : Bytes) (ty : Ty),
    (n, ty) ∈ fts → m.filter (keyIs n) = [] → ∀ r, deExFields fts m ≠ .ok r
  | [], _, _, _, h, _, _ => by simp at h
  | (n', ty') :: rest, m, n, ty, h, hf, r => by
    intro hok
    simp only [deExFields] at hok
    split at hok
    · cases hok
    · rcases List.mem_cons.mp h with e | h'
      · simp only [Prod.mk.injEq] at e
        obtain ⟨rfl, rfl⟩ := e
        simp [hf, mapME] at hok
      · cases hx : mapME (fun kv => de ty' kv.2) (m.filter (keyIs n')) with
        | error e => simp [hx] at hok
        | ok xs =>
          simp only [hx] at hok
          cases hl : xs.getLast? with
          | none => simp [hl] at hok
          | some v =>
            simp only [hl] at hok
            cases hr : deExFields rest m with
            | error e => simp [hr] at hok
            | ok vs => exact missing_field rest m n ty h' hf vs hr

theorem missing_field_de (md : Bytes) (fts : List (Bytes × Ty)) (m : List (Term × Term)) (n : Bytes) (ty : Ty)
    (h : (n, ty) ∈ fts) (hf : m.filter (keyIs n) = []) : de (.exStruct md fts) (.map m) = .error .err := by
  simp only [de]
  split
  · rfl
  · split
    · rfl
    · cases hr : deExFields fts m with
      | error e => cases e; rfl
      | ok vs => exact absurd hr (missing_field fts m n ty h hf vs)

end Edp.SerdeEx
