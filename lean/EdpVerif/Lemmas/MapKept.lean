import EdpVerif.Lemmas.Refine
/-! `BTreeMap::insert` (model: `mapInsert`) never drops or merges an entry whose key compares `Equal` to no stored
key.  No law of the order is used (no transitivity, no antisymmetry): the statement holds for whatever `Term.cmp`
does, so it is free of the guards of C11. -/
namespace Edp
open Term

/-- `k` compares `Equal` to no key of `m` -/
def keyFresh (m : List (Term × Term)) (k : Term) : Prop := ∀ p ∈ m, Term.cmp k p.1 ≠ .eq

/-- every arriving key compares `Equal` to none that arrived before it -/
def arrivalDistinct (kvs : List (Term × Term)) : Prop := kvs.Pairwise (fun p q => Term.cmp q.1 p.1 ≠ .eq)

theorem mapInsert_perm (m : List (Term × Term)) (k v : Term) (h : keyFresh m k) :
    (mapInsert m k v).Perm ((k, v) :: m) := by
  induction m with
  | nil => simp [mapInsert]
  | cons p0 r ih =>
    obtain ⟨k', v'⟩ := p0
    have h0 : Term.cmp k k' ≠ .eq := h (k', v') (by simp)
    have hr : keyFresh r k := fun p hp => h p (List.mem_cons_of_mem _ hp)
    simp only [mapInsert]
    cases hc : Term.cmp k k' with
    | lt => exact List.Perm.refl _
    | eq => exact absurd hc h0
    | gt => exact ((ih hr).cons (k', v')).trans (List.Perm.swap _ _ _)

theorem insertAll_perm (acc kvs : List (Term × Term)) (hacc : ∀ q ∈ kvs, keyFresh acc q.1)
    (hd : arrivalDistinct kvs) : (insertAll acc kvs).Perm (acc ++ kvs) := by
  induction kvs generalizing acc with
  | nil => simp [insertAll]
  | cons p0 r ih =>
    obtain ⟨k, v⟩ := p0
    unfold arrivalDistinct at hd
    rw [List.pairwise_cons] at hd
    have hk : keyFresh acc k := hacc (k, v) (by simp)
    have hp := mapInsert_perm acc k v hk
    simp only [insertAll]
    have hacc' : ∀ q ∈ r, keyFresh (mapInsert acc k v) q.1 := by
      intro q hq p hpm
      rcases List.mem_cons.mp (hp.subset hpm) with rfl | hpa
      · exact hd.1 q hq
      · exact hacc q (List.mem_cons_of_mem _ hq) p hpa
    refine (ih (mapInsert acc k v) hacc' hd.2).trans ?_
    refine (hp.append_right r).trans ?_
    simp only [List.cons_append]
    exact (List.perm_middle (a := (k, v)) (l₁ := acc) (l₂ := r)).symm

end Edp
