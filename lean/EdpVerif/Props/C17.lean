import EdpVerif.Generated.MiscC19
import EdpVerif.Lemmas.Rpc
import EdpVerif.Lemmas.RpcMore
import EdpVerif.Impl.RpcTerm
import EdpVerif.Generated.MiscC17pid
/-!
# C17 — each remote call gets its own reply; nothing is left behind afterwards

Theorems about the small-step model `Impl/Rpc.lean` of `Node::rpc_call_raw_with_timeout`, the `Send` arm of
`Node::route_message` and the receiver tasks (crates/edp_node/src/node.rs). Every theorem quantifies over

* every start state of the node's pid allocator `a` and every local node name `n`,
* every schedule `σ : List Step` — any number of calls (a call is a natural number; it exists once it takes its first
  step), any number of receiver tasks, every interleaving of their atomic steps,
* every behaviour of the environment, which is part of the schedule: the peer's messages (`rStart r msg` with an
  arbitrary `msg`: replies in any order, twice, late, to unknown pids, under a foreign node name, never), lookups that
  find no connection, writes that fail, timers that fire at any moment, call futures dropped at any suspension point,
  other allocations, processes spawned and gone, receiver tasks that stop and take their connection out of the table
  (`rStop r`), `Node::start` giving the allocator another creation at any time (`start c`).

The wrappers (`rpc_call_with_timeout`, `rpc_call`, the `erlang_*` calls) are covered through `wrapOutcome` and the
term-level model `Impl/RpcTerm.lean`; the last section ties the model to what the translator reads from the source
(`Generated/Misc.lean`: steps and awaits of `rpc_call_raw_with_timeout`, key text, route arm, wrappers, every use of the
node's allocator).

`run` skips a step that is not enabled, so "every list of steps" is "every execution".
`B = MAXP * U32 = 2^52` is the period of the pid allocator (C16).
-/
namespace Edp.Props.C17
open Edp.Impl.Rpc
open Edp.Impl.PidAlloc (Pid Sh Res alloc seqState seqAlloc MAXP U32 Sh.new)

/-- the states that can be reached -/
abbrev reach (a : Sh) (n : Nat) (σ : List Step) : St := run (St.init a n) σ

/-- the inductive invariant (entries, outcomes, addressing, allocation indices, mutex) holds after every schedule -/
theorem C17_invariants_hold_on_every_run (a : Sh) (n : Nat) (σ : List Step) : Inv a (reach a n σ) :=
  inv_run σ (inv_init a n)

example : (reach (Sh.new 8) 0 [.begin 0, .insert 0]).pending = [(⟨1, 0, 8⟩, 0)] := by decide

/-! ### concrete schedules used by the non-vacuity examples (allocator of a node with creation 8: first pid 1.0.8) -/

def a0 : Sh := Sh.new 8
/-- call `i` registers, sends its request and waits -/
def reqSteps (i : Nat) : List Step := [.begin i, .insert i, .lookup i (some 0), .lock i, .send i true, .unlock i]
/-- receiver 0 routes a message -/
def route (node id body : Nat) : List Step := [.rStart 0 ⟨node, ⟨id, 0, 8⟩, body⟩, .rRemove 0, .rSend 0]
def good : List Step := reqSteps 0 ++ route 0 1 7 ++ [.recvReply 0, .finish 0]
def timedOut : List Step := reqSteps 0 ++ [.timeout 0, .timeoutRemove 0, .finish 0]
def twoCalls : List Step := reqSteps 0 ++ reqSteps 1
def noConnRun : List Step := [.begin 0, .insert 0, .lookup 0 none, .finish 0]
def sendErrRun : List Step := [.begin 0, .insert 0, .lookup 0 (some 0), .lock 0, .send 0 false, .finish 0]
def dropRun : List Step := [.begin 0, .insert 0, .lookup 0 (some 0), .lock 0, .drop 0]
/-- the timer fires between the receiver's `remove` and its `send` -/
def raceRun : List Step :=
  reqSteps 0 ++ [.rStart 0 ⟨0, ⟨1, 0, 8⟩, 7⟩, .rRemove 0, .timeout 0, .rSend 0, .timeoutRemove 0, .finish 0]

/-! ## no misdelivery -/

/-- A call that returns a reply returns a message the peer addressed to that call's own reply pid, with the body
that message carried: `m` is the position of the message in the log of everything the receivers were given. -/
theorem C17_no_misdelivery (a : Sh) (n : Nat) (σ : List Step) (i m b : Nat)
    (h : ((reach a n σ).callers i).out = some (.reply m b)) :
    ∃ msg, (reach a n σ).inbox[m]? = some msg ∧ msg.pid = ((reach a n σ).callers i).key ∧ msg.body = b :=
  (C17_invariants_hold_on_every_run a n σ).addr.out i m b h

example : ((reach a0 0 good).callers 0).out = some (.reply 0 7) ∧
    (reach a0 0 good).inbox[0]? = some ⟨0, ⟨1, 0, 8⟩, 7⟩ ∧ ((reach a0 0 good).callers 0).key = ⟨1, 0, 8⟩ := by decide
/-- two calls, replies in the opposite order of the requests: each gets its own -/
example : let s := reach a0 0 (twoCalls ++ route 0 2 22 ++ route 0 1 11 ++ [.recvReply 0, .recvReply 1, .finish 0, .finish 1])
    (s.callers 0).out = some (.reply 1 11) ∧ (s.callers 1).out = some (.reply 0 22) ∧ s.pending = [] := by decide

/-- the same for a value that sits in a call's channel, for a sender a receiver task holds, and for a result on its
way out: nothing is ever in flight towards a call that was not addressed to its key -/
theorem C17_in_flight_is_addressed (a : Sh) (n : Nat) (σ : List Step) (i m b : Nat) :
    let s := reach a n σ
    (((s.callers i).val = some (m, b) ∨ (s.callers i).pc = .exiting (.reply m b) ∨ ∃ r, s.recv r = .holding i m b) →
      ∃ msg, s.inbox[m]? = some msg ∧ msg.pid = (s.callers i).key ∧ msg.body = b) := by
  intro s h
  have hi := (C17_invariants_hold_on_every_run a n σ).addr
  rcases h with h | h | ⟨r, h⟩
  · exact hi.chan i m b h
  · exact hi.exit i m b h
  · exact (hi.hold r i m b h).1

example : ((reach a0 0 (reqSteps 0 ++ route 0 1 7)).callers 0).val = some (0, 7) := by decide

/-! ## exactly one outcome -/

/-- a call is over exactly when it has an outcome -/
theorem C17_one_outcome (a : Sh) (n : Nat) (σ : List Step) (i : Nat) :
    ((reach a n σ).callers i).pc = .done ↔ ((reach a n σ).callers i).out ≠ none :=
  (C17_invariants_hold_on_every_run a n σ).done i

example : ((reach a0 0 good).callers 0).pc = .done ∧ ((reach a0 0 (reqSteps 0)).callers 0).out = none := by decide

/-- the outcome of a call never changes: whatever happens afterwards (duplicates of its reply, late replies, other
calls) it is not given a second result -/
theorem C17_outcome_final (a : Sh) (n : Nat) (σ τ : List Step) (i : Nat) (o : Outcome)
    (h : ((reach a n σ).callers i).out = some o) : ((reach a n (σ ++ τ)).callers i).out = some o := by
  unfold reach
  rw [run_append]
  exact out_run τ (C17_invariants_hold_on_every_run a n σ) i o h

/-- a duplicate of the reply after the call returned: logged, found no entry, the outcome stays -/
example : ((reach a0 0 (good ++ route 0 1 8)).callers 0).out = some (.reply 0 7) ∧
    (reach a0 0 (good ++ route 0 1 8)).inbox.length = 2 ∧ (reach a0 0 (good ++ route 0 1 8)).pending = [] := by decide

/-! ## nothing is left behind -/

/-- every entry of the table belongs to a call that is still running (registered, not yet returned or dropped) and is
filed under that call's key -/
theorem C17_entries_belong_to_running_calls (a : Sh) (n : Nat) (σ : List Step) (k : Pid) (i : Nat)
    (h : (k, i) ∈ (reach a n σ).pending) :
    ((reach a n σ).callers i).key = k ∧ ((reach a n σ).callers i).pc.armed = true :=
  (C17_invariants_hold_on_every_run a n σ).entry k i h

example : (reach a0 0 twoCalls).pending = [(⟨2, 0, 8⟩, 1), (⟨1, 0, 8⟩, 0)] := by decide

/-- a call that is over — returned with a reply, a timeout, a cancellation, a missing connection, a failed write, or
dropped by its owner — has no entry, and neither has a call that has not registered yet -/
theorem C17_no_entry_of_finished_call (a : Sh) (n : Nat) (σ : List Step) (k : Pid) (i : Nat)
    (h : ((reach a n σ).callers i).pc = .done ∨ ((reach a n σ).callers i).pc = .start ∨
         ((reach a n σ).callers i).pc = .allocated) : (k, i) ∉ (reach a n σ).pending := by
  intro hm
  have := ((C17_invariants_hold_on_every_run a n σ).entry k i hm).2
  rcases h with h | h | h <;> rw [h] at this <;> simp [Pc.armed] at this

/-- every exit path ends with `done` and an empty table: reply, timeout, no connection, failed write, dropped (while
holding the connection mutex, which is released), timer firing between the receiver's `remove` and `send` -/
example : ∀ σ ∈ [good, timedOut, noConnRun, sendErrRun, dropRun, raceRun],
    ((reach a0 0 σ).callers 0).pc = .done ∧ (reach a0 0 σ).pending = [] ∧ (reach a0 0 σ).lock 0 = none := by decide
example : [good, timedOut, noConnRun, sendErrRun, dropRun, raceRun].map (fun σ => ((reach a0 0 σ).callers 0).out) =
    [some (.reply 0 7), some .timeout, some .noConn, some .sendErr, some .dropped, some .timeout] := by decide

/-- once every call that was started is over, the table is empty — on every exit path and under every schedule -/
theorem C17_clean_at_quiescence (a : Sh) (n : Nat) (σ : List Step) (h : (reach a n σ).quiescent) :
    (reach a n σ).pending = [] := by
  apply List.eq_nil_iff_forall_not_mem.mpr
  rintro ⟨k, i⟩ hm
  have harm := ((C17_invariants_hold_on_every_run a n σ).entry k i hm).2
  rcases h i with h | h <;> rw [h] at harm <;> simp [Pc.armed] at harm

example : (reach a0 0 good).quiescent := by
  intro i
  by_cases h : i = 0
  · subst h; right; decide
  · left
    have := pc_frame_run good (St.init a0 0) i (by
      intro e he
      simp [good, reqSteps, route] at he
      rcases he with rfl | rfl | rfl | rfl | rfl | rfl | rfl | rfl | rfl | rfl | rfl <;> simp [Step.caller?] <;> omega)
    rw [reach, this]; rfl

/-! ## keys of concurrent calls differ -/

/-- two calls whose reply pids were allocated differ in (id, serial) as long as the node has allocated at most
`2^52` pids (calls, spawned processes and messages sent together) -/
theorem C17_keys_distinct (a : Sh) (n : Nat) (σ : List Step) (i j : Nat) (hij : i ≠ j)
    (hb : (reach a n σ).nalloc ≤ MAXP * U32)
    (hi : ((reach a n σ).callers i).pc ≠ .start) (hj : ((reach a n σ).callers j).pc ≠ .start)
    (hoi : ((reach a n σ).callers i).out ≠ some .allocFail) (hoj : ((reach a n σ).callers j).out ≠ some .allocFail) :
    (((reach a n σ).callers i).key.id, ((reach a n σ).callers i).key.serial) ≠
      (((reach a n σ).callers j).key.id, ((reach a n σ).callers j).key.serial) :=
  fun hk => hij (keys_distinct (C17_invariants_hold_on_every_run a n σ).alloc hb hi hj hoi hoj hk)

example : ((reach a0 0 twoCalls).callers 0).key = ⟨1, 0, 8⟩ ∧ ((reach a0 0 twoCalls).callers 1).key = ⟨2, 0, 8⟩ ∧
    (reach a0 0 twoCalls).nalloc ≤ MAXP * U32 := by decide

/-- the pid of a live local process is not the key of any call (same bound) -/
theorem C17_call_keys_differ_from_process_pids (a : Sh) (n : Nat) (σ : List Step) (i : Nat) (p : Pid)
    (hb : (reach a n σ).nalloc ≤ MAXP * U32) (hp : p ∈ (reach a n σ).procs)
    (hi : ((reach a n σ).callers i).pc ≠ .start) (hoi : ((reach a n σ).callers i).out ≠ some .allocFail) :
    ((reach a n σ).callers i).key ≠ p := by
  have ha := (C17_invariants_hold_on_every_run a n σ).alloc
  obtain ⟨q, hq1, ⟨y, hy, hy1, hy2⟩, hq3⟩ := ha.procs p hp
  obtain ⟨li, hai⟩ := ha.ix i hi
  obtain ⟨x, hx, hx1, hx2⟩ : SameKey (seqAlloc a ((reach a n σ).callers i).ix) ((reach a n σ).callers i).key := by
    rcases hai with h' | h'
    · exact h'
    · exact absurd h' hoi
  have hne := hq3 i hi
  intro hk
  rcases Nat.lt_or_gt_of_ne hne with hlt | hgt
  · exact Edp.Impl.PidAlloc.seqAlloc_key_ne_any a _ _ hlt (by omega) _ _ hx hy (by rw [hx1, hx2, hy1, hy2, hk])
  · exact Edp.Impl.PidAlloc.seqAlloc_key_ne_any a _ _ hgt (by omega) _ _ hy hx (by rw [hx1, hx2, hy1, hy2, hk])

example : (reach a0 0 (.spawnProc :: reqSteps 0)).procs = [⟨1, 0, 8⟩] ∧
    ((reach a0 0 (.spawnProc :: reqSteps 0)).callers 0).key = ⟨2, 0, 8⟩ := by decide

/-! ## a message goes to at most one call; late replies go to nobody -/

/-- no message is returned twice: two calls that returned the same inbound message are the same call
(a duplicated reply is two messages; each of them is returned at most once, and by `C17_outcome_final` the call
that took the first keeps it) -/
theorem C17_message_returned_to_one_caller (a : Sh) (n : Nat) (σ : List Step) (i j m b b' : Nat)
    (hb : (reach a n σ).nalloc ≤ MAXP * U32)
    (hi : ((reach a n σ).callers i).out = some (.reply m b))
    (hj : ((reach a n σ).callers j).out = some (.reply m b')) : i = j := by
  have hv := C17_invariants_hold_on_every_run a n σ
  obtain ⟨x, hx1, hx2, _⟩ := hv.addr.out i m b hi
  obtain ⟨y, hy1, hy2, _⟩ := hv.addr.out j m b' hj
  have hxy : x = y := by rw [hx1] at hy1; exact Option.some.inj hy1
  have hsi : ((reach a n σ).callers i).pc ≠ .start := by
    intro h; have := (hv.addr.fresh i h).2; rw [hi] at this; cases this
  have hsj : ((reach a n σ).callers j).pc ≠ .start := by
    intro h; have := (hv.addr.fresh j h).2; rw [hj] at this; cases this
  exact keys_distinct hv.alloc hb hsi hsj (by rw [hi]; simp) (by rw [hj]; simp) (by rw [← hx2, ← hy2, hxy])

/-- the reply sent twice: the call returns the first; the second finds no entry and is returned to nobody -/
example : let s := reach a0 0 (twoCalls ++ route 0 1 7 ++ route 0 1 7 ++ [.recvReply 0, .finish 0, .recvReply 1])
    (s.callers 0).out = some (.reply 0 7) ∧ (s.callers 1).pc = .waiting ∧ (s.callers 1).val = none := by decide

/-- A reply that arrives after its call is over is delivered to nobody: if call `i` is over after `σ`, then whatever
happens next (`τ`), a message handed to a receiver during `τ` and addressed to `i`'s key is never the result of any
call — not of another call (its key differs), not of `i` (its outcome is final). -/
theorem C17_late_reply_reaches_nobody (a : Sh) (n : Nat) (σ τ : List Step) (i j m b : Nat) (msg : Msg)
    (hb : (reach a n (σ ++ τ)).nalloc ≤ MAXP * U32)
    (hdone : ((reach a n σ).callers i).pc = .done) (hok : ((reach a n σ).callers i).out ≠ some .allocFail)
    (hlate : (reach a n σ).inbox.length ≤ m) (hm : (reach a n (σ ++ τ)).inbox[m]? = some msg)
    (hto : msg.pid = ((reach a n σ).callers i).key) :
    ((reach a n (σ ++ τ)).callers j).out ≠ some (.reply m b) := by
  intro hj
  have hv := C17_invariants_hold_on_every_run a n σ
  have hv' := C17_invariants_hold_on_every_run a n (σ ++ τ)
  have hrun : reach a n (σ ++ τ) = run (reach a n σ) τ := by unfold reach; rw [run_append]
  -- call i keeps its key and its outcome
  have hsi : ((reach a n σ).callers i).pc ≠ .start := by rw [hdone]; simp
  obtain ⟨hkey, hsi'⟩ := key_run τ (reach a n σ) i hsi
  rw [← hrun] at hkey hsi'
  obtain ⟨o, ho⟩ : ∃ o, ((reach a n σ).callers i).out = some o := by
    have := (hv.done i).mp hdone
    cases h : ((reach a n σ).callers i).out with
    | none => exact absurd h this
    | some o => exact ⟨o, rfl⟩
  have ho' : ((reach a n (σ ++ τ)).callers i).out = some o := C17_outcome_final a n σ τ i o ho
  -- the call that returned message m has the key the message was addressed to
  obtain ⟨x, hx1, hx2, _⟩ := hv'.addr.out j m b hj
  have hx : x = msg := by rw [hm] at hx1; exact (Option.some.inj hx1).symm
  have hsj : ((reach a n (σ ++ τ)).callers j).pc ≠ .start := by
    intro h; have := (hv'.addr.fresh j h).2; rw [hj] at this; cases this
  have hij : j = i := by
    refine keys_distinct hv'.alloc hb hsj hsi' (by rw [hj]; simp) (by rw [ho']; rw [ho] at hok; exact hok) ?_
    rw [← hx2, hx, hto, hkey]
  -- but i's outcome was fixed before message m existed
  subst hij
  rw [ho'] at hj
  cases hj
  obtain ⟨y, hy1, _, _⟩ := hv.addr.out j m b ho
  have : m < (reach a n σ).inbox.length := by
    rcases Nat.lt_or_ge m (reach a n σ).inbox.length with h | h
    · exact h
    · rw [List.getElem?_eq_none_iff.mpr h] at hy1; cases hy1
  omega

/-- the call timed out; its reply arrives afterwards: nothing changes but the log -/
example : ((reach a0 0 timedOut).callers 0).pc = .done ∧ (reach a0 0 timedOut).inbox.length = 0 ∧
    (reach a0 0 (timedOut ++ route 0 1 9)).inbox[0]? = some ⟨0, ⟨1, 0, 8⟩, 9⟩ ∧
    ((reach a0 0 (timedOut ++ route 0 1 9)).callers 0).out = some .timeout ∧
    (reach a0 0 (timedOut ++ route 0 1 9)).pending = [] := by decide

/-! ## cancellation -/

/-- `RpcCancelled` needs the sender to be dropped without a value; that happens only when another call registers or
removes the same key. While the allocator has not gone round no call ever returns it. -/
theorem C17_never_cancelled (a : Sh) (n : Nat) (σ : List Step) (i : Nat)
    (hb : (reach a n σ).nalloc ≤ MAXP * U32) : ((reach a n σ).callers i).out ≠ some .cancelled :=
  ((tx_run σ (inv_init a n) (tx_init a n) hb).nc i).2

example : (reach a0 0 twoCalls).nalloc = 2 := by decide

/-- while the allocator has not gone round, a sender is dropped unsent only by its own call on its way out -/
theorem C17_sender_dropped_only_on_exit (a : Sh) (n : Nat) (σ : List Step) (i : Nat)
    (hb : (reach a n σ).nalloc ≤ MAXP * U32) (h : ((reach a n σ).callers i).txDropped = true) :
    ((reach a n σ).callers i).pc.over = true :=
  (tx_run σ (inv_init a n) (tx_init a n) hb).tx i h

example : ((reach a0 0 (reqSteps 0 ++ [.timeout 0, .timeoutRemove 0])).callers 0).txDropped = true ∧
    ((reach a0 0 (reqSteps 0 ++ [.timeout 0, .timeoutRemove 0])).callers 0).pc = .exiting .timeout := by decide

/-! ## routing: the registry first, unknown keys dropped -/

/-- a message addressed to a live local process (node name and numbers) is handed to that process; the table, every
call and every receiver stay as they are -/
theorem C17_local_process_first (s : St) (r : Nat) (msg : Msg) (hidle : s.recv r = .idle)
    (hp : msg.node = s.localNode ∧ msg.pid ∈ s.procs) :
    ∃ s', step s (.rStart r msg) = some s' ∧ s'.pending = s.pending ∧ s'.callers = s.callers ∧ s'.recv = s.recv ∧
      s'.procLog = s.procLog ++ [(msg.pid, s.inbox.length)] := by
  refine ⟨{ s with inbox := s.inbox ++ [msg], procLog := s.procLog ++ [(msg.pid, s.inbox.length)] }, ?_, rfl, rfl, rfl, rfl⟩
  simp only [step, hidle, hp, and_self, if_true]

example : let s := reach a0 0 (.spawnProc :: reqSteps 0 ++ [.rStart 0 ⟨0, ⟨1, 0, 8⟩, 5⟩])
    s.procLog = [(⟨1, 0, 8⟩, 0)] ∧ s.pending = [(⟨2, 0, 8⟩, 0)] ∧ s.recv 0 = .idle := by decide
/-- the process's numbers under a foreign node name are not that process: the message is routed (and dropped) -/
example : let s := reach a0 0 (.spawnProc :: reqSteps 0 ++ [.rStart 0 ⟨1, ⟨1, 0, 8⟩, 5⟩, .rRemove 0])
    s.procLog = [] ∧ s.pending = [(⟨2, 0, 8⟩, 0)] ∧ s.recv 0 = .idle := by decide

/-- a message whose numbers are not in the table (unknown pid, a call that is already over, a duplicate of a reply
already taken) changes nothing but the receiver's own program counter -/
theorem C17_unknown_key_dropped (s : St) (r : Nat) (msg : Msg) (m : Nat) (hr : s.recv r = .routing msg m)
    (hk : ∀ i, (msg.pid, i) ∉ s.pending) :
    step s (.rRemove r) = some { s with recv := upd s.recv r .idle } := by
  have : lookupKey s.pending msg.pid = none := by
    cases h : lookupKey s.pending msg.pid with
    | none => rfl
    | some i => exact absurd (lookupKey_some h) (hk i)
  simp only [step, hr, this]

example : let s := reach a0 0 (reqSteps 0 ++ [.rStart 0 ⟨0, ⟨100001, 0, 8⟩, 5⟩])
    s.recv 0 = .routing ⟨0, ⟨100001, 0, 8⟩, 5⟩ 0 ∧ ∀ e ∈ s.pending, e.1 ≠ ⟨100001, 0, 8⟩ := by decide

/-- a value sent to a call whose receiving half is gone (it timed out or was dropped between the receiver's `remove`
and its `send`) is discarded -/
theorem C17_send_after_timeout_is_discarded (s : St) (r i m b : Nat) (hr : s.recv r = .holding i m b)
    (hrx : (s.callers i).rxAlive = false) :
    step s (.rSend r) = some { s with recv := upd s.recv r .idle } := by
  simp [step, hr, hrx]

example : let s := reach a0 0 (reqSteps 0 ++ [.rStart 0 ⟨0, ⟨1, 0, 8⟩, 7⟩, .rRemove 0, .timeout 0])
    s.recv 0 = .holding 0 0 7 ∧ (s.callers 0).rxAlive = false := by decide

/-! ## the connection mutex -/

/-- at most one call writes its request on a connection at a time -/
theorem C17_send_mutex (a : Sh) (n : Nat) (σ : List Step) (i j : Nat)
    (hi : ((reach a n σ).callers i).pc.holdsLock = true) (hj : ((reach a n σ).callers j).pc.holdsLock = true)
    (hc : ((reach a n σ).callers i).conn = ((reach a n σ).callers j).conn) : i = j := by
  have hl := (C17_invariants_hold_on_every_run a n σ).lock
  have h1 := hl.holder i hi
  have h2 := hl.holder j hj
  rw [hc, h2] at h1
  exact (Option.some.inj h1).symm


/-- the second call cannot take the mutex while the first holds it -/
example : let s := reach a0 0 ([.begin 0, .insert 0, .lookup 0 (some 0), .lock 0] ++ [.begin 1, .insert 1, .lookup 1 (some 0), .lock 1])
    (s.callers 0).pc = .locked ∧ (s.callers 1).pc = .found ∧ s.lock 0 = some 0 := by decide

/-! ## every exit path removes the call's key; the reply path delivers -/

/-- Each step on which a call gives up — no connection, failed write, timeout, return (the drop guard), dropped by its
owner once registered — leaves no entry under the call's key, whatever the state it is taken in. -/
theorem C17_exit_steps_remove_the_key (s s' : St) (i : Nat) (e : Step)
    (he : e = .lookup i none ∨ e = .send i false ∨ e = .timeoutRemove i ∨ e = .finish i ∨
          (e = .drop i ∧ (s.callers i).pc.armed = true))
    (hs : step s e = some s') (j : Nat) : ((s.callers i).key, j) ∉ s'.pending := by
  rcases he with rfl | rfl | rfl | rfl | ⟨rfl, harm⟩ <;> simp only [step] at hs <;> (repeat' split at hs) <;>
    (try cases hs) <;> (try contradiction) <;>
    simp_all [St.setCaller, mem_eraseKey, St.removeKey]

example : step (reach a0 0 (reqSteps 0)) (.drop 0) ≠ none ∧ ((reach a0 0 (reqSteps 0)).callers 0).pc.armed = true := by decide

/-- a call ends only by `finish`, by being dropped, or by the allocator failing before anything was registered -/
theorem C17_calls_end_by_finish_or_drop (s s' : St) (e : Step) (i : Nat) (hs : step s e = some s')
    (h0 : (s.callers i).pc ≠ .done) (h1 : (s'.callers i).pc = .done) :
    e = .finish i ∨ e = .drop i ∨ (e = .begin i ∧ (s'.callers i).out = some .allocFail) := by
  cases e <;> simp only [step] at hs <;> (repeat' split at hs) <;> (try cases hs) <;> (try contradiction) <;>
    simp only [upd_apply, St.setCaller, ite_pc, ite_out, removeKey_pc, removeKey_out] at h1 ⊢
  all_goals grind

example : ((reach a0 0 (reqSteps 0 ++ [.timeout 0, .timeoutRemove 0])).callers 0).pc ≠ .done ∧
    ((reach a0 0 timedOut).callers 0).pc = .done := by decide

/-- The reply arrives. A call is waiting with its entry in the table; a message addressed to its reply pid is given
to an idle receiver. The receiver's three steps and the call's two make the call return exactly that message
(its number in the log and its body), while the allocator has not gone round. -/
theorem C17_reply_is_delivered (a : Sh) (n : Nat) (σ : List Step) (i r : Nat) (msg : Msg)
    (hb : (reach a n σ).nalloc ≤ MAXP * U32)
    (hw : ((reach a n σ).callers i).pc = .waiting)
    (hm : (((reach a n σ).callers i).key, i) ∈ (reach a n σ).pending)
    (hr : (reach a n σ).recv r = .idle) (hto : msg.pid = ((reach a n σ).callers i).key) :
    ((reach a n (σ ++ [.rStart r msg, .rRemove r, .rSend r, .recvReply i, .finish i])).callers i).out =
      some (.reply (reach a n σ).inbox.length msg.body) := by
  have hv := C17_invariants_hold_on_every_run a n σ
  have hnp : ¬(msg.node = (reach a n σ).localNode ∧ msg.pid ∈ (reach a n σ).procs) := by
    rintro ⟨_, hp⟩
    have hout : ((reach a n σ).callers i).out ≠ some .allocFail := by
      intro h
      have := (hv.done i).mpr (by rw [h]; simp)
      rw [hw] at this; cases this
    exact C17_call_keys_differ_from_process_pids a n σ i msg.pid hb hp (by rw [hw]; simp) hout hto.symm
  have := reply_delivered hv (rx_run σ (rx_init a n)) hb i r msg hw hm hr hto hnp
  unfold reach at this ⊢
  rw [run_append]
  exact this


example : ((reach a0 0 (reqSteps 0)).callers 0).pc = .waiting ∧
    (((reach a0 0 (reqSteps 0)).callers 0).key, 0) ∈ (reach a0 0 (reqSteps 0)).pending ∧
    (reach a0 0 (reqSteps 0)).recv 0 = .idle := by decide

/-! ## the connection goes away while calls are outstanding -/

/-- When the receiver task of a connection stops (`receive_message_from_read_half` failed: the peer closed, a read
error, the tick time passed) it takes the connection out of the table for good: the receiver takes no further step,
hands no further message to anybody, and no later call finds that connection (`lookup` with that id is not enabled;
such a call returns `NodeNotConnected`). -/
theorem C17_stopped_connection_is_never_found_again (a : Sh) (n : Nat) (σ τ : List Step) (r : Nat)
    (h : (reach a n σ).recv r = .stopped) :
    (reach a n (σ ++ τ)).recv r = .stopped ∧ (reach a n (σ ++ τ)).conns r = false ∧
      (∀ i, step (reach a n (σ ++ τ)) (.lookup i (some r)) = none) ∧
      (∀ msg, step (reach a n (σ ++ τ)) (.rStart r msg) = none) ∧
      step (reach a n (σ ++ τ)) (.rRemove r) = none ∧ step (reach a n (σ ++ τ)) (.rSend r) = none := by
  have hst : (reach a n (σ ++ τ)).recv r = .stopped := by
    unfold reach at h ⊢; rw [run_append]; exact stopped_run τ _ r h
  have hc : (reach a n (σ ++ τ)).conns r = false := ((conn_run (σ ++ τ) (conn_init a n)) r).mpr hst
  refine ⟨hst, hc, ?_, ?_, ?_, ?_⟩
  · intro i; simp [step, hc]
  · intro msg; simp [step, hst]
  · simp [step, hst]
  · simp [step, hst]

example : (reach a0 0 (reqSteps 0 ++ [.rStop 0])).recv 0 = .stopped ∧
    ((reach a0 0 (reqSteps 0 ++ [.rStop 0, .begin 1, .insert 1, .lookup 1 (some 0)])).callers 1).pc = .inserted ∧
    ((reach a0 0 (reqSteps 0 ++ [.rStop 0, .begin 1, .insert 1, .lookup 1 none, .finish 1])).callers 1).out = some .noConn := by
  decide

/-- What happens to the calls that are outstanding when their connection goes away: nothing tells them. A call that
waits for its reply, with nothing addressed to its key in flight (no receiver routing such a message or holding its
sender, its channel empty), and to whose key no message is handed to a receiver from now on — because the receiver of
its connection stopped, or because the peer never answers — never returns a reply, a connection error or
`RpcCancelled`: it stays waiting, with its entry, until ITS OWN timer fires or its owner drops it. (While the
allocator has not gone round.) So outstanding calls of a lost connection end by their timeout (`DEFAULT_RPC_TIMEOUT`
for `rpc_call`), not promptly. -/
theorem C17_unanswered_call_waits_for_its_timeout (a : Sh) (n : Nat) (σ τ : List Step) (i : Nat)
    (hb : (reach a n (σ ++ τ)).nalloc ≤ MAXP * U32)
    (hw : ((reach a n σ).callers i).pc = .waiting) (hval : ((reach a n σ).callers i).val = none)
    (hroute : ∀ r msg m, (reach a n σ).recv r = .routing msg m → msg.pid ≠ ((reach a n σ).callers i).key)
    (hhold : ∀ r m b, (reach a n σ).recv r ≠ .holding i m b)
    (hτ : ∀ r msg, Step.rStart r msg ∈ τ → msg.pid ≠ ((reach a n σ).callers i).key) :
    let c := (reach a n (σ ++ τ)).callers i
    (c.pc = .waiting ∧ c.val = none ∧ c.out = none) ∨ (c.pc = .timedOut ∧ c.out = none) ∨
      (c.pc = .exiting .timeout ∧ c.out = none) ∨
      (c.pc = .done ∧ (c.out = some .timeout ∨ c.out = some .dropped)) := by
  intro c
  have hv := C17_invariants_hold_on_every_run a n σ
  have hv' := C17_invariants_hold_on_every_run a n (σ ++ τ)
  have hrun : reach a n (σ ++ τ) = run (reach a n σ) τ := by unfold reach; rw [run_append]
  have hbσ : (reach a n σ).nalloc ≤ MAXP * U32 := by
    rw [hrun] at hb; exact Nat.le_trans (nalloc_run τ _) hb
  have ht := tx_run σ (inv_init a n) (tx_init a n) hbσ
  have hu : Unans (reach a n σ) i := ⟨hroute, hhold, Or.inl ⟨hw, hval⟩⟩
  have hu' := unans_run τ hv ht (by rw [← hrun]; exact hb) i hu hτ
  rw [← hrun] at hu'
  have hd := hv'.done i
  rcases hu'.pcs with ⟨h1, h2⟩ | h1 | h1 | ⟨h1, h2⟩
  · left; refine ⟨h1, h2, ?_⟩
    cases ho : ((reach a n (σ ++ τ)).callers i).out with
    | none => rfl
    | some o => have := hd.mpr (by rw [ho]; simp); rw [h1] at this; cases this
  · right; left; refine ⟨h1, ?_⟩
    cases ho : ((reach a n (σ ++ τ)).callers i).out with
    | none => rfl
    | some o => have := hd.mpr (by rw [ho]; simp); rw [h1] at this; cases this
  · right; right; left; refine ⟨h1, ?_⟩
    cases ho : ((reach a n (σ ++ τ)).callers i).out with
    | none => rfl
    | some o => have := hd.mpr (by rw [ho]; simp); rw [h1] at this; cases this
  · right; right; right; exact ⟨h1, h2⟩

/-- the receiver stops while call 0 waits: the call is still waiting with its entry afterwards, and ends by its timer -/
example : (reach a0 0 (reqSteps 0)).recv = (fun _ => .idle) ∧ ((reach a0 0 (reqSteps 0)).callers 0).val = none ∧
    ((reach a0 0 (reqSteps 0 ++ [.rStop 0])).callers 0).pc = .waiting ∧
    (reach a0 0 (reqSteps 0 ++ [.rStop 0])).pending = [(⟨1, 0, 8⟩, 0)] ∧
    ((reach a0 0 (reqSteps 0 ++ [.rStop 0, .timeout 0, .timeoutRemove 0, .finish 0])).callers 0).out = some .timeout ∧
    (reach a0 0 (reqSteps 0 ++ [.rStop 0, .timeout 0, .timeoutRemove 0, .finish 0])).pending = [] :=
  ⟨rfl, by decide, by decide, by decide, by decide, by decide⟩

/-- once every call is over no connection mutex is held either -/
theorem C17_no_mutex_held_at_quiescence (a : Sh) (n : Nat) (σ : List Step) (h : (reach a n σ).quiescent) (c : Nat) :
    (reach a n σ).lock c = none := by
  cases hl : (reach a n σ).lock c with
  | none => rfl
  | some i =>
    have := ((C17_invariants_hold_on_every_run a n σ).lock.held c i hl).1
    rcases h i with h | h <;> rw [h] at this <;> simp [Pc.holdsLock] at this

example : (reach a0 0 dropRun).lock 0 = none ∧ (reach a0 0 [.begin 0, .insert 0, .lookup 0 (some 0), .lock 0]).lock 0 = some 0 := by
  decide

/-! ## the wrappers: `rpc_call_with_timeout`, `rpc_call`, the `erlang_*` calls -/

/-- The wrapper's result is a function of the raw call's own outcome: a value it returns is the unwrapped body of a
message that was addressed to this call's reply pid; an error of the raw call is passed on unchanged; a reply of the
wrong shape becomes a conversion error of THIS call. The wrapper touches no shared state, so everything above holds for
wrapped calls as it stands. `unwrap` is any function on bodies (it stands for `into_rex_response`). -/
theorem C17_wrapped_reply_is_own (unwrap : Nat → Option Nat) (a : Sh) (n : Nat) (σ : List Step) (i : Nat) (o : Outcome)
    (ho : ((reach a n σ).callers i).out = some o) :
    (∀ m v, wrapOutcome unwrap o = .value m v →
      ∃ msg, (reach a n σ).inbox[m]? = some msg ∧ msg.pid = ((reach a n σ).callers i).key ∧ unwrap msg.body = some v) ∧
    (∀ m, wrapOutcome unwrap o = .badShape m →
      ∃ msg, (reach a n σ).inbox[m]? = some msg ∧ msg.pid = ((reach a n σ).callers i).key ∧ unwrap msg.body = none) ∧
    (∀ e, wrapOutcome unwrap o = .err e → e = o ∧ ∀ m b, o ≠ .reply m b) := by
  refine ⟨?_, ?_, ?_⟩
  · intro m v hw
    cases o <;> simp only [wrapOutcome] at hw <;> try cases hw
    rename_i m' b
    split at hw <;> cases hw
    rename_i hu
    obtain ⟨msg, h1, h2, h3⟩ := C17_no_misdelivery a n σ i m b ho
    exact ⟨msg, h1, h2, by rw [h3]; exact hu⟩
  · intro m hw
    cases o <;> simp only [wrapOutcome] at hw <;> try cases hw
    rename_i m' b
    split at hw <;> cases hw
    rename_i hu
    obtain ⟨msg, h1, h2, h3⟩ := C17_no_misdelivery a n σ i m b ho
    exact ⟨msg, h1, h2, by rw [h3]; exact hu⟩
  · intro e hw
    cases o <;> simp only [wrapOutcome] at hw <;> (try (split at hw <;> cases hw)) <;> (try cases hw) <;> simp

example : wrapOutcome (fun b => if b = 7 then some 70 else none) (.reply 0 7) = .value 0 70 ∧
    wrapOutcome (fun b => if b = 7 then some 70 else none) (.reply 0 8) = .badShape 0 ∧
    wrapOutcome (fun _ => none) .timeout = .err .timeout := by decide

/-- a wrapped value is returned to one caller only (while the allocator has not gone round) -/
theorem C17_wrapped_value_returned_to_one_caller (unwrap : Nat → Option Nat) (a : Sh) (n : Nat) (σ : List Step)
    (i j m v v' : Nat) (oi oj : Outcome) (hb : (reach a n σ).nalloc ≤ MAXP * U32)
    (hi : ((reach a n σ).callers i).out = some oi) (hj : ((reach a n σ).callers j).out = some oj)
    (hwi : wrapOutcome unwrap oi = .value m v) (hwj : wrapOutcome unwrap oj = .value m v') : i = j := by
  cases oi <;> simp only [wrapOutcome] at hwi <;> try cases hwi
  cases oj <;> simp only [wrapOutcome] at hwj <;> try cases hwj
  split at hwi <;> cases hwi
  split at hwj <;> cases hwj
  exact C17_message_returned_to_one_caller a n σ i j m _ _ hb hi hj

example : ((reach a0 0 good).callers 0).out = some (.reply 0 7) ∧ wrapOutcome (fun b => some (b + 1)) (.reply 0 7) = .value 0 8 := by
  decide

open Edp.Impl.RpcTerm in
/-- `into_rex_response` (arity, atom and index as read from term.rs) accepts exactly the pairs `{rex, Result}` and
returns `Result`; everything else — another atom, another arity, a non-tuple, an improper shape — is an error -/
theorem C17_rex_response_shape (t v : Term) :
    intoRexResponse t = some v ↔ t = .tuple [.atom (strBytes "rex"), v] := by
  have hg : Gen.REX_RESPONSE = (2, "rex", 1) := by decide
  constructor
  · intro h
    cases t <;> simp only [intoRexResponse, hg] at h <;> try cases h
    rename_i l
    split at h
    · rename_i hl
      match l, hl with
      | [x, y], _ =>
        simp only [List.head?_cons] at h
        cases x <;> simp only at h <;> try cases h
        split at h
        · rename_i hn
          simp at h
          rw [hn, h]
        · cases h
    · cases h
  · intro h
    subst h
    simp [intoRexResponse, hg]

open Edp.Impl.RpcTerm in
example : intoRexResponse (.tuple [.atom (strBytes "rex"), .int 5]) = some (.int 5) ∧
    intoRexResponse (.tuple [.atom (strBytes "rexx"), .int 5]) = none ∧
    intoRexResponse (.tuple [.atom (strBytes "rex"), .int 5, .int 6]) = none ∧
    intoRexResponse (.tuple [.atom (strBytes "rex")]) = none ∧
    intoRexResponse (.atom (strBytes "rex")) = none ∧
    intoRexResponse (.tuple [.bin (strBytes "rex"), .int 5]) = none := by
  refine ⟨?_, ?_, ?_, ?_, ?_, ?_⟩ <;> simp [intoRexResponse, show Gen.REX_RESPONSE = (2, "rex", 1) by decide, strBytes] <;> decide

open Edp.Impl.RpcTerm in
/-- the request is `{ReplyPid, {call, Module, Function, Args, user}}`, sent to the registered name `rex`: the reply pid
inside it is the call's own key, so a conforming peer answers to that key -/
theorem C17_request_is_the_rex_call (reply : PidF) (m f : Bytes) (args : List Term) :
    callRequest reply m f args =
      .tuple [.pid reply, .tuple [.atom (strBytes "call"), .atom m, .atom f, .list args, .atom (strBytes "user")]] ∧
    Gen.RPC_REQUEST_TO = "rex" := by
  have hg : Gen.RPC_REQUEST_SHAPE = ["atom:call", "atom=module", "atom=function", "list=args", "atom:user"] := by decide
  refine ⟨?_, by decide⟩
  simp only [callRequest, hg, List.map]
  have h1 : shapeElem m f args "atom:call" = .atom (strBytes "call") := by
    simp only [shapeElem, show ("atom:call" : String).toList = ['a', 't', 'o', 'm', ':', 'c', 'a', 'l', 'l'] by decide]; rfl
  have h2 : shapeElem m f args "atom=module" = .atom m := by
    simp [shapeElem, show ("atom=module" : String).toList = ['a', 't', 'o', 'm', '=', 'm', 'o', 'd', 'u', 'l', 'e'] by decide]
  have h3 : shapeElem m f args "atom=function" = .atom f := by
    simp [shapeElem, show ("atom=function" : String).toList = ['a', 't', 'o', 'm', '=', 'f', 'u', 'n', 'c', 't', 'i', 'o', 'n'] by decide]
  have h4 : shapeElem m f args "list=args" = .list args := by
    simp [shapeElem, show ("list=args" : String).toList = ['l', 'i', 's', 't', '=', 'a', 'r', 'g', 's'] by decide]
  have h5 : shapeElem m f args "atom:user" = .atom (strBytes "user") := by
    simp only [shapeElem, show ("atom:user" : String).toList = ['a', 't', 'o', 'm', ':', 'u', 's', 'e', 'r'] by decide]; rfl
  rw [h1, h2, h3, h4, h5]

open Edp.Impl.RpcTerm in
example : erlangTarget "erlang_memory" = some (strBytes "erlang", strBytes "memory") := by decide

/-! ## the model and the source -/

/-- The steps of `rpc_call_raw_with_timeout` as the translator lists them from node.rs — allocation, every access to
`pending_rpcs` and `connections`, every `.await`, every early return, `?` and `expect`, in source order — are the steps
the model reads the function as (`sourceSteps`). A new await, removal or early return changes the list. -/
theorem C17_model_steps_are_the_source_steps : Gen.RPC_CALL_STEPS = sourceSteps.map (·.1) := by decide

example : Gen.RPC_CALL_STEPS.length = 22 := by decide

/-- Every `.await` of the source is a program counter at which the model lets the owner drop the future (`drop` is
enabled there in every state), and every program counter at which `drop` is enabled is an `.await` of the source. -/
theorem C17_every_await_is_a_drop_point :
    (∀ t ∈ Gen.RPC_CALL_STEPS, isAwait t = true → ∃ pc, awaitPc t = some pc ∧ pc.suspended = true ∧
      ∀ (s : St) (i : Nat), (s.callers i).pc = pc → (step s (.drop i)).isSome = true) ∧
    (∀ pc : Pc, pc.suspended = true → ∃ t ∈ Gen.RPC_CALL_STEPS, isAwait t = true ∧ awaitPc t = some pc) := by
  have hg : Gen.RPC_CALL_STEPS = sourceSteps.map (·.1) := C17_model_steps_are_the_source_steps
  constructor
  · have key : ∀ t ∈ Gen.RPC_CALL_STEPS, isAwait t = true → (awaitPc t).any Pc.suspended = true := by decide
    intro t ht ha
    obtain ⟨pc, h1, h2⟩ : ∃ pc, awaitPc t = some pc ∧ pc.suspended = true := by
      have := key t ht ha
      cases h : awaitPc t with
      | none => rw [h] at this; cases this
      | some pc => rw [h] at this; exact ⟨pc, rfl, this⟩
    refine ⟨pc, h1, h2, ?_⟩
    intro s i hpc
    simp [step, hpc, h2]
  · intro pc hpc
    cases pc <;> simp [Pc.suspended] at hpc
    · exact ⟨"yield:rpc:before_insert", by decide, by decide, rfl⟩
    · exact ⟨"yield:rpc:after_insert", by decide, by decide, rfl⟩
    · exact ⟨"await:lock", by decide, by decide, rfl⟩
    · exact ⟨"await:send_to_name", by decide, by decide, rfl⟩
    · exact ⟨"yield:rpc:after_send", by decide, by decide, rfl⟩
    · exact ⟨"await:timeout", by decide, by decide, rfl⟩
    · exact ⟨"yield:rpc:timed_out", by decide, by decide, rfl⟩

example : (Gen.RPC_CALL_STEPS.filter isAwait).length = 8 := by decide

/-- Both places that build the key of `pending_rpcs` — the caller and `route_message` — use the format string and the
pid fields the model's `keyChars` stands for; the drop guard removes that key; the `Send`/`SendTt` arm asks the registry
first and touches the table only at the one `remove`, followed by the `send` into the channel. -/
theorem C17_key_and_route_arm_as_in_source (p : Pid) :
    keyCharsFrom Gen.RPC_KEY_FORMAT_CALL p = keyChars p ∧ keyCharsFrom Gen.RPC_KEY_FORMAT_ROUTE p = keyChars p ∧
    Gen.RPC_GUARD_DROP = ["pending.remove.key"] ∧
    Gen.ROUTE_SEND_ARM_STEPS = ["payload?", "pid?", "registry.get", "process.send", "else",
      "yield:route:before_pending_remove", "pending.remove", "sender.send"] ∧
    Gen.ROUTE_ARMS.head? = some (["Send", "SendTt"], ["to_pid"], "Regular", ["get", "rpc"]) := by
  have h1 : Gen.RPC_KEY_FORMAT_CALL = ("{}.{}.{}", ["id", "serial", "creation"]) := by decide
  have h2 : Gen.RPC_KEY_FORMAT_ROUTE = ("{}.{}.{}", ["id", "serial", "creation"]) := by decide
  refine ⟨by rw [h1]; exact renderFmt_key p, by rw [h2]; exact renderFmt_key p, by decide, by decide, by decide⟩

example : keyCharsFrom Gen.RPC_KEY_FORMAT_CALL ⟨12, 0, 345⟩ = "12.0.345".toList := by decide

open Edp.Impl.RpcTerm in
/-- The wrappers as read from node.rs and erlang_mod_fns.rs: each awaits exactly one call and nothing else;
`rpc_call_with_timeout` is the only one that changes the result (`into_rex_response`), `rpc_call` and `rpc_call_raw`
supply the default timeout of 10 s; the six `erlang_*` functions are `rpc_call`s to module `erlang`. -/
theorem C17_wrappers_as_in_source :
    Gen.RPC_WRAPPERS = [("rpc_call", "rpc_call_with_timeout", "DEFAULT_RPC_TIMEOUT", ""),
      ("rpc_call_with_timeout", "rpc_call_raw_with_timeout", "timeout", "rex"),
      ("rpc_call_raw", "rpc_call_raw_with_timeout", "DEFAULT_RPC_TIMEOUT", "")] ∧
    Gen.DEFAULT_RPC_TIMEOUT_MS = 10000 ∧ Gen.REX_RESPONSE = (2, "rex", 1) ∧
    Gen.ERLANG_MOD_FNS.map (fun e => (e.1, e.2.1, e.2.2.1, e.2.2.2.1, e.2.2.2.2.1)) =
      [("erlang_system_info", "item", "rpc_call", "erlang", "system_info"),
       ("erlang_statistics", "item", "rpc_call", "erlang", "statistics"),
       ("erlang_memory", "", "rpc_call", "erlang", "memory"),
       ("erlang_processes", "", "rpc_call", "erlang", "processes"),
       ("erlang_process_info", "pid,items", "rpc_call", "erlang", "process_info"),
       ("erlang_list_to_pid", "pid_str", "rpc_call", "erlang", "list_to_pid")] ∧
    (∀ e ∈ Gen.ERLANG_MOD_FNS, (erlangTarget e.1).isSome = true) := by
  refine ⟨by decide, by decide, by decide, by decide, by decide⟩

example : Gen.ERLANG_MOD_FNS.length = 6 := by decide

/-! ## `Node::start` and the allocator over the node's life -/

/-- `connect` and `rpc_call*` do not ask whether the node was started, so calls may be made before `Node::start`, with
reply pids that carry the placeholder creation. `start` only changes the creation the allocator stamps on NEW pids
(`set_creation`): the counters go on, so a call that allocates after `start` gets an `(id, serial)` no earlier call has —
also when EPMD assigns the very creation the node had before (1). The earlier call keeps its key. -/
theorem C17_reply_pids_fresh_across_start (a : Sh) (n : Nat) (σ τ : List Step) (c i j : Nat)
    (hb : (reach a n (σ ++ .start c :: τ)).nalloc ≤ MAXP * U32)
    (hi : ((reach a n σ).callers i).pc ≠ .start) (hj : ((reach a n σ).callers j).pc = .start)
    (hj' : ((reach a n (σ ++ .start c :: τ)).callers j).pc ≠ .start)
    (hoi : ((reach a n (σ ++ .start c :: τ)).callers i).out ≠ some .allocFail)
    (hoj : ((reach a n (σ ++ .start c :: τ)).callers j).out ≠ some .allocFail) :
    ((reach a n (σ ++ .start c :: τ)).callers i).key = ((reach a n σ).callers i).key ∧
    (((reach a n (σ ++ .start c :: τ)).callers i).key.id, ((reach a n (σ ++ .start c :: τ)).callers i).key.serial) ≠
      (((reach a n (σ ++ .start c :: τ)).callers j).key.id, ((reach a n (σ ++ .start c :: τ)).callers j).key.serial) := by
  have hrun : reach a n (σ ++ .start c :: τ) = run (reach a n σ) (.start c :: τ) := by unfold reach; rw [run_append]
  obtain ⟨hk, hi'⟩ := key_run (.start c :: τ) (reach a n σ) i hi
  rw [← hrun] at hk hi'
  refine ⟨hk, ?_⟩
  have hij : i ≠ j := by intro h; subst h; exact hi hj
  exact C17_keys_distinct a n _ i j hij hb hi' hj' hoi hoj

/-- a node that was not started (creation 1): call 0; it times out; `start` with EPMD assigning creation 1 again; call 1
gets `<2.0.1>`, not `<1.0.1>`; the late reply to call 0 arrives while call 1 waits and reaches nobody -/
example : let s := reach (Sh.new 1) 0 (reqSteps 0 ++ [.timeout 0, .timeoutRemove 0, .finish 0, .start 1] ++ reqSteps 1 ++
      [.rStart 0 ⟨0, ⟨1, 0, 1⟩, 2⟩, .rRemove 0])
    (s.callers 0).key = ⟨1, 0, 1⟩ ∧ (s.callers 1).key = ⟨2, 0, 1⟩ ∧ (s.callers 1).pc = .waiting ∧ (s.callers 1).val = none ∧
      s.recv 0 = .idle ∧ s.pending = [(⟨2, 0, 1⟩, 1)] := by decide
/-- with creation 7 assigned: new pids carry it, the counters go on -/
example : ((reach (Sh.new 1) 0 (reqSteps 0 ++ [.start 7] ++ reqSteps 1)).callers 1).key = ⟨2, 0, 7⟩ ∧
    ((reach (Sh.new 1) 0 (reqSteps 0 ++ [.start 7] ++ reqSteps 1)).callers 0).key = ⟨1, 0, 1⟩ := by decide

/-- Every use of the node's allocator and of its creation cell anywhere in node.rs, as the translator lists them, is a
part of the model: the allocator is built once (`with_hidden`), `start` calls `set_creation` on it (it does not replace
it: an assignment would be listed as `start:=new` / `=?`), and `allocate` is called by `spawn`, `send_remote` and
`rpc_call_raw_with_timeout` only (`spawnProc`, `otherAlloc`, `begin`). `self.creation` is stored by `start` and read by
`make_reference` / `creation()`; no call reads it. -/
theorem C17_allocator_uses_as_in_source :
    Gen.NODE_PID_ALLOCATOR_USES = ["struct::field", "with_hidden:let=new", "with_hidden:,init", "start:.set_creation()",
      "spawn:.allocate()", "send_remote:.allocate()", "rpc_call_raw_with_timeout:.allocate()"] ∧
    Gen.NODE_CREATION_USES = ["start:.store()", "make_reference:.load()", "creation:.load()"] ∧
    (∀ u ∈ Gen.NODE_PID_ALLOCATOR_USES, (allocUseStep u).isSome = true) ∧
    (∀ u ∈ Gen.NODE_CREATION_USES, (creationUseStep u).isSome = true) ∧
    (∀ (s : St) (c : Nat), step s (.start c) = some { s with alloc := s.alloc.setCreation c }) := by
  refine ⟨by decide, by decide, by decide, by decide, fun _ _ => rfl⟩

example : allocUseStep "start:=new" = none ∧ allocUseStep "start:.set_creation()" = some "start" := by decide

/-! ## the key text -/

/-- The real table is keyed by the text `"{id}.{serial}.{creation}"`. Different triples have different texts, so keying
the model's table by the triple loses nothing (and two calls share an entry only if their triples are equal). -/
theorem C17_key_text_injective (p q : Pid) (h : keyText p = keyText q) : p = q := keyText_inj h

example : keyText ⟨12, 0, 345⟩ = "12.0.345" := by decide

end Edp.Props.C17

namespace Edp.Props.C17
open Edp Edp.Impl Edp.Impl.Rpc

/-! ## where a call's reply pid comes from -/

/-- The model's `begin` step draws the reply pid of a call from the node's allocator, once per call, and from nowhere
else.  Regenerated from node.rs: `reply_to_pid` is bound exactly once, to `self.pid_allocator.allocate().expect(_)`; the
function touches no other part of the node than the allocator, the table of outstanding calls and the table of
connections; and the node has no field besides the eleven the models of C16–C19 know (a pool or cache of reply pids — a
later call picking up the pid of an answered one, whose late duplicate reply it would then take for its own — is a new
field, another initializer, or another `self.` access). -/
theorem C17_reply_pid_is_one_fresh_allocation_per_call :
    Gen.RPC_REPLY_PID_INIT = "self.pid_allocator.allocate().expect(_)" ∧
    Gen.RPC_SELF_FIELDS = ["pid_allocator", "pending_rpcs", "connections"] ∧
    Gen.NODE_FIELDS = ["name", "cookie", "creation", "pid_allocator", "reference_counter", "registry", "connections",
      "pending_rpcs", "started", "listen_port", "hidden"] ∧
    (Gen.RPC_CALL_STEPS.filter (· == "allocate")).length = 1 := by
  decide

example : Gen.RPC_CALL_STEPS.head? = some "allocate" := by decide

end Edp.Props.C17
