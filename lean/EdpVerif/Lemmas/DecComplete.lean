import EdpVerif.Lemmas.Refine
import EdpVerif.Spec.EtfLimits
/-! Completeness of the decoder model (C03): every byte string the independent reader `Spec.parse` accepts and that
stays within the library's published limits (`Spec.within`, Spec/EtfLimits.lean) is accepted by the decoder, which
stops at the same byte.  One lemma per tag; `dec_complete` dispatches.  The value is then given by `dec_agrees`. -/
set_option linter.unusedSectionVars false
namespace Edp
open Term

/-- the induction hypothesis at one fuel level: the reader's fuel `f'` may be anything up to the decoder's -/
def CompT (x : Ext) (cfg : DecCfg) (env : Spec.Env) (fuel : Nat) : Prop :=
  ∀ f' d bs v r, f' ≤ fuel → Spec.parse env f' bs = some (v, r) → Spec.within env f' d bs = true →
    ∃ t, dec x cfg fuel d bs = .ok (t, r)
def CompN (x : Ext) (cfg : DecCfg) (env : Spec.Env) (fuel : Nat) : Prop :=
  ∀ f' d n bs vs r, f' ≤ fuel → Spec.parseN env f' n bs = some (vs, r) → Spec.withinN env f' d n bs = true →
    ∃ ts, decN x cfg fuel d n bs = .ok (ts, r)
def CompKV (x : Ext) (cfg : DecCfg) (env : Spec.Env) (fuel : Nat) : Prop :=
  ∀ f' d n bs ps r acc, f' ≤ fuel → Spec.parseKV env f' n bs = some (ps, r) → Spec.withinKV env f' d n bs = true →
    ∃ m, decKV x cfg fuel d n bs acc = .ok (m, r)

variable {x : Ext} {cfg : DecCfg} {env : Spec.Env} {fuel : Nat}

/-- a term that the reader accepted at depth `d` within the limits starts at a depth the decoder allows -/
theorem within_depth {f' d : Nat} {bs : Bytes} {v : Value} {r : Bytes}
    (h2 : Spec.parse env f' bs = some (v, r)) (hw : Spec.within env f' d bs = true) : d ≤ MAX_NESTING_DEPTH := by
  cases f' with
  | zero => simp [Spec.parse] at h2
  | succ f' =>
    cases bs with
    | nil => simp [Spec.parse] at h2
    | cons t bs =>
      rw [Spec.within.eq_3] at hw
      simp only [Bool.and_eq_true, decide_eq_true_eq] at hw
      simpa [Gen.MAX_NESTING_DEPTH, MAX_NESTING_DEPTH] using hw.1

/-! ### shape of what the decoder returns for the prescribed field forms -/

theorem decAtomBody_shape {k : Nat} {bs : Bytes} {t : Term} {r : Bytes} (h : decAtomBody k bs = .ok (t, r)) :
    ∃ n, t = .atom n := by
  unfold decAtomBody at h
  split at h
  · simp at h
  · split at h
    · simp at h
    · split at h
      · simp at h
      · split at h
        · simp at h; exact ⟨_, h.1.symm⟩
        · simp at h

theorem decLatin1Body_shape {k : Nat} {bs : Bytes} {t : Term} {r : Bytes} (h : decLatin1Body k bs = .ok (t, r)) :
    ∃ n, t = .atom n := by
  unfold decLatin1Body at h
  split at h
  · simp at h
  · split at h
    · simp at h
    · split at h
      · simp at h
      · simp at h; exact ⟨_, h.1.symm⟩

theorem dec_atomTag {f d : Nat} {bs : Bytes} {t : Term} {r : Bytes} (ha : Spec.atomTag bs = true)
    (h : dec x cfg f d bs = .ok (t, r)) : ∃ n, t = .atom n := by
  cases f with
  | zero => simp [dec] at h
  | succ f =>
    cases bs with
    | nil => simp [dec] at h
    | cons tg bs =>
      simp only [Spec.atomTag, Bool.or_eq_true, beq_iff_eq] at ha
      rw [dec.eq_3] at h
      split at h
      · simp at h
      split at h
      · simp at h
      rcases ha with (((ha | ha) | ha) | ha) | ha <;> simp only [ha] at h
      · exact decLatin1Body_shape h
      · exact decLatin1Body_shape h
      · exact decAtomBody_shape h
      · exact decAtomBody_shape h
      · split at h
        · simp at h
        · split at h
          · simp at h; exact ⟨_, h.1.symm⟩
          · simp at h

theorem dec_intTag {f d : Nat} {bs : Bytes} {t : Term} {r : Bytes} (ha : Spec.intTag bs = true)
    (h : dec x cfg f d bs = .ok (t, r)) : ∃ i, t = .int i := by
  cases f with
  | zero => simp [dec] at h
  | succ f =>
    cases bs with
    | nil => simp [dec] at h
    | cons tg bs =>
      simp only [Spec.intTag, Bool.or_eq_true, beq_iff_eq] at ha
      rw [dec.eq_3] at h
      split at h
      · simp at h
      split at h
      · simp at h
      rcases ha with ha | ha <;> simp only [ha] at h
      · split at h
        · simp at h; exact ⟨_, h.1.symm⟩
        · simp at h
      · split at h
        · simp at h; exact ⟨_, h.1.symm⟩
        · simp at h

theorem dec_pidTag {f d : Nat} {bs : Bytes} {t : Term} {r : Bytes} (ha : Spec.pidTag bs = true)
    (h : dec x cfg f d bs = .ok (t, r)) : ∃ p, t = .pid p := by
  cases f with
  | zero => simp [dec] at h
  | succ f =>
    cases bs with
    | nil => simp [dec] at h
    | cons tg bs =>
      simp only [Spec.pidTag, Bool.or_eq_true, beq_iff_eq] at ha
      rw [dec.eq_3] at h
      split at h
      · simp at h
      split at h
      · simp at h
      rcases ha with ha | ha <;> simp only [ha] at h <;> (repeat' split at h) <;> simp at h <;> exact ⟨_, h.1.symm⟩

/-- a SMALL_INTEGER_EXT / INTEGER_EXT field is within the limits as soon as its depth is -/
theorem within_intTag {f' d : Nat} {bs : Bytes} {v : Value} {r : Bytes} (hi : Spec.intTag bs = true)
    (hp : Spec.parse env f' bs = some (v, r)) (hd : d ≤ MAX_NESTING_DEPTH) : Spec.within env f' d bs = true := by
  cases f' with
  | zero => simp [Spec.parse] at hp
  | succ f'' =>
    cases bs with
    | nil => simp [Spec.parse] at hp
    | cons tg tl =>
      simp only [Spec.intTag, Bool.or_eq_true, beq_iff_eq] at hi
      rw [Spec.within.eq_3]
      have hd' : d ≤ 256 := by simpa [MAX_NESTING_DEPTH] using hd
      rcases hi with hi | hi <;> simp [hi, Gen.MAX_NESTING_DEPTH] <;> exact decide_eq_true hd'

/-! ### one lemma per tag -/

set_option hygiene false in
macro "open_comp" n:num : tactic => `(tactic| (
  rw [Spec.parse.eq_3] at h2; rw [dec.eq_3]
  simp only [show ($n : UInt8).toNat = $n by decide] at h2 ⊢
  rw [if_neg (show ¬ d > MAX_NESTING_DEPTH by omega)]
  simp only [hb, Bool.false_and, Bool.false_eq_true, if_false]))

section
variable (hb : cfg.borrowed = false) {f' d : Nat} {bs : Bytes} {v : Value} {r : Bytes} (hd : d ≤ MAX_NESTING_DEPTH)
include hb hd

theorem comp_97 (h2 : Spec.parse env (f' + 1) (97 :: bs) = some (v, r)) :
    ∃ t, dec x cfg (fuel + 1) d (97 :: bs) = .ok (t, r) := by
  open_comp 97
  cases hr : rdN 1 bs with
  | none => simp [hr] at h2
  | some p => obtain ⟨a, b⟩ := p; simp [hr] at h2; simp [rdU, hr, h2.2]

theorem comp_98 (h2 : Spec.parse env (f' + 1) (98 :: bs) = some (v, r)) :
    ∃ t, dec x cfg (fuel + 1) d (98 :: bs) = .ok (t, r) := by
  open_comp 98
  cases hr : rdN 4 bs with
  | none => simp [hr] at h2
  | some p => obtain ⟨a, b⟩ := p; simp [hr] at h2; simp [rdU, hr, h2.2]

theorem comp_70 (h2 : Spec.parse env (f' + 1) (70 :: bs) = some (v, r)) :
    ∃ t, dec x cfg (fuel + 1) d (70 :: bs) = .ok (t, r) := by
  open_comp 70
  cases hr : rdN 8 bs with
  | none => simp [hr] at h2
  | some p =>
    obtain ⟨a, b⟩ := p
    simp only [hr] at h2
    split at h2
    · simp at h2
    · simp at h2; simp [rdU, hr, h2.2]

theorem comp_106 (h2 : Spec.parse env (f' + 1) (106 :: bs) = some (v, r)) :
    ∃ t, dec x cfg (fuel + 1) d (106 :: bs) = .ok (t, r) := by
  open_comp 106
  simp at h2; simp [h2.2]

omit hb hd in
theorem comp_atomBody (k : Nat) (hk : k ≤ 2) {v : Value} (h2 : (match rdN k bs with
      | some (n, r) => match takeN n r with
        | some (a, r') => (utf8Decode a).map fun cps => (Value.atom cps, r')
        | none => none
      | none => none) = some (v, r)) : ∃ t, decAtomBody k bs = .ok (t, r) := by
  unfold decAtomBody
  cases hr : rdN k bs with
  | none => simp [hr] at h2
  | some p =>
    obtain ⟨n, b⟩ := p
    have hn := rdN_lt k bs n b hr
    have : 256 ^ k ≤ 65536 := by
      have : k = 0 ∨ k = 1 ∨ k = 2 := by omega
      rcases this with rfl | rfl | rfl <;> decide
    simp only [hr, rdU] at h2 ⊢
    rw [if_neg (by simp [MAX_ATOM_SIZE]; omega)]
    cases ht : takeN n b with
    | none => simp [ht] at h2
    | some q =>
      obtain ⟨a, b'⟩ := q
      simp only [ht, takeE] at h2 ⊢
      cases hu : utf8Decode a with
      | none => simp [hu] at h2
      | some c => simp [hu] at h2; simp [validUtf8, hu, h2.2]

theorem comp_119 (h2 : Spec.parse env (f' + 1) (119 :: bs) = some (v, r)) :
    ∃ t, dec x cfg (fuel + 1) d (119 :: bs) = .ok (t, r) := by
  open_comp 119
  exact comp_atomBody 1 (by omega) h2

theorem comp_118 (h2 : Spec.parse env (f' + 1) (118 :: bs) = some (v, r)) :
    ∃ t, dec x cfg (fuel + 1) d (118 :: bs) = .ok (t, r) := by
  open_comp 118
  exact comp_atomBody 2 (by omega) h2

omit hb hd in
theorem comp_latin1Body (k : Nat) (hk : k ≤ 2) {v : Value} (h2 : (match rdN k bs with
      | some (n, r) => (takeN n r).map fun (a, r') => (Value.atom (Spec.latin1 a), r')
      | none => none) = some (v, r)) : ∃ t, decLatin1Body k bs = .ok (t, r) := by
  unfold decLatin1Body
  cases hr : rdN k bs with
  | none => simp [hr] at h2
  | some p =>
    obtain ⟨n, b⟩ := p
    have hn := rdN_lt k bs n b hr
    have : 256 ^ k ≤ 65536 := by
      have : k = 0 ∨ k = 1 ∨ k = 2 := by omega
      rcases this with rfl | rfl | rfl <;> decide
    simp only [hr, rdU] at h2 ⊢
    rw [if_neg (by simp [MAX_ATOM_SIZE]; omega)]
    cases ht : takeN n b with
    | none => simp [ht] at h2
    | some q =>
      obtain ⟨a, b'⟩ := q
      simp [ht, takeE] at h2 ⊢
      simp [h2.2]

theorem comp_115 (h2 : Spec.parse env (f' + 1) (115 :: bs) = some (v, r)) :
    ∃ t, dec x cfg (fuel + 1) d (115 :: bs) = .ok (t, r) := by
  open_comp 115
  exact comp_latin1Body 1 (by omega) h2

theorem comp_100 (h2 : Spec.parse env (f' + 1) (100 :: bs) = some (v, r)) :
    ∃ t, dec x cfg (fuel + 1) d (100 :: bs) = .ok (t, r) := by
  open_comp 100
  exact comp_latin1Body 2 (by omega) h2

omit hb hd in
theorem comp_bigBody (k : Nat) {v : Value} (h2 : (match rdN k bs with
      | some (n, r) => match rdN 1 r with
        | some (s, r1) => (takeN n r1).map fun (d, r2) => (Value.int (if s != 0 then -(Spec.leVal d : Int) else Spec.leVal d), r2)
        | none => none
      | none => none) = some (v, r)) : ∃ t, decBig k bs = .ok (t, r) := by
  unfold decBig
  cases hr : rdN k bs with
  | none => simp [hr] at h2
  | some p =>
    obtain ⟨n, b⟩ := p
    simp only [hr, rdU] at h2 ⊢
    cases hs : rdN 1 b with
    | none => simp [hs] at h2
    | some q =>
      obtain ⟨sg, b1⟩ := q
      simp only [hs] at h2 ⊢
      cases ht : takeN n b1 with
      | none => simp [ht] at h2
      | some q =>
        obtain ⟨a, b'⟩ := q
        simp [ht, takeE] at h2 ⊢
        simp [h2.2]

theorem comp_110 (h2 : Spec.parse env (f' + 1) (110 :: bs) = some (v, r)) :
    ∃ t, dec x cfg (fuel + 1) d (110 :: bs) = .ok (t, r) := by
  open_comp 110
  exact comp_bigBody 1 h2

theorem comp_111 (h2 : Spec.parse env (f' + 1) (111 :: bs) = some (v, r)) :
    ∃ t, dec x cfg (fuel + 1) d (111 :: bs) = .ok (t, r) := by
  open_comp 111
  exact comp_bigBody 4 h2

theorem comp_107 (h2 : Spec.parse env (f' + 1) (107 :: bs) = some (v, r)) :
    ∃ t, dec x cfg (fuel + 1) d (107 :: bs) = .ok (t, r) := by
  open_comp 107
  cases hr : rdN 2 bs with
  | none => simp [hr] at h2
  | some p =>
    obtain ⟨n, b⟩ := p
    simp only [hr, rdU] at h2 ⊢
    cases ht : takeN n b with
    | none => simp [ht] at h2
    | some q =>
      obtain ⟨a, b'⟩ := q
      simp [ht, takeE] at h2 ⊢
      simp [h2.2]

theorem comp_82 (hcache : ∀ i c, env.refs[i]? = some c → ∃ a, cfg.cache.lookup i = some a)
    (h2 : Spec.parse env (f' + 1) (82 :: bs) = some (v, r)) :
    ∃ t, dec x cfg (fuel + 1) d (82 :: bs) = .ok (t, r) := by
  open_comp 82
  cases hr : rdN 1 bs with
  | none => simp [hr] at h2
  | some p =>
    obtain ⟨i, b⟩ := p
    simp only [hr, rdU] at h2 ⊢
    cases hc : env.refs[i]? with
    | none => simp [hc] at h2
    | some c =>
      obtain ⟨a, ha⟩ := hcache i c hc
      simp [hc] at h2
      simp [ha, h2.2]

theorem comp_99 (hfc : ∀ f b, Spec.parseFloatText f = some b → validUtf8 f = true ∧ ∃ b', x.parseFloat f = some b')
    (h2 : Spec.parse env (f' + 1) (99 :: bs) = some (v, r)) :
    ∃ t, dec x cfg (fuel + 1) d (99 :: bs) = .ok (t, r) := by
  open_comp 99
  cases ht : takeN 31 bs with
  | none => simp [ht] at h2
  | some q =>
    obtain ⟨f, b'⟩ := q
    simp only [ht, takeE] at h2 ⊢
    cases hp : Spec.parseFloatText f with
    | none => simp [hp] at h2
    | some b =>
      obtain ⟨hv, b2, hb2⟩ := hfc f b hp
      simp [hp] at h2
      simp [hv, hb2, h2.2]

/-! the two tags with a byte limit -/

theorem comp_109 (h2 : Spec.parse env (f' + 1) (109 :: bs) = some (v, r))
    (hw : Spec.within env (f' + 1) d (109 :: bs) = true) :
    ∃ t, dec x cfg (fuel + 1) d (109 :: bs) = .ok (t, r) := by
  rw [Spec.within.eq_3] at hw
  simp only [show (109 : UInt8).toNat = 109 by decide] at hw
  open_comp 109
  cases hr : rdN 4 bs with
  | none => simp [hr] at h2
  | some p =>
    obtain ⟨n, b⟩ := p
    simp only [hr, rdU] at h2 hw ⊢
    simp only [Bool.and_eq_true, decide_eq_true_eq] at hw
    rw [if_neg (by have := hw.2; simp [Gen.MAX_BINARY_SIZE] at this; simp [MAX_BINARY_SIZE]; omega)]
    cases ht : takeN n b with
    | none => simp [ht] at h2
    | some q =>
      obtain ⟨a, b'⟩ := q
      simp [ht, takeE] at h2 ⊢
      simp [h2.2]

theorem comp_77 (h2 : Spec.parse env (f' + 1) (77 :: bs) = some (v, r))
    (hw : Spec.within env (f' + 1) d (77 :: bs) = true) :
    ∃ t, dec x cfg (fuel + 1) d (77 :: bs) = .ok (t, r) := by
  rw [Spec.within.eq_3] at hw
  simp only [show (77 : UInt8).toNat = 77 by decide] at hw
  open_comp 77
  cases hr : rdN 4 bs with
  | none => simp [hr] at h2
  | some p =>
    obtain ⟨n, b⟩ := p
    simp only [hr, rdU] at h2 hw ⊢
    simp only [Bool.and_eq_true, decide_eq_true_eq] at hw
    rw [if_neg (by have := hw.2; simp [Gen.MAX_BINARY_SIZE] at this; simp [MAX_BINARY_SIZE]; omega)]
    cases hs : rdN 1 b with
    | none => simp [hs] at h2
    | some q =>
      obtain ⟨bits, b1⟩ := q
      simp only [hs] at h2 ⊢
      split at h2
      · simp at h2
      · rename_i hc
        simp only [Bool.or_eq_true, not_or, Bool.not_eq_true] at hc
        cases ht : takeN n b1 with
        | none => simp [ht] at h2
        | some q =>
          obtain ⟨a, b'⟩ := q
          simp [ht, takeE] at h2 ⊢
          simp at hc
          have h1 : ¬ (bits = 0 ∨ 8 < bits) := by omega
          have h3 : ¬ (n = 0 ∧ ¬ bits = 8) := by intro hh; exact hh.2 (hc.2 hh.1)
          rw [if_neg h1, if_neg h3]
          exact ⟨_, by rw [h2.2]⟩

/-! containers -/

variable (hf : f' ≤ fuel)
include hf

set_option hygiene false in
macro "open_within" n:num : tactic => `(tactic| (
  rw [Spec.within.eq_3] at hw
  simp only [show ($n : UInt8).toNat = $n by decide] at hw))

variable (ih : CompT x cfg env fuel)
include ih

theorem comp_88 (h2 : Spec.parse env (f' + 1) (88 :: bs) = some (v, r))
    (hw : Spec.within env (f' + 1) d (88 :: bs) = true) :
    ∃ t, dec x cfg (fuel + 1) d (88 :: bs) = .ok (t, r) := by
  open_within 88
  open_comp 88
  simp only [Bool.and_eq_true] at hw
  cases hp : Spec.parse env f' bs with
  | none => simp [hp] at h2
  | some q =>
    obtain ⟨nv, r0⟩ := q
    obtain ⟨t0, ht0⟩ := ih f' (d + 1) bs nv r0 hf hp hw.2.2
    obtain ⟨nn, rfl⟩ := dec_atomTag hw.2.1 ht0
    simp only [hp] at h2
    simp only [ht0, rdU]
    split at h2
    · rename_i node rr heq
      simp at heq
      obtain ⟨rfl, rfl⟩ := heq
      split at h2
      · rename_i hq0
        simp only [hq0]
        split at h2
        · rename_i hq1
          simp only [hq1]
          simp only [Option.map_eq_some_iff] at h2
          obtain ⟨p, hl, hv⟩ := h2
          simp at hv
          simp [hl, hv.2]
        · simp at h2
      · simp at h2
    · simp at h2

theorem comp_103 (h2 : Spec.parse env (f' + 1) (103 :: bs) = some (v, r))
    (hw : Spec.within env (f' + 1) d (103 :: bs) = true) :
    ∃ t, dec x cfg (fuel + 1) d (103 :: bs) = .ok (t, r) := by
  open_within 103
  open_comp 103
  simp only [Bool.and_eq_true] at hw
  cases hp : Spec.parse env f' bs with
  | none => simp [hp] at h2
  | some q =>
    obtain ⟨nv, r0⟩ := q
    obtain ⟨t0, ht0⟩ := ih f' (d + 1) bs nv r0 hf hp hw.2.2
    obtain ⟨nn, rfl⟩ := dec_atomTag hw.2.1 ht0
    simp only [hp] at h2
    simp only [ht0, rdU]
    split at h2
    · rename_i node rr heq
      simp at heq
      obtain ⟨rfl, rfl⟩ := heq
      split at h2
      · rename_i hq0
        simp only [hq0]
        split at h2
        · rename_i hq1
          simp only [hq1]
          simp only [Option.map_eq_some_iff] at h2
          obtain ⟨p, hl, hv⟩ := h2
          simp at hv
          simp [hl, hv.2]
        · simp at h2
      · simp at h2
    · simp at h2

theorem comp_120 (h2 : Spec.parse env (f' + 1) (120 :: bs) = some (v, r))
    (hw : Spec.within env (f' + 1) d (120 :: bs) = true) :
    ∃ t, dec x cfg (fuel + 1) d (120 :: bs) = .ok (t, r) := by
  open_within 120
  open_comp 120
  simp only [Bool.and_eq_true] at hw
  cases hp : Spec.parse env f' bs with
  | none => simp [hp] at h2
  | some q =>
    obtain ⟨nv, r0⟩ := q
    obtain ⟨t0, ht0⟩ := ih f' (d + 1) bs nv r0 hf hp hw.2.2
    obtain ⟨nn, rfl⟩ := dec_atomTag hw.2.1 ht0
    simp only [hp] at h2
    simp only [ht0, rdU]
    split at h2
    · rename_i node rr heq
      simp at heq
      obtain ⟨rfl, rfl⟩ := heq
      split at h2
      · rename_i hq0
        simp only [hq0]
        simp only [Option.map_eq_some_iff] at h2
        obtain ⟨p, hl, hv⟩ := h2
        simp at hv
        simp [hl, hv.2]
      · simp at h2
    · simp at h2

theorem comp_89 (h2 : Spec.parse env (f' + 1) (89 :: bs) = some (v, r))
    (hw : Spec.within env (f' + 1) d (89 :: bs) = true) :
    ∃ t, dec x cfg (fuel + 1) d (89 :: bs) = .ok (t, r) := by
  open_within 89
  open_comp 89
  simp only [Bool.and_eq_true] at hw
  cases hp : Spec.parse env f' bs with
  | none => simp [hp] at h2
  | some q =>
    obtain ⟨nv, r0⟩ := q
    obtain ⟨t0, ht0⟩ := ih f' (d + 1) bs nv r0 hf hp hw.2.2
    obtain ⟨nn, rfl⟩ := dec_atomTag hw.2.1 ht0
    simp only [hp] at h2
    simp only [ht0, rdU]
    split at h2
    · rename_i node rr heq
      simp at heq
      obtain ⟨rfl, rfl⟩ := heq
      split at h2
      · rename_i hq0
        simp only [hq0]
        simp only [Option.map_eq_some_iff] at h2
        obtain ⟨p, hl, hv⟩ := h2
        simp at hv
        simp [hl, hv.2]
      · simp at h2
    · simp at h2

theorem comp_102 (h2 : Spec.parse env (f' + 1) (102 :: bs) = some (v, r))
    (hw : Spec.within env (f' + 1) d (102 :: bs) = true) :
    ∃ t, dec x cfg (fuel + 1) d (102 :: bs) = .ok (t, r) := by
  open_within 102
  open_comp 102
  simp only [Bool.and_eq_true] at hw
  cases hp : Spec.parse env f' bs with
  | none => simp [hp] at h2
  | some q =>
    obtain ⟨nv, r0⟩ := q
    obtain ⟨t0, ht0⟩ := ih f' (d + 1) bs nv r0 hf hp hw.2.2
    obtain ⟨nn, rfl⟩ := dec_atomTag hw.2.1 ht0
    simp only [hp] at h2
    simp only [ht0, rdU]
    split at h2
    · rename_i node rr heq
      simp at heq
      obtain ⟨rfl, rfl⟩ := heq
      split at h2
      · rename_i hq0
        simp only [hq0]
        simp only [Option.map_eq_some_iff] at h2
        obtain ⟨p, hl, hv⟩ := h2
        simp at hv
        simp [hl, hv.2]
      · simp at h2
    · simp at h2

theorem comp_101 (h2 : Spec.parse env (f' + 1) (101 :: bs) = some (v, r))
    (hw : Spec.within env (f' + 1) d (101 :: bs) = true) :
    ∃ t, dec x cfg (fuel + 1) d (101 :: bs) = .ok (t, r) := by
  open_within 101
  open_comp 101
  simp only [Bool.and_eq_true] at hw
  cases hp : Spec.parse env f' bs with
  | none => simp [hp] at h2
  | some q =>
    obtain ⟨nv, r0⟩ := q
    obtain ⟨t0, ht0⟩ := ih f' (d + 1) bs nv r0 hf hp hw.2.2
    obtain ⟨nn, rfl⟩ := dec_atomTag hw.2.1 ht0
    simp only [hp] at h2
    simp only [ht0, rdU]
    split at h2
    · rename_i node rr heq
      simp at heq
      obtain ⟨rfl, rfl⟩ := heq
      split at h2
      · rename_i hq0
        simp only [hq0]
        simp only [Option.map_eq_some_iff] at h2
        obtain ⟨p, hl, hv⟩ := h2
        simp at hv
        simp [hl, hv.2]
      · simp at h2
    · simp at h2

theorem comp_90 (h2 : Spec.parse env (f' + 1) (90 :: bs) = some (v, r))
    (hw : Spec.within env (f' + 1) d (90 :: bs) = true) :
    ∃ t, dec x cfg (fuel + 1) d (90 :: bs) = .ok (t, r) := by
  open_within 90
  open_comp 90
  cases hr : rdN 2 bs with
  | none => simp [hr] at h2
  | some pl =>
    obtain ⟨len, b0⟩ := pl
    simp only [hr, rdU] at h2 hw ⊢
    simp only [Bool.and_eq_true] at hw
    cases hp : Spec.parse env f' b0 with
    | none => simp [hp] at h2
    | some q =>
      obtain ⟨nv, r0⟩ := q
      obtain ⟨t0, ht0⟩ := ih f' (d + 1) b0 nv r0 hf hp hw.2.2
      obtain ⟨nn, rfl⟩ := dec_atomTag hw.2.1 ht0
      simp only [hp] at h2
      simp only [ht0]
      split at h2
      · rename_i node rr heq
        simp at heq
        obtain ⟨rfl, rfl⟩ := heq
        split at h2
        · rename_i hq0
          simp only [hq0, rdWords_spec]
          simp only [Option.map_eq_some_iff] at h2
          obtain ⟨p, hl, hv⟩ := h2
          simp at hv
          simp [hl, hv.2]
        · simp at h2
      · simp at h2

theorem comp_114 (h2 : Spec.parse env (f' + 1) (114 :: bs) = some (v, r))
    (hw : Spec.within env (f' + 1) d (114 :: bs) = true) :
    ∃ t, dec x cfg (fuel + 1) d (114 :: bs) = .ok (t, r) := by
  open_within 114
  open_comp 114
  cases hr : rdN 2 bs with
  | none => simp [hr] at h2
  | some pl =>
    obtain ⟨len, b0⟩ := pl
    simp only [hr, rdU] at h2 hw ⊢
    simp only [Bool.and_eq_true] at hw
    cases hp : Spec.parse env f' b0 with
    | none => simp [hp] at h2
    | some q =>
      obtain ⟨nv, r0⟩ := q
      obtain ⟨t0, ht0⟩ := ih f' (d + 1) b0 nv r0 hf hp hw.2.2
      obtain ⟨nn, rfl⟩ := dec_atomTag hw.2.1 ht0
      simp only [hp] at h2
      simp only [ht0]
      split at h2
      · rename_i node rr heq
        simp at heq
        obtain ⟨rfl, rfl⟩ := heq
        split at h2
        · rename_i hq0
          simp only [hq0, rdWords_spec]
          simp only [Option.map_eq_some_iff] at h2
          obtain ⟨p, hl, hv⟩ := h2
          simp at hv
          simp [hl, hv.2]
        · simp at h2
      · simp at h2

theorem comp_121 (h2 : Spec.parse env (f' + 1) (121 :: bs) = some (v, r))
    (hw : Spec.within env (f' + 1) d (121 :: bs) = true) :
    ∃ t, dec x cfg (fuel + 1) d (121 :: bs) = .ok (t, r) := by
  open_within 121
  open_comp 121
  cases hr : rdN 8 bs with
  | none => simp [hr] at h2
  | some pl =>
    obtain ⟨hash, b0⟩ := pl
    simp only [hr, rdU] at h2 hw ⊢
    simp only [Bool.and_eq_true] at hw
    obtain ⟨t0, ht0⟩ := ih f' (d + 1) b0 v r hf h2 hw.2
    simp only [ht0]
    cases t0 <;> simp

theorem comp_113 (agr : AgreeT x cfg env fuel) (h2 : Spec.parse env (f' + 1) (113 :: bs) = some (v, r))
    (hw : Spec.within env (f' + 1) d (113 :: bs) = true) :
    ∃ t, dec x cfg (fuel + 1) d (113 :: bs) = .ok (t, r) := by
  open_within 113
  open_comp 113
  simp only [Bool.and_eq_true] at hw
  obtain ⟨hw0, ⟨hwa, hwm⟩, hw⟩ := hw
  cases hp : Spec.parse env f' bs with
  | none => simp [hp] at h2
  | some q =>
    obtain ⟨mv, r0⟩ := q
    obtain ⟨t0, ht0⟩ := ih f' (d + 1) bs mv r0 hf hp hwm
    obtain ⟨mm, rfl⟩ := dec_atomTag hwa ht0
    have hd1 := within_depth hp hwm
    simp only [hp] at h2 hw
    simp only [ht0]
    split at h2
    · rename_i m rr heq
      simp at heq
      obtain ⟨rfl, rfl⟩ := heq
      cases hp1 : Spec.parse env f' r0 with
      | none => simp [hp1] at h2
      | some q =>
        obtain ⟨fv, r1⟩ := q
        simp only [hp1, Bool.and_eq_true] at h2 hw
        obtain ⟨t1, ht1⟩ := ih f' (d + 1) r0 fv r1 hf hp1 hw.1.2
        obtain ⟨ff, rfl⟩ := dec_atomTag hw.1.1 ht1
        simp only [ht1]
        split at h2
        · rename_i f rr heq
          simp at heq
          obtain ⟨rfl, rfl⟩ := heq
          cases hp2 : Spec.parse env f' r1 with
          | none => simp [hp2] at h2
          | some q =>
            obtain ⟨av, r2⟩ := q
            simp only [hp2] at h2 hw
            have hwi : Spec.within env f' (d + 1) r1 = true := by
              cases f' with
              | zero => simp [Spec.parse] at hp2
              | succ f'' =>
                cases r1 with
                | nil => simp [Spec.parse] at hp2
                | cons tg tl =>
                  have hi := hw.2
                  simp only [Spec.intTag, Bool.or_eq_true, beq_iff_eq] at hi
                  rw [Spec.within.eq_3]
                  rcases hi with hi | hi <;> simp [hi, Gen.MAX_NESTING_DEPTH] <;> simpa [MAX_NESTING_DEPTH] using hd1
            obtain ⟨t2, ht2⟩ := ih f' (d + 1) r1 av r2 hf hp2 hwi
            obtain ⟨ai, rfl⟩ := dec_intTag hw.2 ht2
            obtain ⟨_, hav⟩ := agree_int agr ht2 hp2
            subst hav
            simp only [ht2]
            simp only at h2
            split at h2
            · rename_i hc
              simp at h2
              simp [hc, h2.2]
            · simp at h2
        · simp at h2
    · simp at h2

variable (ihN : CompN x cfg env fuel)
include ihN

theorem comp_104 (h2 : Spec.parse env (f' + 1) (104 :: bs) = some (v, r))
    (hw : Spec.within env (f' + 1) d (104 :: bs) = true) :
    ∃ t, dec x cfg (fuel + 1) d (104 :: bs) = .ok (t, r) := by
  open_within 104
  open_comp 104
  cases hr : rdN 1 bs with
  | none => simp [hr] at h2
  | some pl =>
    obtain ⟨n, b0⟩ := pl
    simp only [hr, rdU] at h2 hw ⊢
    simp only [Bool.and_eq_true] at hw
    cases hp : Spec.parseN env f' n b0 with
    | none => simp [hp] at h2
    | some q =>
      obtain ⟨vs, r1⟩ := q
      obtain ⟨ts, hts⟩ := ihN f' (d + 1) n b0 vs r1 hf hp hw.2
      simp [hp] at h2
      simp [hts, h2.2]

theorem comp_105 (h2 : Spec.parse env (f' + 1) (105 :: bs) = some (v, r))
    (hw : Spec.within env (f' + 1) d (105 :: bs) = true) :
    ∃ t, dec x cfg (fuel + 1) d (105 :: bs) = .ok (t, r) := by
  open_within 105
  open_comp 105
  cases hr : rdN 4 bs with
  | none => simp [hr] at h2
  | some pl =>
    obtain ⟨n, b0⟩ := pl
    simp only [hr, rdU] at h2 hw ⊢
    simp only [Bool.and_eq_true, decide_eq_true_eq] at hw
    rw [if_neg (by have := hw.2.1; simp [Gen.MAX_TUPLE_SIZE] at this; simp [MAX_TUPLE_SIZE]; omega)]
    cases hp : Spec.parseN env f' n b0 with
    | none => simp [hp] at h2
    | some q =>
      obtain ⟨vs, r1⟩ := q
      obtain ⟨ts, hts⟩ := ihN f' (d + 1) n b0 vs r1 hf hp hw.2.2
      simp [hp] at h2
      simp [hts, h2.2]

theorem comp_108 (h2 : Spec.parse env (f' + 1) (108 :: bs) = some (v, r))
    (hw : Spec.within env (f' + 1) d (108 :: bs) = true) :
    ∃ t, dec x cfg (fuel + 1) d (108 :: bs) = .ok (t, r) := by
  open_within 108
  open_comp 108
  cases hr : rdN 4 bs with
  | none => simp [hr] at h2
  | some pl =>
    obtain ⟨n, b0⟩ := pl
    simp only [hr, rdU] at h2 hw ⊢
    simp only [Bool.and_eq_true, decide_eq_true_eq] at hw
    rw [if_neg (by have := hw.2.1.1; simp [Gen.MAX_LIST_SIZE] at this; simp [MAX_LIST_SIZE]; omega)]
    cases hp : Spec.parseN env f' n b0 with
    | none => simp [hp] at h2
    | some q =>
      obtain ⟨vs, r1⟩ := q
      obtain ⟨ts, hts⟩ := ihN f' (d + 1) n b0 vs r1 hf hp hw.2.1.2
      simp only [hp] at h2 hw
      cases hq : Spec.parse env f' r1 with
      | none => simp [hq] at h2
      | some q2 =>
        obtain ⟨tv, r2⟩ := q2
        obtain ⟨tl, htl⟩ := ih f' (d + 1) r1 tv r2 hf hq hw.2.2
        simp [hq] at h2
        simp only [hts, htl]
        cases tl <;> simp [h2.2]

variable (ihKV : CompKV x cfg env fuel)
include ihKV

theorem comp_116 (h2 : Spec.parse env (f' + 1) (116 :: bs) = some (v, r))
    (hw : Spec.within env (f' + 1) d (116 :: bs) = true) :
    ∃ t, dec x cfg (fuel + 1) d (116 :: bs) = .ok (t, r) := by
  open_within 116
  open_comp 116
  cases hr : rdN 4 bs with
  | none => simp [hr] at h2
  | some pl =>
    obtain ⟨n, b0⟩ := pl
    simp only [hr, rdU] at h2 hw ⊢
    simp only [Bool.and_eq_true, decide_eq_true_eq] at hw
    rw [if_neg (by have := hw.2.1; simp [Gen.MAX_MAP_SIZE] at this; simp [MAX_MAP_SIZE]; omega)]
    cases hp : Spec.parseKV env f' n b0 with
    | none => simp [hp] at h2
    | some q =>
      obtain ⟨ps, r1⟩ := q
      obtain ⟨m, hm⟩ := ihKV f' (d + 1) n b0 ps r1 [] hf hp hw.2.2
      simp [hp] at h2
      simp [hm, h2.2]

theorem comp_112 (agr : AgreeT x cfg env fuel) (h2 : Spec.parse env (f' + 1) (112 :: bs) = some (v, r))
    (hw : Spec.within env (f' + 1) d (112 :: bs) = true) :
    ∃ t, dec x cfg (fuel + 1) d (112 :: bs) = .ok (t, r) := by
  open_within 112
  open_comp 112
  simp only [rdU, takeE]
  cases hr0 : rdN 4 bs with
  | none => simp [hr0] at h2
  | some pl =>
  obtain ⟨size, r0⟩ := pl
  simp only [hr0] at h2 hw ⊢
  split at h2
  · simp at h2
  cases hr1 : rdN 1 r0 with
  | none => simp [hr1] at h2
  | some pl =>
  obtain ⟨arity, r1⟩ := pl
  simp only [hr1] at h2 hw ⊢
  cases hr2 : takeN 16 r1 with
  | none => simp [hr2] at h2
  | some pl =>
  obtain ⟨uniq, r2⟩ := pl
  simp only [hr2] at h2 hw ⊢
  cases hr3 : rdN 4 r2 with
  | none => simp [hr3] at h2
  | some pl =>
  obtain ⟨index, r3⟩ := pl
  simp only [hr3] at h2 hw ⊢
  cases hr4 : rdN 4 r3 with
  | none => simp [hr4] at h2
  | some pl =>
  obtain ⟨nf, r4⟩ := pl
  simp only [hr4] at h2 hw ⊢
  simp only [Bool.and_eq_true] at hw
  obtain ⟨hw0, ⟨hwa, hwm⟩, hw⟩ := hw
  cases hp4 : Spec.parse env f' r4 with
  | none => simp [hp4] at h2
  | some q =>
  obtain ⟨mv, r5⟩ := q
  obtain ⟨t4, ht4⟩ := ih f' (d + 1) r4 mv r5 hf hp4 hwm
  obtain ⟨mm, rfl⟩ := dec_atomTag hwa ht4
  have hd1 := within_depth hp4 hwm
  simp only [hp4] at h2 hw
  simp only [ht4]
  split at h2
  rotate_left
  · simp at h2
  rename_i m rr heq
  simp at heq
  obtain ⟨rfl, rfl⟩ := heq
  cases hp5 : Spec.parse env f' r5 with
  | none => simp [hp5] at h2
  | some q =>
  obtain ⟨oiv, r6⟩ := q
  simp only [hp5, Bool.and_eq_true] at h2 hw
  obtain ⟨t5, ht5⟩ := ih f' (d + 1) r5 oiv r6 hf hp5 (within_intTag hw.1 hp5 hd1)
  obtain ⟨oi, rfl⟩ := dec_intTag hw.1 ht5
  obtain ⟨_, hoi⟩ := agree_int agr ht5 hp5
  subst hoi
  simp only [ht5]
  simp only at h2
  replace hw := hw.2
  cases hp6 : Spec.parse env f' r6 with
  | none => simp [hp6] at h2
  | some q =>
  obtain ⟨ouv, r7⟩ := q
  simp only [hp6, Bool.and_eq_true] at h2 hw
  obtain ⟨t6, ht6⟩ := ih f' (d + 1) r6 ouv r7 hf hp6 (within_intTag hw.1 hp6 hd1)
  obtain ⟨ou, rfl⟩ := dec_intTag hw.1 ht6
  obtain ⟨_, hou⟩ := agree_int agr ht6 hp6
  subst hou
  simp only at h2
  replace hw := hw.2
  cases hp7 : Spec.parse env f' r7 with
  | none => simp [hp7] at h2
  | some q =>
  obtain ⟨pv, r8⟩ := q
  simp only [hp7] at h2 hw
  obtain ⟨t7, ht7⟩ := ih f' (d + 1) r7 pv r8 hf hp7 hw.1.2
  obtain ⟨pp, rfl⟩ := dec_pidTag hw.1.1 ht7
  replace hw := hw.2
  split at h2
  rotate_left
  · simp at h2
  rename_i pn pi ps pc rr heq
  simp at heq
  obtain ⟨rfl, rfl⟩ := heq
  cases hp8 : Spec.parseN env f' nf r8 with
  | none => simp [hp8] at h2
  | some q =>
  obtain ⟨fr, r9⟩ := q
  simp only [hp8] at h2
  obtain ⟨ts, hts⟩ := ihN f' (d + 1) nf r8 fr r9 hf hp8 hw
  split at h2
  · simp at h2
  rename_i hc
  simp at hc
  simp at h2
  have h1 : ¬ oi < 0 := by omega
  have h3 : ¬ ou < 0 := by omega
  simp [h1, h3, ht6, ht7, hts, h2.2]


end

/-- every byte string the reader accepts within the limits is accepted by the decoder model, which stops at the same
byte — for ALL byte strings, all 30 tags the reader knows, every depth; the decoder's fuel may be anything from the
reader's upwards.  `hfc`: Rust's float parser accepts (and `from_utf8` passes) every FLOAT_EXT field the format's
`%.20e` reading accepts; `hcache`: every ATOM_CACHE_REF the reader resolves is in the decoder's cache. -/
theorem dec_complete (x : Ext) (cfg : DecCfg) (env : Spec.Env) (hb : cfg.borrowed = false)
    (hpf : ∀ f b b', x.parseFloat f = some b → Spec.parseFloatText f = some b' → b' = b)
    (hfc : ∀ f b, Spec.parseFloatText f = some b → validUtf8 f = true ∧ ∃ b', x.parseFloat f = some b')
    (hc1 : ∀ i a c, cfg.cache.lookup i = some a → env.refs[i]? = some c → c = cps a)
    (hcache : ∀ i c, env.refs[i]? = some c → ∃ a, cfg.cache.lookup i = some a) :
    ∀ fuel, CompT x cfg env fuel ∧ CompN x cfg env fuel ∧ CompKV x cfg env fuel := by
  intro fuel
  induction fuel with
  | zero =>
    refine ⟨?_, ?_, ?_⟩
    · intro f' d bs v r hf h2 _
      have : f' = 0 := by omega
      subst this; simp [Spec.parse] at h2
    · intro f' d n bs vs r hf h2 _
      have : f' = 0 := by omega
      subst this
      cases n with
      | zero => simp [Spec.parseN] at h2; simp [decN, h2.2]
      | succ n => simp [Spec.parseN] at h2
    · intro f' d n bs ps r acc hf h2 _
      have : f' = 0 := by omega
      subst this
      cases n with
      | zero => simp [Spec.parseKV] at h2; simp [decKV, h2.2]
      | succ n => simp [Spec.parseKV] at h2
  | succ fuel ihh =>
    obtain ⟨ih, ihN, ihKV⟩ := ihh
    have agr := (dec_agrees x cfg env hpf hc1 fuel).1
    refine ⟨?_, ?_, ?_⟩
    · intro f' d bs v r hf h2 hw
      cases f' with
      | zero => simp [Spec.parse] at h2
      | succ f' =>
      cases bs with
      | nil => simp [Spec.parse] at h2
      | cons tagB bs =>
        have hd := within_depth h2 hw
        have hf : f' ≤ fuel := by omega
        have h2' := h2
        rw [Spec.parse.eq_3] at h2'
        split at h2'
        · rename_i heq
          have ht : tagB = 97 := UInt8.toNat_inj.mp (by simpa using heq)
          subst ht
          exact comp_97 hb hd h2
        · rename_i heq
          have ht : tagB = 98 := UInt8.toNat_inj.mp (by simpa using heq)
          subst ht
          exact comp_98 hb hd h2
        · rename_i heq
          have ht : tagB = 110 := UInt8.toNat_inj.mp (by simpa using heq)
          subst ht
          exact comp_110 hb hd h2
        · rename_i heq
          have ht : tagB = 111 := UInt8.toNat_inj.mp (by simpa using heq)
          subst ht
          exact comp_111 hb hd h2
        · rename_i heq
          have ht : tagB = 70 := UInt8.toNat_inj.mp (by simpa using heq)
          subst ht
          exact comp_70 hb hd h2
        · rename_i heq
          have ht : tagB = 99 := UInt8.toNat_inj.mp (by simpa using heq)
          subst ht
          exact comp_99 hb hd hfc h2
        · rename_i heq
          have ht : tagB = 119 := UInt8.toNat_inj.mp (by simpa using heq)
          subst ht
          exact comp_119 hb hd h2
        · rename_i heq
          have ht : tagB = 118 := UInt8.toNat_inj.mp (by simpa using heq)
          subst ht
          exact comp_118 hb hd h2
        · rename_i heq
          have ht : tagB = 115 := UInt8.toNat_inj.mp (by simpa using heq)
          subst ht
          exact comp_115 hb hd h2
        · rename_i heq
          have ht : tagB = 100 := UInt8.toNat_inj.mp (by simpa using heq)
          subst ht
          exact comp_100 hb hd h2
        · rename_i heq
          have ht : tagB = 82 := UInt8.toNat_inj.mp (by simpa using heq)
          subst ht
          exact comp_82 hb hd hcache h2
        · rename_i heq
          have ht : tagB = 104 := UInt8.toNat_inj.mp (by simpa using heq)
          subst ht
          exact comp_104 hb hd hf ih ihN h2 hw
        · rename_i heq
          have ht : tagB = 105 := UInt8.toNat_inj.mp (by simpa using heq)
          subst ht
          exact comp_105 hb hd hf ih ihN h2 hw
        · rename_i heq
          have ht : tagB = 106 := UInt8.toNat_inj.mp (by simpa using heq)
          subst ht
          exact comp_106 hb hd h2
        · rename_i heq
          have ht : tagB = 107 := UInt8.toNat_inj.mp (by simpa using heq)
          subst ht
          exact comp_107 hb hd h2
        · rename_i heq
          have ht : tagB = 108 := UInt8.toNat_inj.mp (by simpa using heq)
          subst ht
          exact comp_108 hb hd hf ih ihN h2 hw
        · rename_i heq
          have ht : tagB = 109 := UInt8.toNat_inj.mp (by simpa using heq)
          subst ht
          exact comp_109 hb hd h2 hw
        · rename_i heq
          have ht : tagB = 77 := UInt8.toNat_inj.mp (by simpa using heq)
          subst ht
          exact comp_77 hb hd h2 hw
        · rename_i heq
          have ht : tagB = 116 := UInt8.toNat_inj.mp (by simpa using heq)
          subst ht
          exact comp_116 hb hd hf ih ihN ihKV h2 hw
        · rename_i heq
          have ht : tagB = 88 := UInt8.toNat_inj.mp (by simpa using heq)
          subst ht
          exact comp_88 hb hd hf ih h2 hw
        · rename_i heq
          have ht : tagB = 103 := UInt8.toNat_inj.mp (by simpa using heq)
          subst ht
          exact comp_103 hb hd hf ih h2 hw
        · rename_i heq
          have ht : tagB = 120 := UInt8.toNat_inj.mp (by simpa using heq)
          subst ht
          exact comp_120 hb hd hf ih h2 hw
        · rename_i heq
          have ht : tagB = 89 := UInt8.toNat_inj.mp (by simpa using heq)
          subst ht
          exact comp_89 hb hd hf ih h2 hw
        · rename_i heq
          have ht : tagB = 102 := UInt8.toNat_inj.mp (by simpa using heq)
          subst ht
          exact comp_102 hb hd hf ih h2 hw
        · rename_i heq
          have ht : tagB = 90 := UInt8.toNat_inj.mp (by simpa using heq)
          subst ht
          exact comp_90 hb hd hf ih h2 hw
        · rename_i heq
          have ht : tagB = 114 := UInt8.toNat_inj.mp (by simpa using heq)
          subst ht
          exact comp_114 hb hd hf ih h2 hw
        · rename_i heq
          have ht : tagB = 101 := UInt8.toNat_inj.mp (by simpa using heq)
          subst ht
          exact comp_101 hb hd hf ih h2 hw
        · rename_i heq
          have ht : tagB = 113 := UInt8.toNat_inj.mp (by simpa using heq)
          subst ht
          exact comp_113 hb hd hf ih agr h2 hw
        · rename_i heq
          have ht : tagB = 112 := UInt8.toNat_inj.mp (by simpa using heq)
          subst ht
          exact comp_112 hb hd hf ih ihN ihKV agr h2 hw
        · rename_i heq
          have ht : tagB = 121 := UInt8.toNat_inj.mp (by simpa using heq)
          subst ht
          exact comp_121 hb hd hf ih h2 hw
        · simp at h2'
    · intro f' d n bs vs r hf h2 hw
      cases n with
      | zero =>
        cases f' <;> simp [Spec.parseN] at h2 <;> simp [decN, h2.2]
      | succ n =>
        cases f' with
        | zero => simp [Spec.parseN] at h2
        | succ f' =>
          have hf : f' ≤ fuel := by omega
          simp only [Spec.parseN] at h2
          simp only [Spec.withinN, Bool.and_eq_true] at hw
          cases hp : Spec.parse env f' bs with
          | none => simp [hp] at h2
          | some q =>
            obtain ⟨v1, r1⟩ := q
            simp only [hp] at h2 hw
            obtain ⟨t1, ht1⟩ := ih f' d bs v1 r1 hf hp hw.1
            cases hq : Spec.parseN env f' n r1 with
            | none => simp [hq] at h2
            | some q2 =>
              obtain ⟨vs2, r2⟩ := q2
              obtain ⟨ts, hts⟩ := ihN f' d n r1 vs2 r2 hf hq hw.2
              simp [hq] at h2
              simp [decN, ht1, hts, h2.2]
    · intro f' d n bs ps r acc hf h2 hw
      cases n with
      | zero =>
        cases f' <;> simp [Spec.parseKV] at h2 <;> simp [decKV, h2.2]
      | succ n =>
        cases f' with
        | zero => simp [Spec.parseKV] at h2
        | succ f' =>
          have hf : f' ≤ fuel := by omega
          simp only [Spec.parseKV] at h2
          simp only [Spec.withinKV, Bool.and_eq_true] at hw
          cases hp : Spec.parse env f' bs with
          | none => simp [hp] at h2
          | some q =>
            obtain ⟨k1, r1⟩ := q
            simp only [hp, Bool.and_eq_true] at h2 hw
            obtain ⟨tk, htk⟩ := ih f' d bs k1 r1 hf hp hw.1
            cases hq : Spec.parse env f' r1 with
            | none => simp [hq] at h2
            | some q2 =>
              obtain ⟨v1, r2⟩ := q2
              simp only [hq] at h2 hw
              obtain ⟨tv, htv⟩ := ih f' d r1 v1 r2 hf hq hw.2.1
              cases hz : Spec.parseKV env f' n r2 with
              | none => simp [hz] at h2
              | some q3 =>
                obtain ⟨ps3, r3⟩ := q3
                obtain ⟨m, hm⟩ := ihKV f' d n r2 ps3 r3 (mapInsert acc tk tv) hf hz hw.2.2
                simp [hz] at h2
                simp only [decKV, htk, htv]
                exact ⟨m, by rw [hm, h2.2]⟩

/-- whole messages: what the reader accepts as a complete external term (version byte, optionally one top-level
COMPRESSED section through the shared inflate function) within the limits, the decoder reads to the same byte:
it returns a term when nothing follows, and otherwise the trailing-data error with the number of bytes left.
`hxl`: the inflate function reports at most `extra` bytes of output and consumes no more than it was given. -/
theorem top_complete (x : Ext) (cfg : DecCfg) (env : Spec.Env) (hb : cfg.borrowed = false)
    (hinf : env.inflate = x.inflate)
    (hpf : ∀ f b b', x.parseFloat f = some b → Spec.parseFloatText f = some b' → b' = b)
    (hfc : ∀ f b, Spec.parseFloatText f = some b → validUtf8 f = true ∧ ∃ b', x.parseFloat f = some b')
    (hc1 : ∀ i a c, cfg.cache.lookup i = some a → env.refs[i]? = some c → c = cps a)
    (hcache : ∀ i c, env.refs[i]? = some c → ∃ a, cfg.cache.lookup i = some a)
    (hxl : ∀ z out n, x.inflate z = some (out, n) → out.length ≤ x.extra ∧ n ≤ z.length)
    (bs : Bytes) (v : Value) (rest : Bytes)
    (h2 : Spec.parseTop env bs = some (v, rest)) (hw : Spec.withinTop env bs = true) :
    ∃ t, decodeWith x cfg bs = (if rest = [] then .ok t else .error (.trailing rest.length)) := by
  unfold Spec.parseTop at h2
  unfold Spec.withinTop at hw
  split at h2
  · -- compressed
    rename_i z4
    simp only at hw
    cases hl : rdN 4 z4 with
    | none => simp [hl] at h2
    | some pl =>
      obtain ⟨usize, z⟩ := pl
      simp only [hl] at h2 hw
      rw [hinf] at h2 hw
      cases hi : x.inflate z with
      | none => simp [hi] at h2
      | some po =>
        obtain ⟨out, consumed⟩ := po
        simp only [hi] at h2 hw
        obtain ⟨hxe, hxc⟩ := hxl z out consumed hi
        simp only [Bool.and_eq_true, decide_eq_true_eq] at hw
        split at h2
        · simp at h2
        rename_i hlen
        cases hp : Spec.parse env (out.length + 1) out with
        | none => simp [hp] at h2
        | some q =>
          obtain ⟨v', ro⟩ := q
          simp only [hp] at h2
          split at h2
          rotate_left
          · simp at h2
          rename_i vv heq
          simp at heq
          obtain ⟨rfl, rfl⟩ := heq
          simp at h2
          obtain ⟨rfl, rfl⟩ := h2
          have hz4 : z4.length = 4 + z.length := rdN_length 4 z4 usize z hl
          obtain ⟨t, ht⟩ := (dec_complete x cfg env hb hpf hfc hc1 hcache (z4.length + 1 + x.extra)).1
            (out.length + 1) 1 out v' [] (by omega) hp hw.2
          have hus : ¬ usize > MAX_BINARY_SIZE := by
            have := hw.1; simp [Gen.MAX_BINARY_SIZE] at this; simp [MAX_BINARY_SIZE]; omega
          have hlen' : out.length = usize := by simpa using hlen
          refine ⟨t, ?_⟩
          unfold decodeWith
          simp only [bne_self_eq_false, Bool.false_eq_true, if_false, List.length_cons]
          rw [show z4.length + 1 + 1 + x.extra = (z4.length + 1 + x.extra) + 1 by omega, dec.eq_3]
          simp only [show (80 : UInt8).toNat = 80 by decide]
          rw [if_neg (by simp [MAX_NESTING_DEPTH])]
          simp only [hb, Bool.false_and, Bool.false_eq_true, if_false, rdU, hl, hi]
          rw [if_neg hus]
          simp only [hlen', bne_self_eq_false, Bool.false_eq_true, if_false, Nat.zero_add, ht]
          rw [if_neg (by omega)]
          by_cases hr : List.drop consumed z = []
          · simp [hr]
          · simp only [hr, if_false]
  · -- plain
    rename_i r hne
    have hw' : Spec.within env (r.length + 1) 0 r = true := by
      split at hw
      · rename_i z4 heq
        simp at heq
        exact absurd heq.symm (by intro h; exact hne _ (by rw [h]))
      · rename_i r' _ heq
        simp at heq; subst heq; exact hw
      · rename_i h1 h3
        exact absurd rfl (h3 r)
    obtain ⟨t, ht⟩ := (dec_complete x cfg env hb hpf hfc hc1 hcache (r.length + 1 + x.extra)).1
      (r.length + 1) 0 r v rest (by omega) h2 hw'
    refine ⟨t, ?_⟩
    unfold decodeWith
    simp only [bne_self_eq_false, Bool.false_eq_true, if_false, ht]
    cases rest with
    | nil => simp
    | cons a b => simp
  · simp at h2

end Edp
