import EdpVerif.Lemmas.DecSuffix
import EdpVerif.Lemmas.RoundTrip
/-! C10: the bytes a node-local identifier keeps are the bytes it occupied in the input (decode side, every input), and the
encoder writes them out unchanged in every position of a term (encode side, every one-hole context). -/
namespace Edp

theorem rdU_length {k : Nat} {bs : Bytes} {v : Nat} {r : Bytes} (h : rdU k bs = .ok (v, r)) : bs.length = k + r.length := by
  simp only [rdU] at h
  cases hr : rdN k bs with
  | none => simp [hr] at h
  | some p =>
    obtain ⟨a, b⟩ := p
    simp [hr] at h
    obtain ⟨rfl, rfl⟩ := h
    exact rdN_length k bs a b hr

theorem take_of_suffix {r bs : Bytes} (h : r <:+ bs) : bs.take (bs.length - r.length) ++ r = bs := by
  obtain ⟨c, rfl⟩ := h
  simp

/-- a LOCAL_EXT span the decoder accepts as an identifier — whatever is inside: modern or legacy form, another LOCAL_EXT,
a compressed term — is written back by the encoder as exactly the bytes the decoder consumed -/
theorem dec_local_reemitted (x : Ext) (cfg : DecCfg) (cache : List Bytes) (fuel d : Nat) (bs r : Bytes) (t : Term)
    (h : dec x cfg fuel d (121 :: bs) = .ok (t, r)) (hid : isIdent t = true) :
    ∃ span, 121 :: bs = span ++ r ∧ enc cache t = .ok span ∧ locOf t = some (span.drop 1) := by
  cases fuel with
  | zero => simp [dec] at h
  | succ f =>
    rw [dec.eq_3] at h
    simp only [] at h
    split at h
    · simp at h
    · split at h
      · simp at h
      · simp only [show (121 : UInt8).toNat = 121 from rfl] at h
        split at h
        · simp at h
        · rename_i hash r0 h8
          split at h
          · simp at h
          · rename_i t0 r' hd
            have s1 : r' <:+ r0 := (dec_suffix x cfg f).1 _ _ _ _ hd
            have s2 : r0 <:+ bs := rdU_suffix h8
            have hl : bs.length = 8 + r0.length := rdU_length h8
            have hle : r'.length ≤ r0.length := s1.length_le
            have key : bs.take (8 + (r0.length - r'.length)) ++ r' = bs := by
              have := take_of_suffix (s1.trans s2)
              have e : 8 + (r0.length - r'.length) = bs.length - r'.length := by omega
              rw [e]; exact this
            split at h
            · simp only [Except.ok.injEq, Prod.mk.injEq] at h
              obtain ⟨rfl, rfl⟩ := h
              exact ⟨121 :: bs.take (8 + (r0.length - r'.length)), by simp [key], by simp [enc, encPid], by simp [locOf]⟩
            · simp only [Except.ok.injEq, Prod.mk.injEq] at h
              obtain ⟨rfl, rfl⟩ := h
              exact ⟨121 :: bs.take (8 + (r0.length - r'.length)), by simp [key], by simp [enc, encPort], by simp [locOf]⟩
            · simp only [Except.ok.injEq, Prod.mk.injEq] at h
              obtain ⟨rfl, rfl⟩ := h
              exact ⟨121 :: bs.take (8 + (r0.length - r'.length)), by simp [key], by simp [enc, encRef], by simp [locOf]⟩
            · rename_i np no nr
              simp only [Except.ok.injEq, Prod.mk.injEq] at h
              obtain ⟨rfl, rfl⟩ := h
              cases t0 <;> simp [isIdent] at hid
              · exact absurd rfl (np _)
              · exact absurd rfl (no _ _ _ _)
              · exact absurd rfl (nr _ _ _ _)

/-! ### one-hole contexts -/

/-- every position of a term a sub-term can be in: tuple element, list element, element of an improper list, list tail,
map key, map value, free variable of a fun — nested to any depth -/
inductive TCtx where
  | hole
  | tuple (pre : List Term) (c : TCtx) (post : List Term)
  | list (pre : List Term) (c : TCtx) (post : List Term)
  | ilistElem (pre : List Term) (c : TCtx) (post : List Term) (tail : Term)
  | ilistTail (l : List Term) (c : TCtx)
  | mapKey (pre : List (Term × Term)) (c : TCtx) (v : Term) (post : List (Term × Term))
  | mapVal (pre : List (Term × Term)) (k : Term) (c : TCtx) (post : List (Term × Term))
  | funEnv (arity : Nat) (uniq : Bytes) (index numFree : Nat) (mod : Bytes) (oldIndex oldUniq : Nat) (pid : PidF)
      (pre : List Term) (c : TCtx) (post : List Term)

def TCtx.plug : TCtx → Term → Term
  | .hole, u => u
  | .tuple pre c post, u => .tuple (pre ++ c.plug u :: post)
  | .list pre c post, u => .list (pre ++ c.plug u :: post)
  | .ilistElem pre c post tl, u => .ilist (pre ++ c.plug u :: post) tl
  | .ilistTail l c, u => .ilist l (c.plug u)
  | .mapKey pre c v post, u => .map (pre ++ (c.plug u, v) :: post)
  | .mapVal pre k c post, u => .map (pre ++ (k, c.plug u) :: post)
  | .funEnv a un i nf m oi ou p pre c post, u => .ifun a un i nf m oi ou p (pre ++ c.plug u :: post)

def TCtx.depth : TCtx → Nat
  | .hole => 0
  | .tuple _ c _ | .list _ c _ | .ilistElem _ c _ _ | .ilistTail _ c | .mapKey _ c _ _ | .mapVal _ _ c _
  | .funEnv _ _ _ _ _ _ _ _ _ c _ => c.depth + 1

/-- `sub` occurs in `bs` as one contiguous block -/
def Occurs (sub bs : Bytes) : Prop := ∃ pre post, bs = pre ++ sub ++ post

theorem Occurs.refl (a : Bytes) : Occurs a a := ⟨[], [], by simp⟩

theorem Occurs.wrap {sub a : Bytes} (h : Occurs sub a) (p q : Bytes) : Occurs sub (p ++ a ++ q) := by
  obtain ⟨x, y, rfl⟩ := h
  exact ⟨p ++ x, y ++ q, by simp⟩

theorem encL_split (cache : List Bytes) (l1 : List Term) (t : Term) (l2 : List Term) (bs : Bytes)
    (h : encL cache (l1 ++ t :: l2) = .ok bs) : ∃ b1 tb b2, enc cache t = .ok tb ∧ bs = b1 ++ tb ++ b2 := by
  induction l1 generalizing bs with
  | nil =>
    simp only [List.nil_append, encL] at h
    cases h1 : enc cache t with
    | error e => simp [h1] at h
    | ok tb =>
      cases h2 : encL cache l2 with
      | error e => simp [h1, h2] at h
      | ok b2 => simp [h1, h2] at h; exact ⟨[], tb, b2, rfl, by simp [h]⟩
  | cons a l1 ih =>
    simp only [List.cons_append, encL] at h
    cases h1 : enc cache a with
    | error e => simp [h1] at h
    | ok ab =>
      cases h2 : encL cache (l1 ++ t :: l2) with
      | error e => simp [h1, h2] at h
      | ok rb =>
        simp [h1, h2] at h
        obtain ⟨b1, tb, b2, ht, rfl⟩ := ih rb h2
        exact ⟨ab ++ b1, tb, b2, ht, by simp [← h]⟩

theorem encKV_split (cache : List Bytes) (l1 : List (Term × Term)) (k v : Term) (l2 : List (Term × Term)) (bs : Bytes)
    (h : encKV cache (l1 ++ (k, v) :: l2) = .ok bs) :
    ∃ b1 kb vb b2, enc cache k = .ok kb ∧ enc cache v = .ok vb ∧ bs = b1 ++ kb ++ vb ++ b2 := by
  induction l1 generalizing bs with
  | nil =>
    simp only [List.nil_append, encKV] at h
    cases h1 : enc cache k with
    | error e => simp [h1] at h
    | ok kb =>
      cases h2 : enc cache v with
      | error e => simp [h1, h2] at h
      | ok vb =>
        cases h3 : encKV cache l2 with
        | error e => simp [h1, h2, h3] at h
        | ok b2 => simp [h1, h2, h3] at h; exact ⟨[], kb, vb, b2, rfl, rfl, by simp [← h]⟩
  | cons a l1 ih =>
    obtain ⟨k', v'⟩ := a
    simp only [List.cons_append, encKV] at h
    cases h1 : enc cache k' with
    | error e => simp [h1] at h
    | ok ab =>
      cases h2 : enc cache v' with
      | error e => simp [h1, h2] at h
      | ok vb' =>
        cases h3 : encKV cache (l1 ++ (k, v) :: l2) with
        | error e => simp [h1, h2, h3] at h
        | ok rb =>
          simp [h1, h2, h3] at h
          obtain ⟨b1, kb, vb, b2, hk, hv, rfl⟩ := ih rb h3
          exact ⟨ab ++ vb' ++ b1, kb, vb, b2, hk, hv, by simp [← h]⟩

/-- the encoder is compositional: what it writes for a term contains, as one contiguous block, what it writes for the
sub-term in the hole — every context, any atom cache -/
theorem enc_plug (cache : List Bytes) (c : TCtx) (u : Term) (bs : Bytes) (h : enc cache (c.plug u) = .ok bs) :
    ∃ ub, enc cache u = .ok ub ∧ Occurs ub bs := by
  induction c generalizing bs with
  | hole => exact ⟨bs, h, Occurs.refl _⟩
  | tuple pre c post ih =>
    simp only [TCtx.plug, enc] at h
    cases hl : encL cache (pre ++ c.plug u :: post) with
    | error e => simp only [hl] at h; (repeat' split at h) <;> simp at h
    | ok lb =>
      obtain ⟨b1, tb, b2, ht, rfl⟩ := encL_split cache pre _ post lb hl
      obtain ⟨ub, hu, ho⟩ := ih tb ht
      refine ⟨ub, hu, ?_⟩
      simp only [hl] at h
      (repeat' split at h) <;> simp at h <;> subst h
      · have := ho.wrap (104 :: be8 (pre ++ c.plug u :: post).length ++ b1) b2
        simpa using this
      · have := ho.wrap (105 :: be32 (pre ++ c.plug u :: post).length ++ b1) b2
        simpa using this
  | list pre c post ih =>
    simp only [TCtx.plug, enc] at h
    have hne : (pre ++ c.plug u :: post).isEmpty = false := by cases pre <;> simp
    simp only [hne, Bool.false_eq_true, ↓reduceIte] at h
    cases hl : encL cache (pre ++ c.plug u :: post) with
    | error e => simp only [hl] at h; (repeat' split at h) <;> simp at h
    | ok lb =>
      obtain ⟨b1, tb, b2, ht, rfl⟩ := encL_split cache pre _ post lb hl
      obtain ⟨ub, hu, ho⟩ := ih tb ht
      refine ⟨ub, hu, ?_⟩
      simp only [hl] at h
      (repeat' split at h) <;> simp at h <;> subst h
      have := ho.wrap (108 :: be32 (pre ++ c.plug u :: post).length ++ b1) (b2 ++ [106])
      simpa using this
  | ilistElem pre c post tl ih =>
    simp only [TCtx.plug, enc] at h
    split at h
    · simp at h
    · cases hl : encL cache (pre ++ c.plug u :: post) with
      | error e => simp [hl] at h
      | ok lb =>
        cases htl : enc cache tl with
        | error e => simp [hl, htl] at h
        | ok tlb =>
          obtain ⟨b1, tb, b2, ht, rfl⟩ := encL_split cache pre _ post lb hl
          obtain ⟨ub, hu, ho⟩ := ih tb ht
          refine ⟨ub, hu, ?_⟩
          simp [hl, htl] at h; subst h
          have := ho.wrap (108 :: be32 (pre ++ c.plug u :: post).length ++ b1) (b2 ++ tlb)
          simpa using this
  | ilistTail l c ih =>
    simp only [TCtx.plug, enc] at h
    split at h
    · simp at h
    · cases hl : encL cache l with
      | error e => simp [hl] at h
      | ok lb =>
        cases htl : enc cache (c.plug u) with
        | error e => simp [hl, htl] at h
        | ok tlb =>
          obtain ⟨ub, hu, ho⟩ := ih tlb htl
          refine ⟨ub, hu, ?_⟩
          simp [hl, htl] at h; subst h
          have := ho.wrap (108 :: be32 l.length ++ lb) []
          simpa using this
  | mapKey pre c v post ih =>
    simp only [TCtx.plug, enc] at h
    split at h
    · simp at h
    · cases hl : encKV cache (pre ++ (c.plug u, v) :: post) with
      | error e => simp [hl] at h
      | ok lb =>
        obtain ⟨b1, kb, vb, b2, hk, hv, rfl⟩ := encKV_split cache pre _ v post lb hl
        obtain ⟨ub, hu, ho⟩ := ih kb hk
        refine ⟨ub, hu, ?_⟩
        simp [hl] at h; subst h
        have := ho.wrap (116 :: be32 (pre ++ (c.plug u, v) :: post).length ++ b1) (vb ++ b2)
        simpa using this
  | mapVal pre k c post ih =>
    simp only [TCtx.plug, enc] at h
    split at h
    · simp at h
    · cases hl : encKV cache (pre ++ (k, c.plug u) :: post) with
      | error e => simp [hl] at h
      | ok lb =>
        obtain ⟨b1, kb, vb, b2, hk, hv, rfl⟩ := encKV_split cache pre k _ post lb hl
        obtain ⟨ub, hu, ho⟩ := ih vb hv
        refine ⟨ub, hu, ?_⟩
        simp [hl] at h; subst h
        have := ho.wrap (116 :: be32 (pre ++ (k, c.plug u) :: post).length ++ b1 ++ kb) b2
        simpa using this
  | funEnv a un i nf m oi ou p pre c post ih =>
    simp only [TCtx.plug, enc] at h
    cases hm : encAtom cache m with
    | error e => simp [hm] at h
    | ok mb =>
      cases hp : encPid cache p with
      | error e => simp [hm, hp] at h
      | ok pb =>
        cases hl : encL cache (pre ++ c.plug u :: post) with
        | error e => simp [hm, hp, hl] at h
        | ok lb =>
          obtain ⟨b1, tb, b2, ht, rfl⟩ := encL_split cache pre _ post lb hl
          obtain ⟨ub, hu, ho⟩ := ih tb ht
          refine ⟨ub, hu, ?_⟩
          simp only [hm, hp, hl, Except.ok.injEq] at h
          subst h
          obtain ⟨x, y, rfl⟩ := ho
          exact ⟨112 :: be32 _ ++ (UInt8.ofNat a :: un ++ be32 i ++ be32 nf ++ mb ++ encInt oi ++ encInt ou ++ pb ++ b1 ++ x), y ++ b2, by
            simp only [List.cons_append, List.append_assoc]
            rfl⟩

/-- the creator pid of a fun: written inside the fun's bytes as its own encoding -/
theorem enc_fun_pid (cache : List Bytes) (a : Nat) (un : Bytes) (i nf : Nat) (m : Bytes) (oi ou : Nat) (p : PidF) (fr : List Term)
    (bs : Bytes) (h : enc cache (.ifun a un i nf m oi ou p fr) = .ok bs) : ∃ pb, encPid cache p = .ok pb ∧ Occurs pb bs := by
  simp only [enc] at h
  cases hm : encAtom cache m with
  | error e => simp [hm] at h
  | ok mb =>
    cases hp : encPid cache p with
    | error e => simp [hm, hp] at h
    | ok pb =>
      cases hl : encL cache fr with
      | error e => simp [hm, hp, hl] at h
      | ok lb =>
        simp only [hm, hp, hl, Except.ok.injEq] at h
        subst h
        exact ⟨pb, rfl, 112 :: be32 _ ++ (UInt8.ofNat a :: un ++ be32 i ++ be32 nf ++ mb ++ encInt oi ++ encInt ou), lb, by
          simp only [List.cons_append, List.append_assoc]
          rfl⟩

theorem Occurs.trans {a b c : Bytes} (h1 : Occurs a b) (h2 : Occurs b c) : Occurs a c := by
  obtain ⟨p, q, rfl⟩ := h1
  obtain ⟨p', q', rfl⟩ := h2
  exact ⟨p' ++ p, q ++ q', by simp⟩

end Edp
