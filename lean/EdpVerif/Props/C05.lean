import EdpVerif.Impl.Framing
import EdpVerif.Lemmas.Framing
import EdpVerif.Lemmas.FramingTimeout
import EdpVerif.Lemmas.FramingWrite
/-
C05 — framing is invariant under how the transport splits the byte stream.
Property theorems only; the model is EdpVerif/Impl/Framing.lean, helper lemmas are in EdpVerif/Lemmas/Framing.lean.

Vocabulary: a read script `evs : List Ev` says what every successive `poll_read` of the transport does; `Clean evs`
means it only returns `Pending` or a non-empty read (a live connection); `payload evs` is the byte stream it delivers;
an exhausted script is end of stream. `readAll cap mode evs` calls `read_framed` until its first error and lists every
result; `recvAll cap evs` does the same with the second copy of the loop (`receive_message_from_read_half`).
-/
namespace Edp.Props.C05
open Edp Edp.Framing

/-! ### what the model takes from the source on every run -/

/-- the constants and step orders the translator reads from framing.rs / connection.rs / transport.rs are the ones the
model is written for, and the protocol's: a 2-byte prefix during the handshake and a 4-byte prefix afterwards in all
five places that deal with it (`length_prefix_size`, `frame_message`, `write_framed`, `read_framed`, the second copy);
the caps are the model's (`framingCap`, `connCap` ARE the generated values) and lie below what the prefix can say, so
the cap test is never vacuous; `read_framed` and the second copy test for the tick and the cap BEFORE they allocate
and read the body; `write_framed` writes length, data, flush in this order; every socket read of the second copy and
every operation of `FramedTransport` sits under a timeout whose error is classified as recoverable (the premise of
the timeout theorems below). -/
theorem C05_model_constants_are_the_sources :
    Gen.FRAME_PREFIX_SIZE = (Mode.prefixSize .handshake, Mode.prefixSize .distribution) ∧
    Gen.FRAME_PREFIX_SIZE = (2, 4) ∧
    Gen.FRAME_MESSAGE_WIDTH = Gen.FRAME_PREFIX_SIZE ∧ Gen.WRITE_FRAMED_WIDTH = Gen.FRAME_PREFIX_SIZE ∧
    Gen.READ_FRAMED_WIDTH = Gen.FRAME_PREFIX_SIZE ∧ Gen.RH_PREFIX_WIDTH = Mode.prefixSize .distribution ∧
    framingCap = Gen.FRAMING_MAX_MESSAGE_SIZE ∧ connCap = Gen.CONN_MAX_MESSAGE_SIZE ∧
    0 < connCap ∧ connCap ≤ framingCap ∧ framingCap < 256 ^ Mode.prefixSize .distribution ∧
    Gen.CONN_PASS_THROUGH = 112 ∧
    Gen.READ_FRAMED_STEPS = ["len", "tick", "cap", "alloc", "body"] ∧
    Gen.RH_STEPS = ["len", "tick", "cap", "alloc", "body", "marker", "decode"] ∧
    Gen.WRITE_FRAMED_STEPS = ["len", "data", "flush"] ∧
    Gen.RH_TIMEOUT_READS = 2 ∧ Gen.RH_TICK_CONTINUES = true ∧ Gen.TRANSPORT_OPS_UNDER_TIMEOUT = true ∧
    Gen.TIMEOUT_IS_RECOVERABLE = true ∧ Gen.SEND_RAW_CHECKS_CAP = true := by
  decide

/-! ### the writer -/

/-- the streaming writer puts the one-shot frame on the wire, through every sink behaviour (partial acceptance,
`Pending`, zero writes, failures, a stall that outlasts the write timeout — at every position) and every behaviour of
`poll_flush`: what the sink accepted is always a prefix of `frame_message`'s bytes; on success it is all of them,
followed by exactly one completed flush; on failure no flush completed, and either strictly fewer bytes were accepted
or the error is the flush's; fewer bytes than the frame on the wire always come with an error (never a silent short
frame); and a sink that never fails, stalls or accepts zero bytes makes it succeed. -/
theorem C05_writer_eq_oneshot (mode : Mode) (msg : Bytes) (s : List WEv) (fl : List FEv) :
    (writeFramed mode msg s fl).chunks.flatten <+: frame mode msg ∧
    ((writeFramed mode msg s fl).res = .ok () →
      (writeFramed mode msg s fl).chunks.flatten = frame mode msg ∧ (writeFramed mode msg s fl).flushes = 1) ∧
    (∀ e, (writeFramed mode msg s fl).res = .error e → (writeFramed mode msg s fl).flushes = 0 ∧
      ((writeFramed mode msg s fl).chunks.flatten.length < (frame mode msg).length ∨ (flushAll fl).1 = .error e)) ∧
    ((writeFramed mode msg s fl).chunks.flatten.length < (frame mode msg).length →
      ∃ e, (writeFramed mode msg s fl).res = .error e) ∧
    (GoodSink s → GoodFlush fl → (writeFramed mode msg s fl).res = .ok ()) := by
  obtain ⟨h1, h2, h3, h4⟩ := writeFramed_spec mode msg s fl
  exact ⟨h1, h2, h3, h4, fun hs hf => (writeFramed_good mode msg s fl hs hf).1⟩

example : GoodSink [.accept 1, .pending, .accept 3] := by simp [GoodSink]
example : GoodFlush [.pending, .done] := by simp [GoodFlush]
example : (writeFramed .handshake [7, 8] [.accept 1, .pending, .accept 3]).chunks = [[0], [2], [7, 8]] := by decide
example : (writeFramed .distribution [7, 8] [.accept 3, .accept 0]).chunks = [[0, 0, 0]] := by decide
example : (writeFramed .handshake [7] [] [.pending, .fail]).res = .error .io ∧
    (writeFramed .handshake [7] [] [.pending, .fail]).chunks.flatten = frame .handshake [7] := ⟨by rfl, by decide⟩
example : (writeFramed .handshake [7] [.accept 2, .stall]).res = .error .timeout ∧
    (writeFramed .handshake [7] [.accept 2, .stall]).chunks = [[0, 1]] := ⟨by rfl, by decide⟩

/-- **Write, then read.** Messages that fit, written one after the other by the streaming writer through any sink that
does not fail (however it splits and delays the acceptance), arrive on a wire that any clean transport — whatever ITS
segmentation — turns back into exactly these messages, in order, then end of stream; every write reports success. -/
theorem C05_write_then_read (mode : Mode) (msgs : List Bytes)
    (h : ∀ m ∈ msgs, fits mode m ∧ m.length ≤ framingCap) (s : List WEv) (fl : List FEv) (hs : GoodSink s)
    (hf : GoodFlush fl) (evs : List Ev) (hc : Clean evs)
    (hp : payload evs = (writeMany mode msgs s fl).2.flatten) :
    (writeMany mode msgs s fl).1 = msgs.map (fun _ => .ok ()) ∧
      readAll framingCap mode evs = msgs.map .ok ++ [.error .eof] := by
  obtain ⟨w1, w2⟩ := writeMany_good mode msgs s fl hs hf
  refine ⟨w1, ?_⟩
  have := readAll_clean framingCap mode [] msgs evs h hc (by rw [hp, w2])
  rw [List.append_nil, readAll_nil] at this
  exact this

example : (writeMany .handshake [[7], []] [.accept 1, .pending, .accept 1, .accept 1] [.pending]).2
    = [[0], [1], [7], [0, 0]] := by decide

/-- **The property fails for a write that outlasts the write timeout.** `FramedTransport::write` is
`timeout(d, write_framed)`; when it fires after the sink took part of the frame, that part stays on the wire,
`Error::Timeout` is classified as recoverable, and the caller's retry puts a whole frame behind the partial one. The
peer reads two messages, neither of which was sent. -/
theorem C05_not_write_delay_invariant :
    ∃ (msg : Bytes) (s : List WEv), fits .handshake msg ∧ msg.length ≤ framingCap ∧
      (∀ e ∈ s, e ≠ .fail ∧ e ≠ .accept 0) ∧
      (writeMany .handshake [msg, msg] s []).1 = [.error .timeout, .ok ()] ∧
      readAll framingCap .handshake ((writeMany .handshake [msg, msg] s []).2.map .chunk)
        = [.ok [0, 0, 3], .ok [7], .error .eof] ∧ [0, 0, 3] ≠ msg ∧ [7] ≠ msg :=
  ⟨[0, 1, 7], [.accept 2, .accept 1, .stall], by decide, by decide, by decide, by rfl, by rfl, by decide, by decide⟩

/-- what remains true: as long as no write or flush stalls past the timeout (guard: no `stall` event; failures, zero
writes, partial acceptance allowed), no write reports `Timeout` and the wire is a prefix of the frames of the
messages, in order — a reader sees messages that were sent, then at worst an end of stream inside a frame. -/
theorem C05_write_delay_partial (mode : Mode) (msgs : List Bytes) (s : List WEv) (fl : List FEv)
    (hs : ∀ e ∈ s, e ≠ WEv.stall) (hf : ∀ e ∈ fl, e ≠ FEv.stall) :
    (∀ r ∈ (writeMany mode msgs s fl).1, r ≠ .error .timeout) ∧
      (writeMany mode msgs s fl).2.flatten <+: (msgs.map (frame mode)).flatten :=
  writeMany_nostall mode msgs s fl hs hf

example : (writeMany .handshake [[7], [8]] [.accept 2, .fail] []) = ([.error .io], [[0, 1]]) := by rfl

/-! ### the reader: split invariance -/

/-- **Split invariance.** For every list of messages that fit the length prefix and the cap, and every clean script
whose byte stream is the concatenation of their frames — however it is cut into reads, with `Pending` anywhere —
`read_framed` returns exactly the messages, in order, and then reports end of stream. -/
theorem C05_split_invariance (mode : Mode) (msgs : List Bytes)
    (h : ∀ m ∈ msgs, fits mode m ∧ m.length ≤ framingCap) (evs : List Ev) (hc : Clean evs)
    (hp : payload evs = (msgs.map (frame mode)).flatten) :
    readAll framingCap mode evs = msgs.map .ok ++ [.error .eof] := by
  have := readAll_clean framingCap mode [] msgs evs h hc hp
  rw [List.append_nil, readAll_nil] at this
  exact this

example : readAll framingCap .handshake [.chunk [0], .pending, .chunk [1, 7, 0], .chunk [0]]
    = [.ok [7], .ok []] ++ [.error .eof] :=
  C05_split_invariance .handshake [[7], []] (by decide) _ (by simp [Clean]) (by decide)

/-- the same in compositional form: whatever follows the frames in the script (more data, end of stream, a failure) is
seen by the reads that follow, untouched -/
theorem C05_split_invariance_then (mode : Mode) (msgs : List Bytes)
    (h : ∀ m ∈ msgs, fits mode m ∧ m.length ≤ framingCap) (c tail : List Ev) (hc : Clean c)
    (hp : payload c = (msgs.map (frame mode)).flatten) :
    readAll framingCap mode (c ++ tail) = msgs.map .ok ++ readAll framingCap mode tail :=
  readAll_clean framingCap mode tail msgs c h hc hp

example : readAll framingCap .distribution ([.chunk [0, 0], .chunk [0, 1, 9]] ++ [.fail])
    = [.ok [9]] ++ readAll framingCap .distribution [.fail] :=
  C05_split_invariance_then .distribution [[9]] (by decide) _ _ (by simp [Clean]) (by decide)

/-- two transports that deliver the same frames give the same results, whatever their segmentation -/
theorem C05_chunking_irrelevant (mode : Mode) (msgs : List Bytes)
    (h : ∀ m ∈ msgs, fits mode m ∧ m.length ≤ framingCap) (evs₁ evs₂ : List Ev) (hc₁ : Clean evs₁) (hc₂ : Clean evs₂)
    (hp₁ : payload evs₁ = (msgs.map (frame mode)).flatten) (hp₂ : payload evs₂ = (msgs.map (frame mode)).flatten) :
    readAll framingCap mode evs₁ = readAll framingCap mode evs₂ := by
  rw [C05_split_invariance mode msgs h evs₁ hc₁ hp₁, C05_split_invariance mode msgs h evs₂ hc₂ hp₂]

example : readAll framingCap .handshake [.chunk [0, 1, 5]] = readAll framingCap .handshake [.chunk [0], .pending, .chunk [1], .chunk [5]] :=
  C05_chunking_irrelevant .handshake [[5]] (by decide) _ _ (by simp [Clean]) (by simp [Clean]) (by decide) (by decide)

/-- **Never a short message (all scripts).** On every script whatsoever — end of stream, failures and empty reads
anywhere — a message returned by `read_framed` is exactly the next frame of the delivered stream: the declared length
is its length, it fits, it is within the cap, and the script that is left delivers exactly the bytes after the frame. -/
theorem C05_ok_is_exact_frame (mode : Mode) (evs : List Ev) (m : Bytes)
    (h : (readFramed framingCap mode evs).res = .ok m) :
    payload evs = frame mode m ++ payload (readFramed framingCap mode evs).rest ∧ fits mode m ∧
      m.length ≤ framingCap := by
  obtain ⟨h1, h2, h3, _⟩ := readFramed_ok framingCap mode evs m h
  exact ⟨h1, h2, h3⟩

example : (readFramed framingCap .handshake [.chunk [0], .chunk [2, 4], .pending, .chunk [4, 9]]).res = .ok [4, 4] := by rfl

/-- a zero length is a tick: an empty message, nothing allocated, the rest of the stream untouched -/
theorem C05_tick (mode : Mode) (c : List Ev) (rest : Bytes) (tail : List Ev) (hc : Clean c)
    (hp : payload c = frame mode [] ++ rest) :
    ∃ c', Clean c' ∧ payload c' = rest ∧ readFramed framingCap mode (c ++ tail) = ⟨.ok [], c' ++ tail, 0⟩ := by
  obtain ⟨c', k1, k2, _, k4⟩ := readFramed_clean framingCap mode c [] rest tail hc hp
    (by unfold fits; exact Nat.pow_pos (by omega)) (by simp)
  exact ⟨c', k1, k2, k4⟩

example : payload [.chunk [0, 0, 0], .pending, .chunk [0, 5]] = frame .distribution [] ++ [5] := by decide

/-- a declared length above the cap is refused as soon as the length bytes are in, whatever their chunking, and no body
buffer is requested (`allocRequested = 0`) -/
theorem C05_cap (c : List Ev) (len : Nat) (rest : Bytes) (tail : List Ev) (hc : Clean c)
    (hp : payload c = beN 4 len ++ rest) (hl : len < 2 ^ 32) (hcap : framingCap < len) :
    ∃ c', Clean c' ∧ payload c' = rest ∧
      readFramed framingCap .distribution (c ++ tail) = ⟨.error (.tooLarge len), c' ++ tail, 0⟩ :=
  readFramed_clean_overcap framingCap .distribution c len rest tail hc hp (by simpa [Mode.prefixSize] using hl) hcap

example : payload [.chunk [16, 0], .pending, .chunk [0, 1, 3]] = beN 4 (framingCap + 1) ++ [3] := by decide

/-- on every script, in both modes: the body buffer requested is never larger than the cap -/
theorem C05_alloc_bounded (mode : Mode) (evs : List Ev) :
    (readFramed framingCap mode evs).allocRequested ≤ framingCap :=
  readFramed_alloc_le framingCap mode evs

/-- **End of stream inside a frame is an error, never a short message**: a clean script that delivers a strict
prefix of a frame and then ends (script exhausted, or an explicit 0-byte read followed by anything) -/
theorem C05_eof_inside (mode : Mode) (c : List Ev) (m missing : Bytes) (tail : List Ev) (hc : Clean c)
    (hp : payload c ++ missing = frame mode m) (hmiss : missing ≠ []) (hf : fits mode m) (hcap : m.length ≤ framingCap)
    (ht : tail = [] ∨ ∃ t, tail = .eof :: t) :
    (readFramed framingCap mode (c ++ tail)).res = .error .eof :=
  readFramed_clean_short framingCap mode c m missing tail hc hp hmiss hf hcap ht

example : payload [.chunk [0], .pending, .chunk [3, 1]] ++ [2, 3] = frame .handshake [1, 2, 3] := by decide

/-- why the property is about messages that fit: `data.len() as u16` wraps, so a 65536-byte message in handshake mode is
framed with length 0 and reads back as a tick (followed by its bytes misread as frames) -/
theorem C05_unfit_length_wraps (msg : Bytes) (hl : msg.length = 65536) (c : List Ev) (hc : Clean c)
    (hp : payload c = frame .handshake msg) :
    ¬ fits .handshake msg ∧ (readFramed framingCap .handshake c).res = .ok [] := by
  refine ⟨by unfold fits; rw [hl]; decide, ?_⟩
  have hfr : frame .handshake msg = frame .handshake [] ++ msg := by
    unfold frame
    rw [hl, beN_mod]
    rfl
  obtain ⟨c', _, _, k3⟩ := C05_tick .handshake c msg [] hc (by rw [hp, hfr])
  rw [List.append_nil] at k3
  rw [k3]

example : (List.replicate 65536 (0 : UInt8)).length = 65536 := List.length_replicate ..

/-! ### delays longer than the read timeout -/

/-- **The property fails for delays that outlast the read timeout.** `FramedTransport::read` wraps `read_framed` in
`tokio::time::timeout`; when it fires inside a frame the bytes already consumed are dropped with the future, and
`Error::Timeout` is classified as recoverable. A caller that calls again is out of step with the stream: for the
single message `[0, 1, 7]` delivered as `[0, 3]`, a stall, `[0, 1, 7]`, the retry returns the message `[7]`, which
was never sent. -/
theorem C05_not_delay_invariant :
    ∃ (msg : Bytes) (evs : List Ev), fits .handshake msg ∧ msg.length ≤ framingCap ∧
      payload evs = frame .handshake msg ∧ (∀ e ∈ evs, e ≠ .eof ∧ e ≠ .fail ∧ e ≠ .chunk []) ∧
      readRetry framingCap .handshake evs = [.error .timeout, .ok [7], .error .eof] ∧ [7] ≠ msg :=
  ⟨[0, 1, 7], [.chunk [0, 3], .stall, .chunk [0, 1, 7]], by decide, by decide, by decide, by decide, by rfl, by decide⟩

/-- what remains true: as long as no read stalls past the timeout (guard: `Clean evs`, which excludes `stall`), the
retrying caller sees exactly the messages and then end of stream -/
theorem C05_delay_partial (mode : Mode) (msgs : List Bytes)
    (h : ∀ m ∈ msgs, fits mode m ∧ m.length ≤ framingCap) (evs : List Ev) (hc : Clean evs)
    (hp : payload evs = (msgs.map (frame mode)).flatten) :
    readRetry framingCap mode evs = msgs.map .ok ++ [.error .eof] := by
  have key := C05_split_invariance mode msgs h evs hc hp
  unfold readRetry
  unfold readAll at key
  rw [iterRetryF_eq _ _ _ ?_, key]
  rw [key]
  intro x hx
  rcases List.mem_append.mp hx with h1 | h1
  · obtain ⟨m, _, hm⟩ := List.mem_map.mp h1
    rw [← hm]; simp
  · simp at h1; rw [h1]; simp

example : Clean [.chunk [0], .pending, .chunk [1, 5]] ∧
    payload [.chunk [0], .pending, .chunk [1, 5]] = ([[5]].map (frame .handshake)).flatten := by
  refine ⟨by simp [Clean], by decide⟩

/-- **What a timeout leaves behind (all frames, all positions).** The script delivers, cleanly, a strict prefix of
the frame of `m` — nothing at all when the stall is at a frame boundary — and then stalls past the timeout. The
caller gets `Timeout`; every byte consumed so far is dropped with the read future; the retry reads from the first byte
after the stall. So at a frame boundary nothing is lost, and inside a frame the stream is re-entered in the middle of
the frame (`C05_not_delay_invariant` is an instance). -/
theorem C05_timeout_drops_consumed_bytes (mode : Mode) (c : List Ev) (m missing : Bytes) (tail : List Ev)
    (hc : Clean c) (hp : payload c ++ missing = frame mode m) (hmiss : missing ≠ [])
    (hf : fits mode m) (hcap : m.length ≤ framingCap) :
    (readFramed framingCap mode (c ++ .stall :: tail)).res = .error .timeout ∧
    (readFramed framingCap mode (c ++ .stall :: tail)).rest = tail ∧
    readRetry framingCap mode (c ++ .stall :: tail) = .error .timeout :: readRetry framingCap mode tail := by
  obtain ⟨h1, h2⟩ := readFramed_cut framingCap mode c m missing (.stall :: tail) .timeout tail hc hp hmiss hf hcap rfl
  exact ⟨h1, h2, readRetry_stall framingCap mode c m missing tail hc hp hmiss hf hcap⟩

example : payload [.chunk [0], .pending, .chunk [3, 0]] ++ [1, 7] = frame .handshake [0, 1, 7] := by decide

/-- the retrying caller, compositional form (its fuel is adequate: `readRetry_unfold`): whole frames delivered cleanly
come out in order and whatever follows — a stall, more data, a failure — is seen by the reads that follow -/
theorem C05_retry_split_invariance_then (mode : Mode) (msgs : List Bytes)
    (h : ∀ m ∈ msgs, fits mode m ∧ m.length ≤ framingCap) (c tail : List Ev) (hc : Clean c)
    (hp : payload c = (msgs.map (frame mode)).flatten) :
    readRetry framingCap mode (c ++ tail) = msgs.map .ok ++ readRetry framingCap mode tail :=
  readRetry_clean framingCap mode tail msgs c h hc hp

/-- **Timeouts between frames are harmless**: frames, a delay that outlasts the timeout exactly at a frame boundary,
more frames — the retrying caller sees every message, in order, with one `Timeout` in between, then end of stream.
(By induction with the two theorems above this extends to any number of such delays.) -/
theorem C05_timeout_between_frames_harmless (mode : Mode) (msgs₁ msgs₂ : List Bytes)
    (h₁ : ∀ m ∈ msgs₁, fits mode m ∧ m.length ≤ framingCap) (h₂ : ∀ m ∈ msgs₂, fits mode m ∧ m.length ≤ framingCap)
    (c₁ c₂ : List Ev) (hc₁ : Clean c₁) (hc₂ : Clean c₂) (hp₁ : payload c₁ = (msgs₁.map (frame mode)).flatten)
    (hp₂ : payload c₂ = (msgs₂.map (frame mode)).flatten) :
    readRetry framingCap mode (c₁ ++ .stall :: c₂)
      = msgs₁.map .ok ++ .error .timeout :: (msgs₂.map .ok ++ [.error .eof]) := by
  rw [readRetry_clean framingCap mode _ msgs₁ c₁ h₁ hc₁ hp₁]
  have hs := readRetry_stall framingCap mode [] [] (frame mode []) c₂ (by simp [Clean]) (by simp [payload])
    (by obtain ⟨k, hk⟩ := prefixSize_pos mode; simp [frame, beN, hk])
    (by unfold fits; exact Nat.pow_pos (by omega)) (by simp)
  rw [List.nil_append] at hs
  rw [hs]
  have := readRetry_clean framingCap mode [] msgs₂ c₂ h₂ hc₂ hp₂
  rw [List.append_nil, readRetry_nil] at this
  rw [this]

example : readRetry framingCap .handshake ([.chunk [0, 1], .chunk [5]] ++ .stall :: [.pending, .chunk [0, 0]])
    = [.ok [5]] ++ .error .timeout :: ([.ok []] ++ [.error .eof]) :=
  C05_timeout_between_frames_harmless .handshake [[5]] [[]] (by decide) (by decide) _ _ (by simp [Clean])
    (by simp [Clean]) (by decide) (by decide)

/-- **A transport that is cut off inside a frame is an error, never a short message** — whatever the cut is: the end of
the script, a 0-byte read (`eof` or an empty chunk), an I/O failure, a stall past the timeout; and what the next
read sees is the script after the cut (generalises `C05_eof_inside` to every kind of cut). -/
theorem C05_cut_inside_frame_is_error (mode : Mode) (c : List Ev) (m missing : Bytes) (tail : List Ev) (e : RErr)
    (r : List Ev) (hc : Clean c) (hp : payload c ++ missing = frame mode m) (hmiss : missing ≠ [])
    (hf : fits mode m) (hcap : m.length ≤ framingCap) (ht : cutErr tail = some (e, r)) :
    (readFramed framingCap mode (c ++ tail)).res = .error e ∧ (readFramed framingCap mode (c ++ tail)).rest = r :=
  readFramed_cut framingCap mode c m missing tail e r hc hp hmiss hf hcap ht

example : cutErr [.chunk [], .chunk [9]] = some (.eof, [.chunk [9]]) ∧ cutErr [.fail] = some (.io, []) ∧
    cutErr ([] : List Ev) = some (.eof, []) := by decide

/-! ### `FramedTransport` -/

/-- `FramedTransport` never frames one direction differently from the other: after any sequence of its operations the
framer's mode is the deframer's (so what one transport writes, a peer transport that went through the same mode
switches reads, by `C05_write_then_read`); and without a stream `read`, `write`, `write_raw` report it and touch
nothing. -/
theorem C05_transport_modes_agree (cap : Nat) (ops : List TOp) :
    (tstate cap TState.new ops).fm = (tstate cap TState.new ops).dm := by
  suffices h : ∀ (ops : List TOp) (st : TState), st.fm = st.dm → (tstate cap st ops).fm = (tstate cap st ops).dm from
    h ops TState.new rfl
  intro ops
  induction ops with
  | nil => intro st h; exact h
  | cons op r ih =>
    intro st h
    apply ih
    cases op <;> simp [tstep, h]

example : trun 100 TState.new [.write [7], .connect, .setMode .distribution, .write [7], .takeRead, .isConnected]
    = [.noStream, .unit, .unit, .wire [0, 0, 0, 1, 7], .bool true, .bool false] := by rfl

/-! ### the second copy of the read loop (`Connection::receive_message_from_read_half`, cap 64 MiB) -/

/-- split invariance of the second copy: ticks are skipped, every other body is handed on, in order, whatever the
segmentation; then end of stream is reported -/
theorem C05_rh_split_invariance (bodies : List Bytes)
    (h : ∀ m ∈ bodies, fits .distribution m ∧ m.length ≤ connCap) (evs : List Ev) (hc : Clean evs)
    (hp : payload evs = (bodies.map (frame .distribution)).flatten) :
    recvAll connCap evs = (bodies.filter (· ≠ [])).map .ok ++ [.error .eof] := by
  have := recvAll_clean connCap [] bodies evs h hc hp
  rw [List.append_nil, recvAll_nil] at this
  exact this

example : recvAll connCap [.chunk [0, 0, 0], .chunk [0, 0], .pending, .chunk [0, 0, 1, 112]]
    = ([[], [112]].filter (· ≠ [])).map .ok ++ [.error .eof] :=
  C05_rh_split_invariance [[], [112]] (by decide) _ (by simp [Clean]) (by decide)

/-- compositional form -/
theorem C05_rh_split_invariance_then (bodies : List Bytes)
    (h : ∀ m ∈ bodies, fits .distribution m ∧ m.length ≤ connCap) (c tail : List Ev) (hc : Clean c)
    (hp : payload c = (bodies.map (frame .distribution)).flatten) :
    recvAll connCap (c ++ tail) = (bodies.filter (· ≠ [])).map .ok ++ recvAll connCap tail :=
  recvAll_clean connCap tail bodies c h hc hp

example : payload [.chunk [0, 0, 0], .chunk [0, 0], .pending, .chunk [0, 0, 1, 112]]
    = ([[], [112]].map (frame .distribution)).flatten := by decide

/-- on every script: a body returned by the second copy is a complete, non-empty frame of the stream that follows some
number of ticks; never a short one; and the script left over delivers exactly what follows -/
theorem C05_rh_ok_is_exact_frame (evs : List Ev) (m : Bytes) (h : (recvBody connCap evs).res = .ok m) :
    m ≠ [] ∧ m.length ≤ connCap ∧
    ∃ j, payload evs = (List.replicate j (frame .distribution [])).flatten ++ frame .distribution m
      ++ payload (recvBody connCap evs).rest := by
  obtain ⟨_, h2, h3, _, _, h6⟩ := recvBodyF_ok connCap _ evs m h
  exact ⟨h2, h3, h6⟩

example : (recvBody connCap [.chunk [0, 0, 0, 0, 0, 0], .chunk [0, 2, 112, 1]]).res = .ok [112, 1] := by rfl

/-- over the (smaller) cap of the second copy: refused before the body buffer is requested -/
theorem C05_rh_cap (c : List Ev) (len : Nat) (rest : Bytes) (tail : List Ev) (hc : Clean c)
    (hp : payload c = beN 4 len ++ rest) (hl : len < 2 ^ 32) (hcap : connCap < len) :
    ∃ c', Clean c' ∧ payload c' = rest ∧
      recvBody connCap (c ++ tail) = ⟨.error (.tooLarge len), c' ++ tail, 0⟩ :=
  recvBody_clean_overcap connCap c len rest tail hc hp (by simpa using hl) hcap

example : payload [.chunk [4], .chunk [0, 0, 1]] = beN 4 (connCap + 1) ++ [] := by decide

/-- on every script: the second copy never requests a body buffer above its cap -/
theorem C05_rh_alloc_bounded (evs : List Ev) : (recvBody connCap evs).allocRequested ≤ connCap :=
  recvBodyF_alloc_le connCap _ evs

/-- the second copy under a timeout (each of its two `read_exact`s has its own): a stall after a strict prefix of a
non-tick frame — nothing at a boundary — gives `Timeout`, drops what was consumed, and the next call starts after
the stall -/
theorem C05_rh_timeout_drops_consumed_bytes (c : List Ev) (m missing : Bytes) (tail : List Ev)
    (hc : Clean c) (hp : payload c ++ missing = frame .distribution m) (hmiss : missing ≠ [])
    (hf : fits .distribution m) (hcap : m.length ≤ connCap) :
    (recvBody connCap (c ++ .stall :: tail)).res = .error .timeout ∧
    (recvBody connCap (c ++ .stall :: tail)).rest = tail ∧
    recvRetry connCap (c ++ .stall :: tail) = .error .timeout :: recvRetry connCap tail := by
  obtain ⟨h1, h2⟩ := recvBody_cut connCap c m missing (.stall :: tail) .timeout tail hc hp hmiss hf hcap rfl
  exact ⟨h1, h2, recvRetry_stall connCap c m missing tail hc hp hmiss hf hcap⟩

example : payload [.chunk [0, 0, 0, 5]] ++ [0, 0, 0, 1, 9] = frame .distribution [0, 0, 0, 1, 9] := by decide

/-- the finding in the second copy: the body `[0,0,0,1,9]` delivered as length bytes, a stall, the body — the retry
takes the body's first four bytes for a length and hands on the body `[9]`, which was never sent -/
theorem C05_rh_not_delay_invariant :
    ∃ (body : Bytes) (evs : List Ev), fits .distribution body ∧ body.length ≤ connCap ∧
      payload evs = frame .distribution body ∧ (∀ e ∈ evs, e ≠ .eof ∧ e ≠ .fail ∧ e ≠ .chunk []) ∧
      recvRetry connCap evs = [.error .timeout, .ok [9], .error .eof] ∧ [9] ≠ body :=
  ⟨[0, 0, 0, 1, 9], [.chunk [0, 0, 0, 5], .stall, .chunk [0, 0, 0, 1, 9]], by decide, by decide, by decide, by decide,
    by rfl, by decide⟩

/-- the two copies disagree about what is too large: a length between the caps is read by `read_framed` and refused by
`receive_message_from_read_half` -/
theorem C05_caps_differ : connCap < framingCap := by decide

end Edp.Props.C05
