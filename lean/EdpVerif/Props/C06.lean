import EdpVerif.Generated.MiscC09
import EdpVerif.Generated.MiscState
import EdpVerif.Lemmas.Recv
import EdpVerif.Lemmas.RecvBody
import EdpVerif.Lemmas.RecvExits
import EdpVerif.Props.C09
import EdpVerif.Generated.Control
/-
C06 — receiving delivers each peer message exactly once, in order, and survives junk.

Property theorems only. The model of the receive path is EdpVerif/Impl/Recv.lean (`recv`: one iteration of the loop of
`Connection::receive_message` on a deframed body at a clock reading — `cleanup_expired` on the assembler, then the
dispatch; `outs`/`recvAll`: what a timed frame history makes successive calls return; `recvRH`/`recvAllRH`: the read-half
copy the node's receiver task runs). The atom cache and the distribution-header parser are the model of property C14
(EdpVerif/Impl/DistHeader.lean) — there is no second model of them. The frames of a conforming peer are
EdpVerif/Spec/Peer.lean (framing) and EdpVerif/Spec/DistHeader.lean (`sendHeader`: the header a conforming sender with an
atom cache writes; `Conforming`); a sender's history is `Props.C14.ConformingSeq`, and that the header parser resolves every
position of every such history to the sender's atom is `C14_history`, which the header-mode theorems here build on.
The vocabulary (`Reads`, `Sent`, `CSent`, `Framing`, `TermsConform`, `SeqsFree`, `SelfContained`, `Mono`, `NoDecPanic`,
`fragSeq`, `CacheGrew`) and the helper lemmas are EdpVerif/Lemmas/Recv.lean and Lemmas/RecvHeader.lean (`Avoids`,
`wroteSlots`). Deframing (length prefix, segmentation) is C05; that the bytes an encoder writes `Reads` as the term is
C01/C03.

"`bs` are the bytes of term `t`" is `Reads x c bs t`: the term decoder reads `bs` as `t` under the position table `c`
(what `ATOM_CACHE_REF` looks into) wherever they stand. Non-vacuity: `readsAt_nil`, `readsAt_small_int`,
`readsAt_cache_ref`, `readsAt_tuple` (Lemmas/Recv.lean) and the examples below.
-/
namespace Edp.Props.C06
open Edp Edp.Recv Edp.Spec.Peer Edp.Spec.DistHeader Edp.DistHeader Edp.Props.C14

/-! ### ticks -/

/-- TICKS NEVER SURFACE: a tick (empty frame) ends no call and leaves the atom cache alone; all it does to the connection
is the `cleanup_expired` every received frame triggers. -/
theorem C06_tick_is_skipped (x : Ext) (tbl : Control.Table) (now : Nat) (s : St) :
    (recv x tbl now s tick).2 = none ∧ (recv x tbl now s tick).1.cache = s.cache ∧
      (recv x tbl now s tick).1.asm = (s.asm.cleanupExpired now).1 := ⟨rfl, rfl, rfl⟩

/-- … and ticks anywhere in a history are invisible: any history (every state, every frame list, valid or not, any clock
that does not run backwards) returns exactly what it returns with its ticks removed, through both receive functions. -/
theorem C06_ticks_invisible (x : Ext) (tbl : Control.Table) (s : St) (tfs : List TFrame) (hm : Mono tfs) (fs : List Bytes) :
    recvAll x tbl s tfs = recvAll x tbl s (noTicks tfs) ∧
    recvAllRH x tbl fs = recvAllRH x tbl (fs.filter (fun f => !isTick f)) :=
  ⟨recvAll_ticks x tbl s tfs hm, recvAllRH_ticks x tbl fs⟩

example : recvAll Ext.none Gen.controlTable St.init [(0, []), (5, [112]), (9, [])] =
    recvAll Ext.none Gen.controlTable St.init [(5, [112])] :=
  (C06_ticks_invisible _ _ _ _ (by simp [Mono]) []).1

/-! ### exactly once, in order -/

/-- EXACTLY ONCE, IN ORDER, PASS-THROUGH FORM: for every list of messages (any control tuple the library presents as
`msg`, any payload, any size) sent as `112, 131, control [, 131, payload]` with ticks anywhere, at any clock readings, in
every state of the connection, successive `receive_message` calls return exactly the messages, each once, in order,
payloads intact. -/
theorem C06_passthrough_exactly_once_in_order (x : Ext) (tbl : Control.Table) (s : St) (msgs : List Sent)
    (hconf : ∀ m ∈ msgs, m.Conforms x tbl []) (tfs : List TFrame)
    (hfs : WithTicks (bodies tfs) (msgs.map fun m => passThrough m.wire)) :
    recvAll x tbl s tfs = msgs.map Sent.expected := by
  rw [recvAll, filterMap_outs_passThrough x tbl tfs msgs s hconf hfs, cutPanic_map_expected]

/-- the same through `receive_message_from_read_half` (the node's receiver task; `Node::connect` offers the default
flags, which lack DIST_HDR_ATOM_CACHE, so pass-through is the only form the negotiated flags allow there) -/
theorem C06_readhalf_exactly_once_in_order (x : Ext) (tbl : Control.Table) (msgs : List Sent)
    (hconf : ∀ m ∈ msgs, m.Conforms x tbl []) (fs : List Bytes)
    (hfs : WithTicks fs (msgs.map fun m => passThrough m.wire)) :
    recvAllRH x tbl fs = msgs.map Sent.expected := by
  rw [recvAllRH_ticks, hfs, recvAllRH, filterMap_recvRH_passThrough x tbl msgs hconf, cutPanic_map_expected]

/-- the NODE_LINK message `{5}` with payload `[]`, as bytes and as the library's message -/
def nodeLink : Sent := { cb := [104, 1, 97, 5], ct := .tuple [.int 5], msg := .known "NodeLink" [], pay := some ([106], .nil) }

theorem C06_witness_nodeLink_conforms (x : Ext) (c : PosTable) : nodeLink.Conforms x Gen.controlTable c where
  ctl := readsAt_tuple x c 0 (by simp [MAX_NESTING_DEPTH]) [[97, 5]] [.int 5]
    (.cons (readsAt_small_int x c 1 (by simp [MAX_NESTING_DEPTH]) 5) .nil) (by simp)
  pay := by
    intro pb p h
    simp only [nodeLink, Option.some.injEq, Prod.mk.injEq] at h
    obtain ⟨rfl, rfl⟩ := h
    exact readsAt_nil x c 0 (by simp [MAX_NESTING_DEPTH])
  parse := by rfl

/-- non-vacuity: two such messages with a tick between them -/
example (x : Ext) (s : St) :
    recvAll x Gen.controlTable s [(3, passThrough nodeLink.wire), (4, []), (4, passThrough nodeLink.wire)] =
      [nodeLink.expected, nodeLink.expected] :=
  C06_passthrough_exactly_once_in_order x Gen.controlTable s [nodeLink, nodeLink]
    (by intro m hm; simp at hm; subst hm; exact C06_witness_nodeLink_conforms x []) _ rfl

/-- EXACTLY ONCE, IN ORDER, DISTRIBUTION-HEADER FORM, FULL QUANTIFIER: for EVERY history of a conforming sender with an
atom cache (`ConformingSeq`: in each message any number ≤ 255 of references — new entries carrying their text, references
without text to slots that hold exactly that atom, overwrites —, any segment and internal index, header position
independent of the slot, LongAtoms chosen freely as long as the lengths fit; any number of messages), each message sent
either whole in a `131, 68` frame or as the single fragment `131, 69, seq, 1, …` of a sequence the assembler holds
nothing for, with ticks anywhere and at any clock readings, from every state whose cache agrees slot by slot with the
sender's (`St.init` and the empty sender in particular): successive `receive_message` calls return exactly the messages,
each once, in order, control message and payload as the sender meant them — and afterwards the connection's cache agrees
with the sender's again. -/
theorem C06_header_exactly_once_in_order (x : Ext) (tbl : Control.Table) (s : St) (sndr : Slots)
    (hs : List (CSent × Framing)) (tfs : List TFrame)
    (hagree : SlotsAgree s.cache sndr) (hconf : ConformingSeq sndr (hs.map (·.1.c14)))
    (hterms : ∀ p ∈ hs, p.1.TermsConform x tbl) (hseq : SeqsFree s.asm hs)
    (hfs : WithTicks (bodies tfs) (hs.map fun p => p.1.framed p.2)) :
    recvAll x tbl s tfs = hs.map (fun p => p.1.m.expected) ∧
    SlotsAgree (after x tbl s tfs).cache (slotsAfter sndr (hs.map (·.1.c14))) := by
  obtain ⟨h1, h2⟩ := outs_cached x tbl tfs hs s sndr hagree hconf hterms hseq hfs
  refine ⟨?_, h2⟩
  rw [recvAll, h1]
  have e : (hs.map fun p => p.1.m.expected) = (hs.map (·.1.m)).map Sent.expected := by simp
  rw [e, cutPanic_map_expected]

/-- `{5}` with payload `'a@h'`: the atom is created in cache slot (segment 3, index 7) and referenced as `82, 0` -/
def linkNew : CSent :=
  { m := { cb := [104, 1, 97, 5], ct := .tuple [.int 5], msg := .known "NodeLink" [], pay := some ([82, 0], .atom [97, 64, 104]) }
    long := false, es := [⟨[97, 64, 104], 3, 7, true⟩] }

/-- the same message from a sender that knows the receiver holds the atom: a reference WITHOUT text to slot (3, 7) -/
def linkOld : CSent := { linkNew with es := [⟨[97, 64, 104], 3, 7, false⟩] }

theorem C06_witness_link_conforms (x : Ext) : linkNew.TermsConform x Gen.controlTable ∧ linkOld.TermsConform x Gen.controlTable := by
  have h : ∀ (es : List Entry) (he : es.length = 1) (ha : es[0].atom = [97, 64, 104]) (c : PosTable), Holds c es →
      linkNew.m.Conforms x Gen.controlTable c := by
    intro es he ha c hc
    refine ⟨(C06_witness_nodeLink_conforms x c).ctl, ?_, by rfl⟩
    intro pb p h
    simp only [linkNew, Option.some.injEq, Prod.mk.injEq] at h
    obtain ⟨rfl, rfl⟩ := h
    have := hc 0 (by omega)
    rw [ha] at this
    exact readsAt_cache_ref x c 0 (by simp [MAX_NESTING_DEPTH]) 0 _ (by simpa using this)
  exact ⟨fun c hc => h _ rfl rfl c hc, fun c hc => h _ rfl rfl c hc⟩

/-- non-vacuity: the atom is sent once; the second message (a single fragment) and the third refer to the cached entry;
ticks in between; a fresh connection -/
example (x : Ext) :
    recvAll x Gen.controlTable St.init [(0, []), (1, linkNew.frame), (2, linkOld.single 9), (2, []), (7, linkOld.frame)] =
      [linkNew.m.expected, linkNew.m.expected, linkNew.m.expected] := by
  have hc := C06_witness_link_conforms x
  refine (C06_header_exactly_once_in_order x Gen.controlTable St.init [] [(linkNew, .whole), (linkOld, .single 9), (linkOld, .whole)]
    [(0, []), (1, linkNew.frame), (2, linkOld.single 9), (2, []), (7, linkOld.frame)] (fun _ => rfl) ?_ ?_ ?_ (by unfold WithTicks; decide)).1
  · simp [ConformingSeq, Conforming, CSent.c14, linkNew, linkOld, upd, sendSlots, List.lookup, validUtf8, utf8Decode]
  · intro p hp
    simp at hp
    rcases hp with rfl | rfl | rfl
    · exact hc.1
    · exact hc.2
    · exact hc.2
  · intro p hp seq hq
    simp at hp
    rcases hp with rfl | rfl | rfl <;> simp at hq
    subst hq
    exact ⟨by omega, rfl⟩

/-- the frames really are the protocol's layout: `131, 68, N = 1, flags (new | segment 3; short atoms), index 7, len 3, a@h,
{5}, ref 0`, and `131, 68, 1, flags (old | segment 3), index 7, {5}, ref 0` -/
example : linkNew.frame = [131, 68, 1, 0x0b, 7, 3, 97, 64, 104, 104, 1, 97, 5, 82, 0] ∧
    linkOld.frame = [131, 68, 1, 0x03, 7, 104, 1, 97, 5, 82, 0] := by decide

/-- the library's own sender as a special case: a message that brings all its atoms along (every reference a new entry,
any segment, any index) is delivered in EVERY state, whatever the cache held before -/
theorem C06_header_all_new_any_state (x : Ext) (tbl : Control.Table) (now : Nat) (s : St) (h : CSent)
    (hn : h.es.length ≤ 255) (hall : AllNew h.long h.es) (hv : ∀ e ∈ h.es, validUtf8 e.atom = true)
    (ht : h.TermsConform x tbl) : (recv x tbl now s h.frame).2 = some h.m.expected :=
  recv_allNew x tbl now s h hn hall hv ht

example (x : Ext) (now : Nat) (s : St) : (recv x Gen.controlTable now s linkNew.frame).2 = some linkNew.m.expected :=
  C06_header_all_new_any_state x _ now s linkNew (by decide) (by simp [AllNew, linkNew]) (by decide)
    (C06_witness_link_conforms x).1

/-! ### fragments -/

/-- A MESSAGE SENT AS ONE FRAGMENT (`131, 69, seq, fragId = 1, N, flags, refs…, terms`) is handled exactly like the same
message without fragmentation — same result, same state — for ANY content (valid or junk), any sequence id the assembler
holds nothing for, at any clock reading. -/
theorem C06_single_fragment_as_unfragmented (x : Ext) (tbl : Control.Table) (now : Nat) (s : St) (seq : Nat) (n : UInt8)
    (rest : Bytes) (hs : seq < 2 ^ 64) (h0 : Frag.lookup seq s.asm.pending = none) :
    recv x tbl now s (fragFirst seq 1 [n] rest) = recv x tbl now s (131 :: 68 :: n :: rest) := by
  have := recv_single_fragment x tbl now s seq n rest hs h0
  simpa [fragFirst] using this

example (x : Ext) (now : Nat) : (recv x Gen.controlTable now St.init (fragFirst 7 1 [0] ([104, 1, 97, 5] ++ [106]))).2 =
    some nodeLink.expected := by
  rw [C06_single_fragment_as_unfragmented x _ now _ 7 0 _ (by omega) rfl]
  exact C06_header_all_new_any_state x _ now St.init { m := nodeLink, long := false, es := [] } (by decide)
    (by simp [AllNew]) (by simp) (fun c _ => C06_witness_nodeLink_conforms x c)

/- THE PROPERTY FOR FRAGMENTED MESSAGES, full strength (NOT provable, see `C06_not_fragmented_delivered`):
   for every message, every cut `lens` of its terms' bytes, `outs x tbl s (fragmented seq hdr w lens)` is
   `none, …, none, some expected`.
   The assembler (fragmentation.rs) concatenates the pieces by ASCENDING fragment id, the protocol by descending id
   (KF-C09-ascending-order, pinned by the repository's tests), so a message in two or more fragments comes out scrambled. -/

/-- FRAGMENTED, PARTIAL (guard: two fragments, the second piece empty — the cuts that read the same in both orders —, the
second frame read before the sequence times out): nothing is returned at the first frame, and the second frame returns
exactly what the unfragmented message returns at that moment and leaves the same atom cache. -/
theorem C06_fragmented_partial (x : Ext) (tbl : Control.Table) (now₁ now₂ : Nat) (s : St) (seq : Nat) (n : UInt8) (rest : Bytes)
    (hs : seq < 2 ^ 64) (h0 : Frag.lookup seq s.asm.pending = none) (hlive : now₂ - now₁ ≤ s.asm.timeout) :
    (recv x tbl now₁ s (fragFirst seq 2 [n] rest)).2 = none ∧
    (recv x tbl now₂ (recv x tbl now₁ s (fragFirst seq 2 [n] rest)).1 (fragCont seq 1 [])).2 =
      (recv x tbl now₂ s (131 :: 68 :: n :: rest)).2 ∧
    (recv x tbl now₂ (recv x tbl now₁ s (fragFirst seq 2 [n] rest)).1 (fragCont seq 1 [])).1.cache =
      (recv x tbl now₂ s (131 :: 68 :: n :: rest)).1.cache := by
  have := recv_two_fragments x tbl now₁ now₂ s seq n rest hs h0 hlive
  simpa [fragFirst] using this

/-- the guard is what `Spec.Peer.fragmented` produces for a cut that gives everything to the first fragment -/
example : fragmented 7 [0] nodeLink.wire [5] = [fragFirst 7 2 [0] [104, 1, 97, 5, 106], fragCont 7 1 []] := by decide

/-- DEFECT (negation of the full-strength property for fragmented messages; known finding KF-C06-multi-fragment-order):
the message `{5}` with payload `[]` cut after its control tuple into two fragments, which the protocol's receiver delivers
as NODE_LINK with payload `[]`, makes `receive_message` return one error at the second frame and nothing else. -/
theorem C06_not_fragmented_delivered :
    ∃ (seq : Nat) (hdr : Bytes) (m : Sent) (lens : List Nat), m.Conforms Ext.none Gen.controlTable [] ∧
      (outs Ext.none Gen.controlTable St.init (atTime 0 (fragmented seq hdr m.wire lens))).map (Option.map Res.text) =
        [none, some "err"] ∧
      (outs Ext.none Gen.controlTable St.init (atTime 0 [withHeader hdr m.wire])).map (Option.map Res.text) =
        [some "ok~NodeLink{}~N"] := by
  refine ⟨1, [0], nodeLink, [4], C06_witness_nodeLink_conforms _ _, by decide, ?_⟩
  have := C06_header_all_new_any_state Ext.none Gen.controlTable 0 St.init { m := nodeLink, long := false, es := [] } (by decide)
    (by simp [AllNew]) (by simp) (fun c _ => C06_witness_nodeLink_conforms _ c)
  have e : withHeader [0] nodeLink.wire = CSent.frame { m := nodeLink, long := false, es := [] } := by decide
  simp only [atTime, outs, e, this, List.map_cons, List.map_nil, Option.map_some]
  decide

/-- DEFECT (known finding KF-C06-fragment-header-applied-late): the cache entries a FRAGMENT HEADER announces take effect
only when the LAST fragment completes the sequence (the header is parsed by `decode_complete_fragment`), not when the first
fragment arrives. The peer announces them with the first fragment and may refer to them in any later frame, also in a
message that overtakes the rest of the sequence. Witness: `linkNew` (creates slot (3, 7)) and `linkOld` (refers to it without
text) are a conforming sender's history and are both delivered when sent whole; with `linkNew` in two fragments and `linkOld`
between them, `linkOld` is refused. Guarded form: `C06_fragmented_partial` (nothing but ticks between the fragments). -/
theorem C06_not_fragment_header_entries_known_at_once :
    ConformingSeq [] [linkNew.c14, linkOld.c14] ∧
      linkNew.TermsConform Ext.none Gen.controlTable ∧ linkOld.TermsConform Ext.none Gen.controlTable ∧
      recvAll Ext.none Gen.controlTable St.init [(0, linkNew.frame), (0, linkOld.frame)] = [linkNew.m.expected, linkNew.m.expected] ∧
      (outs Ext.none Gen.controlTable St.init
        [(0, fragFirst 9 2 linkNew.header linkNew.m.wire.terms), (0, linkOld.frame)]).map (Option.map Res.text) =
        [none, some "err"] := by
  have hc := C06_witness_link_conforms Ext.none
  have hseq : ConformingSeq [] [linkNew.c14, linkOld.c14] := by
    simp [ConformingSeq, Conforming, CSent.c14, linkNew, linkOld, upd, sendSlots, List.lookup, validUtf8, utf8Decode]
  refine ⟨hseq, hc.1, hc.2, ?_, by decide⟩
  refine (C06_header_exactly_once_in_order Ext.none Gen.controlTable St.init [] [(linkNew, .whole), (linkOld, .whole)]
    [(0, linkNew.frame), (0, linkOld.frame)] (fun _ => rfl) (by simpa using hseq) ?_ ?_ (by unfold WithTicks; decide)).1
  · intro p hp
    simp at hp
    rcases hp with rfl | rfl
    · exact hc.1
    · exact hc.2
  · intro p hp seq hq
    simp at hp
    rcases hp with rfl | rfl <;> simp at hq

/-! ### the read-half copy in header mode -/

/-- `receive_message_from_read_half` has no atom cache and no assembler: every frame that is not a tick and does not start
with the pass-through marker — every `131, 68` / `131, 69` / `131, 70` frame of a header-mode peer in particular — is
answered with an error. -/
theorem C06_readhalf_refuses_header_frames (x : Ext) (tbl : Control.Table) (a : UInt8) (r : Bytes) (h : a ≠ 112) :
    recvRH x tbl (a :: r) = some .err := by
  simp [recvRH, h]

/-- DEFECT (known finding KF-C06-read-half-header-mode): a message of a conforming header-mode sender that
`receive_message` delivers is refused by `receive_message_from_read_half`. Not reachable through `edp_node` (`Node::connect`
never offers DIST_HDR_ATOM_CACHE), only through the public API (`with_flags` + `take_read_half`). The guarded form of the
property for this function is `C06_readhalf_exactly_once_in_order` (pass-through frames). -/
theorem C06_not_readhalf_header_delivered (x : Ext) :
    ∃ h : CSent, h.TermsConform x Gen.controlTable ∧ ConformingSeq [] [h.c14] ∧
      (∀ now, (recv x Gen.controlTable now St.init h.frame).2 = some h.m.expected) ∧
      recvRH x Gen.controlTable h.frame = some .err :=
  ⟨linkNew, (C06_witness_link_conforms x).1,
    by simp [ConformingSeq, Conforming, CSent.c14, linkNew, validUtf8, utf8Decode],
    fun now => C06_header_all_new_any_state x _ now St.init linkNew (by decide) (by simp [AllNew, linkNew]) (by decide)
      (C06_witness_link_conforms x).1,
    C06_readhalf_refuses_header_frames x _ 131 _ (by decide)⟩

/-! ### junk -/

/-- NO PANIC: whatever the frame, the state and the clock, `receive_message` does not panic (every slice and index site of
the path is a conditional panic in the model — the `flags[..]` sites of the header parser included; the term decoder's own
site is unreachable under the inflater's contract that it never reports more input consumed than it was given). -/
theorem C06_no_panic (x : Ext) (hx : ∀ z out n, x.inflate z = some (out, n) → n ≤ z.length)
    (tbl : Control.Table) (htbl : Control.TableOK tbl) (now : Nat) (s : St) (frame : Bytes) :
    (recv x tbl now s frame).2 ≠ some .panic :=
  recv_ne_panic (noDecPanic_of_inflate x hx) htbl now s frame

/-- … neither does `receive_message_from_read_half` -/
theorem C06_readhalf_no_panic (x : Ext) (hx : ∀ z out n, x.inflate z = some (out, n) → n ≤ z.length)
    (tbl : Control.Table) (htbl : Control.TableOK tbl) (frame : Bytes) : recvRH x tbl frame ≠ some .panic :=
  recvRH_ne_panic (noDecPanic_of_inflate x hx) htbl frame

/-- the table extracted from control.rs on this run satisfies the side condition -/
theorem C06_table_ok : Control.TableOK Gen.controlTable := by decide

/-- the term decoder never reaches its panic site, at any nesting depth, for every input, cache and fuel -/
theorem C06_decoder_no_panic (x : Ext) (hx : ∀ z out n, x.inflate z = some (out, n) → n ≤ z.length)
    (cfg : DecCfg) (fuel d : Nat) (bs : Bytes) : dec x cfg fuel d bs ≠ .error .panic :=
  dec_never_panics x hx cfg fuel d bs

/-- PASS-THROUGH FRAMES NEITHER READ NOR WRITE THE STATE: a frame that starts with the pass-through marker — valid or
junk — returns a result that depends on the frame alone and leaves the atom cache as it was and the assembler as
`cleanup_expired` leaves it. -/
theorem C06_passthrough_stateless (x : Ext) (tbl : Control.Table) (now now' : Nat) (s s' : St) (r : Bytes) :
    (recv x tbl now s (112 :: r)).1 = expire now s ∧ (recv x tbl now s (112 :: r)).2 = (recv x tbl now' s' (112 :: r)).2 := by
  simp [recv_112]

/-- JUNK ISOLATION: insert ANY frame `junk` (random bytes, truncated terms, wrong markers, broken fragment headers,
a valid message — anything) at any position of a history; if the frames after it are self-contained (their result does not
depend on the state: `C06_selfcontained_frames`), then the frames before it return what they returned, the junk frame
returns its own result (an error, or nothing), and EVERY LATER FRAME RETURNS EXACTLY WHAT IT RETURNS WITHOUT THE JUNK. -/
theorem C06_junk_isolated (x : Ext) (tbl : Control.Table) (s : St) (good₁ good₂ : List TFrame) (junk : TFrame)
    (h₂ : ∀ f ∈ good₂, SelfContained x tbl f.2) :
    outs x tbl s (good₁ ++ junk :: good₂) =
      outs x tbl s good₁ ++ (recv x tbl junk.1 (after x tbl s good₁) junk.2).2 :: outs x tbl (after x tbl s good₁) good₂ ∧
    outs x tbl s (good₁ ++ good₂) = outs x tbl s good₁ ++ outs x tbl (after x tbl s good₁) good₂ :=
  ⟨outs_insert x tbl s good₁ good₂ junk h₂, outs_append x tbl good₁ good₂ s⟩

/-- which frames are self-contained: ticks, every frame with the pass-through marker, and every header-mode message that
brings all its atoms along (every reference a new entry — what the library's own sender writes) -/
theorem C06_selfcontained_frames (x : Ext) (tbl : Control.Table) :
    SelfContained x tbl tick ∧ (∀ r, SelfContained x tbl (112 :: r)) ∧
    (∀ h : CSent, h.es.length ≤ 255 → AllNew h.long h.es → (∀ e ∈ h.es, validUtf8 e.atom = true) → h.TermsConform x tbl →
      SelfContained x tbl h.frame) := by
  refine ⟨selfContained_tick x tbl, selfContained_112 x tbl, ?_⟩
  intro h hn hall hv ht now now' s s'
  rw [recv_allNew x tbl now s h hn hall hv ht, recv_allNew x tbl now' s' h hn hall hv ht]

/-- junk between two such messages: both are delivered, whatever the junk frame is and does -/
example (x : Ext) (s : St) (junk : TFrame) :
    outs x Gen.controlTable s ([(1, linkNew.frame)] ++ junk :: [(2, linkNew.frame)]) =
      [some linkNew.m.expected] ++ (recv x Gen.controlTable junk.1 (after x Gen.controlTable s [(1, linkNew.frame)]) junk.2).2 ::
        [some linkNew.m.expected] := by
  have h : ∀ now s, (recv x Gen.controlTable now s linkNew.frame).2 = some linkNew.m.expected := fun now s =>
    C06_header_all_new_any_state x _ now s linkNew (by decide) (by simp [AllNew, linkNew]) (by decide) (C06_witness_link_conforms x).1
  rw [(C06_junk_isolated x Gen.controlTable s _ _ junk
    (by intro f hf; simp at hf; subst hf; intro now now' s s'; simp only; rw [h, h])).1]
  simp [outs, h]

/-- JUNK ISOLATION IN HEADER MODE, WITH THE ATOM CACHE CARRIED ALONG. A conforming sender's history `hs₁ ++ hs₂` (as in
`C06_header_exactly_once_in_order`: cached references, overwrites, whole frames and single fragments, ticks anywhere) with
ANY frame `junk` inserted between the two parts. The junk frame may have written cache slots behind the sender's back
before it failed — a malformed distribution header keeps the new entries it read before the point of failure, a
well-formed header with undecodable terms keeps all of them —: `wroteSlots` names exactly the slots written. Then: the
messages before the junk are delivered, the junk frame returns its own result (an error, or nothing), and EVERY message
after it is delivered exactly as the sender meant it, provided the later history does not READ one of the written slots
(a reference without text) before WRITING it anew (`Avoids`) and its single-fragment sequence ids are still free. -/
theorem C06_header_junk_isolated (x : Ext) (tbl : Control.Table) (s : St) (sndr : Slots)
    (hs₁ hs₂ : List (CSent × Framing)) (tfs₁ tfs₂ : List TFrame) (junk : TFrame)
    (hagree : SlotsAgree s.cache sndr) (hconf : ConformingSeq sndr ((hs₁ ++ hs₂).map (·.1.c14)))
    (hterms : ∀ p ∈ hs₁ ++ hs₂, p.1.TermsConform x tbl) (hseq₁ : SeqsFree s.asm hs₁)
    (hfs₁ : WithTicks (bodies tfs₁) (hs₁.map fun p => p.1.framed p.2))
    (hfs₂ : WithTicks (bodies tfs₂) (hs₂.map fun p => p.1.framed p.2))
    (hav : Avoids (wroteSlots (after x tbl s tfs₁).cache (recv x tbl junk.1 (after x tbl s tfs₁) junk.2).1.cache) (hs₂.map (·.1.c14)))
    (hseq₂ : SeqsFree (recv x tbl junk.1 (after x tbl s tfs₁) junk.2).1.asm hs₂) :
    (outs x tbl s (tfs₁ ++ junk :: tfs₂)).filterMap id =
      hs₁.map (fun p => p.1.m.expected) ++ (recv x tbl junk.1 (after x tbl s tfs₁) junk.2).2.toList ++
        hs₂.map (fun p => p.1.m.expected) := by
  rw [List.map_append, conformingSeq_append] at hconf
  obtain ⟨hc1, hc2⟩ := hconf
  obtain ⟨h1, hag1⟩ := outs_cached x tbl tfs₁ hs₁ s sndr hagree hc1 (fun p hp => hterms p (by simp [hp])) hseq₁ hfs₁
  have h2 := outs_cached_after_write x tbl tfs₂ hs₂ (after x tbl s tfs₁).cache
    (recv x tbl junk.1 (after x tbl s tfs₁) junk.2).1 _ hag1 (recv_cache x tbl junk.1 _ junk.2).2 hc2 hav
    (fun p hp => hterms p (by simp [hp])) hseq₂ hfs₂
  rw [outs_append, List.filterMap_append, h1]
  simp only [outs, List.filterMap_cons, id_eq]
  cases hj : (recv x tbl junk.1 (after x tbl s tfs₁) junk.2).2 with
  | none => simp [h2]
  | some r => simp [h2]

/-- AN ACCEPTED HEADER IS APPLIED WHETHER OR NOT THE BODY DECODES. For EVERY `131, 68` frame (and every frame that is the only
fragment of a sequence), in every state, at every clock reading: the connection's atom cache after the frame is what the
header parser alone leaves — the bytes after the header (valid terms, truncated terms, a payload nested too deep, bytes left
over, a control tuple that is no control message) have no say in it. A peer that has sent a well-formed header treats every
entry it announced as known; this is what keeps its later frames readable when the body of this one is refused. -/
theorem C06_header_applied_whatever_the_body (x : Ext) (tbl : Control.Table) (now : Nat) (s : St) (r : Bytes) :
    (recv x tbl now s (131 :: 68 :: r)).1.cache = (parseHeader s.cache r).1 ∧
    (∀ r', (parseHeader s.cache r).1 = (parseHeader s.cache r').1 →
      (recv x tbl now s (131 :: 68 :: r)).1.cache = (recv x tbl now s (131 :: 68 :: r')).1.cache) ∧
    (∀ seq (n : UInt8) rest, r = n :: rest → seq < 2 ^ 64 → Frag.lookup seq s.asm.pending = none →
      (recv x tbl now s (fragFirst seq 1 [n] rest)).1.cache = (parseHeader s.cache r).1) := by
  have h : ∀ r, (recv x tbl now s (131 :: 68 :: r)).1.cache = (parseHeader s.cache r).1 := by
    intro r
    rw [recv_header_frame, recvHeader]
    exact decodeWithAtomCache_fst x s.cache r
  refine ⟨h r, fun r' e => by rw [h r, h r', e], ?_⟩
  intro seq n rest hr hs h0
  subst hr
  rw [C06_single_fragment_as_unfragmented x tbl now s seq n rest hs h0]
  exact h _

/-- the header of `linkNew` followed by NOTHING (the frame ends where the control tuple should start): slot (3, 7) is
written all the same -/
example (x : Ext) (now : Nat) :
    (recv x Gen.controlTable now St.init (131 :: 68 :: sendHeader false linkNew.es)).1.cache.slots = [((3, 7), [97, 64, 104])] := by
  rw [(C06_header_applied_whatever_the_body x Gen.controlTable now St.init _).1]
  decide

/-- A REFUSED BODY COSTS ONE ERROR AND NOTHING ELSE (junk isolation for frames with a VALID header, the cache carried
along). Any history of a conforming sender with an atom cache (as in `C06_header_exactly_once_in_order`: new entries,
references to existing entries, overwrites; whole frames and single fragments; ticks anywhere; any clock readings), in
which ANY NUMBER of messages reach the receiver with their header intact and ARBITRARY BYTES in place of their terms
(`Item.bad`; the sender knows nothing of it and goes on referring to the entries those headers announced): every message
that arrives as meant is delivered exactly as meant — those after a refused frame included, with NO guard on which slots
they read —, every other frame makes exactly one call return (an error whenever its bytes cannot be read as terms under any
table, `BodyRefused`), and after every frame — the refused ones included — the connection's cache agrees with the sender's. -/
theorem C06_refused_bodies_isolated (x : Ext) (tbl : Control.Table) (s : St) (sndr : Slots) (items : List Item)
    (tfs : List TFrame) (hagree : SlotsAgree s.cache sndr) (hconf : ConformingSeq sndr (items.map Item.c14))
    (hterms : ∀ h fr, Item.good h fr ∈ items → h.TermsConform x tbl) (hseq : ItemsFree s.asm items)
    (hfs : WithTicks (bodies tfs) (items.map Item.frame)) :
    Matches x items ((outs x tbl s tfs).filterMap id) ∧
    SlotsAgree (after x tbl s tfs).cache (slotsAfter sndr (items.map Item.c14)) :=
  outs_items x tbl tfs items s sndr hagree hconf hterms hseq hfs

/-- non-vacuity: the frame that creates slot (3, 7) ends right after its header (an error); the next two messages refer to
the slot without text — one of them as a single fragment, a tick in between — and are delivered -/
example (x : Ext) :
    (outs x Gen.controlTable St.init [(0, 131 :: 68 :: sendHeader false linkNew.es), (1, linkOld.single 9), (2, []), (3, linkOld.frame)]).filterMap id =
      [.err, linkNew.m.expected, linkNew.m.expected] := by
  have hc := C06_witness_link_conforms x
  have h := (C06_refused_bodies_isolated x Gen.controlTable St.init []
    [.bad false linkNew.es [] .whole, .good linkOld (.single 9), .good linkOld .whole]
    [(0, 131 :: 68 :: sendHeader false linkNew.es), (1, linkOld.single 9), (2, []), (3, linkOld.frame)] (fun _ => rfl) ?_ ?_ ?_
    (by unfold WithTicks; decide)).1
  · generalize (outs x Gen.controlTable St.init _).filterMap id = l at h
    rcases l with _ | ⟨r0, _ | ⟨r1, _ | ⟨r2, _ | ⟨r3, l⟩⟩⟩⟩ <;> simp only [Matches, and_false] at h
    obtain ⟨h0, h1, h2, _⟩ := h
    rw [h0 (bodyRefused_nil x), h1, h2]
    rfl
  · simp [ConformingSeq, Conforming, Item.c14, CSent.c14, linkNew, linkOld, upd, sendSlots, List.lookup, validUtf8, utf8Decode]
  · intro h fr hm
    simp at hm
    rcases hm with ⟨rfl, _⟩ | ⟨rfl, _⟩ <;> exact hc.2
  · intro it hit seq hq
    simp at hit
    rcases hit with rfl | rfl | rfl <;> simp [Item.framing] at hq
    subst hq
    exact ⟨by omega, rfl⟩

/-- a junk frame that writes no cache slot — every frame that is not `131, 68 | 69 | 70` (random bytes, wrong markers,
unmarked terms, pass-through frames), and every other frame that fails before its header has written anything — costs
nothing: ALL later messages of the sender are delivered -/
theorem C06_header_junk_harmless (x : Ext) (tbl : Control.Table) (s : St) (sndr : Slots)
    (hs : List (CSent × Framing)) (tfs : List TFrame) (junk : TFrame)
    (hagree : SlotsAgree s.cache sndr) (hconf : ConformingSeq sndr (hs.map (·.1.c14)))
    (hterms : ∀ p ∈ hs, p.1.TermsConform x tbl)
    (hfs : WithTicks (bodies tfs) (hs.map fun p => p.1.framed p.2))
    (hsame : (recv x tbl junk.1 s junk.2).1.cache = s.cache)
    (hseq : SeqsFree (recv x tbl junk.1 s junk.2).1.asm hs) :
    (outs x tbl s (junk :: tfs)).filterMap id = (recv x tbl junk.1 s junk.2).2.toList ++ hs.map (fun p => p.1.m.expected) := by
  have := C06_header_junk_isolated x tbl s sndr [] hs [] tfs junk hagree (by simpa using hconf) (by simpa using hterms)
    (by intro p hp; simp at hp) rfl hfs (by simp only [after]; rw [hsame, wroteSlots_self]; exact avoids_nil _) hseq
  simpa [after] using this

/-- … and the frames that are not `131, 68 | 69 | 70` indeed leave the cache exactly as it was -/
theorem C06_unmarked_junk_keeps_cache (x : Ext) (tbl : Control.Table) (now : Nat) (s : St) (frame : Bytes)
    (h : ∀ b r, frame = 131 :: b :: r → b ≠ 68 ∧ b ≠ 69 ∧ b ≠ 70) : (recv x tbl now s frame).1.cache = s.cache :=
  recv_cache_same x tbl now s frame h

/-- non-vacuity of the guard: the malformed header `131, 68, 3, 0x88, 0x08, 0, 1, a, 1` (three references announced, the
frame ends inside the second) has written slot (0, 0) before failing — and nothing else -/
example : wroteSlots St.init.cache (recv Ext.none Gen.controlTable 0 St.init [131, 68, 3, 0x88, 0x08, 0, 1, 97, 1]).1.cache = [(0, 0)] ∧
    (recv Ext.none Gen.controlTable 0 St.init [131, 68, 3, 0x88, 0x08, 0, 1, 97, 1]).2.map Res.text = some "err" := by decide

/-- a message that re-creates slot (3, 7) and one that only reads it: after a junk frame that wrote slot (3, 7), the first
avoids the doubt, the second does not -/
example : Avoids [(3, 7)] [linkNew.c14, linkOld.c14] ∧ ¬ Avoids [(3, 7)] [linkOld.c14] := by
  simp [Avoids, AvoidsRefs, taintStep, taintAfter, CSent.c14, linkNew, linkOld]

/-- ON A PASS-THROUGH CONNECTION JUNK IS ISOLATED UNCONDITIONALLY: if every other frame carries the pass-through marker (or
is a tick) — valid or not —, a junk frame anywhere changes nothing but its own entry. -/
theorem C06_passthrough_junk_isolated (x : Ext) (tbl : Control.Table) (s : St) (good₁ good₂ : List TFrame) (junk : TFrame)
    (h₂ : ∀ f ∈ good₂, f.2 = [] ∨ ∃ r, f.2 = 112 :: r) :
    outs x tbl s (good₁ ++ junk :: good₂) =
      outs x tbl s good₁ ++ (recv x tbl junk.1 (after x tbl s good₁) junk.2).2 :: outs x tbl s good₂ := by
  have hsc : ∀ f ∈ good₂, SelfContained x tbl f.2 := by
    intro f hf
    rcases h₂ f hf with h | ⟨r, h⟩
    · rw [h]; exact selfContained_tick x tbl
    · rw [h]; exact selfContained_112 x tbl r
  rw [outs_insert x tbl s good₁ good₂ junk hsc, outs_selfContained x tbl good₂ hsc (after x tbl s good₁) s]

/-- WHAT A FRAME — in particular an erroring one — MAY CHANGE: both tables of the atom cache only gain entries in front
(a half-parsed distribution header keeps the references it read before the error), and in the fragment assembler, once
`cleanup_expired` has run, no entry but that of the sequence id the frame itself names is touched. Nothing else is state. -/
theorem C06_frame_effect (x : Ext) (tbl : Control.Table) (now : Nat) (s : St) (frame : Bytes) :
    CacheGrew s.cache (recv x tbl now s frame).1.cache ∧
    ∀ q, fragSeq frame ≠ some q →
      Frag.lookup q (recv x tbl now s frame).1.asm.pending = Frag.lookup q (s.asm.cleanupExpired now).1.pending :=
  ⟨recv_cache x tbl now s frame, fun q hq => recv_asm_other x tbl now s frame q hq⟩

/-- THE CONNECTION'S ASSEMBLER IS C09'S, FRAME BY FRAME: whatever the frames are, `receive_message` does to its fragment
assembler exactly what `Frag.Assembler.onFrame` describes — `cleanup_expired` at the clock reading of the frame, then
`start_fragment` / `add_fragment` for a fragment frame that got past the id check (`fragOp`), nothing for any other
frame — so every theorem of C09 about `afterFrames` speaks about a connection. -/
theorem C06_assembler_per_frame (x : Ext) (tbl : Control.Table) (s : St) (tfs : List TFrame) (now : Nat) (frame : Bytes) :
    (recv x tbl now s frame).1.asm = (s.asm.onFrame now (fragOp now frame)).1 ∧
    (after x tbl s tfs).asm = s.asm.afterFrames (tfs.map fun f => (f.1, fragOp f.1 f.2)) :=
  ⟨recv_asm_onFrame x tbl now s frame, after_asm_afterFrames x tbl tfs s⟩

/-- … in particular NOTHING IS HELD FOR EVER: on a connection (fresh state), after any history and any further frame —
valid or junk, stray continuations and never-completed sequences included — every sequence the assembler still holds is
incomplete and was touched within the fragment timeout of that frame's clock reading (the consequence of 96b6d89 for the
connection; before it a stray `131, 70` was held for the lifetime of the connection). -/
theorem C06_connection_holds_only_live_sequences (x : Ext) (tbl : Control.Table) (tfs : List TFrame) (now : Nat) (frame : Bytes)
    (q : Nat) (m : Frag.FragMsg)
    (h : Frag.lookup q (recv x tbl now (after x tbl St.init tfs) frame).1.asm.pending = some m) :
    m.isComplete = false ∧ now - m.last ≤ Gen.DEFAULT_FRAGMENT_TIMEOUT_MS := by
  rw [recv_asm_onFrame, after_asm_afterFrames] at h
  exact (Props.C09.C09_after_every_frame_only_unexpired_incomplete Frag.DEFAULT_FRAGMENT_TIMEOUT _ now (fragOp now frame)
    (fun op hop => by rw [fragOp_now now frame op hop]; exact Nat.le_refl _)).2 q m h

/-- a stray continuation for sequence 7 is pending right after its frame (so the statement is not empty) -/
example : (Frag.lookup 7 (recv Ext.none Gen.controlTable 0 St.init (fragCont 7 3 [1, 2])).1.asm.pending).isSome = true := by decide

/-- frames that are no fragment frames (`fragSeq = none`) leave the whole assembler to `cleanup_expired` -/
example (x : Ext) (now : Nat) (s : St) (q : Nat) :
    Frag.lookup q (recv x Gen.controlTable now s [131, 68, 9, 9]).1.asm.pending = Frag.lookup q (s.asm.cleanupExpired now).1.pending :=
  (C06_frame_effect x Gen.controlTable now s [131, 68, 9, 9]).2 q (by simp [fragSeq])

/-- MALFORMED FRAMES ARE ERRORS, NOT MESSAGES: a frame that is neither a tick nor starts with `112` or `131, 68 | 69 | 70`
is answered with an error, in every state, and changes nothing (beyond the `cleanup_expired` of every frame). -/
theorem C06_unmarked_frame_rejected (x : Ext) (tbl : Control.Table) (now : Nat) (s : St) (a : UInt8) (r : Bytes)
    (h112 : a ≠ 112) (h131 : a = 131 → ∀ b r', r = b :: r' → b ≠ 68 ∧ b ≠ 69 ∧ b ≠ 70) :
    recv x tbl now s (a :: r) = (expire now s, some .err) := by
  cases r with
  | nil => simp [recv, dispatch, h112]
  | cons b r' =>
    by_cases ha : a = 131
    · obtain ⟨h1, h2, h3⟩ := h131 ha b r' rfl
      simp [recv, dispatch, h112, h1, h2, h3]
    · simp [recv, dispatch, h112, ha]

example (x : Ext) (now : Nat) (s : St) : recv x Gen.controlTable now s [131, 104, 1, 97, 5] = (expire now s, some .err) :=
  C06_unmarked_frame_rejected x _ now s 131 _ (by decide) (by intro _ b r' h; simp at h; obtain ⟨rfl, _⟩ := h; decide)

/-- … and so is a pass-through frame with bytes left over after its payload term -/
theorem C06_trailing_bytes_rejected (x : Ext) (tbl : Control.Table) (now : Nat) (s : St) (m : Sent) (hc : m.Conforms x tbl [])
    (pb : Bytes) (p : Term) (hp : m.pay = some (pb, p)) (extra : UInt8) (more : Bytes) :
    recv x tbl now s (passThrough m.wire ++ extra :: more) = (expire now s, some .err) := by
  obtain ⟨hctl, hpay, _⟩ := hc
  have e1 := decodeTrailing_reads x m.cb (131 :: (pb ++ extra :: more)) m.ct hctl
  have e2 := decodeTrailing_reads x pb (extra :: more) p (hpay pb p hp)
  simp [passThrough, Sent.wire, hp, recv, dispatch, passThroughBody, e1, e2]

example (x : Ext) (now : Nat) (s : St) : recv x Gen.controlTable now s (passThrough nodeLink.wire ++ [106]) = (expire now s, some .err) :=
  C06_trailing_bytes_rejected x _ now s nodeLink (C06_witness_nodeLink_conforms x []) [106] .nil rfl 106 []

/-- a fragment with id 0 is answered with an error and leaves the state alone -/
theorem C06_fragment_id_zero_rejected (x : Ext) (tbl : Control.Table) (now : Nat) (s : St) (seq : Nat) (hs : seq < 2 ^ 64)
    (n : UInt8) (rest : Bytes) :
    recv x tbl now s (fragFirst seq 0 [n] rest) = (expire now s, some .err) ∧
    recv x tbl now s (fragCont seq 0 rest) = (expire now s, some .err) := by
  constructor
  · have := decodeFragmentHeader_ok seq 0 n rest hs (by omega)
    simp only [fragFirst, List.append_assoc, List.singleton_append] at this ⊢
    simp [recv, dispatch, recvFragHeader, this]
  · have := decodeFragmentCont_ok seq 0 rest hs (by omega)
    simp only [fragCont, List.append_assoc] at this ⊢
    simp [recv, dispatch, recvFragCont, this]

/-- The state the receive model carries IS the state the code keeps (regenerated from the source on every run):
`Connection` has exactly the configuration, the handshake machine (the gate), the transport (two socket halves, framer,
deframer, timeout — no buffer that survives a call), the atom cache (`St.cache`: the header-position table `atoms` and
the `(segment, index)` keyed `slots`) and the fragment assembler (`St.asm`); nothing else is remembered between two
receive calls, in the struct or process-wide. -/
theorem C06_state_is_the_sources_state :
    Edp.Gen.STRUCT_Connection =
      ["config:ConnectionConfig", "handshake:HandshakeStateMachine", "transport:FramedTransport", "atom_cache:AtomCache",
       "fragment_assembler:FragmentAssembler"]
    ∧ Edp.Gen.STRUCT_FramedTransport =
      ["read_half:Option<OwnedReadHalf>", "write_half:Option<OwnedWriteHalf>", "framer:MessageFramer",
       "deframer:MessageDeframer", "timeout:Duration"]
    ∧ Edp.Gen.STRUCT_MessageFramer = ["mode:FrameMode"] ∧ Edp.Gen.STRUCT_MessageDeframer = ["mode:FrameMode"]
    ∧ Edp.Gen.STRUCT_AtomCache = ["atoms:HashMap<u8,Atom>", "slots:HashMap<(u8,u8),Atom>"]
    ∧ Edp.Gen.PROCESS_WIDE_STATE = [] := by decide

/-! ### what a frame leaves behind, read off the source -/

/-- THE EXITS OF THE RECEIVE FUNCTIONS ARE THE SOURCE'S (regenerated on every run by `gen_c06`; a new `?`, a new `return Err`,
a statement moved across one of them, a new use of `self` in the read-half copy changes the table and breaks this
obligation). `receive_message`: twenty places where an iteration ends, in this order; an error can leave only with nothing
changed (the gate, the read itself), with the frame consumed and `cleanup_expired` run and NOTHING else (every pass-through
error, every fragment-header/continuation decoding error, fragment id 0, an unmarked frame), or — the two places that hand
the atom cache out as `&mut` before they can fail — additionally with the cache written (`decode_with_atom_cache` and
`from_term` after it in the `131, 68` branch) and, for a completed fragment sequence, with the sequence taken out of the
assembler. `receive_message_from_read_half` changes no connection state at any exit and parses the control message BEFORE the
payload (the other order than `receive_message`; both orders give one error per frame). `receive_raw` is the gate and the
bare read. The wire tags the dispatch compares with are the model's. -/
theorem C06_exits_are_the_sources :
    Edp.Gen.RECV_EXITS.map (·.1) =
      ["gate:ErrInvalidState", "head:read_message", "head:continue",
       "frag_header:decode_fragment_header", "frag_header:ErrProtocol", "frag_header:decode_complete_fragment", "frag_header:continue",
       "frag_cont:decode_fragment_cont", "frag_cont:ErrProtocol", "frag_cont:decode_complete_fragment", "frag_cont:continue",
       "unmarked:ErrProtocol",
       "pass_through:decode_with_trailing", "pass_through:decode_with_trailing#2", "pass_through:ErrDecode",
       "pass_through>tail:from_term", "pass_through>tail:Ok",
       "dist_header:decode_with_atom_cache", "dist_header>tail:from_term", "dist_header>tail:Ok"]
    ∧ (∀ row ∈ Edp.Gen.RECV_EXITS, row.2.1 = "err" →
        row.2.2 = [] ∨ row.2.2 = preHead ∨ (row.2.2 = preHead ++ ["atom_cache"] ∧ (row.1 = "dist_header:decode_with_atom_cache" ∨ row.1 = "dist_header>tail:from_term")))
    ∧ (∀ row ∈ Edp.Gen.RECV_EXITS, row.2.1 = "result" →
        row.2.2 = preHead ++ ["fragment_assembler.start_fragment", "atom_cache"] ∨
        row.2.2 = preHead ++ ["fragment_assembler.add_fragment", "atom_cache"])
    ∧ (∀ row ∈ Edp.Gen.RECV_EXITS, row.2.1 = "continue" → row.2.2.all (· != "atom_cache") = true)
    ∧ Edp.Gen.RECV_RH_EXITS.map (fun r => (r.1, r.2.2)) =
      [("rh:read_exact", []), ("rh:continue", []), ("rh:ErrMessageTooLarge", []), ("rh:read_exact#2", []),
       ("rh:ErrInvalidStateMessage", []), ("rh:ErrProtocol", []), ("rh:decode_with_trailing", []), ("rh:from_term", []),
       ("rh:decode_with_trailing#2", []), ("rh:ErrDecode", []), ("rh:Ok", [])]
    ∧ Edp.Gen.RECV_RAW_EXITS = [("raw:ErrInvalidState", "err", []), ("raw:read_message", "result", [])]
    ∧ (Edp.Gen.RECV_VERSION_TAG, Edp.Gen.RECV_PASS_THROUGH, Edp.Gen.RECV_DIST_HEADER, Edp.Gen.RECV_DIST_FRAG_HEADER,
        Edp.Gen.RECV_DIST_FRAG_CONT) = (131, 112, 68, 69, 70) := by decide

/-- WHAT A FRAME OF EACH CLASS LEAVES BEHIND IS WHAT THE SOURCE'S STATEMENTS ON THAT PATH MAKE OF THE STATE. For every frame,
state and clock reading: the exit the model's iteration takes (`exitSite`: which `?` / `return` / `continue` of the source) is
a row of the regenerated table, and the state the model is left in equals the state before the frame with exactly the
state-changing statements of that row run on it, in the source's order (`runMuts`: `cleanup_expired`, `start_fragment` /
`add_fragment` on the decoded fragment header, the atom cache written by the decoder it is handed to). In particular an
error exit whose row lists only the read and the clean-up leaves assembler and cache exactly as `cleanup_expired` leaves them. -/
theorem C06_state_after_frame_is_the_sources (x : Ext) (tbl : Control.Table) (now : Nat) (s : St) (frame : Bytes) :
    ∃ pre, preOf (exitSite x tbl now s frame) = some pre ∧ (recv x tbl now s frame).1 = runMuts x tbl now frame s pre ∧
      (pre = preHead → (recv x tbl now s frame).1 = expire now s) := by
  obtain ⟨pre, h1, h2⟩ := recv_by_table x tbl now s frame
  exact ⟨pre, h1, h2, fun e => by rw [h2, e, runMuts_head]⟩

/-- a header frame whose reference section is cut short leaves through `dist_header:decode_with_atom_cache` (the cache has
been handed out); a stray continuation leaves through `frag_cont:continue` (the assembler has been asked, the cache not) -/
example : exitSite Ext.none Gen.controlTable 0 St.init [131, 68, 3, 0x88, 0x08, 0, 1, 97, 1] = "dist_header:decode_with_atom_cache" ∧
    preOf "dist_header:decode_with_atom_cache" = some (preHead ++ ["atom_cache"]) ∧
    exitSite Ext.none Gen.controlTable 0 St.init (fragCont 7 3 [1, 2]) = "frag_cont:continue" ∧
    preOf "frag_cont:continue" = some (preHead ++ ["fragment_assembler.add_fragment"]) := by decide

end Edp.Props.C06
