import EdpVerif.Drv.Common
namespace Edp.Drv

/-- driver requests of property C04 (stub: nothing handled yet) -/
def handleC04 : List String → Option String
  | _ => none

end Edp.Drv
