import EdpVerif.Lemmas.DecMono
import EdpVerif.Impl.TableTie
/-
C13 — the zero-copy decoder agrees with the owned decoder.
`decodeBorrowed`/`decode` are the two configurations of one generic model; each is tied to its own Rust twin
separately by the correspondence run (`dec` / `decb` lines), so an edit to one twin shows up for that twin.
`to_owned` is the identity on the model term (DESIGN §4); that identification is carried by the correspondence.
-/
namespace Edp.Props.C13
open Edp

/-- on every input the zero-copy decoder accepts, the owned decoder returns exactly the same term
(any external behaviour of zlib / float parsing, any atom cache, any fuel, any depth) -/
theorem C13_agree (x : Ext) (bs : Bytes) (t : Term) :
    decodeBorrowed x bs = .ok t → decode x bs = .ok t := by
  unfold decodeBorrowed decode decodeWith
  cases bs with
  | nil => simp
  | cons v r =>
    by_cases hv : v != 131
    · simp [hv]
    · simp only [hv, Bool.false_eq_true, ↓reduceIte]
      intro h
      split at h
      · simp at h
      · rename_i t' heq
        have := (dec_mono x [] (r.length + 1 + x.extra)).1 0 r _ heq
        simp only [cO] at this
        rw [this]; exact h
      · rename_i t' rest hne heq
        simp at h

/-- the borrowed decoder dispatches on a subset of the owned decoder's tags (regenerated from the source every run) -/
theorem C13_tagsets : ∀ t ∈ Gen.borrowedTags, t ∈ Gen.ownedTags := by decide

/-- every tag current OTP releases emit over distribution is in the zero-copy decoder's dispatch table -/
theorem C13_modern_accepted :
    ∀ t ∈ [97, 98, 110, 111, 70, 118, 119, 104, 105, 106, 107, 108, 109, 77, 116, 88, 120, 89, 90, 113, 112],
      t ∈ Gen.borrowedTags := by decide

/-- a reported error offset `original_len - remaining.len()` lies within the input whenever `remaining` is a suffix -/
theorem C13_offset (original remaining : Bytes) (pre : Bytes) (h : original = pre ++ remaining) :
    original.length - remaining.length ≤ original.length := by omega

end Edp.Props.C13
