import EdpVerif.Generated.Control
import EdpVerif.Spec.Control
import EdpVerif.Lemmas.Control
import EdpVerif.Impl.Encode
import EdpVerif.Impl.Decode
/-
C08 — control messages parse and serialise losslessly with the protocol's numbering.

`Control.parse / toTerm / intoTerm` interpret a `Table` (the three matches of control.rs as data);
`Gen.controlTable` is that data re-extracted from /repo on every run; `Spec.controlTable` is the protocol's.
Property theorems only; helper lemmas are in EdpVerif/Lemmas/Control.lean.
-/
namespace Edp.Props.C08
open Edp Edp.Control

/-! ## full-strength statements (what the property asks of a table) -/

/-- every control tuple the protocol allows (`Spec.shape`: headed by `Integer 0..255`, and an unlink id that
denotes an integer below 2^64) parses, and both serialisers give back a tuple denoting the same value -/
def Lossless (tbl : Table) : Prop :=
  ∀ t, Spec.shape t = .control →
    ∃ m u, parse tbl t = .ok m ∧ toTerm tbl m = some u ∧ intoTerm tbl m = some u ∧ u.den = t.den

/-- every structured message (any `u64` id) serialises, and what comes back from the wire `w` parses to the same
variant with the same value in every field -/
def Survives (tbl : Table) (w : Term → Term) : Prop :=
  ∀ v fs, wellTyped tbl (.known v fs) = true →
    ∃ t m', toTerm tbl (.known v fs) = some t ∧ intoTerm tbl (.known v fs) = some t ∧
      parse tbl (w t) = .ok m' ∧ Msg.Same m' (Msg.mapTerms w (.known v fs))

/-- every operation the library implements uses the protocol's tag, arity and element order -/
def Numbered (tbl : Table) : Prop := ∀ a ∈ tbl.fromArms, Spec.agrees tbl a = true

/-- `decode ∘ encode` of the codec model (identity where either fails) -/
def wire (t : Term) : Term :=
  match encode t with
  | .ok b =>
    match decode Ext.none b with
    | .ok t' => t'
    | .error _ => t
  | .error _ => t

/-! ## the regenerated table is consistent (re-checked against the source on every run) -/

theorem C08_table_ok : TableOK Gen.controlTable := by decide

/-! ## round trip, table-generic -/

/-- For EVERY consistent table: a tuple headed by `Integer 0..255` parses, and `to_term` and `into_term` of the
result both give back exactly that tuple — whether or not the tag is one the table knows.  Guard (`idGuard`): an
element read as a `u64` unlink id is `Integer(v)` with `0 ≤ v < 2^63`, i.e. any non-negative `i64`. -/
theorem C08_roundtrip_partial (tbl : Table) (h : TableOK tbl) (t : Term) (ht : tagged t = true)
    (hg : idGuard tbl t = true) :
    ∃ m, parse tbl t = .ok m ∧ toTerm tbl m = some t ∧ intoTerm tbl m = some t := by
  unfold tagged at ht
  split at ht
  · rename_i i rest
    simp at ht
    exact roundtrip h i rest ht.1 ht.2 hg
  · simp at ht

example : tagged (.tuple [.int 35, .int 7, .nil, .nil]) = true ∧
    idGuard Gen.controlTable (.tuple [.int 35, .int 7, .nil, .nil]) = true := by decide

/-- the only tuples headed by `Integer 0..255` that a consistent table rejects are those whose unlink id is not
a non-negative `Integer` -/
theorem C08_rejected_only_for_bad_id (tbl : Table) (h : TableOK tbl) (t : Term) (ht : tagged t = true)
    (e : PErr) (he : parse tbl t = .error e) : idGuard tbl t = false := by
  cases hg : idGuard tbl t with
  | false => rfl
  | true =>
    obtain ⟨m, hm, _⟩ := C08_roundtrip_partial tbl h t ht hg
    rw [hm] at he
    cases he

example : tagged (.tuple [.int 35, .int (-1), .nil, .nil]) = true ∧
    parse Gen.controlTable (.tuple [.int 35, .int (-1), .nil, .nil]) = .error .err := ⟨by decide, rfl⟩

/-- the same for the library's table, stated against the protocol's notion of a control tuple; the guard is
what separates it from `Lossless` -/
theorem C08_lossless_partial (t : Term) (hs : Spec.shape t = .control) (hg : idGuard Gen.controlTable t = true) :
    ∃ m u, parse Gen.controlTable t = .ok m ∧ toTerm Gen.controlTable m = some u ∧
      intoTerm Gen.controlTable m = some u ∧ u.den = t.den := by
  have ht : tagged t = true := by
    unfold Spec.shape at hs
    split at hs
    · rename_i i rest
      split at hs
      · rename_i hc; simp [tagged, hc]
      · cases hs
    · cases hs
  obtain ⟨m, h1, h2, h3⟩ := C08_roundtrip_partial _ C08_table_ok t ht hg
  exact ⟨m, t, h1, h2, h3, rfl⟩

example : Spec.shape (.tuple [.int 36, .int 9223372036854775807, .atom [97], .nil]) = .control ∧
    idGuard Gen.controlTable (.tuple [.int 36, .int 9223372036854775807, .atom [97], .nil]) = true := by decide

/-- DEFECT (unlink ids are read with `as_integer()`, which only accepts the small-integer variant):
`{35, 4294967296, [], []}` with the id in the form the decoder produces for it (`BigInt`) is a control tuple the
protocol allows, and `from_term` rejects it. -/
theorem C08_not_lossless : ¬ Lossless Gen.controlTable := by
  intro h
  obtain ⟨m, u, hp, _⟩ := h (.tuple [.int 35, .big false [0, 0, 0, 0, 1], .nil, .nil]) (by decide)
  have : parse Gen.controlTable (.tuple [.int 35, .big false [0, 0, 0, 0, 1], .nil, .nil]) = .error .err := by
    rfl
  rw [this] at hp
  cases hp

/-- anything else — a non-tuple, the empty tuple, a head that is not `Integer 0..255` — is rejected with an error
(never a panic), for every table -/
theorem C08_rejects (tbl : Table) (t : Term) (h : tagged t = false) : parse tbl t = .error .err :=
  rejects tbl t h

example : tagged (.tuple [.int 256, .nil]) = false ∧ tagged (.tuple []) = false ∧ tagged (.atom [97]) = false ∧
    tagged (.tuple [.big false [1], .nil]) = false := by decide

/-- with a consistent table no arm indexes outside the tuple: `from_term` never panics, on any term -/
theorem C08_never_panics (tbl : Table) (h : TableOK tbl) (t : Term) : parse tbl t ≠ .error .panic :=
  no_panic h t

example : TableOK Gen.controlTable := C08_table_ok

/-- the borrowing and the consuming serialiser agree on every message -/
theorem C08_into_eq_to (tbl : Table) (h : TableOK tbl) (m : Msg) : intoTerm tbl m = toTerm tbl m :=
  into_eq_to h m

/-! ## structured messages survive the wire -/

/-- For EVERY consistent table and every wire `w` that maps tuples element-wise and returns `Integer 0..255`
unchanged (`Transparent`; for `decode ∘ encode` that is C01's round trip): every structured message serialises
(both serialisers), and parsing what comes back yields the same variant with the wire image of every field — no
field dropped, reordered or altered.  Guard (`IdsSurvive`): a `u64` id is below 2^63 and its `Integer` comes back
from `w` as the same `Integer`. -/
theorem C08_structured_survives_partial (tbl : Table) (h : TableOK tbl) (w : Term → Term) (hw : Transparent w)
    (v : String) (fs : List (String × FVal)) (hm : wellTyped tbl (.known v fs) = true)
    (hid : IdsSurvive w (.known v fs)) :
    ∃ t m', toTerm tbl (.known v fs) = some t ∧ intoTerm tbl (.known v fs) = some t ∧
      parse tbl (w t) = .ok m' ∧ Msg.Same m' (Msg.mapTerms w (.known v fs)) :=
  serialise_wire_parse h w hw v fs hm hid

example : Transparent id ∧
    wellTyped Gen.controlTable (.known "UnlinkId" [("id", .uid 7), ("from_pid", .term .nil), ("to_pid", .term .nil)]) = true ∧
    IdsSurvive id (.known "UnlinkId" [("id", .uid 7), ("from_pid", .term .nil), ("to_pid", .term .nil)]) := by
  refine ⟨⟨fun l => by simp, fun _ _ _ => rfl⟩, by decide, ?_⟩
  intro f n hl
  simp only [lookup] at hl
  split at hl
  · simp at hl; subst hl; exact ⟨by decide, rfl⟩
  · split at hl
    · simp at hl
    · split at hl <;> simp at hl

/-- DEFECT (ids are written with `as i64`): `UnlinkId { id: u64::MAX, .. }` serialises to `{35, -1, _, _}`, which
`from_term` rejects — already in memory, before any wire. -/
theorem C08_not_survives_in_memory : ¬ Survives Gen.controlTable id := by
  intro h
  obtain ⟨t, m', ht, _, hp, _⟩ := h "UnlinkId"
    [("id", .uid 18446744073709551615), ("from_pid", .term .nil), ("to_pid", .term .nil)] (by decide)
  have h1 : toTerm Gen.controlTable (.known "UnlinkId"
      [("id", .uid 18446744073709551615), ("from_pid", .term .nil), ("to_pid", .term .nil)])
      = some (.tuple [.int 35, .int (-1), .nil, .nil]) := by rfl
  rw [h1] at ht
  injection ht with ht
  subst ht
  have : parse Gen.controlTable (id (.tuple [.int 35, .int (-1), .nil, .nil])) = .error .err := by rfl
  rw [this] at hp
  cases hp

/-- DEFECT (same root cause as `C08_not_lossless`, seen from the sender's side): `UnlinkIdAck { id: 2^31, .. }`
serialises to `{36, 2147483648, _, _}`; the codec encodes 2^31 as SMALL_BIG_EXT and decodes that to `BigInt`, and
`from_term` rejects the result.  `wire` is the codec *model* (`Impl.encode`, `Impl.decode`). -/
theorem C08_not_survives_wire : ¬ Survives Gen.controlTable wire := by
  intro h
  obtain ⟨t, m', ht, _, hp, _⟩ := h "UnlinkIdAck"
    [("id", .uid 2147483648), ("from_pid", .term .nil), ("to_pid", .term .nil)] (by decide)
  have h1 : toTerm Gen.controlTable (.known "UnlinkIdAck"
      [("id", .uid 2147483648), ("from_pid", .term .nil), ("to_pid", .term .nil)])
      = some (.tuple [.int 36, .int 2147483648, .nil, .nil]) := by rfl
  rw [h1] at ht
  injection ht with ht
  subst ht
  have : parse Gen.controlTable (wire (.tuple [.int 36, .int 2147483648, .nil, .nil])) = .error .err := by rfl
  rw [this] at hp
  cases hp

/-! ## numbering -/

/-- every operation the library implements, except ALIAS_SEND_TT, has the protocol's tag number, arity and element
order, and reads exactly the `Id` element as an integer (SPAWN_REQUEST(_TT): the layout with ArgList inside the
tuple is accepted, see Spec/Control.lean) -/
theorem C08_numbering_partial :
    ∀ a ∈ Gen.controlTable.fromArms, a.variant ≠ "AliasSendTt" → Spec.agrees Gen.controlTable a = true := by decide

example : ∃ a ∈ Gen.controlTable.fromArms, a.variant ≠ "AliasSendTt" := by decide

/-- DEFECT: `ControlMessageType::AliasSendTt = 38`; the protocol's ALIAS_SEND_TT is 34 -/
theorem C08_not_numbered : ¬ Numbered Gen.controlTable := by
  intro h
  have := h { ty := "AliasSendTt", arity := 4, variant := "AliasSendTt",
              fields := [("from_pid", .elem 1), ("alias", .elem 2), ("trace_token", .elem 3)] } (by decide)
  revert this
  decide

/-- the excluded row differs from the protocol in the tag number only: 38 where the protocol has 34 -/
theorem C08_alias_send_tt_is_38 :
    enumDisc Gen.controlTable "AliasSendTt" = some 38 ∧ (Spec.findOp "ALIAS_SEND_TT").map (·.tag) = some 34 := by
  decide

/-- every operation of the protocol's table is implemented by some variant of the library -/
theorem C08_covers_protocol :
    ∀ op ∈ Spec.controlTable, ∃ a ∈ Gen.controlTable.fromArms, lookup Spec.opOfVariant a.variant = some op.name := by
  decide

/-- tag numbers are pairwise distinct, in the library and in the protocol table -/
theorem C08_tags_distinct :
    (Gen.controlTable.enumTags.map (·.2)).Nodup ∧ (Spec.controlTable.map (·.tag)).Nodup := by decide

end Edp.Props.C08
