import EdpVerif.Drv.C11
import EdpVerif.Spec.ErlOrder
namespace Edp.Drv
open Edp

/-- C12 oracle: Erlang's order on the denoted values -/
def handleC12 : List String → Option String
  | ["c12cmp", a, b] => some <| run do
    let a ← getTerm a
    let b ← getTerm b
    pure (ordText (Erl.cmp a.den b.den))
  | _ => none

end Edp.Drv
