//! C13: the zero-copy decoder agrees with the owned decoder.
use crate::canon::{hex, hexarg, term_text};
use crate::oracle::oracle_for;
use crate::tgen::{gen_term, Cfg};
use crate::Ctx;
use erltf::errors::DecodeError;

const OWNED_ONLY: [u8; 8] = [115, 80, 101, 102, 103, 114, 121, 82];

pub fn owned(b: &[u8]) -> (String, Option<erltf::OwnedTerm>) {
    crate::c01::dec_result(b)
}

pub fn borrowed(b: &[u8]) -> (String, Option<erltf::OwnedTerm>, Option<usize>) {
    match std::panic::catch_unwind(|| erltf::decode_borrowed(b).map(|t| t.to_owned())) {
        Ok(Ok(t)) => (format!("ok {}", term_text(&t)), Some(t), None),
        Ok(Err(e)) => {
            let off = e.context.byte_offset;
            match e.error {
                DecodeError::TrailingData(n) => (format!("trailing {}", n), None, Some(off)),
                _ => ("err".to_string(), None, Some(off)),
            }
        }
        Err(_) => ("panic".to_string(), None, None),
    }
}

pub fn one(ctx: &mut Ctx, tag: &str, b: &[u8], modern: bool) {
    let Some(orc) = oracle_for(b) else {
        ctx.count("skipped_oracle_too_large");
        return;
    };
    let (o, ot) = owned(b);
    let (bw, bt, off) = borrowed(b);
    ctx.tie(tag, &format!("dec {} {}", hexarg(b), orc), &o);
    ctx.tie(tag, &format!("decb {} {}", hexarg(b), orc), &bw);
    ctx.count(if ot.is_some() { "owned_ok" } else { "owned_err" });
    ctx.count(if bt.is_some() { "borrowed_ok" } else { "borrowed_err" });
    if o == "panic" || bw == "panic" {
        ctx.fail("c13-panic", &format!("{} owned={} borrowed={}", hex(b), o, bw));
    }
    if let Some(off) = off {
        if off > b.len() {
            ctx.fail("c13-offset-outside-input", &format!("{} offset={} len={}", hex(b), off, b.len()));
        }
    }
    if let Some(bt) = &bt {
        match &ot {
            Some(ot) if ot == bt && term_text(ot) == term_text(bt) => {}
            _ => ctx.fail("c13-borrowed-differs", &format!("{} owned={} borrowed={}", hex(b), o, bw)),
        }
    } else if ot.is_some() {
        let has_owned_only = b.iter().any(|x| OWNED_ONLY.contains(x));
        if modern || !has_owned_only {
            ctx.fail("c13-borrowed-rejects-modern", &format!("{} owned={} borrowed={}", hex(b), o, bw));
        } else {
            ctx.count("owned_only_accept");
        }
    }
}

/// wide, shallow terms: hundreds of siblings of each kind under one parent (anything that is counted per decoded
/// sub-term rather than per nesting level shows up here and nowhere else)
fn wide(ctx: &mut Ctx) {
    use erltf::types::Atom;
    use erltf::OwnedTerm as T;
    let leaves: Vec<(&str, T)> = vec![
        ("nil", T::Nil),
        ("empty-list", T::List(vec![])),
        ("row", T::List(vec![T::Atom(Atom::new("a"))])),
        ("int", T::Integer(7)),
        ("atom", T::Atom(Atom::new("ok"))),
        ("tuple0", T::Tuple(vec![])),
        ("pair", T::Tuple(vec![T::Nil, T::Nil])),
        ("bin", T::Binary(vec![1, 2])),
        ("str", T::List(vec![T::Integer(104), T::Integer(105)])),
        ("map0", T::Map(Default::default())),
        ("kw", T::List(vec![T::Tuple(vec![T::Atom(Atom::new("k")), T::List(vec![])])])),
    ];
    let counts: &[usize] = if ctx.thorough { &[1, 2, 127, 128, 254, 255, 256, 257, 258, 300, 511, 512, 513, 1000, 5000] } else { &[128, 255, 256, 257, 300, 600] };
    for (name, leaf) in &leaves {
        for &n in counts {
            let items: Vec<T> = (0..n).map(|_| leaf.clone()).collect();
            let shapes: Vec<T> = vec![
                T::List(items.clone()),
                T::Tuple(items.clone()),
                T::Map((0..n).map(|i| (T::Integer(i as i64), leaf.clone())).collect()),
                T::Tuple(vec![T::List(items.clone()), T::Atom(Atom::new("after")), T::List(vec![leaf.clone()])]),
                T::ImproperList { elements: items, tail: Box::new(T::Atom(Atom::new("t"))) },
            ];
            for t in shapes {
                let Ok(b) = erltf::encode(&t) else { continue };
                ctx.count(&format!("wide_{}", name));
                one(ctx, "wide", &b, true);
            }
        }
    }
}

pub fn run(ctx: &mut Ctx) {
    wide(ctx);
    let n = ctx.n(400, 8000);
    let cfg = Cfg { local_ids: false, huge: false, ..Cfg::default() };
    let mut pool: Vec<Vec<u8>> = vec![];
    for _ in 0..n {
        let t = gen_term(&mut ctx.rng, &cfg, 0);
        let Ok(b) = erltf::encode(&t) else { continue };
        one(ctx, "modern", &b, true);
        // truncation at every offset (short encodings) or at a few offsets
        if b.len() <= 48 {
            for k in 0..b.len() {
                one(ctx, "trunc", &b[..k], false);
            }
        } else {
            for _ in 0..4 {
                let k = ctx.rng.below(b.len() as u64) as usize;
                one(ctx, "trunc", &b[..k], false);
            }
        }
        // mutations
        if b.len() <= 400 {
            for _ in 0..3 {
                let mut m = b.clone();
                let flips = 1 + ctx.rng.below(3);
                for _ in 0..flips {
                    let i = ctx.rng.below(m.len() as u64) as usize;
                    match ctx.rng.below(3) {
                        0 => m[i] ^= 1 << ctx.rng.below(8),
                        1 => m[i] = ctx.rng.next() as u8,
                        _ => m[i] = *ctx.rng.pick(&[0u8, 1, 255, 97, 104, 106, 108, 116, 119, 131, 70, 77, 80, 82, 88, 89, 90, 99, 100, 115, 120, 121]),
                    }
                }
                one(ctx, "mut", &m, false);
            }
            pool.push(b);
        }
    }
    // splices of two valid encodings
    for _ in 0..n / 2 {
        if pool.len() < 2 {
            break;
        }
        let a = ctx.rng.pick(&pool).clone();
        let b = ctx.rng.pick(&pool).clone();
        let i = ctx.rng.below(a.len() as u64) as usize;
        let j = 1 + ctx.rng.below(b.len() as u64 - 1) as usize;
        let mut s = a[..i].to_vec();
        s.extend_from_slice(&b[j..]);
        one(ctx, "splice", &s, false);
    }
    // arbitrary bytes behind the version byte
    for _ in 0..n {
        let len = ctx.rng.below(24) as usize;
        let mut b = vec![131u8];
        b.extend(ctx.rng.bytes(len));
        one(ctx, "random", &b, false);
    }
}
