//! C02: decoding untrusted bytes always returns — no panic, abort, stack overflow or disproportionate allocation.
//! Every input is decoded in a CHILD process, on a thread with a 2 MiB stack (Tokio's worker default), under the
//! counting allocator; a crash kills only the child and is attributed to the input it was working on.
use crate::canon::{hex, hexarg, unhex};
use crate::oracle::oracle_for;
use crate::tgen::{gen_term, Cfg};
use crate::Ctx;
use std::io::{BufRead, Write};

const STACK: usize = 2 * 1024 * 1024;

fn class<T, E>(r: std::thread::Result<Result<T, E>>) -> &'static str {
    match r {
        Ok(Ok(_)) => "ok",
        Ok(Err(_)) => "err",
        Err(_) => "panic",
    }
}

fn entry_points(b: &[u8]) -> Vec<(&'static str, &'static str, usize)> {
    let mut out = vec![];
    macro_rules! ep {
        ($name:expr, $call:expr) => {{
            crate::alloc_reset();
            let c = class(std::panic::catch_unwind(|| $call.map(|x| drop(x))));
            out.push(($name, c, crate::alloc_peak_request()));
        }};
    }
    ep!("decode", erltf::decode(b));
    ep!("borrowed", erltf::decode_borrowed(b));
    ep!("atom_cache", {
        let mut c = erltf::AtomCache::new();
        erltf::decode_with_atom_cache(b, &mut c)
    });
    ep!("trailing", erltf::decoder::decode_with_trailing(b));
    ep!("raw", erltf::decoder::decode_raw_term(b));
    ep!("with_cache", erltf::decoder::decode_with_cache(b));
    ep!("frag_header", erltf::decoder::decode_fragment_header(b));
    ep!("frag_cont", erltf::decoder::decode_fragment_cont(b));
    out
}

/// child: one input per line (hex) in `infile`; progress lines in `outfile`
pub fn child(outfile: &str, infile: &str) {
    let inp = std::io::BufReader::new(std::fs::File::open(infile).unwrap());
    let mut out = std::fs::OpenOptions::new().create(true).append(true).open(outfile).unwrap();
    for line in inp.lines() {
        let line = line.unwrap();
        let (idx, h) = line.split_once(' ').unwrap();
        writeln!(out, "BEGIN {}", idx).unwrap();
        out.flush().unwrap();
        let bytes = unhex(h);
        let res = std::thread::Builder::new()
            .stack_size(STACK)
            .spawn(move || entry_points(&bytes))
            .unwrap()
            .join();
        match res {
            Ok(r) => {
                let s: Vec<String> = r.iter().map(|(n, c, p)| format!("{}={}:{}", n, c, p)).collect();
                writeln!(out, "END {} {}", idx, s.join(" ")).unwrap();
            }
            Err(_) => writeln!(out, "END {} thread-panicked", idx).unwrap(),
        }
        out.flush().unwrap();
    }
}

fn tower(unit: &[u8], leaf: &[u8], suffix: &[u8], depth: usize) -> Vec<u8> {
    let mut v = vec![131u8];
    for _ in 0..depth {
        v.extend_from_slice(unit);
    }
    v.extend_from_slice(leaf);
    for _ in 0..depth {
        v.extend_from_slice(suffix);
    }
    v
}

fn zlib(data: &[u8]) -> Vec<u8> {
    let mut e = flate2::write::ZlibEncoder::new(Vec::new(), flate2::Compression::best());
    e.write_all(data).unwrap();
    e.finish().unwrap()
}

fn compressed_chain(depth: usize, level: flate2::Compression) -> Vec<u8> {
    let mut inner = vec![106u8];
    for _ in 0..depth {
        let mut e = flate2::write::ZlibEncoder::new(Vec::new(), level);
        e.write_all(&inner).unwrap();
        let z = e.finish().unwrap();
        let mut n = vec![80u8];
        n.extend_from_slice(&(inner.len() as u32).to_be_bytes());
        n.extend_from_slice(&z);
        inner = n;
    }
    let mut b = vec![131u8];
    b.extend_from_slice(&inner);
    b
}

/// oracle table for a chain of directly nested compressed sections, to any depth (what `oracle_for` does to depth 3)
fn chain_oracle(b: &[u8]) -> Option<String> {
    let mut entries = vec![];
    let mut cur: Vec<u8> = b[1..].to_vec();
    while cur.len() > 5 && cur[0] == 80 {
        let z = cur[5..].to_vec();
        let mut d = flate2::read::ZlibDecoder::new(&z[..]);
        let mut out = Vec::new();
        use std::io::Read;
        if (&mut d).take(1 << 22).read_to_end(&mut out).is_err() {
            break;
        }
        entries.push(format!("z:{}:{}:{}", hex(&z), if out.is_empty() { "-".into() } else { hex(&out) }, d.total_in()));
        cur = out;
    }
    if entries.is_empty() { None } else { Some(entries.join(";")) }
}

fn inputs(ctx: &mut Ctx) -> Vec<(String, Vec<u8>)> {
    let mut v: Vec<(String, Vec<u8>)> = vec![];
    // every tag byte x count-field values x {no data, 1 byte, a little}
    let counts: [u64; 14] = [0, 1, 255, 256, 65535, 65536, 999_999, 1_000_000, 1_000_001, 9_999_999, 10_000_000, 10_000_001, 1 << 31, u32::MAX as u64];
    for tag in 0u16..=255 {
        let tag = tag as u8;
        for &c in &counts {
            for width in [1usize, 2, 4] {
                if (width == 1 && c > 255) || (width == 2 && c > 65535) {
                    continue;
                }
                // only count-like widths that the tag could plausibly read; all are harmless to try
                for tail in [&[][..], &[106u8][..], &[97u8, 1, 97, 2, 106][..]] {
                    let mut b = vec![131u8, tag];
                    b.extend_from_slice(&c.to_be_bytes()[8 - width..]);
                    b.extend_from_slice(tail);
                    v.push((format!("tagcount"), b));
                }
            }
        }
    }
    // NEW_FUN_EXT with a huge num_free behind a valid prefix
    for nf in [0u32, 1, 1000, 1 << 20, 1 << 31, u32::MAX] {
        let mut b = vec![131u8, 112, 0, 0, 0, 60, 1];
        b.extend_from_slice(&[7u8; 16]);
        b.extend_from_slice(&[0, 0, 0, 1]);
        b.extend_from_slice(&nf.to_be_bytes());
        b.extend_from_slice(&[119, 1, 109, 97, 1, 97, 2, 88, 119, 1, 110, 0, 0, 0, 1, 0, 0, 0, 2, 0, 0, 0, 3]);
        v.push(("numfree".into(), b));
    }
    // the same with the fun's Size field varied as well (Size and NumFree both come from the sender)
    for size in [0u32, 1, 60, 1 << 20, 1 << 31, u32::MAX] {
        for nf in [1000u32, 1 << 20, 1 << 31, u32::MAX] {
            let mut b = vec![131u8, 112];
            b.extend_from_slice(&size.to_be_bytes());
            b.push(1);
            b.extend_from_slice(&[7u8; 16]);
            b.extend_from_slice(&[0, 0, 0, 1]);
            b.extend_from_slice(&nf.to_be_bytes());
            b.extend_from_slice(&[119, 1, 109, 97, 1, 97, 2, 88, 119, 1, 110, 0, 0, 0, 1, 0, 0, 0, 2, 0, 0, 0, 3]);
            v.push(("numfree-size".into(), b));
        }
    }
    // field blast: compact valid encodings of every tag that carries a length, count or size, with the four bytes at
    // every offset — and at every PAIR of offsets, for bounds that are the minimum of two wire-supplied numbers — replaced by
    // huge values; whatever a parser reads there before it allocates, it has been handed a number far beyond the input
    {
        let fun: Vec<u8> = {
            let mut b = vec![112u8, 0, 0, 0, 60, 1];
            b.extend_from_slice(&[7u8; 16]);
            b.extend_from_slice(&[0, 0, 0, 1, 0, 0, 0, 1]);
            b.extend_from_slice(&[119, 1, 109, 97, 1, 97, 2, 88, 119, 1, 110, 0, 0, 0, 1, 0, 0, 0, 2, 0, 0, 0, 3, 97, 9]);
            b
        };
        let seeds: Vec<Vec<u8>> = vec![
            fun,
            vec![108, 0, 0, 0, 2, 97, 1, 97, 2, 106],                              // LIST_EXT
            vec![105, 0, 0, 0, 2, 97, 1, 97, 2],                                   // LARGE_TUPLE_EXT
            vec![116, 0, 0, 0, 1, 97, 1, 97, 2],                                   // MAP_EXT
            vec![109, 0, 0, 0, 3, 1, 2, 3],                                        // BINARY_EXT
            vec![77, 0, 0, 0, 2, 3, 1, 2],                                         // BIT_BINARY_EXT
            vec![107, 0, 2, 65, 66],                                               // STRING_EXT
            vec![111, 0, 0, 0, 2, 0, 1, 2],                                        // LARGE_BIG_EXT
            vec![90, 0, 2, 119, 1, 110, 0, 0, 0, 1, 0, 0, 0, 5, 0, 0, 0, 6],       // NEWER_REFERENCE_EXT
            vec![114, 0, 2, 119, 1, 110, 1, 0, 0, 0, 5, 0, 0, 0, 6],               // NEW_REFERENCE_EXT
            vec![118, 0, 2, 111, 107],                                             // ATOM_UTF8_EXT
            vec![100, 0, 2, 111, 107],                                             // ATOM_EXT
            vec![113, 119, 1, 109, 119, 1, 102, 97, 2],                            // EXPORT_EXT
            vec![68, 2, 0x88, 0, 0, 2, 111, 107, 1, 1, 120, 104, 2, 82, 0, 82, 1], // distribution header with two new entries
            vec![69, 0, 0, 0, 0, 0, 0, 0, 9, 0, 0, 0, 0, 0, 0, 0, 1, 1, 0x08, 0, 2, 111, 107, 104, 1, 82, 0], // fragment header
        ];
        for sd in &seeds {
            let l = sd.len();
            for i in 0..l {
                for j in i..l {
                    for val in [u32::MAX, 1_000_000u32] {
                        let mut b = vec![131u8];
                        b.extend_from_slice(sd);
                        for k in [i, j] {
                            for (o, byte) in val.to_be_bytes().iter().enumerate() {
                                if 1 + k + o < b.len() {
                                    b[1 + k + o] = *byte;
                                }
                            }
                        }
                        v.push(("field-blast".into(), b));
                    }
                }
            }
        }
    }
    // nesting towers through every container tag
    let depths: Vec<usize> = if ctx.thorough { vec![10, 100, 255, 256, 257, 258, 600, 3000, 20_000, 200_000, 1_000_000] } else { vec![10, 255, 256, 257, 258, 600, 3000, 20_000, 100_000] };
    for &d in &depths {
        v.push(("tower-tuple".into(), tower(&[104, 1], &[106], &[], d)));
        v.push(("tower-large-tuple".into(), tower(&[105, 0, 0, 0, 1], &[106], &[], d)));
        v.push(("tower-list-elem".into(), tower(&[108, 0, 0, 0, 1], &[106], &[106], d)));
        v.push(("tower-list-tail".into(), tower(&[108, 0, 0, 0, 1, 97, 1], &[106], &[], d)));
        v.push(("tower-map-key".into(), tower(&[116, 0, 0, 0, 1], &[106], &[97, 1], d)));
        v.push(("tower-map-value".into(), tower(&[116, 0, 0, 0, 1, 97, 1], &[106], &[], d)));
        v.push(("tower-local".into(), tower(&[121, 1, 2, 3, 4, 5, 6, 7, 8], &[106], &[], d)));
        if d <= 3000 {
            // fun free variable
            let mut unit = vec![112u8, 0, 0, 0, 0, 1];
            unit.extend_from_slice(&[7u8; 16]);
            unit.extend_from_slice(&[0, 0, 0, 1, 0, 0, 0, 1, 119, 1, 109, 97, 1, 97, 2, 88, 119, 1, 110, 0, 0, 0, 1, 0, 0, 0, 2, 0, 0, 0, 3]);
            v.push(("tower-fun".into(), tower(&unit, &[106], &[], d)));
            // compressed inside compressed
            let mut inner = vec![106u8];
            for _ in 0..d.min(300) {
                let z = zlib(&inner);
                let mut n = vec![80u8];
                n.extend_from_slice(&(inner.len() as u32).to_be_bytes());
                n.extend_from_slice(&z);
                inner = n;
            }
            let mut b = vec![131u8];
            b.extend_from_slice(&inner);
            v.push(("tower-compressed".into(), b));
        }
    }
    // nesting through the fields that are terms but not containers: the node of a pid / port / reference, the module and
    // function of an export, the module / index / uniq / creator pid of a fun. Never a valid term (the field must be an atom,
    // an integer, a pid), but the decoders only find that out after the recursive call has returned, so an input of one
    // repeated tag is a recursion as deep as it is long (seeded change S62: the zero-copy decoder derived its depth from the
    // error path, which these call sites do not extend).
    let mut fun_head = vec![112u8, 0, 0, 0, 0, 1];
    fun_head.extend_from_slice(&[7u8; 16]);
    fun_head.extend_from_slice(&[0, 0, 0, 1, 0, 0, 0, 0]);
    let mut fun_to_index = fun_head.clone();
    fun_to_index.extend_from_slice(&[119, 1, 109]);
    let mut fun_to_uniq = fun_to_index.clone();
    fun_to_uniq.extend_from_slice(&[97, 1]);
    let mut fun_to_pid = fun_to_uniq.clone();
    fun_to_pid.extend_from_slice(&[97, 2]);
    let field_units: Vec<(&str, Vec<u8>)> = vec![
        ("new-pid-node", vec![88]), ("pid-node", vec![103]), ("new-port-node", vec![89]), ("port-node", vec![102]),
        ("v4-port-node", vec![120]), ("ref-node", vec![101]), ("new-ref-node", vec![114, 0, 1]), ("newer-ref-node", vec![90, 0, 1]),
        ("export-module", vec![113]), ("export-function", vec![113, 119, 1, 109]), ("export-arity", vec![113, 119, 1, 109, 119, 1, 102]),
        ("fun-module", fun_head.clone()), ("fun-index", fun_to_index), ("fun-uniq", fun_to_uniq), ("fun-pid", fun_to_pid),
    ];
    for (name, unit) in &field_units {
        let ds: &[usize] = if ctx.thorough { &[255, 256, 257, 258, 600, 100_000] } else { &[256, 257, 100_000] };
        for &d in ds {
            if unit.len() * d <= 4_000_000 {
                v.push((format!("tower-field-{}", name), tower(unit, &[106], &[], d)));
            }
        }
    }
    // every tag byte the decoders dispatch on (every byte value in the thorough tier), repeated
    let tags: Vec<u8> = if ctx.thorough { (0u8..=255).collect() } else {
        vec![70, 77, 80, 82, 88, 89, 90, 97, 98, 99, 100, 101, 102, 103, 104, 105, 106, 107, 108, 109, 110, 111, 112, 113, 114, 115, 116, 118, 119, 120, 121]
    };
    for t in tags {
        let ds: &[usize] = if ctx.thorough { &[300, 100_000] } else { &[100_000] };
        for &d in ds {
            let mut b = vec![131u8];
            b.extend(std::iter::repeat(t).take(d));
            v.push(("repeat-tag".into(), b));
        }
    }
    // compressed sections nested directly in each other, nothing else: around the nesting limit (tied to the model
    // through a chain oracle table) and far beyond it (a recursion that is not counted overflows the stack)
    for d in [250usize, 255, 256, 257, 258, 300] {
        v.push(("chain-compressed".into(), compressed_chain(d, flate2::Compression::best())));
    }
    v.push(("chain-compressed-deep".into(), compressed_chain(if ctx.thorough { 12_000 } else { 8_000 }, flate2::Compression::none())));
    // compressed sections that inflate to more / less than declared, and a zlib bomb
    let payload = erltf::encode(&erltf::OwnedTerm::Binary(vec![0u8; 5000])).unwrap()[1..].to_vec();
    for (name, data, declared) in [
        ("z-exact", payload.clone(), payload.len() as u32),
        ("z-declares-less", payload.clone(), 10u32),
        ("z-declares-more", payload.clone(), payload.len() as u32 + 100),
        ("z-declares-max", payload.clone(), 100_000_000),
        ("z-declares-over-max", payload.clone(), 100_000_001),
        ("z-bomb-small-decl", vec![0u8; if ctx.thorough { 200_000_000 } else { 20_000_000 }], 16),
        ("z-bomb-max-decl", vec![0u8; if ctx.thorough { 200_000_000 } else { 20_000_000 }], 100_000_000),
    ] {
        let z = zlib(&data);
        let mut b = vec![131u8, 80];
        b.extend_from_slice(&declared.to_be_bytes());
        b.extend_from_slice(&z);
        v.push((name.into(), b));
    }
    // reference words: Len says how many u32 follow; the words are reserved after the node name and the creation have been
    // read, so the count must sit in front of a well-formed prefix to reach the reservation at all
    for tag in [90u8, 114] {
        for len in [0u16, 1, 3, 5, 255, 256, 4096, 65535] {
            for present in [0usize, 1, 3, len as usize] {
                if present > 6 && present != len as usize {
                    continue;
                }
                if present > 300 {
                    continue;
                }
                let mut b = vec![131u8, tag];
                b.extend_from_slice(&len.to_be_bytes());
                b.extend_from_slice(&[119, 1, 110]);
                if tag == 90 {
                    b.extend_from_slice(&[0, 0, 0, 1]);
                } else {
                    b.push(1);
                }
                for i in 0..present {
                    b.extend_from_slice(&(i as u32 + 7).to_be_bytes());
                }
                v.push(("ref-words".into(), b));
            }
        }
    }
    // small tuples and strings whose count is far beyond the data
    for arity in [1u8, 2, 16, 255] {
        for present in [0usize, 1, 2] {
            let mut b = vec![131u8, 104, arity];
            for _ in 0..present.min(arity as usize) {
                b.push(106);
            }
            v.push(("small-tuple-count".into(), b));
        }
    }
    // the fragment-header readers: well-formed, and cut at every offset
    {
        let mut h = vec![131u8, 69];
        h.extend_from_slice(&0x0102030405060708u64.to_be_bytes());
        h.extend_from_slice(&3u64.to_be_bytes());
        h.extend_from_slice(&[1, 0x08, 0, 2, 111, 107, 104, 1, 82, 0]);
        let mut c = vec![131u8, 70];
        c.extend_from_slice(&0x0102030405060708u64.to_be_bytes());
        c.extend_from_slice(&2u64.to_be_bytes());
        c.extend_from_slice(&[1, 2, 3, 4]);
        for src in [h, c] {
            for k in 0..=src.len() {
                v.push(("frag-reader".into(), src[..k].to_vec()));
            }
            for fid in [0u64, 1, u64::MAX] {
                let mut m = src.clone();
                m[10..18].copy_from_slice(&fid.to_be_bytes());
                v.push(("frag-reader".into(), m));
            }
        }
    }
    // distribution headers: new entries, long atoms, a second term, nesting towers behind a header and in the payload
    {
        let hdr2: Vec<u8> = vec![131, 68, 2, 0x88, 0, 0, 2, 111, 107, 1, 1, 120];
        let mut a = hdr2.clone();
        a.extend_from_slice(&[104, 2, 82, 0, 82, 1]);
        let mut with_payload = a.clone();
        with_payload.extend_from_slice(&[108, 0, 0, 0, 1, 82, 1, 106]);
        for src in [a.clone(), with_payload.clone()] {
            for k in 0..=src.len() {
                v.push(("dist-header".into(), src[..k].to_vec()));
            }
        }
        // long atoms flag (odd count: high nibble of the last flag byte)
        v.push(("dist-header".into(), vec![131, 68, 1, 0x18, 0, 0, 2, 111, 107, 82, 0]));
        for n in [0u8, 1, 2, 3, 254, 255] {
            for tail in [0usize, 1, 200] {
                let mut b = vec![131u8, 68, n];
                b.extend(std::iter::repeat(0x88u8).take(tail));
                v.push(("dist-header-count".into(), b));
            }
        }
        for &d in &[10usize, 255, 256, 257, 258, 600] {
            let mut t = hdr2.clone();
            for _ in 0..d {
                t.extend_from_slice(&[104, 1]);
            }
            t.extend_from_slice(&[82, 0]);
            v.push(("tower-behind-header".into(), t));
            let mut t = a.clone();
            for _ in 0..d {
                t.extend_from_slice(&[108, 0, 0, 0, 1]);
            }
            t.push(106);
            for _ in 0..d {
                t.push(106);
            }
            v.push(("tower-in-payload".into(), t));
        }
    }
    // towers that alternate the wrappers (LOCAL_EXT around COMPRESSED is built by hand: stored zlib blocks)
    for &d in &[100usize, 254, 255, 256, 257, 258, 400] {
        let mut b = vec![131u8];
        for i in 0..d {
            match i % 3 {
                0 => b.extend_from_slice(&[104, 1]),
                1 => b.extend_from_slice(&[121, 9, 9, 9, 9, 9, 9, 9, 9]),
                _ => b.extend_from_slice(&[108, 0, 0, 0, 1]),
            }
        }
        b.push(106);
        for i in (0..d).rev() {
            if i % 3 == 2 {
                b.push(106);
            }
        }
        v.push(("tower-mixed".into(), b));
    }
    // truncations and mutations of valid encodings
    let n = ctx.n(120, 3000);
    let cfg = Cfg { huge: false, ..Cfg::default() };
    for _ in 0..n {
        let t = gen_term(&mut ctx.rng, &cfg, 0);
        let Ok(b) = erltf::encode(&t) else { continue };
        if b.len() > 600 {
            continue;
        }
        let step = if b.len() <= 64 { 1 } else { b.len() / 24 };
        for k in (0..b.len()).step_by(step) {
            v.push(("trunc".into(), b[..k].to_vec()));
        }
        // the same term without the version byte: what `decode_raw_term` is for
        v.push(("raw-term".into(), b[1..].to_vec()));
        if b.len() > 3 {
            v.push(("raw-term".into(), b[1..b.len() - 1].to_vec()));
        }
        for _ in 0..4 {
            let mut m = b.clone();
            for _ in 0..1 + ctx.rng.below(3) {
                let i = ctx.rng.below(m.len() as u64) as usize;
                m[i] = if ctx.rng.chance(1, 2) { ctx.rng.next() as u8 } else { m[i] ^ (1 << ctx.rng.below(8)) };
            }
            v.push(("mut".into(), m));
        }
    }
    for _ in 0..n * 4 {
        let len = ctx.rng.below(40) as usize;
        let mut b = vec![131u8];
        b.extend(ctx.rng.bytes(len));
        v.push(("random".into(), b));
    }
    v
}

pub fn run(ctx: &mut Ctx) {
    let ins = inputs(ctx);
    let dir = std::env::current_dir().unwrap();
    let infile = dir.join("c02.inputs");
    let outfile = dir.join("c02.child.out");
    {
        let mut f = std::io::BufWriter::new(std::fs::File::create(&infile).unwrap());
        for (i, (_, b)) in ins.iter().enumerate() {
            writeln!(f, "{} {}", i, hexarg(b)).unwrap();
        }
    }
    let _ = std::fs::remove_file(&outfile);
    // run children until every input has an END or a recorded crash
    let exe = std::env::current_exe().unwrap();
    let mut done: Vec<Option<String>> = vec![None; ins.len()];
    let mut start = 0usize;
    let mut crashes = 0;
    while start < ins.len() {
        // write the remaining inputs
        let part = dir.join("c02.part");
        {
            let mut f = std::io::BufWriter::new(std::fs::File::create(&part).unwrap());
            for (i, (_, b)) in ins.iter().enumerate().skip(start) {
                writeln!(f, "{} {}", i, hexarg(b)).unwrap();
            }
        }
        let _ = std::fs::remove_file(&outfile);
        let status = std::process::Command::new(&exe)
            .args(["c02child", "quick", "0", outfile.to_str().unwrap(), part.to_str().unwrap()])
            .stdout(std::process::Stdio::null())
            .stderr(std::process::Stdio::null())
            .status()
            .unwrap();
        let mut last_begin: Option<usize> = None;
        if let Ok(f) = std::fs::File::open(&outfile) {
            for l in std::io::BufReader::new(f).lines() {
                let l = l.unwrap();
                let mut it = l.splitn(3, ' ');
                match (it.next(), it.next(), it.next()) {
                    (Some("BEGIN"), Some(i), _) => last_begin = i.parse().ok(),
                    (Some("END"), Some(i), Some(rest)) => {
                        let i: usize = i.parse().unwrap();
                        done[i] = Some(rest.to_string());
                        last_begin = None;
                    }
                    _ => {}
                }
            }
        }
        match last_begin {
            Some(i) if done[i].is_none() => {
                // the child died while working on input i
                done[i] = Some(format!("CRASH {:?}", status));
                crashes += 1;
                start = i + 1;
                if crashes > 40 {
                    break;
                }
            }
            _ => {
                if !status.success() && done.iter().skip(start).any(|d| d.is_none()) {
                    // died without a BEGIN: give up on the rest
                    break;
                }
                start = ins.len();
            }
        }
    }
    let term_size = std::mem::size_of::<erltf::BorrowedTerm>().max(std::mem::size_of::<erltf::OwnedTerm>());
    ctx.add("sizeof_term", term_size as u64);
    for (i, (kind, b)) in ins.iter().enumerate() {
        ctx.count(&format!("kind_{}", kind));
        let short = if b.len() > 120 { format!("{}..({} bytes)", hex(&b[..60]), b.len()) } else { hex(b) };
        let Some(res) = &done[i] else {
            ctx.fail("c02-not-run", &format!("{} {}", kind, short));
            continue;
        };
        if res.starts_with("CRASH") || res.starts_with("thread-panicked") {
            ctx.fail("c02-process-abort", &format!("{} {} -> {}", kind, short, res));
            continue;
        }
        // inflated bytes this input actually contains (bounded by what it declares)
        let inflated: usize = if b.len() > 6 && b[1] == 80 {
            u32::from_be_bytes([b[2], b[3], b[4], b[5]]) as usize
        } else {
            0
        };
        let inflated = inflated.min(100_000_000);
        let bound = 4 * term_size * (b.len() + 16) + 3 * inflated + 65536;
        for ep in res.split(' ') {
            let (name, rest) = ep.split_once('=').unwrap();
            let (cls, peak) = rest.split_once(':').unwrap();
            let peak: usize = peak.parse().unwrap();
            ctx.count(&format!("{}_{}", name, cls));
            if cls == "panic" {
                ctx.fail("c02-panic", &format!("{} {} entry={}", kind, short, name));
            }
            if peak > bound {
                ctx.fail("c02-disproportionate-allocation", &format!("{} {} entry={} largest single request {} > bound {}", kind, short, name, peak, bound));
            }
        }
        // model tie for the two main decoders (outcome class), where the oracle table is available and the line stays small
        let orc = if kind == "chain-compressed" { chain_oracle(b) } else if b.len() <= 3000 { oracle_for(b) } else { None };
        {
            if let Some(orc) = orc {
                let o = crate::c01::dec_result(b).0;
                let bw = crate::c13::borrowed(b).0;
                let oc = o.split(' ').next().unwrap().to_string();
                let bc = bw.split(' ').next().unwrap().to_string();
                if kind == "chain-compressed" {
                    ctx.tie(kind, &format!("c02class {} {}", hexarg(b), orc), &format!("{} {}", if oc == "trailing" { "err".into() } else { oc }, if bc == "trailing" { "err".into() } else { bc }));
                }
                // every entry point: result class against the model (tie), largest single request of the allocator against
                // the model's requests (oracle, judged by the driver)
                if kind != "chain-compressed" {
                let eps: Vec<(&str, &str)> = res.split(' ').map(|ep| ep.split_once('=').unwrap().1.split_once(':').unwrap()).collect();
                let classes: Vec<&str> = eps.iter().map(|e| e.0).collect();
                let peaks: Vec<&str> = eps.iter().map(|e| e.1).collect();
                ctx.tie(kind, &format!("c02ep {} {}", hexarg(b), orc), &classes.join(" "));
                // the driver accepts any request up to its fixed allowance (c02Slack, 24576 bytes) whatever the model says, so a
                // case whose largest request stays below it cannot fail: the quick tier does not spend a model run on it
                let largest = peaks.iter().filter_map(|p| p.parse::<u64>().ok()).max().unwrap_or(u64::MAX);
                if ctx.thorough || largest > 24_576 {
                    ctx.prop(kind, &format!("c02peak {} {} {} {}", hexarg(b), orc, term_size, peaks.join(",")), "ok");
                } else {
                    ctx.count("peak_within_fixed_allowance");
                }
                }
            }
        }
    }
    let _ = std::fs::remove_file(&infile);
    let _ = std::fs::remove_file(dir.join("c02.part"));
}
