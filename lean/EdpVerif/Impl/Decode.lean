import EdpVerif.Basic.Utf8
import EdpVerif.Impl.Cmp
/-
Model of crates/erltf/src/decoder.rs.  One generic decoder; `DecCfg.borrowed` selects the tag set of
`parse_term_borrowed` (the zero-copy twin), otherwise that of `parse_term_from_tag`.
External calls are parameters (`Ext`): zlib inflate and Rust's `str::parse::<f64>`.
Fuel: any `fuel > bytes.length` suffices (each level consumes at least the tag byte).
-/
namespace Edp

inductive DErr where
  | err
  | trailing (n : Nat)
  /-- a Rust panic site was reached (slice index out of range) -/
  | panic
  deriving Repr, BEq, DecidableEq

structure Ext where
  /-- zlib stream → (inflated bytes, input bytes consumed) -/
  inflate : Bytes → Option (Bytes × Nat)
  /-- the 31-byte FLOAT_EXT field → f64 bits, as `trim_end_matches('\0').parse::<f64>()` gives -/
  parseFloat : Bytes → Option Nat
  /-- extra fuel: an upper bound on the total length of everything `inflate` returns -/
  extra : Nat := 0

def Ext.none : Ext := ⟨fun _ => Option.none, fun _ => Option.none, 0⟩

structure DecCfg where
  borrowed : Bool := false
  /-- atom cache of `decode_with_atom_cache`: cache index → atom -/
  cache : List (Nat × Bytes) := []

def MAX_ATOM_SIZE : Nat := 65535
def MAX_LIST_SIZE : Nat := 10000000
def MAX_TUPLE_SIZE : Nat := 10000000
def MAX_MAP_SIZE : Nat := 1000000
def MAX_BINARY_SIZE : Nat := 100000000
def MAX_NESTING_DEPTH : Nat := 256

/-- `bounded_capacity`: what is reserved for `count` announced elements -/
def boundedCapacity (count : Nat) (remaining : Bytes) : Nat := min count remaining.length

/-- `BTreeMap::insert` under the term order: an equal key keeps the stored key and takes the new value -/
def mapInsert : List (Term × Term) → Term → Term → List (Term × Term)
  | [], k, v => [(k, v)]
  | (k', v') :: r, k, v =>
    match Term.cmp k k' with
    | .lt => (k, v) :: (k', v') :: r
    | .eq => (k', v) :: r
    | .gt => (k', v') :: mapInsert r k v

abbrev DRes := Except DErr (Term × Bytes)

def rdU (k : Nat) (bs : Bytes) : Except DErr (Nat × Bytes) :=
  match rdN k bs with
  | some r => .ok r
  | none => .error .err

def takeE (n : Nat) (bs : Bytes) : Except DErr (Bytes × Bytes) :=
  match takeN n bs with
  | some r => .ok r
  | none => .error .err

/-- atom text: `len` bytes that must be valid UTF-8 (all four atom tags go through `str::from_utf8`) -/
def decAtomBody (lenBytes : Nat) (bs : Bytes) : DRes :=
  match rdU lenBytes bs with
  | .error e => .error e
  | .ok (len, r) =>
    if len > MAX_ATOM_SIZE then .error .err else
    match takeE len r with
    | .error e => .error e
    | .ok (name, r') => if validUtf8 name then .ok (.atom name, r') else .error .err

/-- ATOM_EXT / SMALL_ATOM_EXT: `len` Latin-1 bytes, one character each -/
def decLatin1Body (lenBytes : Nat) (bs : Bytes) : DRes :=
  match rdU lenBytes bs with
  | .error e => .error e
  | .ok (len, r) =>
    if len > MAX_ATOM_SIZE then .error .err else
    match takeE len r with
    | .error e => .error e
    | .ok (name, r') => .ok (.atom (latin1ToUtf8 name), r')

def decBig (lenBytes : Nat) (bs : Bytes) : DRes :=
  match rdU lenBytes bs with
  | .error e => .error e
  | .ok (n, r) =>
    match rdU 1 r with
    | .error e => .error e
    | .ok (sign, r1) =>
      match takeE n r1 with
      | .error e => .error e
      | .ok (d, r2) => .ok (.big (sign != 0) d, r2)

/-- `len` big-endian u32 words -/
def rdWords : Nat → Bytes → Except DErr (List Nat × Bytes)
  | 0, bs => .ok ([], bs)
  | n+1, bs =>
    match rdU 4 bs with
    | .error e => .error e
    | .ok (w, r) =>
      match rdWords n r with
      | .error e => .error e
      | .ok (ws, r') => .ok (w :: ws, r')

def i32OfU32 (n : Nat) : Int := if n < 2147483648 then n else (n : Int) - 4294967296

def ownedOnlyTags : List Nat := [115, 80, 101, 102, 103, 114, 121, 82]

mutual
/-- `parse_term` / `parse_term_borrowed` -/
def dec (x : Ext) (cfg : DecCfg) : Nat → Nat → Bytes → DRes
  | 0, _, _ => .error .err
  | _, _, [] => .error .err
  | fuel+1, depth, tagB :: bs =>
    let tag := tagB.toNat
    if depth > MAX_NESTING_DEPTH then .error .err else
    if cfg.borrowed && ownedOnlyTags.contains tag then .error .err else
    match tag with
    | 97 => match rdU 1 bs with
      | .ok (v, r) => .ok (.int v, r)
      | .error e => .error e
    | 98 => match rdU 4 bs with
      | .ok (v, r) => .ok (.int (i32OfU32 v), r)
      | .error e => .error e
    | 99 => match takeE 31 bs with
      | .error e => .error e
      | .ok (field, r) =>
        if !validUtf8 field then .error .err else
        match x.parseFloat field with
        | some b => .ok (.float b, r)
        | none => .error .err
    | 70 => match rdU 8 bs with
      | .ok (v, r) => .ok (.float v, r)
      | .error e => .error e
    | 100 => decLatin1Body 2 bs
    | 118 => decAtomBody 2 bs
    | 119 => decAtomBody 1 bs
    | 115 => decLatin1Body 1 bs
    | 104 => match rdU 1 bs with
      | .error e => .error e
      | .ok (n, r) => match decN x cfg fuel (depth + 1) n r with
        | .ok (l, r') => .ok (.tuple l, r')
        | .error e => .error e
    | 105 => match rdU 4 bs with
      | .error e => .error e
      | .ok (n, r) =>
        if n > MAX_TUPLE_SIZE then .error .err else
        match decN x cfg fuel (depth + 1) n r with
        | .ok (l, r') => .ok (.tuple l, r')
        | .error e => .error e
    | 106 => .ok (.nil, bs)
    | 107 => match rdU 2 bs with
      | .error e => .error e
      | .ok (n, r) => match takeE n r with
        | .error e => .error e
        | .ok (s, r') => .ok (.list (s.map fun b => .int b.toNat), r')
    | 108 => match rdU 4 bs with
      | .error e => .error e
      | .ok (n, r) =>
        if n > MAX_LIST_SIZE then .error .err else
        match decN x cfg fuel (depth + 1) n r with
        | .error e => .error e
        | .ok (l, r') => match dec x cfg fuel (depth + 1) r' with
          | .error e => .error e
          | .ok (.nil, r'') => .ok (.list l, r'')
          | .ok (t, r'') => .ok (.ilist l t, r'')
    | 109 => match rdU 4 bs with
      | .error e => .error e
      | .ok (n, r) =>
        if n > MAX_BINARY_SIZE then .error .err else
        match takeE n r with
        | .error e => .error e
        | .ok (b, r') => .ok (.bin b, r')
    | 77 => match rdU 4 bs with
      | .error e => .error e
      | .ok (n, r) =>
        if n > MAX_BINARY_SIZE then .error .err else
        match rdU 1 r with
        | .error e => .error e
        | .ok (bits, r1) =>
          if bits == 0 || bits > 8 then .error .err
          else if n == 0 && bits != 8 then .error .err
          else match takeE n r1 with
            | .error e => .error e
            | .ok (b, r') => .ok (.bits b bits, r')
    | 110 => decBig 1 bs
    | 111 => decBig 4 bs
    | 116 => match rdU 4 bs with
      | .error e => .error e
      | .ok (n, r) =>
        if n > MAX_MAP_SIZE then .error .err else
        match decKV x cfg fuel (depth + 1) n r [] with
        | .ok (m, r') => .ok (.map m, r')
        | .error e => .error e
    | 88 => match dec x cfg fuel (depth + 1) bs with
      | .ok (.atom node, r) => match rdU 4 r with
        | .error e => .error e
        | .ok (id, r1) => match rdU 4 r1 with
          | .error e => .error e
          | .ok (serial, r2) => match rdU 4 r2 with
            | .error e => .error e
            | .ok (creation, r3) => .ok (.pid { node, id, serial, creation }, r3)
      | .ok _ => .error .err
      | .error e => .error e
    | 103 => match dec x cfg fuel (depth + 1) bs with
      | .ok (.atom node, r) => match rdU 4 r with
        | .error e => .error e
        | .ok (id, r1) => match rdU 4 r1 with
          | .error e => .error e
          | .ok (serial, r2) => match rdU 1 r2 with
            | .error e => .error e
            | .ok (creation, r3) => .ok (.pid { node, id, serial, creation }, r3)
      | .ok _ => .error .err
      | .error e => .error e
    | 120 => match dec x cfg fuel (depth + 1) bs with
      | .ok (.atom node, r) => match rdU 8 r with
        | .error e => .error e
        | .ok (id, r1) => match rdU 4 r1 with
          | .error e => .error e
          | .ok (creation, r2) => .ok (.port node id creation none, r2)
      | .ok _ => .error .err
      | .error e => .error e
    | 89 => match dec x cfg fuel (depth + 1) bs with
      | .ok (.atom node, r) => match rdU 4 r with
        | .error e => .error e
        | .ok (id, r1) => match rdU 4 r1 with
          | .error e => .error e
          | .ok (creation, r2) => .ok (.port node id creation none, r2)
      | .ok _ => .error .err
      | .error e => .error e
    | 102 => match dec x cfg fuel (depth + 1) bs with
      | .ok (.atom node, r) => match rdU 4 r with
        | .error e => .error e
        | .ok (id, r1) => match rdU 1 r1 with
          | .error e => .error e
          | .ok (creation, r2) => .ok (.port node id creation none, r2)
      | .ok _ => .error .err
      | .error e => .error e
    | 90 => match rdU 2 bs with
      | .error e => .error e
      | .ok (len, r0) => match dec x cfg fuel (depth + 1) r0 with
        | .ok (.atom node, r) => match rdU 4 r with
          | .error e => .error e
          | .ok (creation, r1) => match rdWords len r1 with
            | .error e => .error e
            | .ok (ids, r2) => .ok (.ref node creation ids none, r2)
        | .ok _ => .error .err
        | .error e => .error e
    | 114 => match rdU 2 bs with
      | .error e => .error e
      | .ok (len, r0) => match dec x cfg fuel (depth + 1) r0 with
        | .ok (.atom node, r) => match rdU 1 r with
          | .error e => .error e
          | .ok (creation, r1) => match rdWords len r1 with
            | .error e => .error e
            | .ok (ids, r2) => .ok (.ref node creation ids none, r2)
        | .ok _ => .error .err
        | .error e => .error e
    | 101 => match dec x cfg fuel (depth + 1) bs with
      | .ok (.atom node, r) => match rdU 4 r with
        | .error e => .error e
        | .ok (id, r1) => match rdU 1 r1 with
          | .error e => .error e
          | .ok (creation, r2) => .ok (.ref node creation [id] none, r2)
      | .ok _ => .error .err
      | .error e => .error e
    | 113 => match dec x cfg fuel (depth + 1) bs with
      | .ok (.atom m, r) => match dec x cfg fuel (depth + 1) r with
        | .ok (.atom f, r1) => match dec x cfg fuel (depth + 1) r1 with
          | .ok (.int a, r2) => if 0 ≤ a ∧ a ≤ 255 then .ok (.xfun m f a.toNat, r2) else .error .err
          | .ok _ => .error .err
          | .error e => .error e
        | .ok _ => .error .err
        | .error e => .error e
      | .ok _ => .error .err
      | .error e => .error e
    | 112 => match rdU 4 bs with
      | .error e => .error e
      | .ok (_size, r0) => match rdU 1 r0 with
        | .error e => .error e
        | .ok (arity, r1) => match takeE 16 r1 with
          | .error e => .error e
          | .ok (uniq, r2) => match rdU 4 r2 with
            | .error e => .error e
            | .ok (index, r3) => match rdU 4 r3 with
              | .error e => .error e
              | .ok (numFree, r4) => match dec x cfg fuel (depth + 1) r4 with
                | .ok (.atom m, r5) => match dec x cfg fuel (depth + 1) r5 with
                  | .ok (.int oi, r6) => if oi < 0 then .error .err else match dec x cfg fuel (depth + 1) r6 with
                    | .ok (.int ou, r7) => if ou < 0 then .error .err else match dec x cfg fuel (depth + 1) r7 with
                      | .ok (.pid p, r8) => match decN x cfg fuel (depth + 1) numFree r8 with
                        | .ok (fr, r9) => .ok (.ifun arity uniq index numFree m oi.toNat ou.toNat p fr, r9)
                        | .error e => .error e
                      | .ok _ => .error .err
                      | .error e => .error e
                    | .ok _ => .error .err
                    | .error e => .error e
                  | .ok _ => .error .err
                  | .error e => .error e
                | .ok _ => .error .err
                | .error e => .error e
    | 121 => match rdU 8 bs with
      | .error e => .error e
      | .ok (_hash, r) => match dec x cfg fuel (depth + 1) r with
        | .error e => .error e
        | .ok (t, r') =>
          let loc := bs.take (8 + (r.length - r'.length))
          match t with
          | .pid p => .ok (.pid { p with loc := some loc }, r')
          | .port n i c _ => .ok (.port n i c (some loc), r')
          | .ref n c ids _ => .ok (.ref n c ids (some loc), r')
          | t => .ok (t, r')
    | 80 => match rdU 4 bs with
      | .error e => .error e
      | .ok (usize, r) =>
        if usize > MAX_BINARY_SIZE then .error .err else
        match x.inflate r with
        | none => .error .err
        | some (out, consumed) =>
          -- at most `usize + 1` bytes are inflated; anything but exactly `usize` is refused
          if out.length != usize then .error .err else
          match dec x cfg fuel (depth + 1) out with
          | .ok (t, []) => if consumed > r.length then .error .panic else .ok (t, r.drop consumed)
          | _ => .error .err
    | 82 => match rdU 1 bs with
      | .error e => .error e
      | .ok (i, r) => match cfg.cache.lookup i with
        | some a => .ok (.atom a, r)
        | none => .error .err
    | _ => .error .err
/-- `n` consecutive terms -/
def decN (x : Ext) (cfg : DecCfg) : Nat → Nat → Nat → Bytes → Except DErr (List Term × Bytes)
  | _, _, 0, bs => .ok ([], bs)
  | 0, _, _+1, _ => .error .err
  | fuel+1, depth, n+1, bs =>
    match dec x cfg fuel depth bs with
    | .error e => .error e
    | .ok (t, r) => match decN x cfg fuel depth n r with
      | .error e => .error e
      | .ok (ts, r') => .ok (t :: ts, r')
/-- `n` key/value pairs inserted into the ordered map as they arrive -/
def decKV (x : Ext) (cfg : DecCfg) : Nat → Nat → Nat → Bytes → List (Term × Term) → Except DErr (List (Term × Term) × Bytes)
  | _, _, 0, bs, m => .ok (m, bs)
  | 0, _, _+1, _, _ => .error .err
  | fuel+1, depth, n+1, bs, m =>
    match dec x cfg fuel depth bs with
    | .error e => .error e
    | .ok (k, r) => match dec x cfg fuel depth r with
      | .error e => .error e
      | .ok (v, r') => decKV x cfg fuel depth n r' (mapInsert m k v)
end

/-- `erltf::decode` / `erltf::decode_borrowed(..).map(to_owned)` -/
def decodeWith (x : Ext) (cfg : DecCfg) (bs : Bytes) : Except DErr Term :=
  match bs with
  | [] => .error .err
  | v :: r =>
    if v != 131 then .error .err else
    match dec x cfg (r.length + 1 + x.extra) 0 r with
    | .error e => .error e
    | .ok (t, []) => .ok t
    | .ok (_, rest) => .error (.trailing rest.length)

def decode (x : Ext) (bs : Bytes) : Except DErr Term := decodeWith x {} bs
def decodeBorrowed (x : Ext) (bs : Bytes) : Except DErr Term := decodeWith x { borrowed := true } bs

end Edp
