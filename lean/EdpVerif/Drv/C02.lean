import EdpVerif.Drv.Common
namespace Edp.Drv

/-- driver requests of property C02 (stub: nothing handled yet) -/
def handleC02 : List String → Option String
  | _ => none

end Edp.Drv
