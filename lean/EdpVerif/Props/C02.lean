import EdpVerif.Impl.Decode
import EdpVerif.Impl.TableTie
import EdpVerif.Lemmas.DecTotal
import EdpVerif.Lemmas.DistHeader
import EdpVerif.Lemmas.DecMeter
import EdpVerif.Generated.MiscC02
import EdpVerif.Lemmas.DecDepth
/-
C02 — decoding untrusted bytes always returns: no panic, abort, overflow or blow-up.
The model makes every Rust panic site an explicit outcome (`DErr.panic`), so "never panics" is a theorem and not a
by-product of totalisation; recursion depth and requested capacities are functions of the input.
-/
namespace Edp.Props.C02
open Edp
set_option linter.unusedSimpArgs false

/-- the nesting-depth guard: beyond `MAX_NESTING_DEPTH` levels the decoder returns an error at once, for every input,
atom cache, configuration and fuel — the recursion never goes deeper than 257 levels -/
theorem C02_depth_guard (x : Ext) (cfg : DecCfg) (fuel depth : Nat) (bs : Bytes) (h : depth > MAX_NESTING_DEPTH) :
    dec x cfg fuel depth bs = .error .err := by
  cases fuel with
  | zero => simp [dec]
  | succ f =>
    cases bs with
    | nil => simp [dec]
    | cons t r => simp [dec, h]

/-- the guard value is the one in the source (regenerated on every run) -/
theorem C02_depth_limit_is_sources : Gen.MAX_NESTING_DEPTH = MAX_NESTING_DEPTH := by decide

/-- `bounded_capacity` never under-reserves below what a valid input needs (that it never over-reserves is
`C02_alloc_in_proportion` below, stated of the decoder and not of the helper) -/
theorem C02_alloc_exact_when_fits (count : Nat) (remaining : Bytes) (h : count ≤ remaining.length) :
    boundedCapacity count remaining = count := by
  unfold boundedCapacity; omega

example : boundedCapacity 4294967295 [1, 2, 3] = 3 := by decide

/-- a compressed section is accepted only when it inflates to exactly the declared size (so the inflated length
never exceeds what the input declares), for every behaviour of zlib -/
theorem C02_inflate_bounded (x : Ext) (cfg : DecCfg) (fuel depth : Nat) (bs : Bytes) (t : Term) (rest : Bytes)
    (h : dec x cfg (fuel + 1) depth (80 :: bs) = .ok (t, rest)) :
    ∃ usize r out consumed, rdU 4 bs = .ok (usize, r) ∧ x.inflate r = some (out, consumed) ∧
      out.length = usize ∧ usize ≤ MAX_BINARY_SIZE := by
  rw [dec.eq_3] at h
  have e80 : (80 : UInt8).toNat = 80 := by decide
  simp only [e80] at h
  split at h
  · simp at h
  · split at h
    · simp at h
    · split at h
      · simp at h
      · rename_i usize r heq
        split at h
        · simp at h
        · rename_i hsz
          split at h
          · simp at h
          · rename_i out consumed hinf
            split at h
            · simp at h
            · rename_i hlen
              refine ⟨usize, r, out, consumed, heq, hinf, ?_, by omega⟩
              simpa using hlen

/-- the only modelled panic site of the term decoder (`&rest[consumed..]` after inflating) is unreachable when the
inflater reports no more input consumed than it was given — the documented contract of `total_in` -/
theorem C02_no_panic_after_inflate (x : Ext) (cfg : DecCfg) (fuel depth : Nat) (bs : Bytes)
    (hx : ∀ z out n, x.inflate z = some (out, n) → n ≤ z.length) :
    dec x cfg (fuel + 1) depth (80 :: bs) ≠ .error .panic := by
  rw [dec.eq_3]
  have e80 : (80 : UInt8).toNat = 80 := by decide
  simp only [e80]
  split
  · simp
  · split
    · simp
    · split
      · rename_i e heq
        simp only [rdU] at heq
        split at heq <;> simp at heq
        simp [← heq]
      · rename_i usize r heq
        split
        · simp
        · split
          · simp
          · rename_i out consumed hinf
            split
            · simp
            · have := hx r out consumed hinf
              split
              · split
                · omega
                · simp
              · simp

-- what is assumed of zlib (`InflateSane`, Lemmas/DecMeter.lean): it reports no more input consumed than it was given

/-- **No input reaches a panic site of the term decoder**: every byte string, every nesting depth, every atom cache,
either decoder configuration (owned / zero-copy), every fuel — the outcome is a term or an error -/
theorem C02_total (x : Ext) (cfg : DecCfg) (hx : InflateSane x) (fuel depth : Nat) (bs : Bytes) :
    dec x cfg fuel depth bs ≠ .error .panic :=
  (dec_no_panic x cfg hx fuel).1 depth bs

/-- the entry points `decode` and `decode_borrowed` -/
theorem C02_total_decode (x : Ext) (cfg : DecCfg) (hx : InflateSane x) (bs : Bytes) :
    decodeWith x cfg bs ≠ .error .panic := by
  unfold decodeWith
  cases bs with
  | nil => simp
  | cons v r =>
    simp only
    split
    · simp
    · split
      · rename_i e h; intro hp; simp only [Except.error.injEq] at hp; subst hp
        exact C02_total x cfg hx _ _ _ h
      · simp
      · simp

/-- the hypothesis is satisfiable: an inflater that refuses everything, and any one that consumes a prefix -/
example : InflateSane Ext.none := by intro z out n h; simp [Ext.none] at h
example : InflateSane { inflate := fun z => some (z.take 1, z.length), parseFloat := fun _ => none } := by
  intro z out n h; simp at h; omega

/-- the entry point `decode_with_atom_cache` (distribution header, then one or two terms), whatever the cache holds -/
theorem C02_total_with_atom_cache (x : Ext) (hx : InflateSane x) (c : DistHeader.Cache) (bs : Bytes) :
    (DistHeader.decodeWithAtomCache x c bs).2 ≠ .error .panic := by
  unfold DistHeader.decodeWithAtomCache
  cases bs with
  | nil => simp
  | cons v r =>
    simp only
    split
    · simp
    · cases r with
      | nil => simp
      | cons tag r1 =>
        simp only
        by_cases ht : (tag == 68) = true
        · simp only [ht, ↓reduceIte]
          cases hp : DistHeader.parseHeader c r1 with
          | mk c1 res =>
            cases res with
            | error e =>
              simp only
              have := DistHeader.parseHeader_np c r1
              rw [hp] at this
              simpa using this
            | ok body =>
              simp only
              split
              · rename_i e h; intro hq; simp only [Except.error.injEq] at hq; subst hq
                exact C02_total x _ hx _ _ _ h
              · split
                · simp
                · split
                  · rename_i e h; intro hq; simp only [Except.error.injEq] at hq; subst hq
                    exact C02_total x _ hx _ _ _ h
                  · simp
                  · simp
        · simp only [ht, Bool.false_eq_true, ↓reduceIte]
          split
          · rename_i e h; intro hq; simp only [Except.error.injEq] at hq; subst hq
            exact C02_total x _ hx _ _ _ h
          · split
            · simp
            · split
              · rename_i e h; intro hq; simp only [Except.error.injEq] at hq; subst hq
                exact C02_total x _ hx _ _ _ h
              · simp
              · simp

/-- a connection's whole history of header-mode messages: no message, well-formed or not, panics the receiver -/
theorem C02_total_sequence (x : Ext) (hx : InflateSane x) (c : DistHeader.Cache) (msgs : List Bytes) :
    ∀ r ∈ DistHeader.decodeSeq x c msgs, r ≠ .error .panic := by
  induction msgs generalizing c with
  | nil => simp [DistHeader.decodeSeq]
  | cons m ms ih =>
    intro r hr
    simp only [DistHeader.decodeSeq, List.mem_cons] at hr
    rcases hr with rfl | hr
    · exact C02_total_with_atom_cache x hx c m
    · exact ih _ r hr


/-! ### The resource model: recursion depth, heap requests, slice sites — every parser, every entry point -/

/-- **Stack.** Whatever the input, the cache, the configuration (owned / zero-copy: `depth` is `ctx.depth` there), the
fuel and zlib's behaviour: `parse_term` is never entered with a depth beyond `MAX_NESTING_DEPTH + 1` — through tuples,
lists and their tails, map keys and values, fun free variables, node names, LOCAL_EXT wrappers and compressed sections
alike.  (Started below the limit; started at `d` above it, it does not go deeper than `d`.) -/
theorem C02_depth_bounded (x : Ext) (hx : InflateSane x) (cfg : DecCfg) (fuel d : Nat) (bs : Bytes) :
    (meter x cfg fuel d bs).maxDepth ≤ max d (MAX_NESTING_DEPTH + 1) :=
  ((meter_ok x hx cfg fuel).1 d bs).depth

/-- the meter counts (the driver evaluates it on every generated input; 300 nested tuples give 257 there) -/
example : (meter Ext.none {} 5 0 [104, 1, 104, 1, 106]).maxDepth = 2 := by
  simp [meter, meterN, dec, decN, rdU, rdN, boundedCapacity, Meter.add, Meter.enter, Meter.req, ownedOnlyTags, MAX_NESTING_DEPTH]

/-- **Heap.** Every request whose size comes from the wire — `Vec::with_capacity` for tuples, lists, reference words and
fun free variables, the `collect()` of STRING_EXT, `to_vec()` of binaries, bignum digits and LOCAL_EXT bytes, atom
texts — asks for no more elements than bytes are left in the buffer being parsed, and that buffer is a piece of the
input or of a compressed section the input really contains (whose inflated length the meter has recorded). -/
theorem C02_alloc_in_proportion (x : Ext) (hx : InflateSane x) (cfg : DecCfg) (fuel d : Nat) (bs : Bytes) :
    ∀ q ∈ (meter x cfg fuel d bs).reqs,
      q.n ≤ q.rem ∧ (q.rem ≤ bs.length ∨ ∃ i ∈ (meter x cfg fuel d bs).infl, q.rem ≤ i.2) := by
  intro q hq
  have h := (meter_ok x hx cfg fuel).1 d bs
  exact ⟨h.cap q hq, h.rem q hq⟩

/-- a tuple that announces 200 elements in front of one byte reserves one -/
example : (meter Ext.none {} 3 0 [104, 200, 106]).reqs = [⟨1, .term, 1⟩] := by
  simp [meter, meterN, dec, rdU, rdN, boundedCapacity, Meter.add, Meter.enter, Meter.req, ownedOnlyTags, MAX_NESTING_DEPTH]

/-- **Inflate.** A compressed section is never inflated past one byte more than it declares, and nothing is inflated
for a declaration above `MAX_BINARY_SIZE` (that only an exact match is then parsed is `C02_inflate_bounded`). -/
theorem C02_inflate_within_declared (x : Ext) (hx : InflateSane x) (cfg : DecCfg) (fuel d : Nat) (bs : Bytes) :
    ∀ i ∈ (meter x cfg fuel d bs).infl, i.2 ≤ i.1 + 1 ∧ i.1 ≤ MAX_BINARY_SIZE :=
  ((meter_ok x hx cfg fuel).1 d bs).inf

example : (meter { inflate := fun _ => some ([106, 106, 106], 0), parseFloat := fun _ => none } {} 3 0 [80, 0, 0, 0, 1, 9]).infl
    = [(1, 2)] := by
  simp [meter, rdU, rdN, Meter.add, Meter.enter, Meter.inflated, ownedOnlyTags, MAX_NESTING_DEPTH, MAX_BINARY_SIZE]

/-- **Slices and subtractions.** `&rest[consumed..]`, `start[..8 + nested_len]`, `input.len() - remaining.len()` and
`copy_from_slice` always have their operands the right way round. -/
theorem C02_slices_in_range (x : Ext) (hx : InflateSane x) (cfg : DecCfg) (fuel d : Nat) (bs : Bytes) :
    ∀ c ∈ (meter x cfg fuel d bs).checks, c.1 ≤ c.2 :=
  ((meter_ok x hx cfg fuel).1 d bs).chk

example : (meter Ext.none {} 3 0 [121, 1, 2, 3, 4, 5, 6, 7, 8, 106]).checks = [(0, 1), (9, 9)] := by
  simp [meter, dec, rdU, rdN, Meter.add, Meter.enter, Meter.check, Meter.req, ownedOnlyTags, MAX_NESTING_DEPTH]

/-- without the assumption on zlib the slice after a compressed section is out of range (so the hypothesis is used) -/
example : (meter { inflate := fun _ => some ([106], 7), parseFloat := fun _ => none } {} 3 0 [80, 0, 0, 0, 1, 9]).checks
    = [(7, 1)] := by
  simp [meter, dec, rdU, rdN, Meter.add, Meter.enter, Meter.inflated, Meter.check, ownedOnlyTags, MAX_NESTING_DEPTH, MAX_BINARY_SIZE]

/-- the same four bounds for **every entry point** (`decode`, `decode_borrowed`, `decode_with_trailing`,
`decode_raw_term`, `decode_with_cache`, `decode_with_atom_cache` from any cache, and the two fragment-header readers,
which parse no term): depth, requests, inflate, slices -/
theorem C02_entry_points_bounded (x : Ext) (hx : InflateSane x) (c : DistHeader.Cache) (bs : Bytes) (ep : EntryPoint) :
    (ep.meter x c bs).maxDepth ≤ MAX_NESTING_DEPTH + 1 ∧
    (∀ q ∈ (ep.meter x c bs).reqs, q.n ≤ q.rem ∧ (q.rem ≤ bs.length ∨ ∃ i ∈ (ep.meter x c bs).infl, q.rem ≤ i.2)) ∧
    (∀ i ∈ (ep.meter x c bs).infl, i.2 ≤ i.1 + 1 ∧ i.1 ≤ MAX_BINARY_SIZE) ∧
    (∀ k ∈ (ep.meter x c bs).checks, k.1 ≤ k.2) := by
  have h := entry_ok x hx c bs ep
  refine ⟨by have := h.depth; omega, fun q hq => ⟨h.cap q hq, h.rem q hq⟩, h.inf, h.chk⟩

example : (EntryPoint.withAtomCache.meter Ext.none {} [131, 104, 1, 104, 0]).maxDepth = 1 := by
  simp [EntryPoint.meter, EntryPoint.calls, Ext.none, meter, meterN, dec, decN, rdU, rdN, boundedCapacity, Meter.add, Meter.enter, Meter.req, ownedOnlyTags, MAX_NESTING_DEPTH]

/-- **Arithmetic, 64-bit target.** No allocation overflows `isize::MAX` ("capacity overflow" panic of
`Vec::with_capacity`) and no slice site fails, for any input a frame can carry (the length field of a frame is a `u32`),
any element size up to a MiB. -/
theorem C02_no_panic_site_64 (x : Ext) (hx : InflateSane x) (c : DistHeader.Cache) (bs : Bytes) (ep : EntryPoint)
    (k : Target) (hk : k.isizeMax = 2 ^ 63 - 1) (hs : k.termSize ≤ 2 ^ 20) (hl : bs.length ≤ 2 ^ 32) :
    (ep.meter x c bs).panics k = false := by
  have h := entry_ok x hx c bs ep
  simp only [Meter.panics, Bool.or_eq_false_iff, List.any_eq_false, decide_eq_true_eq]
  refine ⟨fun q hq => ?_, fun c hc => by have := h.chk c hc; omega⟩
  have h1 := h.cap q hq
  have h2 : q.rem ≤ 2 ^ 32 := by
    rcases h.rem q hq with h' | ⟨i, hi, h'⟩
    · omega
    · have := h.inf i hi; simp only [MAX_BINARY_SIZE] at this; omega
  have h3 : q.elem.size k ≤ 2 ^ 20 := by cases q.elem <;> simp [Elem.size] <;> omega
  have : q.n * q.elem.size k ≤ 2 ^ 32 * 2 ^ 20 := Nat.mul_le_mul (by omega) h3
  simp only [Req.bytes, hk]
  omega

/-- **Arithmetic, 32-bit target.** There the same holds for inputs up to `isize::MAX / size_of::<OwnedTerm>()` bytes
(26 MiB for an 80-byte term); beyond it the pre-allocation for fun free variables — the one count without a cap of its
own — can ask for more than `isize::MAX` bytes (see notes/C02.md; the connection accepts frames of 64 MiB). -/
theorem C02_no_panic_site_32 (x : Ext) (hx : InflateSane x) (c : DistHeader.Cache) (bs : Bytes) (ep : EntryPoint)
    (k : Target) (hk : k.isizeMax = 2 ^ 31 - 1) (hs : 4 ≤ k.termSize) (hl : bs.length * k.termSize ≤ 2 ^ 31 - 1)
    (hz : ∀ i ∈ (ep.meter x c bs).infl, i.2 * k.termSize ≤ 2 ^ 31 - 1) :
    (ep.meter x c bs).panics k = false := by
  have h := entry_ok x hx c bs ep
  simp only [Meter.panics, Bool.or_eq_false_iff, List.any_eq_false, decide_eq_true_eq]
  refine ⟨fun q hq => ?_, fun c hc => by have := h.chk c hc; omega⟩
  have h1 := h.cap q hq
  have h3 : q.elem.size k ≤ k.termSize := by cases q.elem <;> simp [Elem.size] <;> omega
  have h2 : q.rem * k.termSize ≤ 2 ^ 31 - 1 := by
    rcases h.rem q hq with h' | ⟨i, hi, h'⟩
    · exact Nat.le_trans (Nat.mul_le_mul_right _ h') hl
    · exact Nat.le_trans (Nat.mul_le_mul_right _ h') (hz i hi)
  have : q.n * q.elem.size k ≤ q.rem * k.termSize := Nat.mul_le_mul h1 h3
  simp only [Req.bytes, hk]
  omega

/-- on the 32-bit target a request of the size the fun parser may make behind 30 MB of input does overflow -/
example : (Meter.req 30000000 .term 30000000).panics { termSize := 80, isizeMax := 2 ^ 31 - 1 } = true := by decide

/-! ### Every entry point returns a term or an error -/

theorem C02_total_raw_term (x : Ext) (hx : InflateSane x) (bs : Bytes) : decodeRaw x bs ≠ .error .panic := by
  unfold decodeRaw
  split
  · rename_i e h; intro hp; simp only [Except.error.injEq] at hp; subst hp
    exact C02_total x _ hx _ _ _ h
  · simp
  · simp

theorem C02_total_with_trailing (x : Ext) (hx : InflateSane x) (bs : Bytes) : Recv.decodeTrailing x bs ≠ .error .panic := by
  unfold Recv.decodeTrailing
  split
  · simp
  · split
    · simp
    · exact C02_total x _ hx _ _ _

theorem C02_total_fragment_headers (bs : Bytes) :
    Recv.decodeFragmentHeader bs ≠ .error .panic ∧ Recv.decodeFragmentCont bs ≠ .error .panic := by
  constructor
  · unfold Recv.decodeFragmentHeader
    split
    · repeat' (split <;> try simp)
      all_goals (rename_i e h; intro hp; (try simp only [Except.error.injEq] at hp); subst hp; exact rdU_np _ _ h)
    · simp
  · unfold Recv.decodeFragmentCont
    split
    · repeat' (split <;> try simp)
      all_goals (rename_i e h; intro hp; (try simp only [Except.error.injEq] at hp); subst hp; exact rdU_np _ _ h)
    · simp

theorem C02_total_with_cache (x : Ext) (hx : InflateSane x) (bs : Bytes) : decodeWithCache x bs ≠ .error .panic := by
  unfold decodeWithCache
  cases bs with
  | nil => simp
  | cons v r =>
    simp only
    split
    · simp
    · cases r with
      | nil => simp
      | cons tag r1 =>
        simp only
        by_cases ht : (tag == 68) = true
        · simp only [ht, ↓reduceIte]
          cases hp : DistHeader.parseHeader {} r1 with
          | mk c1 res =>
            cases res with
            | error e =>
              simp only
              have := DistHeader.parseHeader_np {} r1
              rw [hp] at this
              simpa using this
            | ok body =>
              simp only
              split
              · rename_i e h; intro hq; simp only [Except.error.injEq] at hq; subst hq
                exact C02_total x _ hx _ _ _ h
              · split
                · simp
                · split
                  · rename_i e h; intro hq; simp only [Except.error.injEq] at hq; subst hq
                    exact C02_total x _ hx _ _ _ h
                  · simp
        · simp only [ht, Bool.false_eq_true, ↓reduceIte]
          split
          · rename_i e h; intro hq; simp only [Except.error.injEq] at hq; subst hq
            exact C02_total x _ hx _ _ _ h
          · split
            · simp
            · split
              · rename_i e h; intro hq; simp only [Except.error.injEq] at hq; subst hq
                exact C02_total x _ hx _ _ _ h
              · simp

/-- **All eight public decoding functions, on every byte string, from every cache, on a 64-bit target: a term or an
error** — neither a panic site of the parsers nor of the resource model (capacity overflow, slice out of range) is
reachable -/
theorem C02_total_every_entry_point (x : Ext) (hx : InflateSane x) (c : DistHeader.Cache) (bs : Bytes) (ep : EntryPoint)
    (hl : bs.length ≤ 2 ^ 32) : ep.outcome Target.x64 x c bs ≠ .panic := by
  unfold EntryPoint.outcome
  rw [C02_no_panic_site_64 x hx c bs ep Target.x64 rfl (by decide) hl]
  simp only [Bool.false_eq_true, ↓reduceIte]
  cases ep with
  | decode => exact outcome_of_ne_panic (C02_total_decode x _ hx bs)
  | decodeBorrowed => exact outcome_of_ne_panic (C02_total_decode x _ hx bs)
  | withTrailing => exact outcome_of_ne_panic (C02_total_with_trailing x hx bs)
  | rawTerm => exact outcome_of_ne_panic (C02_total_raw_term x hx bs)
  | withCache => exact outcome_of_ne_panic (C02_total_with_cache x hx bs)
  | withAtomCache => exact outcome_of_ne_panic (C02_total_with_atom_cache x hx c bs)
  | fragHeader => exact outcome_of_ne_panic (C02_total_fragment_headers bs).1
  | fragCont => exact outcome_of_ne_panic (C02_total_fragment_headers bs).2

example : EntryPoint.rawTerm.outcome Target.x64 Ext.none {} [104, 1, 106] = .ok := by
  simp [EntryPoint.outcome, EntryPoint.meter, EntryPoint.calls, Meter.panics, Req.bytes, Elem.size, Target.x64, EntryPoint.run, decodeRaw, Ext.none, meter, meterN, dec, decN, rdU, rdN, boundedCapacity, Meter.add, Meter.enter, Meter.req, ownedOnlyTags, MAX_NESTING_DEPTH, Outcome.of]
example : EntryPoint.fragCont.outcome Target.x64 Ext.none {} [131, 70, 0, 0] = .err := by
  simp [EntryPoint.outcome, EntryPoint.meter, EntryPoint.calls, Meter.panics, EntryPoint.run, Recv.decodeFragmentCont, rdU, rdN, Outcome.of]

/-! ### The model's shape is the source's (regenerated on every run by tools/gen_misc.py `gen_c02`) -/

/-- every pre-allocation of decoder.rs goes through `bounded_capacity` (the atom table's is a constant), and
`bounded_capacity` is the minimum of the count and the bytes left -/
theorem C02_capacity_sites_are_sources :
    Gen.C02_CAPACITY_SITES =
      [("new", "ATOM_CACHE_SIZE"), ("parse_new_reference_ext", "bounded_capacity(lenasusize,input)"),
       ("parse_small_tuple", "bounded_capacity(arityasusize,input)"), ("parse_large_tuple", "bounded_capacity(arityasusize,input)"),
       ("parse_list", "bounded_capacity(lenasusize,input)"), ("parse_newer_reference", "bounded_capacity(lenasusize,input)"),
       ("parse_new_fun_ext", "bounded_capacity(num_freeasusize,input)"),
       ("parse_small_tuple_borrowed", "bounded_capacity(arityasusize,input)"),
       ("parse_large_tuple_borrowed", "bounded_capacity(arityasusize,input)"),
       ("parse_list_borrowed", "bounded_capacity(lenasusize,input)"),
       ("parse_newer_reference_borrowed", "bounded_capacity(lenasusize,input)"),
       ("parse_new_fun_ext_borrowed", "bounded_capacity(num_freeasusize,input)")] ∧
    Gen.C02_BOUNDED_CAPACITY = "count.min(remaining_input.len())" := by decide

/-- every recursive call of `parse_term` passes `depth + 1`, every top-level one `0`; the inflater is limited to the
declared size plus one; each count with a cap is compared with it before anything is read -/
theorem C02_recursion_shape_is_sources :
    (Gen.C02_PARSE_TERM_DEPTHS.all fun p =>
      if p.1 ∈ ["decode_raw_term", "decode_with_cache", "decode_with_atom_cache", "parse_versioned_term", "parse_dist_header_with_cache"]
      then p.2 == "0" else p.2 == "depth+1") = true ∧
    Gen.C02_PARSE_TERM_DEPTHS.length = 30 ∧
    Gen.C02_INFLATE_TAKE = "uncompressed_sizeasu64+1" ∧
    Gen.C02_SIZE_GUARDS.length = 20 := by decide

/-- the slice / index sites of decoder.rs are the modelled ones (`checks` here, `flags[..]` in the header model), every
`as usize` widens a value of at most 32 bits — lossless on 32- and 64-bit targets — except `total_in()`, whose result
is range-checked by the slice that follows; the public decoders are the eight entry points -/
theorem C02_sites_are_sources :
    Gen.C02_INDEX_SITES = [("parse_compressed", "rest[consumed..]"), ("parse_local_ext", "start[..local_ext_bytes_len]"),
      ("parse_dist_header_with_cache", "flags[flags_len-1]"), ("parse_dist_header_with_cache", "flags[flag_byte_index]"),
      ("parse_dist_header_with_cache", "flags[flag_byte_index]")] ∧
    (Gen.C02_USIZE_CASTS.all fun p => p.2 == "u8" || p.2 == "u16" || p.2 == "u32" || p == ("decoder.total_in()", "u64")) = true ∧
    Gen.C02_PUBLIC_DECODERS = ["decode", "decode_with_trailing", "decode_raw_term", "decode_with_cache",
      "decode_with_atom_cache", "decode_fragment_header", "decode_fragment_cont", "decode_borrowed"] ∧
    Gen.C02_PUBLIC_DECODERS.length = EntryPoint.all.length := by decide

/-- the frames a connection hands to the decoders are within the length the 64-bit theorem is stated for -/
theorem C02_frame_limit_within : Gen.C02_CONNECTION_FRAME_LIMIT ≤ 2 ^ 32 ∧ Gen.C02_FRAMING_FRAME_LIMIT ≤ 2 ^ 32 := by decide

/-! ### what recurses over a decoded term afterwards

`Drop`, `Clone`, `to_owned` / `From<&OwnedTerm>`, `Ord`, `Hash`, `Display` and serde's deserializer walk the decoded term
structurally: one frame per nesting level of the term (`Term.depth`: a container is one above its deepest child, a leaf 0).
The decoder's own depth limit bounds that nesting (Lemmas/DecDepth.lean: induction over the decoder model, every tag). -/

/-- a term the decoder returns when entered at depth `d` is nested at most `MAX_NESTING_DEPTH + 1 - d` levels deep — any
configuration, cache, fuel, input, behaviour of the external calls (the `+ 1`: an empty container at the last level) -/
theorem C02_decoded_nesting_bounded (x : Ext) (cfg : DecCfg) (fuel d : Nat) (bs : Bytes) (t : Term) (r : Bytes)
    (h : dec x cfg fuel d bs = .ok (t, r)) : t.depth + d ≤ MAX_NESTING_DEPTH + 1 := dec_depth x cfg fuel d bs t r h

/-- hence every structural recursion over what `decode` / `decode_borrowed` / `decode_with_atom_cache` return
(`Drop`, `to_owned`, serde) is at most `Gen.MAX_NESTING_DEPTH + 2` = 258 frames deep -/
theorem C02_recursion_over_decoded_bounded (x : Ext) (cfg : DecCfg) (bs : Bytes) (t : Term)
    (h : decodeWith x cfg bs = .ok t) : t.depth + 1 ≤ Gen.MAX_NESTING_DEPTH + 2 := by
  have := decodeWith_depth x cfg bs t h
  simp only [MAX_NESTING_DEPTH] at this
  simp only [Gen.MAX_NESTING_DEPTH]
  omega

/-- the same for the raw entry point (no version byte) -/
theorem C02_recursion_over_decoded_raw_bounded (x : Ext) (bs : Bytes) (t : Term) (h : decodeRaw x bs = .ok t) :
    t.depth + 1 ≤ Gen.MAX_NESTING_DEPTH + 2 := by
  unfold decodeRaw at h
  split at h
  · simp at h
  · rename_i heq
    simp only [Except.ok.injEq] at h
    subst h
    have := dec_depth _ _ _ _ _ _ _ heq
    simp only [MAX_NESTING_DEPTH] at this
    simp only [Gen.MAX_NESTING_DEPTH]
    omega
  · simp at h

/-- what `Term.depth` counts: a container is one above its deepest child (keys and values alike), a leaf 0 -/
example : (Term.tuple [.tuple []]).depth = 2 ∧ (Term.map [(.list [.int 1], .nil)]).depth = 2 ∧ (Term.int 1).depth = 0 := by
  simp [Term.depth, Term.depthL, Term.depthKV]

end Edp.Props.C02
