import EdpVerif.Lemmas.SerdeBasic
/-!
C15: `integer_term_as` reads exactly the numeric value of an integer term (either representation) when it is in the range of
the requested type, and is an error otherwise — never a truncated or wrapped value.
-/
namespace Edp.SerdeInt
open Edp Edp.Serde
open Edp.Spec.Serde (intVal)

theorem magVal_snoc_ge (h : UInt8) (hh : h ≠ 0) : ∀ t : Bytes, 256 ^ t.length ≤ magVal (t ++ [h])
  | [] => by
    have : h.toNat ≠ 0 := fun e => hh (UInt8.toNat_inj.mp (by simpa using e))
    simp [magVal]; omega
  | b :: r => by
    have ih := magVal_snoc_ge h hh r
    simp only [List.cons_append, magVal, List.length_cons, Nat.pow_succ]
    omega

theorem dropWhile_head {α} (p : α → Bool) : ∀ (l : List α) (x : α) (t : List α), l.dropWhile p = x :: t → p x = false
  | [], _, _, h => by simp at h
  | a :: r, x, t, h => by
    simp only [List.dropWhile_cons] at h
    split at h
    · exact dropWhile_head p r x t h
    · rename_i hp; simp only [List.cons.injEq] at h; rw [← h.1]; simpa using hp

/-- a magnitude with more than `n` significant digits is at least `256^n` -/
theorem magVal_ge_of_sigCount (d : Bytes) (n : Nat) (h : sigCount d > n) : 256 ^ n ≤ magVal d := by
  rw [← Edp.Serde.magVal_take_sigCount d]
  have hs : sigCount d = (d.reverse.dropWhile (· == 0)).length := rfl
  have hl : d = (d.reverse.dropWhile (· == 0)).reverse ++ (d.reverse.takeWhile (· == 0)).reverse := by
    have hsplit := List.takeWhile_append_dropWhile (p := (· == (0 : UInt8))) (l := d.reverse)
    have := congrArg List.reverse hsplit
    rw [List.reverse_append, List.reverse_reverse] at this
    exact this.symm
  have htake : d.take (sigCount d) = (d.reverse.dropWhile (· == 0)).reverse := by
    rw [hs]
    conv => lhs; arg 2; rw [hl]
    rw [← List.length_reverse, List.take_left]
  rw [htake]
  cases hdw : d.reverse.dropWhile (· == 0) with
  | nil => rw [hs, hdw] at h; simp at h
  | cons x t =>
    have hx : (x == 0) = false := dropWhile_head (· == (0 : UInt8)) d.reverse x t hdw
    have hx' : x ≠ 0 := by simpa using hx
    rw [hs, hdw] at h
    simp only [List.length_cons] at h
    simp only [List.reverse_cons]
    have := magVal_snoc_ge x hx' t.reverse
    simp only [List.length_reverse] at this
    calc 256 ^ n ≤ 256 ^ t.length := Nat.pow_le_pow_right (by decide) (by omega)
      _ ≤ _ := this

theorem inRange_abs (k : IntTy) (i : Int) (h : k.inRange i = true) : i.natAbs < 256 ^ 8 := by
  simp only [IntTy.inRange, Bool.and_eq_true] at h
  have h1 := of_decide_eq_true h.1
  have h2 := of_decide_eq_true h.2
  cases k <;> simp only [IntTy.lo, IntTy.hi] at h1 h2 <;> omega

theorem deInt_exact (k : IntTy) (t : Term) (v : Val) :
    deInt k t = .ok v ↔ ∃ i, intVal t = some i ∧ k.inRange i = true ∧ v = .int k i := by
  cases t with
  | int i =>
    simp only [deInt, intVal]
    by_cases h : k.inRange i = true
    · simp [h]; constructor <;> (intro e; exact e.symm)
    · simp [h]
  | big neg d =>
    simp only [deInt, intVal]
    by_cases h8 : sigCount d > maxBigDigits
    · simp only [h8, if_true]
      constructor
      · intro e; cases e
      · rintro ⟨i, hi, hr, _⟩
        have hge := magVal_ge_of_sigCount d 8 (by simpa [maxBigDigits] using h8)
        have hab := inRange_abs k i hr
        simp only [Option.some.injEq] at hi
        exfalso
        cases neg <;> simp at hi <;> omega
    · simp only [h8, if_false, Edp.Serde.magVal_take_sigCount]
      by_cases hr : k.inRange (if neg = true then -((magVal d : Nat) : Int) else ((magVal d : Nat) : Int)) = true
      · simp only [hr, if_true]
        constructor
        · intro e; exact ⟨_, rfl, hr, (Except.ok.inj e).symm⟩
        · rintro ⟨i, hi, _, hv⟩; simp only [Option.some.injEq] at hi; rw [hv, ← hi]
      · simp only [hr]
        constructor
        · intro e; simp at e
        · rintro ⟨i, hi, hr', _⟩; simp only [Option.some.injEq] at hi; rw [← hi] at hr'; exact absurd hr' hr
  | _ => simp [deInt, intVal]

end Edp.SerdeInt
