import EdpVerif.Impl.Epmd
import EdpVerif.Spec.Epmd
import EdpVerif.Lemmas.Codec
/-! Lemmas about the EPMD client model: the reply reader against the protocol's layout. -/
namespace Edp.Impl.Epmd
open Edp

/-- the protocol's record for a model record -/
def toSpec (i : NodeInfo) : Spec.Epmd.NodeInfo := ⟨i.port, i.type, i.proto, i.hi, i.lo, i.name, i.extra⟩

/-- what the client accepts beyond the layout: a node type and a protocol it knows, a name of at most `maxName` bytes
that is UTF-8, at most `maxExtra` bytes of extra -/
def accepted (i : NodeInfo) : Prop :=
  i.port < 65536 ∧ typeArms.contains i.type = true ∧ protoArms.contains i.proto = true ∧ i.hi < 65536 ∧ i.lo < 65536 ∧
    i.name.length ≤ maxName ∧ validUtf8 i.name = true ∧ i.extra.length ≤ maxExtra

theorem rdU_ok (k : Nat) (s : Stream) (v : Nat) (s' : Stream) (h : rdU k s = .ok (v, s')) :
    rdN k s.data = some (v, s'.data) ∧ s'.closed = s.closed := by
  unfold rdU at h
  cases hr : rdN k s.data with
  | none => simp [hr] at h
  | some p =>
    obtain ⟨v', r⟩ := p
    simp [hr] at h
    obtain ⟨h1, h2⟩ := h
    subst h1; subst h2
    simp

theorem rdB_ok (n : Nat) (s : Stream) (b : Bytes) (s' : Stream) (h : rdB n s = .ok (b, s')) :
    s.data = b ++ s'.data ∧ b.length = n ∧ s'.closed = s.closed := by
  unfold rdB takeN at h
  by_cases hn : n ≤ s.data.length
  · simp [hn] at h
    obtain ⟨h1, h2⟩ := h
    subst h1; subst h2
    simp [List.length_take, Nat.min_eq_left hn]
  · simp [hn] at h

theorem rdU_append (k n : Nat) (r : Bytes) (c : Bool) (h : n < 256 ^ k) :
    rdU k ⟨beN k n ++ r, c⟩ = .ok (n, ⟨r, c⟩) := by
  simp [rdU, rdN_beN k n r h]

theorem rdB_append (a r : Bytes) (c : Bool) : rdB a.length ⟨a ++ r, c⟩ = .ok (a, ⟨r, c⟩) := by
  simp [rdB, takeN_append]

/-- `rdN k` reads `beN k v` off the front -/
theorem rdN_eq_beN : ∀ (k : Nat) (bs : Bytes) (v : Nat) (r : Bytes), rdN k bs = some (v, r) → bs = beN k v ++ r := by
  intro k
  induction k with
  | zero => intro bs v r h; simp [rdN] at h; simp [beN, h.2]
  | succ k ih =>
    intro bs v r h
    cases bs with
    | nil => simp [rdN] at h
    | cons b bs =>
      simp only [rdN] at h
      cases hr : rdN k bs with
      | none => simp [hr] at h
      | some p =>
        obtain ⟨v', r'⟩ := p
        simp [hr] at h
        obtain ⟨h1, h2⟩ := h
        subst h1; subst h2
        have hlt := rdN_lt k bs v' r' hr
        have := ih bs v' r' hr
        simp only [beN, List.cons_append]
        have hb : b.toNat < 256 := b.toNat_lt
        have hd : (b.toNat * 256 ^ k + v') / 256 ^ k = b.toNat := by
          rw [Nat.mul_comm, Nat.mul_add_div (Nat.pow_pos (by decide))]
          simp [Nat.div_eq_of_lt hlt]
        rw [hd]
        have hm : beN k (b.toNat * 256 ^ k + v') = beN k v' := by
          rw [beN_mod k (b.toNat * 256 ^ k + v'), Nat.mul_comm, Nat.mul_add_mod, Nat.mod_eq_of_lt hlt]
        rw [hm, ← this]
        simp

theorem rdU_front (k : Nat) (s : Stream) (v : Nat) (s' : Stream) (h : rdU k s = .ok (v, s')) :
    s.data = beN k v ++ s'.data ∧ v < 256 ^ k ∧ s'.closed = s.closed := by
  obtain ⟨h1, h2⟩ := rdU_ok k s v s' h
  exact ⟨rdN_eq_beN k _ _ _ h1, rdN_lt k _ _ _ h1, h2⟩

theorem beN_one (v : Nat) : beN 1 v = [UInt8.ofNat v] := by simp [beN]

theorem lookupParse_sound (s : Stream) (i : NodeInfo) (h : (lookupParse s).2 = .ok i) :
    (∃ rest, s.data = Spec.Epmd.port2Resp (toSpec i) ++ rest) ∧ accepted i := by
  unfold lookupParse at h
  repeat' (split at h)
  all_goals (try (simp at h; done))
  rename_i _ t s1 e1 ht _ r s2 e2 hr _ port s3 e3 _ ty s4 e4 hty _ pr s5 e5 hpr _ hi s6 e6 _ lo s7 e7 _ nlen s8 e8 hnl _ name s9 e9 hutf _ elen s10 e10 hel _ extra s11 e11
  simp only [Except.ok.injEq] at h
  subst h
  obtain ⟨d1, _, _⟩ := rdU_front _ _ _ _ e1
  obtain ⟨d2, _, _⟩ := rdU_front _ _ _ _ e2
  obtain ⟨d3, b3, _⟩ := rdU_front _ _ _ _ e3
  obtain ⟨d4, _, _⟩ := rdU_front _ _ _ _ e4
  obtain ⟨d5, _, _⟩ := rdU_front _ _ _ _ e5
  obtain ⟨d6, b6, _⟩ := rdU_front _ _ _ _ e6
  obtain ⟨d7, b7, _⟩ := rdU_front _ _ _ _ e7
  obtain ⟨d8, _, _⟩ := rdU_front _ _ _ _ e8
  obtain ⟨d9, l9, _⟩ := rdB_ok _ _ _ _ e9
  obtain ⟨d10, _, _⟩ := rdU_front _ _ _ _ e10
  obtain ⟨d11, l11, _⟩ := rdB_ok _ _ _ _ e11
  have ht' : t = 119 := by
    have : t = tagPort2Resp := by simpa using ht
    simpa [tagPort2Resp, Gen.EPMD_PORT2_RESP] using this
  have hr' : r = 0 := by simpa using hr
  subst ht'; subst hr'
  refine ⟨⟨s11.data, ?_⟩, ?_⟩
  · rw [d1, d2, d3, d4, d5, d6, d7, d8, d9, d10, d11]
    simp [Spec.Epmd.port2Resp, toSpec, beN_one, be16, l9, l11]
  · refine ⟨by simpa using b3, by simpa using hty, by simpa using hpr, by simpa using b6, by simpa using b7, ?_, by simpa using hutf, ?_⟩
    · simp only [l9]; omega
    · simp only [l11]; omega

theorem lookupParse_complete (i : NodeInfo) (rest : Bytes) (c : Bool) (h : accepted i) :
    lookupParse ⟨Spec.Epmd.port2Resp (toSpec i) ++ rest, c⟩ = ([i.name.length, i.extra.length], .ok i) := by
  obtain ⟨hp, hty, hpr, hhi, hlo, hn, hu, he⟩ := h
  have hty' : i.type < 256 := by
    have : ∀ x ∈ typeArms, x < 256 := by decide
    exact this _ (by simpa using hty)
  have hpr' : i.proto < 256 := by
    have : ∀ x ∈ protoArms, x < 256 := by decide
    exact this _ (by simpa using hpr)
  have hn' : i.name.length < 65536 := by simp [maxName, Gen.EPMD_MAX_NAME] at hn; omega
  have he' : i.extra.length < 65536 := by simp [maxExtra, Gen.EPMD_MAX_EXTRA] at he; omega
  have e1 : ∀ r, rdU 1 ⟨(119 : UInt8) :: r, c⟩ = .ok (119, ⟨r, c⟩) := by intro r; simp [rdU, rdN]
  have e0 : ∀ r, rdU 1 ⟨(0 : UInt8) :: r, c⟩ = .ok (0, ⟨r, c⟩) := by intro r; simp [rdU, rdN]
  have eb : ∀ (v : Nat) r, v < 256 → rdU 1 ⟨UInt8.ofNat v :: r, c⟩ = .ok (v, ⟨r, c⟩) := by
    intro v r hv
    have := rdU_append 1 v r c (by simpa using hv)
    simpa [beN_one] using this
  have e2 : ∀ (v : Nat) r, v < 65536 → rdU 2 ⟨be16 v ++ r, c⟩ = .ok (v, ⟨r, c⟩) := by
    intro v r hv
    exact rdU_append 2 v r c (by simpa using hv)
  unfold lookupParse
  simp only [Spec.Epmd.port2Resp, toSpec, List.cons_append, List.nil_append, List.append_assoc]
  rw [e1]; simp only [tagPort2Resp, Gen.EPMD_PORT2_RESP, ne_eq, not_true_eq_false, ↓reduceIte]
  rw [e0]; simp only [not_true_eq_false, ↓reduceIte]
  rw [e2 _ _ hp]; simp only
  rw [eb _ _ hty']; simp only [hty, not_true_eq_false, ↓reduceIte]
  rw [eb _ _ hpr']; simp only [hpr, not_true_eq_false, ↓reduceIte]
  rw [e2 _ _ hhi]; simp only
  rw [e2 _ _ hlo]; simp only
  rw [e2 _ _ hn']; simp only [gt_iff_lt, Nat.not_lt.mpr hn, ↓reduceIte]
  rw [rdB_append]; simp only [hu, not_true_eq_false, ↓reduceIte]
  rw [e2 _ _ he']; simp only [Nat.not_lt.mpr he, ↓reduceIte]
  rw [rdB_append]

/-- a reply cut short anywhere is never accepted (whatever follows the cut: a close or silence) -/
theorem lookupParse_truncated (i : NodeInfo) (n : Nat) (c : Bool) (h : accepted i)
    (hn : n < (Spec.Epmd.port2Resp (toSpec i)).length) (j : NodeInfo) :
    (lookupParse ⟨(Spec.Epmd.port2Resp (toSpec i)).take n, c⟩).2 ≠ .ok j := by
  intro hj
  obtain ⟨⟨rest, hd⟩, hacc⟩ := lookupParse_sound _ _ hj
  simp only at hd
  -- the full reply starts with the same well-formed reply for `j`, so it parses to `j` — but it parses to `i`
  have hfull : Spec.Epmd.port2Resp (toSpec i) = Spec.Epmd.port2Resp (toSpec j) ++ (rest ++ (Spec.Epmd.port2Resp (toSpec i)).drop n) := by
    rw [← List.append_assoc, ← hd, List.take_append_drop]
  have h1 := lookupParse_complete i [] c h
  have h2 := lookupParse_complete j (rest ++ (Spec.Epmd.port2Resp (toSpec i)).drop n) c hacc
  rw [← hfull] at h2
  simp only [List.append_nil] at h1
  rw [h1] at h2
  have hij : i = j := by simpa using congrArg (·.2) h2
  subst hij
  have hl := congrArg List.length hd
  simp only [List.length_take, List.length_append] at hl
  omega

/-- every buffer `lookup_node` allocates from a length field is within the two limits, whatever EPMD sends -/
theorem lookupParse_allocs (s : Stream) :
    (lookupParse s).1 = [] ∨ (∃ n, (lookupParse s).1 = [n] ∧ n ≤ maxName) ∨
      (∃ n e, (lookupParse s).1 = [n, e] ∧ n ≤ maxName ∧ e ≤ maxExtra) := by
  unfold lookupParse
  repeat' split
  all_goals first
    | (left; rfl)
    | (right; left; exact ⟨_, rfl, by omega⟩)
    | (right; right; exact ⟨_, _, rfl, by omega, by omega⟩)

/-- and a buffer is only allocated for bytes EPMD declared: never more than the reply's own length field says -/
theorem lookupParse_no_ok_when_short (s : Stream) (i : NodeInfo) (h : (lookupParse s).2 = .ok i) :
    Spec.Epmd.port2RespMin + i.name.length + i.extra.length ≤ s.data.length := by
  obtain ⟨⟨rest, hd⟩, _⟩ := lookupParse_sound s i h
  rw [hd]
  simp [Spec.Epmd.port2Resp, toSpec, Spec.Epmd.port2RespMin, be16, beN_length]
  omega

/-- the registration replies of the protocol are read back -/
theorem registerParse_resp (cr : Nat) (rest : Bytes) (c : Bool) (h : cr < 65536) :
    registerParse ⟨Spec.Epmd.alive2Resp cr ++ rest, c⟩ = .ok cr := by
  have e2 := rdU_append 2 cr rest c (by simpa using h)
  simp only [registerParse, Spec.Epmd.alive2Resp, List.cons_append, List.nil_append]
  have e1 : ∀ r, rdU 1 ⟨(121 : UInt8) :: r, c⟩ = .ok (121, ⟨r, c⟩) := by intro r; simp [rdU, rdN]
  have e0 : ∀ r, rdU 1 ⟨(0 : UInt8) :: r, c⟩ = .ok (0, ⟨r, c⟩) := by intro r; simp [rdU, rdN]
  rw [e1]; simp only [tagAlive2Resp, Gen.EPMD_ALIVE2_RESP, ↓reduceIte]
  rw [e0]; simp only [ne_eq, not_true_eq_false, ↓reduceIte]
  rw [be16, e2]

theorem registerParse_xresp (cr : Nat) (rest : Bytes) (c : Bool) (h : cr < 4294967296) :
    registerParse ⟨Spec.Epmd.alive2XResp cr ++ rest, c⟩ = .ok cr := by
  have e4 := rdU_append 4 cr rest c (by simpa using h)
  simp only [registerParse, Spec.Epmd.alive2XResp, List.cons_append, List.nil_append]
  have e1 : ∀ r, rdU 1 ⟨(118 : UInt8) :: r, c⟩ = .ok (118, ⟨r, c⟩) := by intro r; simp [rdU, rdN]
  have e0 : ∀ r, rdU 1 ⟨(0 : UInt8) :: r, c⟩ = .ok (0, ⟨r, c⟩) := by intro r; simp [rdU, rdN]
  rw [e1]; simp only [tagAlive2Resp, tagAlive2XResp, Gen.EPMD_ALIVE2_RESP, Gen.EPMD_ALIVE2_X_RESP]
  simp only [show (118 : Nat) ≠ 121 by decide, ↓reduceIte]
  rw [e0]; simp only [ne_eq, not_true_eq_false, ↓reduceIte]
  rw [be32, e4]


end Edp.Impl.Epmd
