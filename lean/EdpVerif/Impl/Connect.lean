import EdpVerif.Impl.Handshake
import EdpVerif.Impl.Epmd
import EdpVerif.Generated.MiscC04conn
/-
Model of `Connection::connect` (crates/edp_client/src/connection.rs) as the sequence of awaited steps it is:
begin_connect, the split of the remote name, `lookup_remote_node` (validate_node_name + the EPMD exchange),
the TCP connect, and then the six handshake helpers IN THE ORDER THE SOURCE LISTS THEM — the step list is
`Gen.CONNECT_STEPS`, regenerated from connection.rs by `tools/gen_misc.py gen_c04conn`, and interpreted here:
a `write_raw` helper calls its `prepare_*` method and writes the bytes, a `read` helper awaits one frame and hands it
to its `handle_*` method. Every `?` is a stop at the first error; nothing is closed or reset on the way out.

What the environment does is a parameter: what EPMD sends, whether the TCP connect succeeds, and for each awaited read
one event — a frame (2-byte length + body, complete), the end of the stream, or silence (the transport's timeout fires).
-/
namespace Edp.Impl.Connect
open Edp Edp.Impl.Handshake
open Edp.Spec.Handshake (Op)

/-- what the peer does while this side awaits a handshake message -/
inductive PeerEv
  | frame (b : Bytes)    -- a complete frame with this body
  | close                -- end of stream (also in the middle of a frame): `Error::Io`
  | silent               -- nothing, or a part of a frame and then nothing: `Error::Timeout`
deriving DecidableEq, Repr

/-- the outcome of a `write_raw` -/
inductive WrEv | ok | io | timeout
deriving DecidableEq, Repr

/-- the outcome of `TcpStream::connect` under the timeout -/
inductive TcpEv | ok | refused | silent
deriving DecidableEq, Repr

inductive CErr
  | hs (e : Handshake.Err)     -- an error of the handshake state machine / of validate_node_name (`NodeNameTooLong`)
  | nodeName                   -- Error::InvalidNodeName
  | epmd (e : Epmd.Err)
  | io
  | timeout
  | panic
  | unmodelled                 -- a step of `Gen.CONNECT_STEPS` this model has no reading for
deriving DecidableEq, Repr

structure Env where
  remote : Bytes
  epmdUp : Bool
  epmd : Epmd.Stream
  tcp : TcpEv
  status : PeerEv
  chal : PeerEv
  ack : PeerEv
  c : Nat            -- what `generate_challenge()` returns in `handle_challenge`
  w1 : WrEv
  w2 : WrEv
  w3 : WrEv

/-- the handshake machine and the messages written so far -/
structure Acc where
  st : State
  w : List Bytes
deriving DecidableEq, Repr

def maxRemoteName : Nat := Gen.CONNECT_MAX_REMOTE_NAME

/-- `str::split_once('@')` -/
def splitOnce : Bytes → Option (Bytes × Bytes)
  | [] => none
  | b :: r => if b = 64 then some ([], r) else
    match splitOnce r with
    | some (a, h) => some (b :: a, h)
    | none => none

/-- `Connection::validate_node_name` -/
def validateNodeName (name : Bytes) : Except CErr (Bytes × Bytes) :=
  match splitOnce name with
  | none => .error .nodeName
  | some (n, h) =>
    if n.isEmpty || h.isEmpty then .error .nodeName
    else if n.length > maxRemoteName then .error (.hs .nameTooLong)
    else .ok (n, h)

/-- `Connection::lookup_remote_node`: the port EPMD names -/
def lookupRemote (env : Env) : Except CErr Nat :=
  match validateNodeName env.remote with
  | .error e => .error e
  | .ok (n, _) =>
    if ¬ env.epmdUp then .error (.epmd .noEpmd) else
    match Epmd.lookupReq n with
    | .panic => .error .panic
    | .ok _ =>
      match (Epmd.lookupParse env.epmd).2 with
      | .error e => .error (.epmd e)
      | .ok i => .ok i.port

/-- the state-machine call a helper of connection.rs makes -/
def opOf (method : String) (data : Bytes) (c : Nat) : Option Op :=
  if method = "prepare_send_name" then some .prepareSendName
  else if method = "handle_status" then some (.handleStatus data)
  else if method = "prepare_complement" then some .prepareComplement
  else if method = "handle_challenge" then some (.handleChallenge data c)
  else if method = "prepare_challenge_reply" then some .prepareChallengeReply
  else if method = "handle_challenge_ack" then some (.handleChallengeAck data)
  else none

/-- a sending helper (`send_name`, `send_complement`, `send_challenge_reply`): `let data = self.handshake.<m>()?;
self.transport.write_raw(&data).await?` -/
def sendStep (cfg : Cfg) (dg : Bytes → Nat → Bytes) (c : Nat) (m : String) (wr : WrEv) (a : Acc) : Acc × Except CErr Unit :=
  match opOf m [] c with
  | none => (a, .error .unmodelled)
  | some op =>
    match step cfg dg a.st op with
    | (s', .bytes b) =>
      match wr with
      | .ok => (⟨s', a.w ++ [b]⟩, .ok ())
      | .io => (⟨s', a.w⟩, .error .io)
      | .timeout => (⟨s', a.w⟩, .error .timeout)
    | (s', .err e) => (⟨s', a.w⟩, .error (.hs e))
    | (s', .panic) => (⟨s', a.w⟩, .error .panic)
    | (_, .unit) => (a, .error .unmodelled)

/-- a receiving helper (`receive_status`, `receive_challenge`, `receive_challenge_ack`): `let data =
self.read_message().await?; self.handshake.<m>(&data)?` -/
def recvStep (cfg : Cfg) (dg : Bytes → Nat → Bytes) (c : Nat) (m : String) (ev : PeerEv) (a : Acc) : Acc × Except CErr Unit :=
  match ev with
  | .close => (a, .error .io)
  | .silent => (a, .error .timeout)
  | .frame b =>
    match opOf m b c with
    | none => (a, .error .unmodelled)
    | some op =>
      match step cfg dg a.st op with
      | (s', .unit) => (⟨s', a.w⟩, .ok ())
      | (s', .err e) => (⟨s', a.w⟩, .error (.hs e))
      | (s', .panic) => (⟨s', a.w⟩, .error .panic)
      | (_, .bytes _) => (a, .error .unmodelled)

/-- the handshake helpers in the listed order; reads take the next peer event, writes the next write outcome; the first
error ends the sequence (`?`) -/
def runSteps (cfg : Cfg) (dg : Bytes → Nat → Bytes) (c : Nat) :
    List (String × String × String) → List PeerEv → List WrEv → Acc → Acc × Except CErr Unit
  | [], _, _, a => (a, .ok ())
  | (_, m, io) :: rest, evs, ws, a =>
    if io = "write_raw" then
      match sendStep cfg dg c m (ws.headD .ok) a with
      | (a', .ok ()) => runSteps cfg dg c rest evs ws.tail a'
      | r => r
    else if io = "read" then
      match recvStep cfg dg c m (evs.headD .silent) a with
      | (a', .ok ()) => runSteps cfg dg c rest evs.tail ws a'
      | r => r
    else (a, .error .unmodelled)

/-- what `connect` does before the first handshake helper, as the names the translator gives the steps -/
def prelude : List String := ["begin_connect", "split_remote_name", "lookup_remote_node", "tcp_connect", "transport_connect"]

/-- `Connection::connect` on a connection whose handshake machine is in state `s0` -/
def connect (cfg : Cfg) (dg : Bytes → Nat → Bytes) (s0 : State) (env : Env) : Acc × Except CErr Unit :=
  match step cfg dg s0 .beginConnect with
  | (s1, .unit) =>
    match splitOnce env.remote with
    | none => (⟨s1, []⟩, .error .nodeName)
    | some _ =>
      match lookupRemote env with
      | .error e => (⟨s1, []⟩, .error e)
      | .ok _ =>
        match env.tcp with
        | .refused => (⟨s1, []⟩, .error .io)
        | .silent => (⟨s1, []⟩, .error .timeout)
        | .ok => runSteps cfg dg env.c Gen.CONNECT_STEPS [env.status, env.chal, env.ack] [env.w1, env.w2, env.w3] ⟨s1, []⟩
  | (s1, .err e) => (⟨s1, []⟩, .error (.hs e))
  | (s1, _) => (⟨s1, []⟩, .error .unmodelled)

end Edp.Impl.Connect
