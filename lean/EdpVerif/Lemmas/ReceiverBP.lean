import EdpVerif.Lemmas.ReceiverAct
/-! Lemmas about inbound routing with bounded mailboxes (`Impl/ReceiverBP.lean`): the bounded system with waiting sends
refines the unbounded `routeAll` on the frames consumed so far; what blocks the receiver and what releases it. Core Lean only. -/
namespace Edp.ReceiverBP
open Edp Edp.Receiver Edp.Chan

/-! ### `view` and `total` look the same to `route_message` -/

theorem find_map_key {α β : Type} (l : List α) (f : α → PidKey × β) (k : PidKey) :
    ((l.map f).find? (fun p => p.1 = k)).isSome = (l.find? (fun x => (f x).1 = k)).isSome := by
  induction l with
  | nil => rfl
  | cons x r ih =>
    simp only [List.map_cons, List.find?_cons]
    by_cases h : (f x).1 = k
    · simp [h]
    · simp only [h, decide_false]
      exact ih

theorem isLive_eq (st : NodeSt) (k : PidKey) : isLive st k = (st.procs.find? (fun p => p.1 = k)).isSome := by
  unfold isLive mailbox
  cases st.procs.find? (fun p => p.1 = k) <;> rfl

theorem isLive_view_total (b : BSt) (k : PidKey) : isLive b.view k = isLive b.total k := by
  rw [isLive_eq, isLive_eq]
  unfold BSt.view BSt.total
  simp only
  rw [find_map_key b.boxes (fun x => (x.key, x.queue)) k, find_map_key b.boxes (fun x => (x.key, x.taken ++ x.queue)) k]

theorem routeAct_view_total (b : BSt) (m : Control.Msg) (p : Option Term) :
    routeAct b.view m p = routeAct b.total m p := by
  unfold routeAct
  have h : isLive b.view = isLive b.total := funext (isLive_view_total b)
  rw [h]
  rfl

/-! ### the effects commute with `total` -/

theorem total_push (b : BSt) (k : PidKey) (m : LMsg) : (b.push k m).total = sendTo b.total k m := by
  unfold BSt.push BSt.total sendTo
  simp only [List.map_map, NodeSt.mk.injEq, and_true]
  apply List.map_congr_left
  intro x _
  simp only [Function.comp]
  by_cases h : x.key = k <;> simp [h, List.append_assoc]

theorem total_answerB (b : BSt) (key : RpcKey) (body : Term) : (b.answerB key body).total = answer b.total key body := rfl

theorem total_dropped (b : BSt) (d : List (PidKey × LMsg)) : ({ b with dropped := d } : BSt).total = b.total := rfl

theorem takeFirst_total (k : PidKey) : ∀ (bs bs' : List Box), takeFirst k bs = some bs' →
    bs'.map (fun x => (x.key, x.taken ++ x.queue)) = bs.map (fun x => (x.key, x.taken ++ x.queue)) := by
  intro bs
  induction bs with
  | nil => intro bs' h; simp [takeFirst] at h
  | cons x r ih =>
    intro bs' h
    unfold takeFirst at h
    by_cases hk : x.key = k
    · rw [if_pos hk] at h
      cases hq : x.queue with
      | nil =>
        rw [hq] at h
        simp only [Option.map_eq_some_iff] at h
        obtain ⟨r', hr', rfl⟩ := h
        simp [ih r' hr']
      | cons m q =>
        rw [hq] at h
        simp only [Option.some.injEq] at h
        subst h
        simp [hq]
    · rw [if_neg hk] at h
      simp only [Option.map_eq_some_iff] at h
      obtain ⟨r', hr', rfl⟩ := h
      simp [ih r' hr']

/-! ### one step, and whole schedules, under waiting sends -/

/-- the unbounded model on one result -/
def stepRes (st : NodeSt) : Except RxErr Received → NodeSt
  | .ok (m, p) => route st m p
  | .error _ => st

theorem routeRes_append (a b : List (Except RxErr Received)) (st : NodeSt) :
    routeRes st (a ++ b) = routeRes (routeRes st a) b := by
  induction a generalizing st with
  | nil => rfl
  | cons r t ih =>
    cases r with
    | error e => exact ih st
    | ok v => obtain ⟨m, p⟩ := v; exact ih (route st m p)

theorem routeRes_snoc (a : List (Except RxErr Received)) (r : Except RxErr Received) (st : NodeSt) :
    routeRes st (a ++ [r]) = stepRes (routeRes st a) r := by
  rw [routeRes_append]
  cases r with
  | error e => rfl
  | ok v => obtain ⟨m, p⟩ := v; rfl

/-- an enabled receiver step under waiting sends does to `total` exactly what the unbounded model does with that result;
nothing is dropped -/
theorem advance_cons (s : Sys) (b' : BSt) (r : Except RxErr Received) (rest : List (Except RxErr Received))
    (ht : s.todo = r :: rest) : s.advance b' = { b := b', todo := rest, done := s.done ++ [r] } := by
  unfold Sys.advance
  rw [ht]

theorem rxStep_await (F : Arm → Form) (hF : ∀ a, F a = .await) (cap : Nat) (s s' : Sys) (h : rxStep F cap s = some s') :
    ∃ r rest, s.todo = r :: rest ∧ s'.todo = rest ∧ s'.done = s.done ++ [r] ∧
      s'.b.total = stepRes s.b.total r ∧ s'.b.dropped = s.b.dropped := by
  unfold rxStep at h
  cases ht : s.todo with
  | nil => rw [ht] at h; simp at h
  | cons r rest =>
    rw [ht] at h
    refine ⟨r, rest, rfl, ?_⟩
    cases r with
    | error e =>
      simp only [Option.some.injEq] at h
      subst h
      rw [advance_cons s _ _ _ ht]
      exact ⟨rfl, rfl, rfl, rfl⟩
    | ok v =>
      obtain ⟨m, p⟩ := v
      simp only at h
      have hr : stepRes s.b.total (.ok (m, p)) = applyAct s.b.total (routeAct s.b.view m p) := by
        rw [routeAct_view_total]; exact route_eq_applyAct _ _ _
      rw [hr]
      cases ha : routeAct s.b.view m p with
      | nothing =>
        rw [ha] at h
        simp only [Option.some.injEq] at h
        subst h
        rw [advance_cons s _ _ _ ht]
        exact ⟨rfl, rfl, rfl, rfl⟩
      | answer key body =>
        rw [ha] at h
        simp only [Option.some.injEq] at h
        subst h
        rw [advance_cons s _ _ _ ht]
        exact ⟨rfl, rfl, total_answerB s.b key body, rfl⟩
      | deliver k msg arm =>
        rw [ha] at h
        simp only [hF, Form.givesUp] at h
        by_cases hq : s.b.queued k < cap
        · rw [if_pos hq] at h
          simp only [Option.some.injEq] at h
          subst h
          rw [advance_cons s _ _ _ ht]
          exact ⟨rfl, rfl, total_push s.b k msg, rfl⟩
        · rw [if_neg hq] at h
          simp at h

theorem takeStep_total (s s' : Sys) (k : PidKey) (h : takeStep s k = some s') :
    s'.b.total = s.b.total ∧ s'.todo = s.todo ∧ s'.done = s.done ∧ s'.b.dropped = s.b.dropped := by
  unfold takeStep at h
  simp only [Option.map_eq_some_iff] at h
  obtain ⟨bs, hb, rfl⟩ := h
  refine ⟨?_, rfl, rfl, rfl⟩
  unfold BSt.total
  simp only [takeFirst_total k _ bs hb]

/-- **refinement**: along every schedule of the bounded system whose sends all wait, the history of every mailbox (taken by
its process ++ still queued), the names, the outstanding calls and their answers are what the unbounded model makes of the
results consumed so far; consumed ++ not yet consumed is the input; nothing is dropped -/
theorem runB_await (F : Arm → Form) (hF : ∀ a, F a = .await) (cap : Nat) (evs : List Ev) (s : Sys) :
    (runB F cap s evs).b.total = routeRes s.b.total ((runB F cap s evs).done.drop s.done.length) ∧
    (runB F cap s evs).done ++ (runB F cap s evs).todo = s.done ++ s.todo ∧
    s.done.length ≤ (runB F cap s evs).done.length ∧ (runB F cap s evs).done.take s.done.length = s.done ∧
    (runB F cap s evs).b.dropped = s.b.dropped := by
  induction evs generalizing s with
  | nil => simp [runB, routeRes]
  | cons e es ih =>
    have hrun : runB F cap s (e :: es) = runB F cap ((stepB F cap s e).getD s) es := rfl
    rw [hrun]
    cases hs : stepB F cap s e with
    | none => simpa using ih s
    | some s1 =>
      simp only [Option.getD_some]
      obtain ⟨i1, i2, i3, i4, i5⟩ := ih s1
      cases e with
      | take k =>
        obtain ⟨t1, t2, t3, t4⟩ := takeStep_total s s1 k hs
        rw [t1, t3] at i1
        rw [t3, t2] at i2
        rw [t3] at i3 i4
        rw [t4] at i5
        exact ⟨i1, i2, i3, i4, i5⟩
      | rx =>
        obtain ⟨r, rest, r1, r2, r3, r4, r5⟩ := rxStep_await F hF cap s s1 hs
        rw [r3] at i3 i4
        rw [r3, r2] at i2
        rw [r5] at i5
        have hl : s.done.length ≤ (runB F cap s1 es).done.length := by simp at i3; omega
        have htake : (runB F cap s1 es).done.take s.done.length = s.done := by
          have := congrArg (List.take s.done.length) i4
          simpa [List.take_take, Nat.min_eq_left (Nat.le_succ _)] using this
        refine ⟨?_, by rw [i2, r1]; simp, hl, htake, i5⟩
        -- done' = s.done ++ r :: tail
        have hsplit : (runB F cap s1 es).done.drop s.done.length =
            r :: (runB F cap s1 es).done.drop (s.done.length + 1) := by
          have h4 := i4
          have hlen : s.done.length < (runB F cap s1 es).done.length := by simp at i3; omega
          rw [List.drop_eq_getElem_cons hlen]
          congr 1
          have := congrArg (fun l => l[s.done.length]?) h4
          simp at this
          rw [List.getElem?_eq_getElem hlen] at this
          exact Option.some.inj this
        rw [hsplit, i1, r4, r3]
        simp only [List.length_append, List.length_cons, List.length_nil]
        cases r with
        | error e => rfl
        | ok v => obtain ⟨m, p⟩ := v; rfl

theorem routeAll_eq_routeRes (x : Ext) (tbl : Control.Table) (bodies : List Bytes) (st : NodeSt) :
    routeAll x tbl st bodies = routeRes st (bodies.map (classify x tbl)) := by
  induction bodies generalizing st with
  | nil => rfl
  | cons b bs ih =>
    simp only [routeAll, List.map_cons]
    cases hc : classify x tbl b with
    | error e =>
      simp only [routeRes, step]
      by_cases hk : keepGoing e = true
      · simp only [hk, if_true]; exact ih st
      · simp only [hk]; exact ih st
    | ok v =>
      obtain ⟨m, p⟩ := v
      simp only [routeRes, step]
      exact ih (route st m p)

/-- the receiver cannot step although it has something to route: it is suspended on a full mailbox of a live process -/
theorem rxStep_none (F : Arm → Form) (cap : Nat) (s : Sys) (h : rxStep F cap s = none) (ht : s.todo ≠ []) :
    ∃ k msg, s.blockedOn cap = some (k, msg) ∧ cap ≤ s.b.queued k := by
  unfold rxStep at h
  unfold Sys.blockedOn
  cases hd : s.todo with
  | nil => exact absurd hd ht
  | cons r rest =>
    rw [hd] at h
    cases r with
    | error e => simp at h
    | ok v =>
      obtain ⟨m, p⟩ := v
      simp only at h ⊢
      cases ha : routeAct s.b.view m p with
      | nothing => rw [ha] at h; simp at h
      | answer key body => rw [ha] at h; simp at h
      | deliver k msg arm =>
        rw [ha] at h
        simp only at h ⊢
        by_cases hq : s.b.queued k < cap
        · rw [if_pos hq] at h; simp at h
        · rw [if_neg hq]; exact ⟨k, msg, rfl, by omega⟩

end Edp.ReceiverBP
