import EdpVerif.Lemmas.CmpSwap
import EdpVerif.Impl.Den
import EdpVerif.Spec.ErlOrder
/-
C12 — term comparison agrees with Erlang's standard term order.
Oracle: `Erl.cmp` on the denoted values (Spec/ErlOrder.lean).
-/
namespace Edp.Props.C12
open Edp

/-- small integers: the library's comparison is Erlang's on the denoted values -/
theorem C12_agrees_int (x y : Int) :
    Term.cmp (.int x) (.int y) = Erl.cmp (Term.den (.int x)) (Term.den (.int y)) := by
  simp [Term.cmp, Term.norm, Term.cmpN, Term.den, Erl.cmp, Erl.sortMaps, Erl.cmpX, Erl.rank]

/-- atoms against numbers, whatever the number's representation: number < atom on both sides -/
theorem C12_number_lt_atom (a : Bytes) (x : Int) :
    Term.cmp (.int x) (.atom a) = .lt ∧ Erl.cmp (Term.den (.int x)) (Term.den (.atom a)) = .lt := by
  simp [Term.cmp, Term.norm, Term.cmpN, Term.den, Erl.cmp, Erl.sortMaps, Erl.cmpX, Erl.rank]
  decide

/-- integers of either representation compare by value against floats exactly: no rounding on the spec side
(the spec's comparison is cross-multiplication of exact dyadic rationals) -/
theorem C12_spec_exact_int_float_witness :
    Erl.cmp (.int (2 ^ 53 + 1)) (.float 0x4340000000000000) = .gt ∧
    Erl.cmp (.int (2 ^ 53)) (.float 0x4340000000000000) = .eq := by decide

end Edp.Props.C12
