import EdpVerif.Lemmas.ElixirWire
import EdpVerif.Lemmas.DecSorted
/-!
C20: the wire image of a term whose big integers have minimal digits has minimal digits again (`WFo (wireNorm t)` follows
from `WFo t`): an integer that comes back as a big integer carries the minimal digits of its magnitude, and re-inserting
map entries neither creates keys nor values.  Discharges the extra hypothesis of `C20_mapset_wire`.
-/
namespace Edp.Ex
open Edp Edp.Term

theorem WFoKV_iff' : ∀ (m : List (Term × Term)), WFoKV m = true ↔ ∀ p ∈ m, WFo p.1 = true ∧ WFo p.2 = true
  | [] => by simp [WFoKV]
  | (k, v) :: r => by
    simp only [WFoKV, Bool.and_eq_true, List.mem_cons, forall_eq_or_imp, WFoKV_iff' r, and_assoc]

theorem WFoKV_mapInsert (m : List (Term × Term)) (k v : Term) (hm : WFoKV m = true) (hk : WFo k = true)
    (hv : WFo v = true) : WFoKV (mapInsert m k v) = true := by
  rw [WFoKV_iff'] at hm ⊢
  intro q hq
  obtain ⟨h1, h2⟩ := mapInsert_parts_ks m k v q hq
  constructor
  · rcases h1 with e | ⟨p, hp, e⟩
    · rw [e]; exact hk
    · rw [e]; exact (hm p hp).1
  · rcases h2 with e | ⟨p, hp, e⟩
    · rw [e]; exact hv
    · rw [e]; exact (hm p hp).2

theorem WFo_wireInt (i : Int) : WFo (wireInt i) = true := by
  unfold wireInt; split
  · rfl
  · simp only [WFo]; exact minDigits_natDigits _

mutual
theorem WFo_wireNorm : ∀ (t : Term), WFo t = true → WFo (wireNorm t) = true
  | .atom _, _ | .float _, _ | .pid _, _ | .port _ _ _ _, _ | .ref _ _ _ _, _ | .bin _, _ | .bits _ _, _ | .xfun _ _ _, _
  | .nil, _ | .str _, _ => by simp [wireNorm, WFo]
  | .big _ _, h => by simpa [wireNorm] using h
  | .int i, _ => by simp only [wireNorm]; exact WFo_wireInt i
  | .tuple l, h => by simp only [WFo] at h; simp only [wireNorm, WFo]; exact WFoL_wireNormL l h
  | .ifun _ _ _ _ _ _ _ _ fr, h => by simp only [WFo] at h; simp only [wireNorm, WFo]; exact WFoL_wireNormL fr h
  | .list l, h => by
    simp only [WFo] at h
    cases l with
    | nil => simp [wireNorm, WFo]
    | cons a l' => simp only [wireNorm, WFo]; exact WFoL_wireNormL _ h
  | .ilist l t, h => by
    simp only [WFo, Bool.and_eq_true] at h
    have h1 := WFoL_wireNormL l h.1
    have h2 := WFo_wireNorm t h.2
    simp only [wireNorm]
    split
    · simp only [WFo]; exact h1
    · simp only [WFo, Bool.and_eq_true]; exact ⟨h1, h2⟩
  | .map m, h => by
    simp only [WFo] at h
    simp only [wireNorm, WFo]
    exact WFoKV_wireNormKV m [] h rfl
theorem WFoL_wireNormL : ∀ (l : List Term), WFoL l = true → WFoL (wireNormL l) = true
  | [], _ => rfl
  | t :: ts, h => by
    simp only [WFoL, Bool.and_eq_true] at h
    simp only [wireNormL, WFoL, Bool.and_eq_true]
    exact ⟨WFo_wireNorm t h.1, WFoL_wireNormL ts h.2⟩
theorem WFoKV_wireNormKV : ∀ (m acc : List (Term × Term)), WFoKV m = true → WFoKV acc = true →
    WFoKV (wireNormKV m acc) = true
  | [], acc, _, ha => by simpa [wireNormKV] using ha
  | (k, v) :: r, acc, h, ha => by
    simp only [WFoKV, Bool.and_eq_true] at h
    simp only [wireNormKV]
    exact WFoKV_wireNormKV r _ h.2 (WFoKV_mapInsert acc _ _ ha (WFo_wireNorm k h.1.1) (WFo_wireNorm v h.1.2))
end

end Edp.Ex
