import EdpVerif.Lemmas.OrderTrans
import EdpVerif.Impl.Den
import EdpVerif.Spec.ErlOrder
/-!
Agreement of the model order with Erlang's term order on the denoted values (C12):
`Term.cmp a b = Erl.cmp (den a) (den b)` for well-formed terms, rank by rank.
-/
open Edp Edp.Term
namespace Edp

theorem pow_cast (n : Nat) : ((2 ^ n : Nat) : Int) = (2 : Int) ^ n := by
  simp [Int.natCast_pow]

/-- the spec's scaled comparison is the comparison at the common scale `2^-1074` -/
theorem cmpScaled_eq (x ex y ey : Int) (hx : -1074 ≤ ex) (hy : -1074 ≤ ey) :
    Erl.cmpScaled x ex y ey =
      compare (x * ((2 ^ (ex + 1074).toNat : Nat) : Int)) (y * ((2 ^ (ey + 1074).toNat : Nat) : Int)) := by
  unfold Erl.cmpScaled
  simp only []
  generalize he : min ex ey = e
  have h1 : e ≤ ex := by omega
  have h2 : e ≤ ey := by omega
  have h3 : -1074 ≤ e := by omega
  have e1 : (ex + 1074).toNat = (ex - e).toNat + (e + 1074).toNat := by omega
  have e2 : (ey + 1074).toNat = (ey - e).toNat + (e + 1074).toNat := by omega
  rw [e1, e2, Nat.pow_add, Nat.pow_add, Int.natCast_mul, Int.natCast_mul, ← Int.mul_assoc, ← Int.mul_assoc,
    int_compare_mul _ _ _ (Nat.two_pow_pos _), pow_cast, pow_cast]

def finiteBits (b : Nat) : Bool := (f64 b).exp != 2047

/-- the exact value of a number in units of `2^-1074` -/
def erlNumKey : Value → Int
  | .int i => i * (scaleK : Int)
  | .float b => fkey (f64 b)
  | _ => 0

theorem dyadic_eq (b : Nat) (h : finiteBits b) : Erl.dyadic b = some ((f64 b).neg, (f64 b).mant, (f64 b).expo) := by
  simp only [finiteBits, bne_iff_ne, ne_eq] at h
  unfold Erl.dyadic F64.mant F64.expo
  simp only [f64] at h ⊢
  by_cases h0 : b / 2 ^ 52 % 2048 = 0 <;> simp [h, h0]

theorem numVal_int (i : Int) : Erl.numVal (.int i) = some (i, 0) := rfl
theorem numVal_float (b : Nat) (h : finiteBits b) :
    Erl.numVal (.float b) = some (if (f64 b).neg then -((f64 b).mant : Int) else (f64 b).mant, (f64 b).expo) := by
  simp [Erl.numVal, dyadic_eq b h]

theorem scaled_int (i : Int) : i * ((2 ^ ((0 : Int) + 1074).toNat : Nat) : Int) = i * (scaleK : Int) := by
  have : ((0 : Int) + 1074).toNat = 1074 := by omega
  rw [this]; unfold scaleK; rfl

theorem scaled_float (b : Nat) (h : finiteBits b) :
    (if (f64 b).neg then -((f64 b).mant : Int) else (f64 b).mant) * ((2 ^ ((f64 b).expo + 1074).toNat : Nat) : Int) =
      fkey (f64 b) := by
  simp only [finiteBits, bne_iff_ne, ne_eq] at h
  unfold fkey smVal F64.mag
  rw [if_neg h]
  split <;> simp [Int.neg_mul]

/-- numbers on the spec side compare as their exact keys -/
theorem cmpNum_key (u v : Value) (hu : (∃ i, u = .int i) ∨ (∃ b, u = .float b ∧ finiteBits b))
    (hv : (∃ i, v = .int i) ∨ (∃ b, v = .float b ∧ finiteBits b)) :
    Erl.cmpNum u v = compare (erlNumKey u) (erlNumKey v) := by
  unfold Erl.cmpNum
  rcases hu with ⟨i, rfl⟩ | ⟨b, rfl, hb⟩ <;> rcases hv with ⟨j, rfl⟩ | ⟨c, rfl, hc⟩
  · simp only [numVal_int]
    rw [cmpScaled_eq _ _ _ _ (by omega) (by omega), scaled_int, scaled_int]; rfl
  · simp only [numVal_int, numVal_float c hc]
    rw [cmpScaled_eq _ _ _ _ (by omega) (F64.expo_ge _), scaled_float c hc, scaled_int]; rfl
  · simp only [numVal_int, numVal_float b hb]
    rw [cmpScaled_eq _ _ _ _ (F64.expo_ge _) (by omega), scaled_float b hb, scaled_int]; rfl
  · simp only [numVal_float b hb, numVal_float c hc]
    rw [cmpScaled_eq _ _ _ _ (F64.expo_ge _) (F64.expo_ge _), scaled_float b hb, scaled_float c hc]; rfl


/-- floats are finite (non-finite floats have no Erlang value) -/
def numFin : Term → Bool
  | .float b => finiteBits b
  | _ => true

theorem thenO_eq_right (o : Ordering) : Erl.thenO o .eq = o := by cases o <;> rfl

theorem fcls_finite (b : Nat) (h : finiteBits b) : fcls (f64 b) = 0 := by
  simp only [finiteBits, bne_iff_ne, ne_eq] at h
  have h1 : (f64 b).isNaN = false := by simp [F64.isNaN, h]
  have h2 : (f64 b).isInf = false := by simp [F64.isInf, h]
  simp [fcls, h1, h2]

theorem numKey_den (x : Term) (hn : isNum x) (hf : numFin x) : numKey x = (0, erlNumKey (den x)) := by
  cases x <;> simp [isNum] at hn
  · rfl
  · simp only [numFin] at hf; simp [numKey, den, erlNumKey, fcls_finite _ hf]
  · rfl

theorem den_num (x : Term) (hn : isNum x) (hf : numFin x) :
    (∃ i, den x = .int i) ∨ (∃ b, den x = .float b ∧ finiteBits b) := by
  cases x <;> simp [isNum] at hn
  · exact .inl ⟨_, rfl⟩
  · exact .inr ⟨_, rfl, by simpa [numFin] using hf⟩
  · exact .inl ⟨_, rfl⟩

theorem cmpX_num (e : Bool) (u v : Value) (hu : (∃ i, u = .int i) ∨ (∃ b, u = .float b ∧ finiteBits b))
    (hv : (∃ i, v = .int i) ∨ (∃ b, v = .float b ∧ finiteBits b)) (he : e = false) :
    Erl.cmpX e u v = compare (erlNumKey u) (erlNumKey v) := by
  subst he
  have hk := cmpNum_key u v hu hv
  rcases hu with ⟨i, rfl⟩ | ⟨b, rfl, hb⟩ <;> rcases hv with ⟨j, rfl⟩ | ⟨c, rfl, hc⟩
  · simp only [Erl.cmpX, Erl.rank, ne_eq, not_true_eq_false, if_false, erlNumKey]
    rw [int_compare_mul _ _ _ scaleK_pos]
  · simp only [Erl.cmpX, Erl.rank, ne_eq, not_true_eq_false, if_false, Bool.false_eq_true, thenO_eq_right]; exact hk
  · simp only [Erl.cmpX, Erl.rank, ne_eq, not_true_eq_false, if_false, Bool.false_eq_true, thenO_eq_right]; exact hk
  · simp only [Erl.cmpX, Erl.rank, ne_eq, not_true_eq_false, if_false]; exact hk

/-- numbers: all nine representation pairs, exact -/
theorem agree_num (x y : Term) (hx : isNum x) (hy : isNum y) (ox : numOk x) (oy : numOk y) (fx : numFin x) (fy : numFin y) :
    cmpN x y = Erl.cmpX false (den x) (den y) := by
  rw [cmpN_num x y hx hy ox oy, numKey_den x hx fx, numKey_den y hy fy,
    cmpX_num false _ _ (den_num x hx fx) (den_num y hy fy) rfl]
  simp [cmpKey]


theorem erl_thenO (a b : Ordering) : Erl.thenO a b = a.then b := by cases a <;> rfl

theorem natsCmp_eq_lexCmp : ∀ (a b : List Nat), Erl.natsCmp a b = lexCmp a b
  | [], [] => rfl
  | [], _ :: _ => rfl
  | _ :: _, [] => rfl
  | x :: xs, y :: ys => by simp only [Erl.natsCmp, lexCmp, thenO, erl_thenO, natsCmp_eq_lexCmp xs ys]

/-- the bytes of one UTF-8 encoded character and its code point -/
inductive U8Head : List Nat → Nat → Prop
  | one (b0 : Nat) : b0 < 128 → U8Head [b0] b0
  | two (b0 b1 : Nat) : 194 ≤ b0 → b0 ≤ 223 → 128 ≤ b1 → b1 ≤ 191 → U8Head [b0, b1] ((b0 % 32) * 64 + b1 % 64)
  | three (b0 b1 b2 : Nat) : 224 ≤ b0 → b0 ≤ 239 → 128 ≤ b1 → b1 ≤ 191 → 128 ≤ b2 → b2 ≤ 191 →
      2048 ≤ (b0 % 16) * 4096 + (b1 % 64) * 64 + b2 % 64 →
      U8Head [b0, b1, b2] ((b0 % 16) * 4096 + (b1 % 64) * 64 + b2 % 64)
  | four (b0 b1 b2 b3 : Nat) : 240 ≤ b0 → b0 ≤ 244 → 128 ≤ b1 → b1 ≤ 191 → 128 ≤ b2 → b2 ≤ 191 → 128 ≤ b3 → b3 ≤ 191 →
      65536 ≤ (b0 % 8) * 262144 + (b1 % 64) * 4096 + (b2 % 64) * 64 + b3 % 64 →
      U8Head [b0, b1, b2, b3] ((b0 % 8) * 262144 + (b1 % 64) * 4096 + (b2 % 64) * 64 + b3 % 64)

theorem isCont_iff (b : UInt8) : isCont b = true ↔ 128 ≤ b.toNat ∧ b.toNat ≤ 191 := by
  simp only [isCont, beq_iff_eq]; omega

theorem utf8_inv (b0 : UInt8) (r : Bytes) (cs : List Nat) (h : utf8Decode (b0 :: r) = some cs) :
    ∃ hd cp r' cs', (b0 :: r).map UInt8.toNat = hd ++ r'.map UInt8.toNat ∧ U8Head hd cp ∧
      utf8Decode r' = some cs' ∧ cs = cp :: cs' ∧ r'.length < (b0 :: r).length := by
  unfold utf8Decode at h
  simp only [] at h
  split at h
  · rename_i h0
    obtain ⟨cs', h1, h2⟩ := Option.map_eq_some_iff.mp h
    exact ⟨[b0.toNat], b0.toNat, r, cs', by simp, .one _ h0, h1, h2.symm, by simp⟩
  · split at h
    · rename_i h0
      split at h
      · rename_i b1 r'
        split at h
        · rename_i hc
          obtain ⟨cs', h1, h2⟩ := Option.map_eq_some_iff.mp h
          have := (isCont_iff b1).mp hc
          exact ⟨[b0.toNat, b1.toNat], _, r', cs', by simp, .two _ _ h0.1 h0.2 this.1 this.2, h1, h2.symm, by simp; omega⟩
        · simp at h
      · simp at h
    · split at h
      · rename_i h0
        split at h
        · rename_i b1 b2 r'
          split at h
          · rename_i hc
            simp only [Bool.and_eq_true, decide_eq_true_eq] at hc
            obtain ⟨cs', h1, h2⟩ := Option.map_eq_some_iff.mp h
            have c1 := (isCont_iff b1).mp hc.1.1.1
            have c2 := (isCont_iff b2).mp hc.1.1.2
            exact ⟨[b0.toNat, b1.toNat, b2.toNat], _, r', cs', by simp,
              .three _ _ _ h0.1 h0.2 c1.1 c1.2 c2.1 c2.2 hc.1.2, h1, h2.symm, by simp; omega⟩
          · simp at h
        · simp at h
      · split at h
        · rename_i h0
          split at h
          · rename_i b1 b2 b3 r'
            split at h
            · rename_i hc
              simp only [Bool.and_eq_true, decide_eq_true_eq] at hc
              obtain ⟨cs', h1, h2⟩ := Option.map_eq_some_iff.mp h
              have c1 := (isCont_iff b1).mp hc.1.1.1.1
              have c2 := (isCont_iff b2).mp hc.1.1.1.2
              have c3 := (isCont_iff b3).mp hc.1.1.2
              exact ⟨[b0.toNat, b1.toNat, b2.toNat, b3.toNat], _, r', cs', by simp,
                .four _ _ _ _ h0.1 h0.2 c1.1 c1.2 c2.1 c2.2 c3.1 c3.2 hc.1.2, h1, h2.symm, by simp; omega⟩
            · simp at h
          · simp at h
        · simp at h


theorem lex64 (a c b d : Nat) (O : Ordering) (hb : b < 64) (hd : d < 64) :
    (compare a c).then ((compare b d).then O) = (compare (a * 64 + b) (c * 64 + d)).then O := by
  rcases Nat.lt_trichotomy a c with h | h | h
  · rw [Nat.compare_eq_lt.mpr h, Nat.compare_eq_lt.mpr (show a * 64 + b < c * 64 + d by omega)]; rfl
  · subst h
    rcases Nat.lt_trichotomy b d with h | h | h
    · rw [Nat.compare_eq_lt.mpr h, Nat.compare_eq_lt.mpr (show a * 64 + b < a * 64 + d by omega)]; simp
    · subst h; simp
    · rw [Nat.compare_eq_gt.mpr h, Nat.compare_eq_gt.mpr (show a * 64 + d < a * 64 + b by omega)]; simp
  · rw [Nat.compare_eq_gt.mpr h, Nat.compare_eq_gt.mpr (show c * 64 + d < a * 64 + b by omega)]; rfl

theorem cmp_shift (a c k : Nat) (ha : k ≤ a) (hc : k ≤ c) : compare a c = compare (a - k) (c - k) := by
  rw [← nat_compare_add (a - k) (c - k) k, Nat.sub_add_cancel ha, Nat.sub_add_cancel hc]

theorem lt_head (x y : Nat) (X O : Ordering) (cp cp' : Nat) (h1 : x < y) (h2 : cp < cp') :
    (compare x y).then X = (compare cp cp').then O := by
  rw [Nat.compare_eq_lt.mpr h1, Nat.compare_eq_lt.mpr h2]; rfl

theorem gt_head (x y : Nat) (X O : Ordering) (cp cp' : Nat) (h1 : y < x) (h2 : cp' < cp) :
    (compare x y).then X = (compare cp cp').then O := by
  rw [Nat.compare_eq_gt.mpr h1, Nat.compare_eq_gt.mpr h2]; rfl

theorem head_cmp22 (b0 b1 c0 c1 : Nat) (O : Ordering) (h1 : 194 ≤ b0) (h2 : b0 ≤ 223) (h3 : 128 ≤ b1) (h4 : b1 ≤ 191)
    (g1 : 194 ≤ c0) (g2 : c0 ≤ 223) (g3 : 128 ≤ c1) (g4 : c1 ≤ 191) :
    (compare b0 c0).then ((compare b1 c1).then O) =
      (compare (b0 % 32 * 64 + b1 % 64) (c0 % 32 * 64 + c1 % 64)).then O := by
  have e1 : b0 % 32 * 64 + b1 % 64 = (b0 - 192) * 64 + (b1 - 128) := by omega
  have e2 : c0 % 32 * 64 + c1 % 64 = (c0 - 192) * 64 + (c1 - 128) := by omega
  rw [e1, e2, cmp_shift b0 c0 192 (by omega) (by omega), cmp_shift b1 c1 128 (by omega) (by omega),
    lex64 _ _ _ _ _ (by omega) (by omega)]

theorem cp3_eq (b0 b1 b2 : Nat) (h1 : 224 ≤ b0) (h2 : b0 ≤ 239) (h3 : 128 ≤ b1) (h4 : b1 ≤ 191) (h5 : 128 ≤ b2) (h6 : b2 ≤ 191) :
    b0 % 16 * 4096 + b1 % 64 * 64 + b2 % 64 = ((b0 - 224) * 64 + (b1 - 128)) * 64 + (b2 - 128) := by
  rw [show b0 % 16 = b0 - 224 by omega, show b1 % 64 = b1 - 128 by omega, show b2 % 64 = b2 - 128 by omega]
  clear h1 h2 h3 h4 h5 h6
  generalize b0 - 224 = x; generalize b1 - 128 = y; generalize b2 - 128 = z; omega

theorem cp4_eq (b0 b1 b2 b3 : Nat) (h1 : 240 ≤ b0) (h2 : b0 ≤ 244) (h3 : 128 ≤ b1) (h4 : b1 ≤ 191) (h5 : 128 ≤ b2) (h6 : b2 ≤ 191)
    (h7 : 128 ≤ b3) (h8 : b3 ≤ 191) :
    b0 % 8 * 262144 + b1 % 64 * 4096 + b2 % 64 * 64 + b3 % 64 =
      (((b0 - 240) * 64 + (b1 - 128)) * 64 + (b2 - 128)) * 64 + (b3 - 128) := by
  rw [show b0 % 8 = b0 - 240 by omega, show b1 % 64 = b1 - 128 by omega, show b2 % 64 = b2 - 128 by omega,
    show b3 % 64 = b3 - 128 by omega]
  clear h1 h2 h3 h4 h5 h6 h7 h8
  generalize b0 - 240 = x; generalize b1 - 128 = y; generalize b2 - 128 = z; generalize b3 - 128 = w; omega

theorem head_cmp33 (b0 b1 b2 c0 c1 c2 : Nat) (O : Ordering) (h1 : 224 ≤ b0) (h2 : b0 ≤ 239) (h3 : 128 ≤ b1) (h4 : b1 ≤ 191)
    (h5 : 128 ≤ b2) (h6 : b2 ≤ 191) (g1 : 224 ≤ c0) (g2 : c0 ≤ 239) (g3 : 128 ≤ c1) (g4 : c1 ≤ 191) (g5 : 128 ≤ c2) (g6 : c2 ≤ 191) :
    (compare b0 c0).then ((compare b1 c1).then ((compare b2 c2).then O)) =
      (compare (b0 % 16 * 4096 + b1 % 64 * 64 + b2 % 64) (c0 % 16 * 4096 + c1 % 64 * 64 + c2 % 64)).then O := by
  rw [cp3_eq b0 b1 b2 h1 h2 h3 h4 h5 h6, cp3_eq c0 c1 c2 g1 g2 g3 g4 g5 g6,
    cmp_shift b0 c0 224 (by omega) (by omega), cmp_shift b1 c1 128 (by omega) (by omega),
    cmp_shift b2 c2 128 (by omega) (by omega), lex64 (b0 - 224) _ _ _ _ (by omega) (by omega),
    lex64 _ _ _ _ _ (by omega) (by omega)]

theorem head_cmp44 (b0 b1 b2 b3 c0 c1 c2 c3 : Nat) (O : Ordering) (h1 : 240 ≤ b0) (h2 : b0 ≤ 244) (h3 : 128 ≤ b1) (h4 : b1 ≤ 191)
    (h5 : 128 ≤ b2) (h6 : b2 ≤ 191) (h7 : 128 ≤ b3) (h8 : b3 ≤ 191)
    (g1 : 240 ≤ c0) (g2 : c0 ≤ 244) (g3 : 128 ≤ c1) (g4 : c1 ≤ 191) (g5 : 128 ≤ c2) (g6 : c2 ≤ 191) (g7 : 128 ≤ c3) (g8 : c3 ≤ 191) :
    (compare b0 c0).then ((compare b1 c1).then ((compare b2 c2).then ((compare b3 c3).then O))) =
      (compare (b0 % 8 * 262144 + b1 % 64 * 4096 + b2 % 64 * 64 + b3 % 64)
        (c0 % 8 * 262144 + c1 % 64 * 4096 + c2 % 64 * 64 + c3 % 64)).then O := by
  rw [cp4_eq b0 b1 b2 b3 h1 h2 h3 h4 h5 h6 h7 h8, cp4_eq c0 c1 c2 c3 g1 g2 g3 g4 g5 g6 g7 g8,
    cmp_shift b0 c0 240 (by omega) (by omega), cmp_shift b1 c1 128 (by omega) (by omega),
    cmp_shift b2 c2 128 (by omega) (by omega), cmp_shift b3 c3 128 (by omega) (by omega),
    lex64 (b0 - 240) _ _ _ _ (by omega) (by omega), lex64 _ _ (b2 - 128) _ _ (by omega) (by omega),
    lex64 _ _ _ _ _ (by omega) (by omega)]

/-- UTF-8 preserves code point order, one character at a time -/
theorem head_cmp {h h' : List Nat} {cp cp' : Nat} (H : U8Head h cp) (H' : U8Head h' cp') (R R' : List Nat) :
    lexCmp (h ++ R) (h' ++ R') = (compare cp cp').then (lexCmp R R') := by
  cases H with
  | one b0 h0 =>
    cases H' with
    | one c0 g0 => simp only [List.cons_append, List.nil_append, lexCmp, thenO]
    | two c0 c1 g1 g2 g3 g4 =>
      simp only [List.cons_append, List.nil_append, lexCmp, thenO]; exact lt_head _ _ _ _ _ _ (by omega) (by omega)
    | three c0 c1 c2 g1 g2 g3 g4 g5 g6 g7 =>
      simp only [List.cons_append, List.nil_append, lexCmp, thenO]; exact lt_head _ _ _ _ _ _ (by omega) (by omega)
    | four c0 c1 c2 c3 g1 g2 g3 g4 g5 g6 g7 g8 g9 =>
      simp only [List.cons_append, List.nil_append, lexCmp, thenO]; exact lt_head _ _ _ _ _ _ (by omega) (by omega)
  | two b0 b1 h1 h2 h3 h4 =>
    cases H' with
    | one c0 g0 =>
      simp only [List.cons_append, List.nil_append, lexCmp, thenO]; exact gt_head _ _ _ _ _ _ (by omega) (by omega)
    | two c0 c1 g1 g2 g3 g4 =>
      simp only [List.cons_append, List.nil_append, lexCmp, thenO]
      exact head_cmp22 _ _ _ _ _ h1 h2 h3 h4 g1 g2 g3 g4
    | three c0 c1 c2 g1 g2 g3 g4 g5 g6 g7 =>
      simp only [List.cons_append, List.nil_append, lexCmp, thenO]; exact lt_head _ _ _ _ _ _ (by omega) (by omega)
    | four c0 c1 c2 c3 g1 g2 g3 g4 g5 g6 g7 g8 g9 =>
      simp only [List.cons_append, List.nil_append, lexCmp, thenO]; exact lt_head _ _ _ _ _ _ (by omega) (by omega)
  | three b0 b1 b2 h1 h2 h3 h4 h5 h6 h7 =>
    cases H' with
    | one c0 g0 =>
      simp only [List.cons_append, List.nil_append, lexCmp, thenO]; exact gt_head _ _ _ _ _ _ (by omega) (by omega)
    | two c0 c1 g1 g2 g3 g4 =>
      simp only [List.cons_append, List.nil_append, lexCmp, thenO]; exact gt_head _ _ _ _ _ _ (by omega) (by omega)
    | three c0 c1 c2 g1 g2 g3 g4 g5 g6 g7 =>
      simp only [List.cons_append, List.nil_append, lexCmp, thenO]
      exact head_cmp33 _ _ _ _ _ _ _ h1 h2 h3 h4 h5 h6 g1 g2 g3 g4 g5 g6
    | four c0 c1 c2 c3 g1 g2 g3 g4 g5 g6 g7 g8 g9 =>
      simp only [List.cons_append, List.nil_append, lexCmp, thenO]; exact lt_head _ _ _ _ _ _ (by omega) (by omega)
  | four b0 b1 b2 b3 h1 h2 h3 h4 h5 h6 h7 h8 h9 =>
    cases H' with
    | one c0 g0 =>
      simp only [List.cons_append, List.nil_append, lexCmp, thenO]; exact gt_head _ _ _ _ _ _ (by omega) (by omega)
    | two c0 c1 g1 g2 g3 g4 =>
      simp only [List.cons_append, List.nil_append, lexCmp, thenO]; exact gt_head _ _ _ _ _ _ (by omega) (by omega)
    | three c0 c1 c2 g1 g2 g3 g4 g5 g6 g7 =>
      simp only [List.cons_append, List.nil_append, lexCmp, thenO]; exact gt_head _ _ _ _ _ _ (by omega) (by omega)
    | four c0 c1 c2 c3 g1 g2 g3 g4 g5 g6 g7 g8 g9 =>
      simp only [List.cons_append, List.nil_append, lexCmp, thenO]
      exact head_cmp44 _ _ _ _ _ _ _ _ _ h1 h2 h3 h4 h5 h6 h7 h8 g1 g2 g3 g4 g5 g6 g7 g8

/-- UTF-8 preserves code point order: byte-wise order of valid UTF-8 = order of the code point sequences -/
theorem utf8_order : ∀ (n : Nat) (a b : Bytes) (ca cb : List Nat), a.length + b.length ≤ n →
    utf8Decode a = some ca → utf8Decode b = some cb → bytesCmp a b = lexCmp ca cb
  | n, [], [], ca, cb, _, ha, hb => by
    simp [utf8Decode] at ha hb; subst ha hb; rfl
  | n, [], b0 :: rb, ca, cb, _, ha, hb => by
    simp [utf8Decode] at ha; subst ha
    obtain ⟨hd, cp, r', cs', _, _, _, e, _⟩ := utf8_inv b0 rb cb hb
    subst e; rfl
  | n, a0 :: ra, [], ca, cb, _, ha, hb => by
    simp [utf8Decode] at hb; subst hb
    obtain ⟨hd, cp, r', cs', _, _, _, e, _⟩ := utf8_inv a0 ra ca ha
    subst e; rfl
  | 0, a0 :: ra, b0 :: rb, _, _, hn, _, _ => by simp at hn
  | n + 1, a0 :: ra, b0 :: rb, ca, cb, hn, ha, hb => by
    obtain ⟨hd, cp, r', cs', e1, H, d1, e2, l1⟩ := utf8_inv a0 ra ca ha
    obtain ⟨hd', cp', r'', cs'', e1', H', d1', e2', l1'⟩ := utf8_inv b0 rb cb hb
    subst e2 e2'
    unfold bytesCmp
    rw [e1, e1', head_cmp H H']
    have ih := utf8_order n r' r'' cs' cs'' (by simp at l1 l1' hn; omega) d1 d1'
    unfold bytesCmp at ih
    rw [ih]; rfl

theorem bytesCmp_cps (a b : Bytes) (ha : validUtf8 a) (hb : validUtf8 b) :
    bytesCmp a b = Erl.natsCmp (cps a) (cps b) := by
  unfold validUtf8 at ha hb
  obtain ⟨ca, ha⟩ := Option.isSome_iff_exists.mp ha
  obtain ⟨cb, hb⟩ := Option.isSome_iff_exists.mp hb
  rw [natsCmp_eq_lexCmp, utf8_order _ a b ca cb (Nat.le_refl _) ha hb]
  simp [cps, ha, hb]


theorem norm_num (a : Term) (h : isNum a) : norm a = a := by
  cases a <;> simp [isNum] at h <;> simp [norm]

theorem sortMaps_num (a : Term) (h : isNum a) : Erl.sortMaps (den a) = den a := by
  cases a <;> simp [isNum] at h <;> simp [den, Erl.sortMaps]

theorem agrees_numbers (a b : Term) (ha : isNum a) (hb : isNum b) (oa : numOk a) (ob : numOk b)
    (fa : numFin a) (fb : numFin b) : Term.cmp a b = Erl.cmp (den a) (den b) := by
  unfold Term.cmp Erl.cmp
  rw [norm_num a ha, norm_num b hb, sortMaps_num a ha, sortMaps_num b hb]
  exact agree_num a b ha hb oa ob fa fb

/-- a finite float with a non-integer value: it ties with no integer -/
def fracF (b : Nat) : Bool :=
  finiteBits b && decide ((f64 b).expo < 0) && ((f64 b).mant % 2 ^ (-(f64 b).expo).toNat != 0)

theorem fracF_finite {b : Nat} (h : fracF b) : finiteBits b := by
  simp only [fracF, Bool.and_eq_true] at h; exact h.1.1

theorem smVal_natAbs' (n : Bool) (v : Nat) : (smVal n v).natAbs = v := by
  unfold smVal; cases n <;> simp

/-- an integer never equals a fractional float -/
theorem key_int_frac (x : Int) (b : Nat) (h : fracF b) : x * (scaleK : Int) ≠ fkey (f64 b) := by
  simp only [fracF, Bool.and_eq_true, decide_eq_true_eq, bne_iff_ne, ne_eq] at h
  obtain ⟨⟨hf, he⟩, hm⟩ := h
  have hfin : ¬ (f64 b).exp = 2047 := by simpa [finiteBits] using hf
  intro heq
  unfold fkey at heq
  rw [if_neg hfin] at heq
  have hge := F64.expo_ge (f64 b)
  obtain ⟨k, hk⟩ : ∃ k : Nat, (f64 b).expo = -(k : Int) := ⟨(-(f64 b).expo).toNat, by omega⟩
  have hk1 : k ≤ 1074 := by omega
  have e1 : (-(f64 b).expo).toNat = k := by omega
  have e2 : ((f64 b).expo + 1074).toNat = 1074 - k := by omega
  rw [e1] at hm
  have habs := congrArg Int.natAbs heq
  rw [smVal_natAbs', Int.natAbs_mul, Int.natAbs_natCast] at habs
  unfold F64.mag at habs
  rw [e2, scaleK_split k hk1, ← Nat.mul_assoc] at habs
  have hcancel := Nat.eq_of_mul_eq_mul_right (Nat.two_pow_pos (1074 - k)) habs
  apply hm
  rw [← hcancel, Nat.mul_mod_left]

theorem cmpNum_int_frac (x : Int) (b : Nat) (h : fracF b) :
    Erl.cmpNum (.int x) (.float b) ≠ .eq ∧ Erl.cmpNum (.float b) (.int x) ≠ .eq := by
  have hf := fracF_finite h
  constructor
  · rw [cmpNum_key _ _ (.inl ⟨x, rfl⟩) (.inr ⟨b, rfl, hf⟩)]
    intro he; exact key_int_frac x b h (Int.compare_eq_eq.mp he)
  · rw [cmpNum_key _ _ (.inr ⟨b, rfl, hf⟩) (.inl ⟨x, rfl⟩)]
    intro he; exact key_int_frac x b h (Int.compare_eq_eq.mp he).symm

theorem thenO_ne_eq (o a b : Ordering) (h : o ≠ .eq) : Erl.thenO o a = Erl.thenO o b := by
  cases o <;> simp_all [Erl.thenO]

end Edp
