import EdpVerif.Lemmas.Send
import EdpVerif.Lemmas.SendSched
import EdpVerif.Lemmas.SendAll
import EdpVerif.Lemmas.SendSchedF
import EdpVerif.Generated.MiscC07book
/-
C07 — each send operation emits exactly one well-formed frame with the right content.
Property theorems only; helper lemmas live in EdpVerif/Lemmas/Send.lean and SendSched.lean.

Reading guide.  `sendOp c order op` is the list of writes of one `Connection` operation (Impl/Send.lean);
`Spec.Wire.readFramesFrom mode cache bytes` is what an independent receiver with atom cache `cache` reads;
`itemFor op.den` is the control tuple the protocol assigns to the operation, followed by its payload;
`OpOk op` says the arguments are values of the Rust types (UTF-8 names, 32-bit fields, `u64` id) whose preserved
node-local bytes, if any, denote the same identifier; `Reads env b v` says the bytes `b` are an encoding of `v`.
`PayOk op` is C01's guard on the payload (`wfT`: a value of the Rust type within the decoder's limits, identifiers inside
the payload in plain form; `finiteFloats`: no NaN/infinity, which C01_valid_not_for_nan shows are not valid encodings):
within it the payload's bytes are read by the independent reader as the payload's value — C01's validity theorem
(`spec_enc`), used here to discharge what used to be a hypothesis of the one-frame theorems.
`runOps c calls` is a SEQUENCE of operations on one connection, each with a `Fate` (all writes complete, or the operation
stops during write `i` after `k` bytes: I/O error, header-mode write timeout, future dropped); `sendOpF` is one step of it.
-/
namespace Edp.Props.C07
open Edp Edp.Send Edp.Spec Edp.Spec.Wire Edp.Term
open Edp.Impl.Handshake (ConnState)

/-! ### the gate -/

/-- an operation on a connection that is not connected fails with the state error and writes nothing -/
theorem C07_gate (c : Conn) (order : List Bytes) (op : Op) (h : c.state ≠ .connected) :
    sendOp c order op = .error .invalidState ∧ wireOf (sendOp c order op) = [] := by
  simp [sendOp, h, wireOf]

example : sendOp { state := .awaitingChallengeAck, neg := some 0, stream := true } [] (.link pA pB) = .error .invalidState :=
  (C07_gate _ _ _ (by decide)).1

/-- conversely, an operation that writes anything was issued on a connected connection with a stream -/
theorem C07_writes_only_when_connected (c : Conn) (order : List Bytes) (op : Op) (ws : List Bytes)
    (h : sendOp c order op = .ok ws) : c.state = .connected ∧ c.stream = true := by
  cases hpt : usePassThrough c with
  | true => exact ⟨(sendOp_pt_shape c order op ws h hpt).1, (sendOp_pt_shape c order op ws h hpt).2.1⟩
  | false => exact ⟨(sendOp_hdr_shape c order op ws h hpt).1, (sendOp_hdr_shape c order op ws h hpt).2.1⟩

example : sendOp ptConn [] (.link pA pB) = .ok [[0,0,0,42], [112],
    [131,104,3,97,1,88,119,3,97,64,104,0,0,0,1,0,0,0,2,0,0,0,3,88,119,3,98,64,104,255,255,255,255,0,0,0,0,0,0,0,7]] := by
  rfl

/-! ### operation ↦ control tuple -/

/-- what `ControlMessage::to_term` returns for the value each operation builds denotes the control tuple the
protocol assigns to that operation (SEND {2, Unused, To}; REG_SEND {6, From, Unused, ToName}; LINK {1, From, To};
UNLINK_ID {35, Id, From, To}; MONITOR_P {19, From, ToProc, Ref}; DEMONITOR_P {20, From, ToProc, Ref}) -/
theorem C07_control_term_is_protocol_tuple (op : Op) (hok : OpOk op) :
    ∃ ct, Control.toTerm Gen.controlTable op.control = some ct ∧ ct.den = controlFor op.den :=
  ⟨controlTerm op, toTerm_control op, controlTerm_den op hok⟩

example : (controlTerm (.unlink pA pB 18446744073709551615)).den =
    .tuple [.int 35, .int 18446744073709551615, pidDen pA, pidDen pB] :=
  controlTerm_den _ ⟨pA_ok, pB_ok, by decide⟩

/-- the Spec's tuple for each operation is the entry of the protocol table (tag, number of elements, payload) -/
theorem C07_controlFor_matches_table (sop : SOp) :
    ∃ e args, Spec.findOp sop.name = some e ∧ controlFor sop = .tuple (.int e.tag :: args) ∧
      args.length = e.fields.length ∧ (payloadFor sop).isSome = e.payload.isSome := by
  cases sop
  · exact ⟨{ tag := 2, name := "SEND", fields := ["Unused", "ToPid"], payload := some "Message" }, _, by simp only [SOp.name]; decide, rfl, rfl, rfl⟩
  · exact ⟨{ tag := 6, name := "REG_SEND", fields := ["FromPid", "Unused", "ToName"], payload := some "Message" }, _, by simp only [SOp.name]; decide, rfl, rfl, rfl⟩
  · exact ⟨{ tag := 1, name := "LINK", fields := ["FromPid", "ToPid"] }, _, by simp only [SOp.name]; decide, rfl, rfl, rfl⟩
  · exact ⟨{ tag := 35, name := "UNLINK_ID", fields := ["Id", "FromPid", "ToPid"] }, _, by simp only [SOp.name]; decide, rfl, rfl, rfl⟩
  · exact ⟨{ tag := 19, name := "MONITOR_P", fields := ["FromPid", "ToProc", "Ref"] }, _, by simp only [SOp.name]; decide, rfl, rfl, rfl⟩
  · exact ⟨{ tag := 20, name := "DEMONITOR_P", fields := ["FromPid", "ToProc", "Ref"] }, _, by simp only [SOp.name]; decide, rfl, rfl, rfl⟩

example : Spec.findOp (SOp.unlinkId 1 .nil .nil).name = some { tag := 35, name := "UNLINK_ID", fields := ["Id", "FromPid", "ToPid"] } := by
  decide

/-! ### shape of the writes -/

/-- pass-through mode: the writes are, in this order, the 4-byte length, the marker 112, the versioned control term
and (for operations with a payload) the versioned payload term; the length is the number of bytes that follow it -/
theorem C07_pass_through_writes (c : Conn) (order : List Bytes) (op : Op) (ws : List Bytes)
    (h : sendOp c order op = .ok ws) (hpt : usePassThrough c = true) :
    ∃ ce, encode (controlTerm op) = .ok ce ∧
      ((op.payload = none ∧ ws = [be32 (1 + ce.length), [112], ce] ∧ 1 + ce.length < 2 ^ 32) ∨
       (∃ m me, op.payload = some m ∧ encode m = .ok me ∧ ws = [be32 (1 + ce.length + me.length), [112], ce, me] ∧
          1 + ce.length + me.length < 2 ^ 32)) := by
  obtain ⟨_, _, cb, hcb, hsh⟩ := sendOp_pt_shape c order op ws h hpt
  refine ⟨131 :: cb, by simp [encode, hcb], ?_⟩
  rcases hsh with ⟨hp, hw, hsz⟩ | ⟨m, mb, hp, hmb, hw, hsz⟩
  · exact Or.inl ⟨hp, hw, by simp [u32max] at hsz ⊢; omega⟩
  · exact Or.inr ⟨m, 131 :: mb, hp, by simp [encode, hmb], hw, by simp [u32max] at hsz ⊢; omega⟩

/-- distribution-header mode: one write, the 4-byte length followed by `encode_with_dist_header(_multi)` of the
control term and the payload -/
theorem C07_header_single_write (c : Conn) (order : List Bytes) (op : Op) (ws : List Bytes)
    (h : sendOp c order op = .ok ws) (hpt : usePassThrough c = false) :
    ∃ hb, distHeader order (controlTerm op :: op.payload.toList) = .ok hb ∧ ws = [be32 hb.length ++ hb] ∧
      hb.length < 2 ^ 32 := by
  obtain ⟨_, _, hb, hd, hw, hsz⟩ := sendOp_hdr_shape c order op ws h hpt
  exact ⟨hb, hd, hw, by simp [u32max] at hsz ⊢; omega⟩

/-- in either mode the bytes of a successful operation are one length-prefixed body: the prefix is the exact
length of everything that follows, and it fits 32 bits -/
theorem C07_length_prefix_exact (c : Conn) (order : List Bytes) (op : Op) (ws : List Bytes)
    (h : sendOp c order op = .ok ws) :
    ∃ body, ws.flatten = be32 body.length ++ body ∧ body ≠ [] ∧ body.length < 2 ^ 32 := by
  cases hpt : usePassThrough c with
  | true =>
    obtain ⟨_, _, cb, _, hsh⟩ := sendOp_pt_shape c order op ws h hpt
    rcases hsh with ⟨_, rfl, hsz⟩ | ⟨m, mb, _, _, rfl, hsz⟩
    · exact ⟨112 :: 131 :: cb, by simp; congr 1; omega, by simp, by simp [u32max] at hsz ⊢; omega⟩
    · exact ⟨112 :: (131 :: cb ++ 131 :: mb), by simp; congr 1; omega, by simp, by simp [u32max] at hsz ⊢; omega⟩
  | false =>
    obtain ⟨_, _, hb, hd, rfl, hsz⟩ := sendOp_hdr_shape c order op ws h hpt
    refine ⟨hb, by simp, ?_, by simp [u32max] at hsz ⊢; omega⟩
    intro hc; subst hc
    unfold distHeader at hd
    simp only at hd
    split at hd
    · simp at hd
    · split at hd
      · split at hd <;> simp at hd
      · split at hd
        · simp at hd
        · split at hd
          · simp at hd
          · split at hd <;> simp at hd

/-- a frame that does not fit the 32-bit length prefix is refused before anything is written (pass-through mode,
operation with a payload; the other three sites have the same check) -/
theorem C07_oversized_frame_refused (c : Conn) (order : List Bytes) (op : Op) (m : Term) (ce me : Bytes)
    (hc : c.state = .connected) (hpt : usePassThrough c = true) (hp : op.payload = some m)
    (h1 : encode (controlTerm op) = .ok ce) (h2 : encode m = .ok me) (hbig : 1 + ce.length + me.length ≥ 2 ^ 32) :
    sendOp c order op = .error .tooLarge := by
  have : 1 + ce.length + me.length > u32max := by simp [u32max]; omega
  simp [sendOp, hc, sendControlMessage, toTerm_control, hpt, h1, hp, h2, this]

/-! ### one operation = one frame, read by an independent reader -/

/-- pass-through mode: the bytes of a successful operation, followed by any further bytes, are read as the frame the
protocol assigns to the operation and then whatever the further bytes are; in particular the operation's bytes
alone are exactly that one frame.  Every operation, every payload within C01's guard. -/
theorem C07_one_frame_pass_through (c : Conn) (order : List Bytes) (op : Op) (ws : List Bytes)
    (h : sendOp c order op = .ok ws) (hpt : usePassThrough c = true) (hok : OpOk op) (hpay : PayOk op)
    (cache : Cache) (rest : Bytes) :
    readFramesFrom .passThrough cache (ws.flatten ++ rest) =
        (readFramesFrom .passThrough cache rest).map (itemFor op.den :: ·) ∧
      readFrames .passThrough ws.flatten = some [itemFor op.den] := by
  obtain ⟨body, hflat, hlen, hne, hrb⟩ := pt_frame_wf c order op ws h hpt hok hpay
  constructor
  · rw [hflat]
    exact readFrames_cons .passThrough cache body rest hlen hne _ cache (hrb cache)
  · have := readFrames_cons .passThrough [] body [] hlen hne _ [] (hrb [])
    rw [readFrames_nil] at this
    rw [readFrames, hflat]
    simpa using this

/-- distribution-header mode: the same, for every order in which the encoder's hash set enumerated the atoms and
whatever the receiver's atom cache holds (every reference of the header is a new entry) -/
theorem C07_one_frame_dist_header (c : Conn) (order : List Bytes) (op : Op) (ws : List Bytes)
    (h : sendOp c order op = .ok ws) (hpt : usePassThrough c = false) (hok : OpOk op) (hpay : PayOk op)
    (cache : Cache) (rest : Bytes) :
    (∃ cache', readFramesFrom .distHeader cache (ws.flatten ++ rest) =
        (readFramesFrom .distHeader cache' rest).map (itemFor op.den :: ·)) ∧
      readFramesFrom .distHeader cache ws.flatten = some [itemFor op.den] := by
  obtain ⟨body, hflat, hlen, hne, hrb⟩ := hdr_frame_wf c order op ws h hpt hok hpay
  obtain ⟨cache', hc'⟩ := hrb cache
  constructor
  · refine ⟨cache', ?_⟩
    rw [hflat]
    exact readFrames_cons .distHeader cache body rest hlen hne _ cache' hc'
  · have := readFrames_cons .distHeader cache body [] hlen hne _ cache' hc'
    rw [readFrames_nil] at this
    rw [hflat]
    simpa using this

example : readFramesFrom .distHeader [((0, 0), [120])]
    (wireOf (sendOp hdrConn [[], [111, 107], [98, 64, 104]] (.send pA pB (.tuple [.atom [111, 107], .float 0, .map [(.int 1, .bin [7])]])))) =
    some [.msg (.tuple [.int 2, .atom [], pidDen pB]) (some (.tuple [.atom [111, 107], .float 0, .map [(.int 1, Value.mkBits [7] 8)]]))] := by
  obtain ⟨ws, h⟩ : ∃ ws, sendOp hdrConn [[], [111, 107], [98, 64, 104]]
      (.send pA pB (.tuple [.atom [111, 107], .float 0, .map [(.int 1, .bin [7])]])) = .ok ws := ⟨_, rfl⟩
  rw [h]
  exact (C07_one_frame_dist_header hdrConn _ _ ws h rfl pB_ok
    (fun m hm => by cases hm; exact ⟨by decide, by decide⟩) _ []).2

/-- link, unlink, monitor and demonitor (no payload): exactly one frame with the protocol's control tuple, in
whichever mode was negotiated, with no hypothesis beyond the argument types -/
theorem C07_one_frame_control_only (c : Conn) (order : List Bytes) (op : Op) (ws : List Bytes)
    (h : sendOp c order op = .ok ws) (hok : OpOk op) (hp : op.payload = none) (cache : Cache) :
    readFramesFrom (if usePassThrough c then .passThrough else .distHeader) cache ws.flatten =
      some [.msg (controlFor op.den) none] := by
  have hit : itemFor op.den = .msg (controlFor op.den) none := by simp [itemFor, payloadFor_den, hp]
  cases hpt : usePassThrough c with
  | true =>
    have := (C07_one_frame_pass_through c order op ws h hpt hok (fun m hm => by rw [hp] at hm; cases hm) cache []).1
    simp only [List.append_nil, readFrames_nil] at this
    simpa [hit] using this
  | false =>
    have := (C07_one_frame_dist_header c order op ws h hpt hok (fun m hm => by rw [hp] at hm; cases hm) cache []).2
    simpa [hit] using this

example : readFrames .passThrough (wireOf (sendOp ptConn [] (.monitor pA pB rA))) =
    some [.msg (.tuple [.int 19, pidDen pA, pidDen pB, rA.term.den]) none] := by
  obtain ⟨ws, h⟩ : ∃ ws, sendOp ptConn [] (.monitor pA pB rA) = .ok ws := ⟨_, rfl⟩
  rw [h]
  exact C07_one_frame_control_only ptConn [] _ _ h ⟨pA_ok, pB_ok, rA_ok⟩ rfl []

/-- unlink ids over the whole 64-bit range reach the wire unchanged: the reader finds the integer `id` itself as the
second element of the UNLINK_ID tuple, below and above 2^63 alike -/
theorem C07_unlink_id_unchanged (c : Conn) (order : List Bytes) (frm to : PidF) (id : Nat) (ws : List Bytes)
    (h : sendOp c order (.unlink frm to id) = .ok ws) (hf : PidOk frm) (ht : PidOk to) (hid : id < 2 ^ 64) (cache : Cache) :
    readFramesFrom (if usePassThrough c then .passThrough else .distHeader) cache ws.flatten =
      some [.msg (.tuple [.int 35, .int id, pidDen frm, pidDen to]) none] :=
  C07_one_frame_control_only c order _ ws h ⟨hf, ht, hid⟩ rfl cache

example : ∃ ws, sendOp ptConn [] (.unlink pA pB 9223372036854775808) = .ok ws := ⟨_, rfl⟩

/-- identifiers in node-local form (LOCAL_EXT bytes preserved by the decoder): the operation writes the preserved
bytes verbatim, and when these are an 8-byte hash followed by the plain encoding of the same pid, the peer reads the
frame with that pid in it -/
theorem C07_node_local_pid_on_the_wire (c : Conn) (order : List Bytes) (frm to : PidF) (hash inner : Bytes) (ws : List Bytes)
    (h : sendOp c order (.link frm to) = .ok ws) (hf : PidOk frm)
    (hh : hash.length = 8) (hu : validUtf8 to.node = true)
    (h1 : to.id < 4294967296) (h2 : to.serial < 4294967296) (h3 : to.creation < 4294967296)
    (hi : encPid [] { to with loc := none } = .ok inner) (hl : to.loc = some (hash ++ inner)) (cache : Cache) :
    readFramesFrom (if usePassThrough c then .passThrough else .distHeader) cache ws.flatten =
      some [.msg (.tuple [.int 1, pidDen frm, pidDen to]) none] :=
  C07_one_frame_control_only c order _ ws h ⟨hf, pidOk_local to hash inner hh hu h1 h2 h3 hi hl⟩ rfl cache

example : ∃ ws, sendOp hdrConn [[98, 64, 104], [97, 64, 104]]
    (.link pA { pB with loc := some ([1,2,3,4,5,6,7,8] ++ [88,119,3,98,64,104,255,255,255,255,0,0,0,0,0,0,0,7]) }) = .ok ws :=
  ⟨_, rfl⟩

/-- the id a node chooses for a remote unlink (`reference_counter.fetch_add(1) as u64 + 1`) is one the protocol
allows: positive and below 2^64 -/
theorem C07_node_unlink_id_valid (counter : Nat) (h : counter < 2 ^ 32) (frm to : Value) :
    (SOp.unlinkId (nodeUnlinkId counter) frm to).valid = true := by
  simp [SOp.valid, nodeUnlinkId]; omega

example : nodeUnlinkId 0 = 1 := rfl

/-- the payload hypothesis of the one-frame theorems holds for integers, big integers, finite floats, atoms, binaries,
strings, pids, references, nil, and lists and tuples of these, with and without a distribution header (the general
statement is C01's) -/
theorem C07_basic_payload_reads (cache : List Bytes) (env : Env) (he : EnvFor cache env) (m : Term) (hm : Basic m)
    (b : Bytes) (h : enc cache m = .ok b) : Reads env b m.den :=
  reads_basic he m hm b h

example : Basic (.tuple [.int 1, .atom [111, 107], .pid pA, .list [.bin [1, 2], .big true [1, 2, 3]]]) :=
  .tuple _ (by decide) (by
    intro t ht
    simp only [List.mem_cons, List.not_mem_nil, or_false] at ht
    rcases ht with rfl | rfl | rfl | rfl
    · exact .int 1 (by omega)
    · exact .atom _ (by decide)
    · exact .pid _ pA_ok
    · refine .list _ ?_
      intro t ht
      simp only [List.mem_cons, List.not_mem_nil, or_false] at ht
      rcases ht with rfl | rfl
      · exact .bin _
      · exact .big _ _ (by decide))

/-- a send of ANY payload within C01's guard is exactly one SEND frame followed by that payload's value, in pass-through
mode (maps, funs, bit strings, strings, nested to any depth; not only the leaves of the theorem above) -/
theorem C07_send_any_payload (c : Conn) (order : List Bytes) (frm to : PidF) (m : Term) (ws : List Bytes)
    (h : sendOp c order (.send frm to m) = .ok ws) (hpt : usePassThrough c = true) (ht : PidOk to)
    (hw : wfT m = true) (hfin : finiteFloats m = true) :
    readFrames .passThrough ws.flatten = some [.msg (.tuple [.int 2, .atom [], pidDen to]) (some m.den)] := by
  have := (C07_one_frame_pass_through c order _ ws h hpt (show OpOk (.send frm to m) from ht)
    (fun m' hm' => by
      have : m' = m := by simp [Op.payload] at hm'; exact hm'.symm
      subst this
      exact ⟨hw, hfin⟩) [] []).2
  simpa [itemFor, Op.den, controlFor, payloadFor, unused] using this

example : wfT (.map [(.atom [107], .list [.float 0, .str [104, 105]]), (.int 2, .bits [255, 128] 1)]) = true ∧
    finiteFloats (.map [(.atom [107], .list [.float 0, .str [104, 105]]), (.int 2, .bits [255, 128] 1)]) = true := by
  decide

/-! ### concurrent senders through one connection -/

/-- mutual exclusion: under every schedule, a task that is between the first and the last write of an operation
holds the connection lock -/
theorem C07_mutual_exclusion (prog : Nat → List (List Bytes)) (σ : List Nat) (u : Nat)
    (h : ((run prog St.init σ).ts u).rem.isSome = true) : (run prog St.init σ).lock = some u :=
  (inv_run prog σ St.init (inv_init prog)).excl u h

/-- frames never interleave: under every schedule, whenever no operation is in progress the bytes on the wire are
the concatenation of the whole frames of the operations in the order in which the lock was acquired for them -/
theorem C07_wire_is_whole_frames_in_lock_order (prog : Nat → List (List Bytes)) (σ : List Nat)
    (h : (run prog St.init σ).lock = none) :
    (run prog St.init σ).wire = ((run prog St.init σ).acq.map (frameOf prog)).flatten :=
  (inv_run prog σ St.init (inv_init prog)).free h

/-- and at every instant: whole frames of all but the last acquisition, then a prefix of the frame of the operation
in progress (the writes its holder has performed so far) -/
theorem C07_only_the_holders_frame_is_partial (prog : Nat → List (List Bytes)) (σ : List Nat) (t : Nat)
    (h : (run prog St.init σ).lock = some t) :
    ∃ done op pre post, (run prog St.init σ).acq = done ++ [(t, op)] ∧
      frameOf prog (t, op) = pre ++ post ∧
      (run prog St.init σ).wire = (done.map (frameOf prog)).flatten ++ pre := by
  obtain ⟨acq', pre, rem, full, hacq, _, hfull, hsplit, hwire⟩ := (inv_run prog σ St.init (inv_init prog)).held t h
  refine ⟨acq', _, pre.flatten, rem.flatten, hacq, ?_, hwire⟩
  simp [frameOf, hfull, hsplit]

/-- each caller's operations reach the wire in the order it issued them: the operations of task `u` in the
acquisition order are its operations number 0, 1, 2, … without gaps or repetitions -/
theorem C07_each_task_in_issue_order (prog : Nat → List (List Bytes)) (σ : List Nat) (u : Nat) :
    (((run prog St.init σ).acq.filter (fun p => p.1 = u)).map (·.2)) = List.range (started (run prog St.init σ) u) :=
  (inv_run prog σ St.init (inv_init prog)).order u

/-- every frame on the wire belongs to an operation some task issued -/
theorem C07_acquired_operations_exist (prog : Nat → List (List Bytes)) (σ : List Nat) (p : Nat × Nat)
    (h : p ∈ (run prog St.init σ).acq) : ((prog p.1)[p.2]?).isSome = true :=
  (inv_run prog σ St.init (inv_init prog)).valid p h

example : (run (fun t => if t < 2 then [[[1], [2]], [[3]]] else []) St.init [0, 1, 0, 1, 0, 0, 1, 1, 1, 0, 1, 1, 0, 1, 1, 0, 0, 0]).wire = [1, 2, 1, 2, 3, 3]
    ∧ (run (fun t => if t < 2 then [[[1], [2]], [[3]]] else []) St.init [0, 1, 0, 1, 0, 0, 1, 1, 1, 0, 1, 1, 0, 1, 1, 0, 0, 0]).acq = [(0, 0), (1, 0), (1, 1), (0, 1)] := by
  decide

/-- k tasks issue operations through one node (pass-through framing, what `Node::connect` negotiates): for every
schedule, when no operation is in progress the peer reads exactly the frames the protocol assigns to the operations,
whole, in lock-acquisition order -/
theorem C07_concurrent_senders_read_whole_frames (c : Conn) (hpt : usePassThrough c = true) (ops : Nat → List Op)
    (hall : ∀ t op, op ∈ ops t → (∃ ws, sendOp c [] op = .ok ws) ∧ OpOk op ∧ PayOk op)
    (σ : List Nat) :
    let prog := fun t => (ops t).map (fun op => writesOf (sendOp c [] op))
    let st := run prog St.init σ
    st.lock = none →
      readFrames .passThrough st.wire =
        some (st.acq.map (fun p => match (ops p.1)[p.2]? with | some op => itemFor op.den | none => .tick)) := by
  intro prog st hq
  have hinv := inv_run prog σ St.init (inv_init prog)
  rw [readFrames, hinv.free hq]
  apply readFrames_flat prog
  intro p hp
  have hv := hinv.valid p hp
  have hget : (prog p.1)[p.2]? = ((ops p.1)[p.2]?).map (fun op => writesOf (sendOp c [] op)) := by
    simp [prog]
  cases hop : (ops p.1)[p.2]? with
  | none => simp [hget, hop] at hv
  | some op =>
    have hmem : op ∈ ops p.1 := List.mem_of_getElem? hop
    obtain ⟨⟨ws, hws⟩, hok, hpay⟩ := hall p.1 op hmem
    obtain ⟨body, hflat, hlen, hne, hrb⟩ := pt_frame_wf c [] op ws hws hpt hok hpay
    refine ⟨body, ?_, hlen, hne, ?_⟩
    · simp [frameOf, hget, hop, hws, writesOf, hflat]
    · intro cache; simpa using hrb cache

/-! ### sequences of operations on ONE connection; operations that stop in the middle of their frame -/

/-- any sequence of operations on one connection, in whichever framing mode it negotiated, each header with whatever atom
order the encoder's hash set produced, read by a peer whose atom cache holds anything at the start and is carried from
frame to frame: when every write completes, the peer reads exactly one item per operation that returned `Ok`, in order,
and nothing else (operations refused before their first write contribute nothing) -/
theorem C07_sequence_on_one_connection (c : Conn) (calls : List Call)
    (hall : ∀ x ∈ calls, OpOk x.op ∧ PayOk x.op) (hwhole : ∀ x ∈ calls, x.fate = .whole) (cache : Cache) :
    readFramesFrom (modeOf c) cache (runOps c calls).1 = some (itemsOf calls (runOps c calls).2) := by
  obtain ⟨whole, tail, h1, h2, h3⟩ := runOps_wire c calls hall cache
  rcases h3 with h3 | ⟨x, hx, hne, _⟩
  · rw [h1, h3, List.append_nil]; exact h2
  · exact absurd (hwhole x hx) hne

example : (runOps hdrConn [⟨[[98, 64, 104], [97, 64, 104]], .link pA pB, .whole⟩, ⟨[[97, 64, 104], [98, 64, 104]], .link pA pB, .whole⟩]).2 = [.ok, .ok] := by
  rfl

/-- the same with operations that may stop in the middle of their frame (`Fate.cut`: I/O error, the write timeout of
header mode, the future dropped at an await point), at any position of any sequence: the stream is the whole frames of the
operations that returned `Ok` — read by the peer as exactly their items — followed by nothing, or by a prefix of the
frame of ONE operation that was cut.  No byte of any other operation follows a partial frame. -/
theorem C07_stream_is_whole_frames_then_at_most_one_partial (c : Conn) (calls : List Call)
    (hall : ∀ x ∈ calls, OpOk x.op ∧ PayOk x.op) (cache : Cache) :
    ∃ whole tail, (runOps c calls).1 = whole ++ tail ∧
      readFramesFrom (modeOf c) cache whole = some (itemsOf calls (runOps c calls).2) ∧
      (tail = [] ∨ ∃ x ∈ calls, x.fate ≠ .whole ∧ ∃ ws rest, sendOp c x.order x.op = .ok ws ∧ ws.flatten = tail ++ rest) :=
  runOps_wire c calls hall cache

/-- once an operation was cut, at whatever point of whatever history, nothing more is written to the stream and every
later operation fails with the state error -/
theorem C07_nothing_is_written_after_a_partial_frame (c : Conn) (pre : List Call) (x : Call) (post : List Call)
    (h : (sendOpF (connAfter c pre) x.order x.op x.fate).2.2 = .cut) :
    (runOps c (pre ++ x :: post)).1 = (runOps c (pre ++ [x])).1 ∧
    (runOps c (pre ++ x :: post)).2 = (runOps c (pre ++ [x])).2 ++ post.map (fun _ => .err .invalidState) :=
  runOps_after_cut c pre x post h

example : runOps ptConn [⟨[], .link pA pB, .whole⟩, ⟨[], .link pB pA, .cut 2 3⟩, ⟨[], .link pA pB, .whole⟩] =
    ([0,0,0,42,112,131,104,3,97,1,88,119,3,97,64,104,0,0,0,1,0,0,0,2,0,0,0,3,88,119,3,98,64,104,255,255,255,255,0,0,0,0,0,0,0,7,
      0,0,0,42,112,131,104,3], [.ok, .cut, .err .invalidState]) := by
  rfl

/-- a cut operation leaves the connection closed (`FrameWrite::drop`: `transport.close()`, `handshake.disconnect()`), and
only a cut or a missing stream does: an operation that succeeds or is refused before its first write leaves the
connection as it was -/
theorem C07_only_an_unfinished_frame_closes_the_connection (c : Conn) (order : List Bytes) (op : Op) (fate : Fate) :
    ((sendOpF c order op fate).2.2 = .cut → (sendOpF c order op fate).1 = c.closed) ∧
    ((sendOpF c order op fate).2.2 = .ok → (sendOpF c order op fate).1 = c) ∧
    (∀ e, (sendOpF c order op fate).2.2 = .err e → e ≠ .noStream →
      (sendOpF c order op fate).1 = c ∧ (sendOpF c order op fate).2.1 = []) := by
  refine ⟨sendOpF_cut_closed c order op fate, ?_, ?_⟩
  · intro h
    unfold sendOpF at h ⊢
    cases hs : sendOp c order op with
    | error e => rw [hs] at h; cases e <;> simp at h
    | ok ws =>
      rw [hs] at h
      cases fate with
      | whole => rfl
      | cut i k => simp at h
  · intro e h hne
    unfold sendOpF at h ⊢
    cases hs : sendOp c order op with
    | error e' =>
      rw [hs] at h
      cases e' <;> simp at h <;> subst h <;> simp at hne ⊢
    | ok ws =>
      rw [hs] at h
      cases fate <;> simp at h

example : (sendOpF hdrConn [[98, 64, 104], [97, 64, 104]] (.link pA pB) (.cut 0 9)).1.state = .disconnected := by rfl

/-! ### what is read off the source -/

/-- the write sequences of `send_control_message`, the operation table and the framing constants are regenerated from
connection.rs / encoder.rs on every run and are the ones the protocol's frame needs: every write sits inside a
`FrameWrite` guard, the pass-through branches write length, marker, control[, payload] in this order with the three H3
points between them, header mode writes one buffer (length, then the encoder's bytes); each of the six operations starts
with the `is_connected()` gate, builds the variant the protocol assigns to it and hands over a payload exactly for the two
sends; an unfinished frame closes the transport and resets the handshake state.  The model INTERPRETS these tables
(`ptWrites`, `hdrWrites`, `DIST_HDR_ATOM_CACHE`); this theorem compares them with the expectation. -/
theorem C07_source_tables_are_the_protocols :
    Gen.C07_SEND_BRANCHES =
      [["begin", "stream", "write_u32:frame_len", "yield:send:after_len", "write_u8:PASS_THROUGH", "yield:send:after_marker",
        "write_all:control_encoded", "yield:send:after_control", "write_all:msg_encoded", "flush", "complete"],
       ["begin", "stream", "write_u32:frame_len", "yield:send:after_len", "write_u8:PASS_THROUGH", "yield:send:after_marker",
        "write_all:control_encoded", "flush", "complete"],
       ["begin", "stream", "write_all:buf", "flush", "complete"]] ∧
    Gen.C07_FRAME_LEN_EXPRS = ["1+control_encoded.len()+msg_encoded.len()", "1+control_encoded.len()"] ∧
    Gen.C07_HEADER_ENCODERS = ["encode_with_dist_header_multi:control_term,msg", "encode_with_dist_header:control_term"] ∧
    Gen.C07_HEADER_BUFFER = [["put_u32:Self::frame_length(encoded.len())?", "put_slice:encoded"],
                             ["put_u32:Self::frame_length(encoded.len())?", "put_slice:encoded"]] ∧
    Gen.C07_CONN_OPS = [("send_message", "Send", true, true), ("send_to_name", "RegSend", true, true),
      ("link", "Link", false, true), ("unlink", "UnlinkId", false, true), ("monitor", "MonitorP", false, true),
      ("demonitor", "DemonitorP", false, true)] ∧
    Gen.C07_INCOMPLETE_FRAME_ACTIONS = ["transport.close", "handshake.disconnect"] ∧
    (Gen.C07_PASS_THROUGH = 112 ∧ Gen.C07_VERSION_TAG = 131 ∧ Gen.C07_DIST_HEADER = 68) ∧
    (Gen.C07_HEADER_MAX_ATOMS = 2 ^ 8 - 1 ∧ Gen.C07_HEADER_ATOM_LEN_LIMIT = "u16::MAX") ∧
    Send.DIST_HDR_ATOM_CACHE = 0x2000 := by
  decide

/-- and the model's writes are these sequences: whatever the lengths and the encoded terms -/
theorem C07_model_writes_are_the_source_steps (n : Nat) (ce me enc : Bytes) :
    ptWrites true n ce me = [be32 n, [112], ce, me] ∧ ptWrites false n ce me = [be32 n, [112], ce] ∧
    hdrWrites true enc = [be32 enc.length ++ enc] ∧ hdrWrites false enc = [be32 enc.length ++ enc] :=
  ⟨ptWrites_payload n ce me, ptWrites_control n ce me, hdrWrites_eq true enc, hdrWrites_eq false enc⟩

/-- the operation table read off the source agrees with the model's `Op.control` / `Op.payload`: for every operation the
variant named in the source is the one the model builds, and a payload is handed over exactly when the model has one -/
theorem C07_model_ops_are_the_source_ops (op : Op) :
    ∃ fn, (fn, (match op.control with | .known v _ => v | _ => ""), op.payload.isSome, true) ∈ Gen.C07_CONN_OPS := by
  cases op
  · exact ⟨"send_message", by simp [Op.control, Op.payload, Gen.C07_CONN_OPS]⟩
  · exact ⟨"send_to_name", by simp [Op.control, Op.payload, Gen.C07_CONN_OPS]⟩
  · exact ⟨"link", by simp [Op.control, Op.payload, Gen.C07_CONN_OPS]⟩
  · exact ⟨"unlink", by simp [Op.control, Op.payload, Gen.C07_CONN_OPS]⟩
  · exact ⟨"monitor", by simp [Op.control, Op.payload, Gen.C07_CONN_OPS]⟩
  · exact ⟨"demonitor", by simp [Op.control, Op.payload, Gen.C07_CONN_OPS]⟩

/-! ### the node-level operations (node.rs) -/

/-- the steps of every node-level operation that concern the connection, read off node.rs: the connection is looked up
in the table, whatever the operation takes from the node's counters (the sender pid of a send, the unlink id, the
monitor reference) is taken BEFORE the lock is requested, there is exactly one `lock().await`, exactly one `Connection`
call after it — the one the model's `NodeOp.connOp` performs — and the only other way out is `NodeNotConnected` -/
theorem C07_node_operations_lock_once_around_one_call (op : NodeOp) :
    ∃ pre, Gen.C07_NODE_OPS.lookup op.fn = some (pre ++ ["lock", "call:" ++ op.method, "not_connected"]) ∧
      "lookup" ∈ pre ∧
      pre.all (fun s => s ∈ ["lookup", "draw:pid", "draw:unlink_id+1", "draw:ref", "book:add_link", "book:remove_link",
        "book:add_monitor", "book:remove_monitor"]) = true := by
  cases op
  · exact ⟨["lookup", "draw:pid"], by simp only [NodeOp.fn, NodeOp.method]; decide, by decide, by decide⟩
  · exact ⟨["book:add_link", "book:add_link", "lookup"], by simp only [NodeOp.fn, NodeOp.method]; decide, by decide, by decide⟩
  · exact ⟨["book:remove_link", "book:remove_link", "lookup", "draw:unlink_id+1"], by simp only [NodeOp.fn, NodeOp.method]; decide, by decide, by decide⟩
  · exact ⟨["draw:ref", "book:add_monitor", "lookup"], by simp only [NodeOp.fn, NodeOp.method]; decide, by decide, by decide⟩
  · exact ⟨["book:remove_monitor", "lookup"], by simp only [NodeOp.fn, NodeOp.method]; decide, by decide, by decide⟩

/-- a node-level operation towards a node there is no connection to (before `Node::connect` completed the handshake and
inserted the connection, or after the receiver removed it) fails with `NodeNotConnected` and writes nothing; with a
connection it is exactly the `Connection` operation: the same bytes, the same outcome, the same connection afterwards -/
theorem C07_node_operation_is_the_connection_operation (table : Option Conn) (order : List Bytes) (d : Drawn)
    (op : NodeOp) (fate : Fate) :
    (table = none → nodeOp table order d op fate = (none, [], .notConnected)) ∧
    (∀ c, table = some c → nodeOp table order d op fate =
      (some (sendOpF c order (op.connOp d) fate).1, (sendOpF c order (op.connOp d) fate).2.1,
        .conn (sendOpF c order (op.connOp d) fate).2.2)) := by
  constructor
  · intro h; subst h; rfl
  · intro c h; subst h; rfl

example : (nodeOp (some ptConn) [] ⟨pA, 0, rA⟩ (.unlink pA pB) .whole).2.2 = .conn .ok ∧
    (nodeOp none [] ⟨pA, 0, rA⟩ (.unlink pA pB) .whole).2.1 = [] := by
  constructor <;> rfl

/-- each caller's frames reach the peer in the order it issued them: in the list of items the peer reads (theorem above),
the items of task `u` are, in order, the items of `u`'s operations number 0, 1, 2, … up to the number it has started -/
theorem C07_each_callers_frames_in_issue_order (c : Conn) (hpt : usePassThrough c = true) (ops : Nat → List Op)
    (hall : ∀ t op, op ∈ ops t → (∃ ws, sendOp c [] op = .ok ws) ∧ OpOk op ∧ PayOk op)
    (σ : List Nat) (u : Nat) :
    let prog := fun t => (ops t).map (fun op => writesOf (sendOp c [] op))
    let st := run prog St.init σ
    st.lock = none →
      ∃ items, readFrames .passThrough st.wire = some items ∧ items.length = st.acq.length ∧
        ((st.acq.zip items).filter (fun p => p.1.1 = u)).map (·.2) =
          (List.range (started st u)).map (fun i => match (ops u)[i]? with | some op => itemFor op.den | none => .tick) := by
  intro prog st hq
  have hread := C07_concurrent_senders_read_whole_frames c hpt ops hall σ hq
  have hord := C07_each_task_in_issue_order prog σ u
  refine ⟨_, hread, List.length_map _, ?_⟩
  -- the items are a function of the acquisitions
  have hz : ∀ (acq : List (Nat × Nat)) (f : Nat × Nat → Item),
      ((acq.zip (acq.map f)).filter (fun p => p.1.1 = u)).map (·.2) = ((acq.filter (fun p => p.1 = u)).map f) := by
    intro acq f
    induction acq with
    | nil => rfl
    | cons a as ih =>
      by_cases ha : a.1 = u
      · simp [ha, ih]
      · simp [ha, ih]
  rw [hz]
  have hf : ∀ (l : List (Nat × Nat)), (∀ p ∈ l, p.1 = u) →
      l.map (fun p => match (ops p.1)[p.2]? with | some op => itemFor op.den | none => Item.tick) =
      (l.map (·.2)).map (fun i => match (ops u)[i]? with | some op => itemFor op.den | none => Item.tick) := by
    intro l hl
    induction l with
    | nil => rfl
    | cons a as ih =>
      have ha := hl a (by simp)
      simp only [List.map_cons, List.map_map] at ih ⊢
      rw [ih (fun p hp => hl p (by simp [hp]))]
      simp [ha]
  rw [hf _ (fun p hp => by simpa using (List.mem_filter.mp hp).2)]
  exact congrArg _ hord

/-! ### distribution-header mode is total: a frame the peer reads, or nothing -/

/-- every operation in distribution-header mode, every argument and payload within the guards, every atom order, every
receiver cache: EITHER it succeeds and its bytes are read by the independent reader as exactly the protocol's control
tuple and the payload, OR it fails and not one byte is written.  There is no third outcome (a frame that is written and
cannot be read) — in particular at the limits of the header: the number of distinct atoms of control tuple and payload
together (the one-byte `NumberOfAtomCacheRefs`), atom lengths (two bytes with LongAtoms), the 32-bit frame length. -/
theorem C07_header_mode_frame_or_nothing (c : Conn) (order : List Bytes) (op : Op) (hpt : usePassThrough c = false)
    (hok : OpOk op) (hpay : PayOk op) (cache : Cache) :
    (∃ ws, sendOp c order op = .ok ws ∧ readFramesFrom .distHeader cache ws.flatten = some [itemFor op.den]) ∨
    (∃ e, sendOp c order op = .error e ∧ wireOf (sendOp c order op) = []) := by
  cases h : sendOp c order op with
  | ok ws => exact Or.inl ⟨ws, rfl, (C07_one_frame_dist_header c order op ws h hpt hok hpay cache []).2⟩
  | error e => exact Or.inr ⟨e, rfl, rfl⟩

/-- the limit on the number of atoms in one header, as read off encoder.rs (`Gen.C07_HEADER_MAX_ATOMS`), is the largest
count the header's one-byte field can carry, and the model enforces exactly it: an operation whose control tuple and
payload together name more distinct atoms than that is refused with nothing written, whatever the order; with that many
or fewer the count byte of the header is the count itself (no wrap-around) -/
theorem C07_header_atom_count_fits_one_byte (c : Conn) (order : List Bytes) (op : Op) (hpt : usePassThrough c = false) :
    Gen.C07_HEADER_MAX_ATOMS + 1 = 2 ^ 8 ∧
    (order.length > Gen.C07_HEADER_MAX_ATOMS → ∃ e, sendOp c order op = .error e ∧ wireOf (sendOp c order op) = []) ∧
    (∀ ws, sendOp c order op = .ok ws → order ≠ [] →
      ∃ hb, ws = [be32 hb.length ++ hb] ∧ (hb.drop 2).head? = some (UInt8.ofNat order.length) ∧ order.length < 2 ^ 8) := by
  refine ⟨by decide, ?_, ?_⟩
  · intro hbig
    cases h : sendOp c order op with
    | error e => exact ⟨e, rfl, rfl⟩
    | ok ws =>
      exfalso
      obtain ⟨_, _, hb, hd, _, _⟩ := sendOp_hdr_shape c order op ws h hpt
      unfold distHeader at hd
      simp only at hd
      split at hd
      · simp at hd
      · split at hd
        · rename_i hemp
          have : order = [] := by simpa using hemp
          subst this
          simp at hbig
        · simp [hbig] at hd
  · intro ws h hne
    obtain ⟨_, _, hb, hd, hws, _⟩ := sendOp_hdr_shape c order op ws h hpt
    refine ⟨hb, hws, ?_⟩
    unfold distHeader at hd
    simp only at hd
    split at hd
    · simp at hd
    · split at hd
      · rename_i hemp
        have : order = [] := by simpa using hemp
        exact absurd this hne
      · split at hd
        · simp at hd
        · rename_i hle
          split at hd
          · simp at hd
          · split at hd
            · rename_i b hb'
              injection hd with hd
              subst hd
              have : Gen.C07_HEADER_MAX_ATOMS = 255 := rfl
              exact ⟨by simp, by omega⟩
            · simp at hd

example : ∃ e, sendOp hdrConn ((List.range 256).map fun i => [UInt8.ofNat i]) (.link pA pB) = .error e :=
  (C07_header_atom_count_fits_one_byte hdrConn _ (.link pA pB) rfl).2.1 (by simp [Gen.C07_HEADER_MAX_ATOMS]) |>.imp fun _ h => h.1

/-! ### concurrent senders, with operations that stop in the middle of their frame -/

/-- every schedule of any number of tasks, whatever the fate of every operation (all writes complete, or it stops during
write `i` after `k` bytes): whenever no operation is in progress, the bytes on the stream and the state of the connection
are exactly those of the same operations executed ONE AFTER THE OTHER in the order in which the lock was acquired for
them (`seqRun`: an operation on a closed connection writes nothing, a cut operation writes its prefix and closes) -/
theorem C07_every_schedule_is_the_sequential_run_in_lock_order (prog : Nat → List TOp) (σ : List Nat)
    (h : (runF prog StF.init σ).lock = none) :
    ((runF prog StF.init σ).wire, (runF prog StF.init σ).closed) = seqRun prog (runF prog StF.init σ).acq :=
  (invF_run prog σ StF.init (invF_init prog)).free h

/-- hence under every schedule the stream is whole frames in lock order, and once an operation was cut: the whole frames
of the operations acquired before it, the prefix it wrote, and NOT ONE BYTE of any operation acquired after it -/
theorem C07_no_frame_follows_a_partial_frame (prog : Nat → List TOp) (σ : List Nat)
    (h : (runF prog StF.init σ).lock = none) :
    ((runF prog StF.init σ).closed = false ∧
      (runF prog StF.init σ).wire = ((runF prog StF.init σ).acq.map (fullOf prog)).flatten ∧
      ∀ p ∈ (runF prog StF.init σ).acq, cutAt prog p = false) ∨
    ((runF prog StF.init σ).closed = true ∧
      ∃ a p b op, (runF prog StF.init σ).acq = a ++ p :: b ∧ (prog p.1)[p.2]? = some op ∧ op.isCut = true ∧
        (∀ q ∈ a, cutAt prog q = false) ∧
        (runF prog StF.init σ).wire = (a.map (fullOf prog)).flatten ++ op.eff.flatten) := by
  have hseq := C07_every_schedule_is_the_sequential_run_in_lock_order prog σ h
  rcases seqFrom_shape prog (runF prog StF.init σ).acq [] with ⟨h1, h2⟩ | ⟨a, p, b, op, hacq, hp, hc, ha, hs⟩
  · left
    rw [seqRun, h1] at hseq
    have hw := congrArg Prod.fst hseq
    have hcl := congrArg Prod.snd hseq
    exact ⟨hcl, by simpa using hw, h2⟩
  · right
    rw [seqRun, hs] at hseq
    have hw := congrArg Prod.fst hseq
    have hcl := congrArg Prod.snd hseq
    exact ⟨hcl, a, p, b, op, hacq, hp, hc, ha, by simpa using hw⟩

/-- and a closed connection stays silent: whatever the tasks do afterwards, under whatever schedule, the stream does not
change any more -/
theorem C07_closed_connection_stays_silent (prog : Nat → List TOp) (σ1 σ2 : List Nat)
    (h1 : (runF prog StF.init σ1).lock = none) (hc : (runF prog StF.init σ1).closed = true)
    (h2 : (runF prog StF.init (σ1 ++ σ2)).lock = none) :
    (runF prog StF.init (σ1 ++ σ2)).wire = (runF prog StF.init σ1).wire ∧
    (runF prog StF.init (σ1 ++ σ2)).closed = true := by
  have e1 := C07_every_schedule_is_the_sequential_run_in_lock_order prog σ1 h1
  have e2 := C07_every_schedule_is_the_sequential_run_in_lock_order prog (σ1 ++ σ2) h2
  obtain ⟨more, hm⟩ := runF_acq prog σ2 (runF prog StF.init σ1)
  rw [← runF_append] at hm
  have hcl : (seqRun prog (runF prog StF.init σ1).acq).2 = true := by
    rw [← hc]; exact (congrArg Prod.snd e1).symm
  rw [hm, seqRun_append_closed prog _ more hcl, ← e1] at e2
  exact ⟨congrArg Prod.fst e2, (congrArg Prod.snd e2).trans hc⟩

example : let prog : Nat → List TOp := fun t => if t < 2 then [⟨[[1], [2], [3]], .cut 1 0⟩, ⟨[[4]], .whole⟩] else []
    (runF prog StF.init [0, 0, 1, 0, 0, 1, 1, 1, 0, 0, 1, 1, 0, 1, 0]).wire = [1] ∧
    (runF prog StF.init [0, 0, 1, 0, 0, 1, 1, 1, 0, 0, 1, 1, 0, 1, 0]).closed = true ∧
    (runF prog StF.init [0, 0, 1, 0, 0, 1, 1, 1, 0, 0, 1, 1, 0, 1, 0]).lock = none ∧
    (runF prog StF.init [0, 0, 1, 0, 0, 1, 1, 1, 0, 0, 1, 1, 0, 1, 0]).acq = [(0, 0), (1, 0), (1, 1), (0, 1)] := by
  decide

end Edp.Props.C07

namespace Edp.Props.C07
open Edp Edp.Send

/-! ### the node-level operations: bookkeeping and exits (node.rs) -/

/-- every bookkeeping step, draw, lookup, lock, `Connection` call, branch and exit of the node-level send-side operations,
read off node.rs in source order, is this table: `send` only chooses between the local and the remote function,
`send_to_name` resolves the name on this node and goes on to `send`; in the five remote functions whatever is recorded on
the handles of local processes (`add_link`, `remove_link`) is recorded BEFORE the branch on the target's node and hence
before the write, the error of the `Connection` call is passed on with `?` (nothing recorded is taken back when the write
fails: a retried operation finds the pair already recorded), and there is no `return` anywhere: the only `Ok` of a
remote target is the one behind the call.  An operation that answers `Ok` from its bookkeeping (a link that is already
in the set) without reaching the call changes this table. -/
theorem C07_node_bookkeeping_is_the_sources :
    Gen.C07_NODE_BOOK =
      [("send", ["local?", "delegate:send_local", "else", "delegate:send_remote"]),
       ("send_to_name", ["delegate:whereis", "err:NameNotRegistered", "delegate:send"]),
       ("send_remote", ["lookup", "draw:pid", "lock", "call:send_message", "fail:propagate", "ok", "else", "not_connected"]),
       ("link", ["reg:get", "book:add_link", "noproc", "local?", "reg:get", "book:add_link", "noproc", "ok", "else",
         "lookup", "lock", "call:link", "fail:propagate", "ok", "else", "not_connected"]),
       ("unlink", ["reg:get", "book:remove_link", "local?", "reg:get", "book:remove_link", "ok", "else",
         "lookup", "draw:unlink_id+1", "lock", "call:unlink", "fail:propagate", "ok", "else", "not_connected"]),
       ("monitor", ["draw:ref", "local?", "reg:get", "book:add_monitor", "reg:get", "notify", "ok", "else",
         "lookup", "lock", "call:monitor", "fail:propagate", "ok", "else", "not_connected"]),
       ("demonitor", ["local?", "reg:get", "book:remove_monitor", "ok", "else",
         "lookup", "lock", "call:demonitor", "fail:propagate", "ok", "else", "not_connected"])] := by
  decide

/-- for every node-level operation: what precedes the remote branch (`common`: bookkeeping on the caller's own handle and
draws, no exit of any kind), then either nothing (`send_remote` is the remote branch) or the branch on the target's node
whose local arm ends in its own `Ok`; the remote arm is the table lookup, draws, ONE lock, ONE `Connection` call — the
one the model's `nodeOp` performs —, its error passed on, `Ok`, and otherwise `NodeNotConnected`.  So towards a remote
target `Ok` is returned only behind the call that writes the frame, whatever the handles of the local processes hold:
`nodeOp` rightly does not take the link and monitor sets as an argument. -/
theorem C07_node_ok_only_behind_the_one_write (op : NodeOp) :
    ∃ common localArm draws,
      Gen.C07_NODE_BOOK.lookup op.fn = some (common ++ localArm ++ ["lookup"] ++ draws ++
        ["lock", "call:" ++ op.method, "fail:propagate", "ok", "else", "not_connected"]) ∧
      common.all (fun s => s ∈ ["reg:get", "book:add_link", "book:remove_link", "noproc", "draw:ref"]) = true ∧
      (localArm = [] ∨ ∃ body, localArm = ["local?"] ++ body ++ ["ok", "else"] ∧
        body.all (fun s => s ∈ ["reg:get", "book:add_link", "book:remove_link", "book:add_monitor", "book:remove_monitor",
          "noproc", "notify"]) = true) ∧
      draws.all (fun s => s ∈ ["draw:pid", "draw:unlink_id+1"]) = true := by
  cases op
  · exact ⟨[], [], ["draw:pid"], by simp only [NodeOp.fn, NodeOp.method]; decide, by decide, Or.inl rfl, by decide⟩
  · exact ⟨["reg:get", "book:add_link", "noproc"], ["local?", "reg:get", "book:add_link", "noproc", "ok", "else"], [],
      by simp only [NodeOp.fn, NodeOp.method]; decide, by decide,
      Or.inr ⟨["reg:get", "book:add_link", "noproc"], by decide, by decide⟩, by decide⟩
  · exact ⟨["reg:get", "book:remove_link"], ["local?", "reg:get", "book:remove_link", "ok", "else"], ["draw:unlink_id+1"],
      by simp only [NodeOp.fn, NodeOp.method]; decide, by decide,
      Or.inr ⟨["reg:get", "book:remove_link"], by decide, by decide⟩, by decide⟩
  · exact ⟨["draw:ref"], ["local?", "reg:get", "book:add_monitor", "reg:get", "notify", "ok", "else"], [],
      by simp only [NodeOp.fn, NodeOp.method]; decide, by decide,
      Or.inr ⟨["reg:get", "book:add_monitor", "reg:get", "notify"], by decide, by decide⟩, by decide⟩
  · exact ⟨[], ["local?", "reg:get", "book:remove_monitor", "ok", "else"], [],
      by simp only [NodeOp.fn, NodeOp.method]; decide, by decide,
      Or.inr ⟨["reg:get", "book:remove_monitor"], by decide, by decide⟩, by decide⟩

example : Gen.C07_NODE_BOOK.lookup (NodeOp.link pA pB).fn ≠ none ∧
    (Gen.C07_NODE_BOOK.lookup (NodeOp.link pA pB).fn).any (fun l => l.count "ok" == 2 && !l.contains "return") = true := by
  decide

end Edp.Props.C07
