//! C03: every valid external encoding of a value decodes to exactly that value.
//! The harness writes alternative admissible encodings; the Lean Spec reads them independently and compares the value
//! with what the library's decoder returned.
use crate::canon::{hex, hexarg, term_text};
use crate::oracle::oracle_for;
use crate::rng::Rng;
use crate::tgen::{gen_term, Cfg};
use crate::Ctx;
use erltf::types::Sign;
use erltf::OwnedTerm;
use std::io::Write;

fn text_float(f: f64) -> [u8; 31] {
    // Erlang's "%.20e": d.dddddddddddddddddddde+XX
    let s = format!("{:.20e}", f); // Rust: 1.00000000000000000000e0
    let (mant, exp) = s.split_once('e').unwrap();
    let e: i32 = exp.parse().unwrap();
    let t = format!("{}e{}{:02}", mant, if e < 0 { '-' } else { '+' }, e.abs());
    let mut out = [0u8; 31];
    out[..t.len().min(31)].copy_from_slice(&t.as_bytes()[..t.len().min(31)]);
    out
}

fn put_big(v: &mut Vec<u8>, neg: bool, digits: &[u8], r: &mut Rng) {
    let mut d = digits.to_vec();
    // non-minimal widths are admissible
    if r.chance(1, 4) {
        let extra = r.range(1, 3) as usize;
        d.extend(std::iter::repeat(0).take(extra));
    }
    if d.len() > 255 || r.chance(1, 8) {
        v.push(111);
        v.extend_from_slice(&(d.len() as u32).to_be_bytes());
    } else {
        v.push(110);
        v.push(d.len() as u8);
    }
    v.push(if neg { if r.chance(1, 4) { 255 } else { 1 } } else { 0 });
    v.extend_from_slice(&d);
}

fn put_int(v: &mut Vec<u8>, i: i64, r: &mut Rng) {
    let k = r.below(4);
    if (0..=255).contains(&i) && k < 2 {
        v.push(97);
        v.push(i as u8);
    } else if i >= i32::MIN as i64 && i <= i32::MAX as i64 && k < 3 {
        v.push(98);
        v.extend_from_slice(&(i as i32).to_be_bytes());
    } else {
        let mut d = i.unsigned_abs().to_le_bytes().to_vec();
        while d.last() == Some(&0) {
            d.pop();
        }
        put_big(v, i < 0, &d, r);
    }
}

fn put_atom(v: &mut Vec<u8>, a: &str, r: &mut Rng, stats: &mut Vec<&'static str>) {
    let latin1: Option<Vec<u8>> = a.chars().map(|c| if (c as u32) < 256 { Some(c as u32 as u8) } else { None }).collect();
    let b = a.as_bytes();
    match (r.below(4), latin1) {
        (0, Some(l)) if l.len() <= 255 => {
            stats.push("atom_small_latin1");
            v.push(115);
            v.push(l.len() as u8);
            v.extend_from_slice(&l);
        }
        (1, Some(l)) => {
            stats.push("atom_latin1");
            v.push(100);
            v.extend_from_slice(&(l.len() as u16).to_be_bytes());
            v.extend_from_slice(&l);
        }
        (2, _) | (0, _) if b.len() <= 255 => {
            v.push(119);
            v.push(b.len() as u8);
            v.extend_from_slice(b);
        }
        _ => {
            v.push(118);
            v.extend_from_slice(&(b.len() as u16).to_be_bytes());
            v.extend_from_slice(b);
        }
    }
}

/// one admissible encoding of `t`, chosen at random per node
pub fn alt(v: &mut Vec<u8>, t: &OwnedTerm, r: &mut Rng, stats: &mut Vec<&'static str>) {
    // LOCAL_EXT may wrap any term
    if r.chance(1, 25) {
        stats.push("local_wrap");
        v.push(121);
        v.extend(r.bytes(8));
    }
    match t {
        OwnedTerm::Atom(a) => put_atom(v, a.as_str(), r, stats),
        OwnedTerm::Integer(i) => put_int(v, *i, r),
        OwnedTerm::BigInt(b) => put_big(v, b.sign == Sign::Negative, &b.digits, r),
        OwnedTerm::Float(f) => {
            if r.chance(1, 3) {
                stats.push("float_text");
                v.push(99);
                v.extend_from_slice(&text_float(*f));
            } else {
                v.push(70);
                v.extend_from_slice(&f.to_bits().to_be_bytes());
            }
        }
        OwnedTerm::Binary(b) => {
            v.push(109);
            v.extend_from_slice(&(b.len() as u32).to_be_bytes());
            v.extend_from_slice(b);
        }
        OwnedTerm::String(s) => {
            v.push(109);
            v.extend_from_slice(&(s.len() as u32).to_be_bytes());
            v.extend_from_slice(s.as_bytes());
        }
        OwnedTerm::BitBinary { bytes, bits } => {
            v.push(77);
            v.extend_from_slice(&(bytes.len() as u32).to_be_bytes());
            v.push(*bits);
            v.extend_from_slice(bytes);
        }
        OwnedTerm::Nil => v.push(106),
        OwnedTerm::List(l) => {
            let small = l.iter().all(|e| matches!(e, OwnedTerm::Integer(i) if (0..=255).contains(i)));
            if l.is_empty() {
                if r.chance(1, 3) {
                    stats.push("string_ext");
                    v.extend_from_slice(&[107, 0, 0]);
                } else {
                    v.push(106);
                }
            } else if small && l.len() <= 65535 && r.chance(2, 3) {
                stats.push("string_ext");
                v.push(107);
                v.extend_from_slice(&(l.len() as u16).to_be_bytes());
                for e in l {
                    if let OwnedTerm::Integer(i) = e {
                        v.push(*i as u8);
                    }
                }
            } else {
                v.push(108);
                v.extend_from_slice(&(l.len() as u32).to_be_bytes());
                for e in l {
                    alt(v, e, r, stats);
                }
                v.push(106);
            }
        }
        OwnedTerm::ImproperList { elements, tail } => {
            v.push(108);
            v.extend_from_slice(&(elements.len() as u32).to_be_bytes());
            for e in elements {
                alt(v, e, r, stats);
            }
            alt(v, tail, r, stats);
        }
        OwnedTerm::Tuple(l) => {
            if l.len() <= 255 && r.chance(3, 4) {
                v.push(104);
                v.push(l.len() as u8);
            } else {
                stats.push("large_tuple");
                v.push(105);
                v.extend_from_slice(&(l.len() as u32).to_be_bytes());
            }
            for e in l {
                alt(v, e, r, stats);
            }
        }
        OwnedTerm::Map(m) => {
            v.push(116);
            v.extend_from_slice(&(m.len() as u32).to_be_bytes());
            let mut kv: Vec<_> = m.iter().collect();
            r.shuffle(&mut kv);
            for (k, val) in kv {
                alt(v, k, r, stats);
                alt(v, val, r, stats);
            }
        }
        OwnedTerm::Pid(p) => {
            if p.creation < 256 && r.chance(1, 2) {
                stats.push("pid_ext");
                v.push(103);
                put_atom(v, p.node.as_str(), r, stats);
                v.extend_from_slice(&p.id.to_be_bytes());
                v.extend_from_slice(&p.serial.to_be_bytes());
                v.push(p.creation as u8);
            } else {
                v.push(88);
                put_atom(v, p.node.as_str(), r, stats);
                v.extend_from_slice(&p.id.to_be_bytes());
                v.extend_from_slice(&p.serial.to_be_bytes());
                v.extend_from_slice(&p.creation.to_be_bytes());
            }
        }
        OwnedTerm::Port(p) => {
            let k = r.below(3);
            if p.id < (1 << 32) && p.creation < 256 && k == 0 {
                stats.push("port_ext");
                v.push(102);
                put_atom(v, p.node.as_str(), r, stats);
                v.extend_from_slice(&(p.id as u32).to_be_bytes());
                v.push(p.creation as u8);
            } else if p.id < (1 << 32) && k <= 1 {
                stats.push("new_port_ext");
                v.push(89);
                put_atom(v, p.node.as_str(), r, stats);
                v.extend_from_slice(&(p.id as u32).to_be_bytes());
                v.extend_from_slice(&p.creation.to_be_bytes());
            } else {
                v.push(120);
                put_atom(v, p.node.as_str(), r, stats);
                v.extend_from_slice(&p.id.to_be_bytes());
                v.extend_from_slice(&p.creation.to_be_bytes());
            }
        }
        OwnedTerm::Reference(x) => {
            let k = r.below(3);
            if x.ids.len() == 1 && x.creation < 256 && k == 0 {
                stats.push("reference_ext");
                v.push(101);
                put_atom(v, x.node.as_str(), r, stats);
                v.extend_from_slice(&x.ids[0].to_be_bytes());
                v.push(x.creation as u8);
            } else if x.creation < 256 && k <= 1 {
                stats.push("new_reference_ext");
                v.push(114);
                v.extend_from_slice(&(x.ids.len() as u16).to_be_bytes());
                put_atom(v, x.node.as_str(), r, stats);
                v.push(x.creation as u8);
                for i in &x.ids {
                    v.extend_from_slice(&i.to_be_bytes());
                }
            } else {
                v.push(90);
                v.extend_from_slice(&(x.ids.len() as u16).to_be_bytes());
                put_atom(v, x.node.as_str(), r, stats);
                v.extend_from_slice(&x.creation.to_be_bytes());
                for i in &x.ids {
                    v.extend_from_slice(&i.to_be_bytes());
                }
            }
        }
        OwnedTerm::ExternalFun(f) => {
            v.push(113);
            put_atom(v, f.module.as_str(), r, stats);
            put_atom(v, f.function.as_str(), r, stats);
            v.push(97);
            v.push(f.arity);
        }
        OwnedTerm::InternalFun(f) => {
            let mut b = vec![f.arity];
            b.extend_from_slice(&f.uniq);
            b.extend_from_slice(&f.index.to_be_bytes());
            b.extend_from_slice(&(f.free_vars.len() as u32).to_be_bytes());
            put_atom(&mut b, f.module.as_str(), r, stats);
            for x in [f.old_index, f.old_uniq] {
                if x < 256 && r.chance(1, 2) {
                    b.push(97);
                    b.push(x as u8);
                } else {
                    b.push(98);
                    b.extend_from_slice(&(x as i32).to_be_bytes());
                }
            }
            alt(&mut b, &OwnedTerm::Pid(f.pid.clone()), r, stats);
            for fv in &f.free_vars {
                alt(&mut b, fv, r, stats);
            }
            v.push(112);
            v.extend_from_slice(&((b.len() + 4) as u32).to_be_bytes());
            v.extend_from_slice(&b);
        }
    }
}

/// strip what only the library's in-memory form has (preserved LOCAL_EXT bytes)
fn plain(t: &OwnedTerm) -> OwnedTerm {
    erltf::decode(&erltf::encode(t).unwrap_or_default()).unwrap_or(OwnedTerm::Nil)
}

pub fn check_bytes(ctx: &mut Ctx, class: &str, bytes: &[u8]) {
    let Some(orc) = oracle_for(bytes) else {
        ctx.count("skipped_oracle_too_large");
        return;
    };
    let (dr, _) = crate::c01::dec_result(bytes);
    ctx.tie("gen", &format!("dec {} {}", hexarg(bytes), orc), &dr);
    // the oracle: the Lean Spec reads the same bytes; the decoded term must denote exactly that value
    ctx.prop(class, &format!("c03 {} {} {}", hexarg(bytes), orc, dr.replace(' ', "~")), "ok");
}

/// `k` wrappers of kind `w` around NIL_EXT: the innermost term sits at nesting depth `k`
fn tower(w: &str, k: usize) -> Vec<u8> {
    let mut b = vec![131u8];
    let mut close: Vec<Vec<u8>> = vec![];
    for _ in 0..k {
        match w {
            "tuple" => b.extend_from_slice(&[104, 1]),
            "large_tuple" => b.extend_from_slice(&[105, 0, 0, 0, 1]),
            "list_elem" => {
                b.extend_from_slice(&[108, 0, 0, 0, 1]);
                close.push(vec![106]);
            }
            "list_tail" => b.extend_from_slice(&[108, 0, 0, 0, 1, 97, 0]),
            "map_key" => {
                b.extend_from_slice(&[116, 0, 0, 0, 1]);
                close.push(vec![97, 0]);
            }
            "map_value" => b.extend_from_slice(&[116, 0, 0, 0, 1, 97, 0]),
            "local" => b.extend_from_slice(&[121, 1, 2, 3, 4, 5, 6, 7, 8]),
            _ => unreachable!(),
        }
    }
    b.push(106);
    for c in close.iter().rev() {
        b.extend_from_slice(c);
    }
    b
}

/// the published limits, from both sides: a valid encoding that stays within them must be decoded (completeness,
/// `C03_valid_is_decoded`); the first one beyond them is pinned by the correspondence and counted
fn limits(ctx: &mut Ctx) {
    // decoder.rs MAX_NESTING_DEPTH (private there; the Lean side uses the regenerated constant, so a change shows up
    // as a disagreement on the `c03lim` lines below)
    let cap = 256usize;
    for w in ["tuple", "large_tuple", "list_elem", "list_tail", "map_key", "map_value", "local"] {
        for (k, side) in [(cap - 1, "within"), (cap, "within"), (cap + 1, "beyond"), (cap + 2, "beyond")] {
            let b = tower(w, k);
            ctx.count(&format!("limit_depth_{}", side));
            ctx.tie("limit", &format!("c03lim {} -", hexarg(&b)), side);
            check_bytes(ctx, "limit", &b);
        }
    }
    // the node atom of an identifier and the parts of a fun are one level deeper than the identifier / fun
    for (k, side) in [(cap - 1, "within"), (cap, "beyond")] {
        for inner in [
            vec![88u8, 119, 1, 97, 0, 0, 0, 1, 0, 0, 0, 2, 0, 0, 0, 3],
            vec![90, 0, 1, 100, 0, 1, 97, 0, 0, 0, 3, 0, 0, 0, 9],
            vec![120, 115, 1, 97, 0, 0, 0, 0, 0, 0, 0, 1, 0, 0, 0, 3],
            vec![113, 119, 1, 109, 119, 1, 102, 97, 2],
        ] {
            let mut b = tower("tuple", k);
            b.pop();
            b.extend_from_slice(&inner);
            ctx.count(&format!("limit_depth_{}", side));
            ctx.tie("limit", &format!("c03lim {} -", hexarg(&b)), side);
            check_bytes(ctx, "limit", &b);
        }
    }
    // forms of the fields whose form the format prescribes: (bytes, side)
    let pid = [88u8, 119, 1, 97, 0, 0, 0, 1, 0, 0, 0, 2, 0, 0, 0, 3];
    let fun = |oi: &[u8], ou: &[u8], pidb: &[u8]| {
        let mut body = vec![2u8];
        body.extend_from_slice(&[7u8; 16]);
        body.extend_from_slice(&[0, 0, 0, 5, 0, 0, 0, 1]);
        body.extend_from_slice(&[119, 1, 109]);
        body.extend_from_slice(oi);
        body.extend_from_slice(ou);
        body.extend_from_slice(pidb);
        body.extend_from_slice(&[97, 9]);
        let mut b = vec![131u8, 112];
        b.extend_from_slice(&((body.len() + 4) as u32).to_be_bytes());
        b.extend_from_slice(&body);
        b
    };
    let mut local_pid = vec![121u8, 1, 2, 3, 4, 5, 6, 7, 8];
    local_pid.extend_from_slice(&pid);
    let mut zero_list_node = vec![131u8, 88, 108, 0, 0, 0, 0, 119, 1, 97];
    zero_list_node.extend_from_slice(&[0, 0, 0, 1, 0, 0, 0, 2, 0, 0, 0, 3]);
    let cases: Vec<(Vec<u8>, &str)> = vec![
        (fun(&[97, 3], &[98, 0, 0, 1, 0], &pid), "within"),
        (fun(&[98, 0, 0, 0, 3], &[97, 4], &pid), "within"),
        (fun(&[110, 1, 0, 3], &[97, 4], &pid), "beyond"),
        (fun(&[97, 3], &[111, 0, 0, 0, 1, 0, 4], &pid), "beyond"),
        (fun(&[97, 3], &[97, 4], &local_pid), "beyond"),
        (fun(&[98, 255, 255, 255, 255], &[97, 4], &pid), "invalid"),
        (vec![131, 113, 119, 1, 109, 119, 1, 102, 98, 0, 0, 0, 255], "within"),
        (vec![131, 113, 119, 1, 109, 119, 1, 102, 98, 0, 0, 1, 0], "invalid"),
        (vec![131, 113, 119, 1, 109, 119, 1, 102, 110, 1, 0, 2], "beyond"),
        (vec![131, 113, 100, 0, 1, 109, 115, 1, 102, 97, 2], "within"),
        (zero_list_node, "beyond"),
        (vec![131, 108, 0, 0, 0, 0, 106], "within"),
        (vec![131, 108, 0, 0, 0, 0, 119, 1, 97], "within"),
        (vec![131, 107, 0, 0], "within"),
        (vec![131, 109, 0, 0, 0, 0], "within"),
        (vec![131, 77, 0, 0, 0, 0, 8], "within"),
        (vec![131, 77, 0, 0, 0, 0, 7], "invalid"),
        (vec![131, 110, 0, 0], "within"),
        (vec![131, 110, 0, 1], "within"),
        (vec![131, 111, 0, 0, 0, 2, 7, 1, 0], "within"),
        (vec![131, 105, 0, 0, 0, 0], "within"),
        (vec![131, 116, 0, 0, 0, 0], "within"),
    ];
    for (b, side) in cases {
        ctx.count(&format!("limit_form_{}", side));
        ctx.tie("limit", &format!("c03lim {} -", hexarg(&b)), side);
        check_bytes(ctx, "limit", &b);
    }
    // bytes after one complete valid term: the error carries their number, for every top-level form
    for head in [vec![106u8], vec![97, 5], vec![104, 0], vec![108, 0, 0, 0, 1, 97, 1, 106], vec![116, 0, 0, 0, 0], vec![109, 0, 0, 0, 1, 9]] {
        for k in 1..=3usize {
            let mut b = vec![131u8];
            b.extend_from_slice(&head);
            b.extend(std::iter::repeat(head[0]).take(k));
            ctx.count("limit_trailing");
            check_bytes(ctx, "limit", &b);
            match erltf::decode(&b) {
                Err(erltf::errors::DecodeError::TrailingData(m)) if m == k => {}
                other => ctx.fail("c03-trailing-ignored", &format!("{} -> {:?}", hex(&b), other.map(|t| term_text(&t)))),
            }
        }
    }
}

pub fn run(ctx: &mut Ctx) {
    limits(ctx);
    let n = ctx.n(1200, 40000);
    let cfg = Cfg { huge: false, local_ids: false, ..Cfg::default() };
    for _ in 0..n {
        let t = gen_term(&mut ctx.rng, &cfg, 0);
        // old_index/old_uniq are written as SMALL_INTEGER/INTEGER: keep them in range (WF), floats finite (WF)
        let _ = plain;
        for _ in 0..2 {
            let mut stats = vec![];
            let mut b = vec![131u8];
            alt(&mut b, &t, &mut ctx.rng, &mut stats);
            for s in stats {
                ctx.count(&format!("form_{}", s));
            }
            // COMPRESSED at top level
            if ctx.rng.chance(1, 6) {
                let mut e = flate2::write::ZlibEncoder::new(Vec::new(), flate2::Compression::default());
                e.write_all(&b[1..]).unwrap();
                let z = e.finish().unwrap();
                let mut c = vec![131u8, 80];
                c.extend_from_slice(&((b.len() - 1) as u32).to_be_bytes());
                c.extend_from_slice(&z);
                b = c;
                ctx.count("form_compressed");
            }
            check_bytes(ctx, "gen", &b);
            // bytes after one complete term are an error, never ignored
            if ctx.rng.chance(1, 4) {
                let mut tb = b.clone();
                let k = 1 + ctx.rng.below(4) as usize;
                tb.extend(ctx.rng.bytes(k));
                match erltf::decode(&tb) {
                    Err(erltf::errors::DecodeError::TrailingData(m)) if m == k => ctx.count("trailing_reported"),
                    Err(_) if b[1] == 80 => ctx.count("trailing_reported"), // a zlib stream followed by junk may fail in inflate
                    other => ctx.fail("c03-trailing-ignored", &format!("{} -> {:?}", hex(&tb), other.map(|t| term_text(&t)))),
                }
                match erltf::decoder::decode_with_trailing(&tb) {
                    Ok((_, rest)) if rest.len() == k => {}
                    Err(_) if b[1] == 80 => {}
                    other => ctx.fail("c03-trailing-ignored", &format!("decode_with_trailing {} -> {:?}", hex(&tb), other.map(|(t, r)| (term_text(&t), r.len())))),
                }
            }
        }
    }
    // legacy (Latin-1) atom tags whose bytes happen to be well-formed UTF-8: each byte is still one character
    for _ in 0..ctx.n(150, 3000) {
        let src = crate::tgen::gen_atom_name(&mut ctx.rng, false);
        let mut raw = src.as_bytes().to_vec();
        if ctx.rng.chance(1, 3) {
            raw.extend_from_slice(*ctx.rng.pick(&[&[0xc3u8, 0xa9][..], &[0xe2, 0x82, 0xac], &[0xf0, 0x9f, 0x98, 0x80], &[0xc2, 0x80], &[0xe9], &[0xc3], &[0xff, 0xfe]]));
        }
        raw.truncate(255);
        let mut b = vec![131u8];
        if ctx.rng.chance(1, 2) {
            b.push(115);
            b.push(raw.len() as u8);
        } else {
            b.push(100);
            b.extend_from_slice(&(raw.len() as u16).to_be_bytes());
        }
        b.extend_from_slice(&raw);
        ctx.count("form_latin1_utf8_shaped");
        // bare, and inside a pid / a tuple
        check_bytes(ctx, "gen", &b);
        let mut t = vec![131u8, 104, 2];
        t.extend_from_slice(&b[1..]);
        t.extend_from_slice(&[88]);
        t.extend_from_slice(&b[1..]);
        t.extend_from_slice(&[0, 0, 0, 1, 0, 0, 0, 2, 0, 0, 0, 3]);
        check_bytes(ctx, "gen", &t);
    }
    // maps whose keys are distinct in Erlang but numerically equal (1 and 1.0): the recorded finding
    let one_f = 1.0f64.to_bits().to_be_bytes();
    let mut m = vec![131u8, 116, 0, 0, 0, 2, 97, 1, 97, 10, 70];
    m.extend_from_slice(&one_f);
    m.extend_from_slice(&[97, 20]);
    check_bytes(ctx, "kf-c03-numeric-key-collision", &m);
    let mut m2 = vec![131u8, 104, 1, 116, 0, 0, 0, 2, 70];
    m2.extend_from_slice(&one_f);
    m2.extend_from_slice(&[119, 1, 97, 98, 0, 0, 0, 1, 119, 1, 98]);
    check_bytes(ctx, "kf-c03-numeric-key-collision", &m2);
    // compressed payloads that declare the wrong size or carry bytes after the term must be refused
    for (inner, declared_delta, tag) in [(vec![97u8, 5], 0i64, "exact"), (vec![97, 5], 1, "short"), (vec![97, 5], -1, "long"), (vec![97, 5, 106], 0, "trailing-inside")] {
        let mut e = flate2::write::ZlibEncoder::new(Vec::new(), flate2::Compression::default());
        e.write_all(&inner).unwrap();
        let z = e.finish().unwrap();
        let mut c = vec![131u8, 80];
        c.extend_from_slice(&((inner.len() as i64 + declared_delta) as u32).to_be_bytes());
        c.extend_from_slice(&z);
        ctx.count(&format!("compressed_{}", tag));
        check_bytes(ctx, "gen", &c);
    }
    // large compressed terms, what term_to_binary(T, [compressed]) emits for a big payload: the zlib stream is longer than
    // any internal buffer of the inflater (flate2 reads its input through a 32 KiB buffer), for payloads that compress
    // badly (noise), well (one repeated byte) and in between (a long list of small integers); every compression level
    // (seeded change S63: the inflated term read with one `read` call, which returns at most what one buffer holds)
    let plan: Vec<(usize, Vec<&str>, Vec<u32>)> = if ctx.thorough {
        vec![(20_000, vec!["noise", "flat", "ints"], vec![0, 1, 6, 9]), (33_000, vec!["noise", "flat", "ints"], vec![0, 1, 6, 9]),
             (70_000, vec!["noise", "flat", "ints"], vec![0, 6]), (300_000, vec!["noise", "ints"], vec![6])]
    } else {
        vec![(33_000, vec!["noise", "flat", "ints"], vec![0, 6]), (70_000, vec!["noise"], vec![9])]
    };
    for (n, kinds, levels) in plan {
        for kind in kinds {
            let t = match kind {
                "noise" => OwnedTerm::Binary(ctx.rng.bytes(n)),
                "flat" => OwnedTerm::Binary(vec![0x61u8; n * 2]),
                _ => OwnedTerm::List((0..n / 4).map(|_| OwnedTerm::Integer((ctx.rng.next() % 100_000) as i64)).collect()),
            };
            let plain_bytes = erltf::encode(&t).unwrap();
            for &level in &levels {
                let mut e = flate2::write::ZlibEncoder::new(Vec::new(), flate2::Compression::new(level));
                e.write_all(&plain_bytes[1..]).unwrap();
                let z = e.finish().unwrap();
                let mut c = vec![131u8, 80];
                c.extend_from_slice(&((plain_bytes.len() - 1) as u32).to_be_bytes());
                c.extend_from_slice(&z);
                ctx.count(&format!("compressed_large_{}", kind));
                if z.len() > 32 * 1024 {
                    ctx.count("compressed_stream_over_32k");
                }
                let Some(orc) = crate::oracle::oracle_for_top_compressed(&c) else { continue };
                let (dr, _) = crate::c01::dec_result(&c);
                ctx.tie("gen", &format!("dec {} {}", hexarg(&c), orc), &dr);
                ctx.prop("gen", &format!("c03 {} {} {}", hexarg(&c), orc, dr.replace(' ', "~")), "ok");
            }
        }
    }
}
