import EdpVerif.Basic.Utf8
/-
Erlang values, as the External Term Format documentation describes what an encoding denotes.
Written from the format, not from the library's code (DESIGN §1 "Spec", Appendix B.1).
-/
namespace Edp

inductive Value where
  | int (i : Int)
  | float (bits : Nat)
  | atom (chars : List Nat)
  /-- a bit-string: whole bytes, the last of which carries `lastBits` (1..8) significant high bits and zero
  padding; the empty bit-string is `bitstr [] 8`; a binary has `lastBits = 8` -/
  | bitstr (bytes : Bytes) (lastBits : Nat)
  | tuple (l : List Value)
  | nil
  /-- a non-empty chain of cons cells ending in `tail` (`nil` for a proper list); canonical when
  `elems ≠ []` and `tail` is not itself a `cons` -/
  | cons (elems : List Value) (tail : Value)
  | map (kvs : List (Value × Value))
  | pid (node : List Nat) (id serial creation : Nat)
  | port (node : List Nat) (id creation : Nat)
  | ref (node : List Nat) (creation : Nat) (ids : List Nat)
  | xfun (m f : List Nat) (arity : Nat)
  | ifun (arity : Nat) (uniq : Bytes) (index numFree : Nat) (m : List Nat) (oldIndex oldUniq : Nat)
         (pid : Value) (free : List Value)
  deriving Repr, BEq, Inhabited

namespace Value

def mkList (es : List Value) (tail : Value) : Value :=
  match es, tail with
  | [], t => t
  | es, .cons es2 t2 => .cons (es ++ es2) t2
  | es, t => .cons es t

/-- zero the unused low bits of the last byte -/
def maskLast : Bytes → Nat → Bytes
  | [], _ => []
  | [b], n => [UInt8.ofNat (b.toNat / 2 ^ (8 - n) * 2 ^ (8 - n))]
  | b :: r, n => b :: maskLast r n

def mkBits (bytes : Bytes) (lastBits : Nat) : Value :=
  if bytes.isEmpty then .bitstr [] 8 else .bitstr (maskLast bytes lastBits) lastBits

def natsText (l : List Nat) : String := ".".intercalate (l.map toString)

mutual
def text : Value → String
  | .int i => "i" ++ toString i
  | .float b => "f" ++ hexOf (be64 b)
  | .atom c => "a(" ++ natsText c ++ ")"
  | .bitstr b n => "b" ++ toString n ++ ":" ++ hexOf b
  | .tuple l => "t[" ++ textL l ++ "]"
  | .nil => "n"
  | .cons l t => "c[" ++ textL l ++ "|" ++ text t ++ "]"
  | .map kvs => "m[" ++ textKV kvs ++ "]"
  | .pid n i s c => "p(" ++ natsText n ++ "," ++ toString i ++ "," ++ toString s ++ "," ++ toString c ++ ")"
  | .port n i c => "o(" ++ natsText n ++ "," ++ toString i ++ "," ++ toString c ++ ")"
  | .ref n c ids => "r(" ++ natsText n ++ "," ++ toString c ++ "," ++ natsText ids ++ ")"
  | .xfun m f a => "x(" ++ natsText m ++ "," ++ natsText f ++ "," ++ toString a ++ ")"
  | .ifun a u i nf m oi ou p fr =>
    "y(" ++ toString a ++ "," ++ hexOf u ++ "," ++ toString i ++ "," ++ toString nf ++ "," ++ natsText m ++ "," ++
      toString oi ++ "," ++ toString ou ++ "," ++ text p ++ ",[" ++ textL fr ++ "])"
def textL : List Value → String
  | [] => ""
  | [v] => text v
  | v :: vs => text v ++ "," ++ textL vs
def textKV : List (Value × Value) → String
  | [] => ""
  | [(k, v)] => text k ++ ">" ++ text v
  | (k, v) :: r => text k ++ ">" ++ text v ++ "," ++ textKV r
end

/-- equality of values where maps are unordered collections of entries (Erlang `=:=`).
Driver-side decision procedure (`partial`; theorems use syntactic equality in stored order). -/
partial def same : Value → Value → Bool
  | .tuple a, .tuple b => a.length == b.length && (a.zip b).all fun (x, y) => same x y
  | .cons a t, .cons b u => a.length == b.length && ((a.zip b).all fun (x, y) => same x y) && same t u
  | .map a, .map b =>
    a.length == b.length &&
      a.all (fun (k, v) => b.any fun (k2, v2) => same k k2 && same v v2) &&
      b.all (fun (k, v) => a.any fun (k2, v2) => same k k2 && same v v2)
  | .ifun a u i nf m oi ou p fr, .ifun a2 u2 i2 nf2 m2 oi2 ou2 p2 fr2 =>
    a == a2 && u == u2 && i == i2 && nf == nf2 && m == m2 && oi == oi2 && ou == ou2 && same p p2 &&
      fr.length == fr2.length && (fr.zip fr2).all fun (x, y) => same x y
  | a, b => a == b

end Value
end Edp
