import EdpVerif.Generated.MiscMailbox
/-!
A process mailbox as what it is in `crates/edp_node/src/mailbox.rs`: a BOUNDED FIFO (`tokio::sync::mpsc::channel(capacity)`),
and the ways a delivery site can hand a message to it (core Lean only, linked into the driver):

* `sender.send(m).await`  — `Form.await`: queued when there is room; the caller is SUSPENDED while the channel is full (its step
  is not enabled until the receiver has taken a message); `Err` only when the receiver is gone;
* `sender.try_send(m)`    — `Form.trySend`: `Err(Full)` at once when the channel is full: the message is not in the mailbox;
* `sender.send_timeout(m, d)` — `Form.timeout`: gives up after `d`; a receiver that does not take a message in time loses it;
* anything else           — `Form.other` (treated like a form that can give up).

Which form every delivery site of the crate uses is regenerated from the source on every run (`Generated/MiscMailbox.lean`
`MAILBOX_DELIVERIES`, `MAILBOX_CHANNEL_OPS`), read here by `siteForm`.
-/
namespace Edp.Chan

inductive Form where
  | await
  | trySend
  | timeout
  | other
  deriving DecidableEq, Repr, Inhabited

/-- the form of a call `x.<method>(..)` followed (or not) by `.await` -/
def Form.ofSource (method : String) (awaited : Bool) : Form :=
  if method = "send" ∧ awaited = true then .await
  else if method = "try_send" then .trySend
  else if method = "send_timeout" then .timeout
  else .other

/-- can a site of this form give up on a full mailbox whose receiver is still there? -/
def Form.givesUp : Form → Bool
  | .await => false
  | _ => true

/-- what offering `m` to a channel does -/
inductive Offer (α : Type) where
  /-- `Ok(())`: the message is the newest of the queue -/
  | queued (q : List α)
  /-- the caller is suspended; nothing has changed -/
  | wait
  /-- an error came back (`Full` / `Timeout`); the message is NOT in the queue -/
  | gaveUp
  /-- the receiver is gone: `Err`, every form -/
  | closed
  deriving Repr

def offer {α : Type} (f : Form) (cap : Nat) (closed : Bool) (q : List α) (m : α) : Offer α :=
  if closed then .closed
  else if q.length < cap then .queued (q ++ [m])
  else if f.givesUp then .gaveUp else .wait

/-- `ProcessHandle::send` is the one function of process.rs that touches `mailbox_sender`; its channel operation -/
def handleSendForm : Form :=
  match Gen.MAILBOX_CHANNEL_OPS.filter (fun e => e.1 = "process.rs" ∧ e.2.2.1 = "self.mailbox_sender") with
  | [(_, fn, _, method, awaited)] => if fn = "send" then Form.ofSource method awaited else .other
  | _ => .other

/-- the form of one delivery as written in the source: a `Message` handed to `ProcessHandle::send` (`.send(..)`, awaited)
has the form of that function's channel operation; handed to anything else it has the form of that call -/
def deliveryForm (e : String × String × String × String × Bool × String) : Form :=
  match e with
  | (_, _, _, method, awaited, _) =>
    if method = "send" ∧ awaited = true then handleSendForm else
    match Form.ofSource method awaited with
    | .await => .other
    | f => f

/-- the deliveries of `variant` written in function `fn` of `file` -/
def deliveriesAt (file fn variant : String) : List (String × String × String × String × Bool × String) :=
  Gen.MAILBOX_DELIVERIES.filter fun e => e.1 = file ∧ e.2.1 = fn ∧ e.2.2.1 = variant

/-- the form of the delivery site `(file, fn, variant)`: `await` only if there is such a site and EVERY delivery written
there waits; otherwise the first form that does not -/
def siteForm (file fn variant : String) : Form :=
  match deliveriesAt file fn variant with
  | [] => .other
  | l => match (l.map deliveryForm).find? (· ≠ .await) with
    | some f => f
    | none => .await

end Edp.Chan
