import EdpVerif.Impl.Procs
/-
C18 — `ProcessRegistry` (crates/edp_node/src/registry.rs) at LOCK granularity.

`Impl/Procs.lean` treats the check-and-claim of `register`, `unregister`, `whereis` and the two halves of the exit path's
`remove` as single atomic steps. This file is the model one level below: the two tables `by_pid` / `by_name`, who holds the
names lock, and a program counter per task; the refinement (Lemmas/RegistryLocks.lean, Props/C18.lean) shows that the ORDER in
which the code takes its locks is what makes the atomic view right.

* The program of every function is INTERPRETED from the event list the translator emits (`tools/gen_misc.py::gen_registry`
  -> `Generated/MiscRegistry.lean`): `parse` turns events into instructions, `step` runs one instruction. Nothing about the
  order of `register` / `remove` is written down here a second time.
* `hold:by_name.write` (a guard bound by `let`) is an acquisition of its own: it BLOCKS while another task holds the names
  and is held to the end of the function (`claim-name` is the last event of `register`; `parse` refuses a list in which it
  is not, and the claim / refusal releases the lock).
* `temp:<table>.<mode>` is the guard of one statement: acquisition, access and release are one atomic step. On `by_name` that
  step is enabled only while no `register` holds the names (a reader waits for a writer, too); on `by_pid` it is always
  enabled, because every guard on `by_pid` in the file is such a temporary.
* a step of a task that is blocked or has finished is a no-op (`run`).

Ghost state: `lin`, the linearization order. Every task appends the atomic operation it stands for at its linearization
point together with that operation's answer: `register` where it reads `by_pid` (under the names lock nothing can change the
names until it claims, so the claim is decided there), `remove` at its drop (for `by_pid`) and at its sweep (for `by_name`),
the one-statement functions at their statement.
-/
namespace Edp.Impl.RegistryLocks
open Edp.Impl.Procs

inductive Instr
  | acqNames     -- `let mut names = self.by_name.write().await;`   blocks while held; released by `claim`
  | checkLive    -- `self.by_pid.read().await.contains_key(&pid)`
  | claim        -- `return Err(ProcessNotFound)` / `names.entry(name)` ... ; the guard drops
  | dropPid      -- `self.by_pid.write().await.remove(pid)`
  | sweep        -- `self.by_name.write().await.retain(|_, owner| owner != pid)`
  | delName      -- `self.by_name.write().await.remove(name)`
  | lookup       -- `self.by_name.read().await.get(name)`
  | insPid       -- `self.by_pid.write().await.insert(pid, handle)`
deriving DecidableEq, Repr

/-- events of one function, as the translator emits them, to its program; `none` for a shape this model has no reading of -/
def parse : List String → Option (List Instr)
  | [] => some []
  | e :: r =>
    if e = "hold:by_name.write" then (parse r).map (Instr.acqNames :: ·)
    else if e = "claim-name" then (if r = [] then some [Instr.claim] else none)
    else match r with
      | [] => none
      | a :: r' =>
        if e = "temp:by_pid.read" ∧ a = "check-live" then (parse r').map (Instr.checkLive :: ·)
        else if e = "temp:by_pid.write" ∧ a = "drop" then (parse r').map (Instr.dropPid :: ·)
        else if e = "temp:by_name.write" ∧ a = "sweep-names" then (parse r').map (Instr.sweep :: ·)
        else if e = "temp:by_name.write" ∧ a = "drop" then (parse r').map (Instr.delName :: ·)
        else if e = "temp:by_name.read" ∧ a = "look-up" then (parse r').map (Instr.lookup :: ·)
        else none

/-- the programs of the four functions that touch the names -/
structure Progs where
  register : List Instr
  remove : List Instr
  unregister : List Instr
  whereis : List Instr
deriving DecidableEq, Repr

def progsOf (reg rm un wh : List String) : Option Progs :=
  match parse reg, parse rm, parse un, parse wh with
  | some a, some b, some c, some d => some ⟨a, b, c, d⟩
  | _, _, _, _ => none

/-- a call of the registry -/
inductive Call
  | register (n : Name) (p : Pid)
  | remove (p : Pid)
  | unregister (n : Name)
  | whereis (n : Name)
  | insert (p : Pid)
deriving DecidableEq, Repr

structure Task where
  name : Name := 0
  pid : Pid := 0
  code : List Instr := []       -- what is left of the function
  live : Bool := false          -- what `contains_key` answered
  res : Option Res := none      -- what the function returned
deriving DecidableEq, Repr

def Call.task (pr : Progs) : Call → Task
  | .register n p => { name := n, pid := p, code := pr.register }
  | .remove p => { pid := p, code := pr.remove }
  | .unregister n => { name := n, code := pr.unregister }
  | .whereis n => { name := n, code := pr.whereis }
  | .insert p => { pid := p, code := [.insPid] }

/-- the atomic operations of the sequential registry (`Procs.Reg`); `remove` is its two halves, as in `Impl/Procs.lean` -/
inductive AOp
  | insert (p : Pid)
  | drop (p : Pid)
  | sweep (p : Pid)
  | register (n : Name) (p : Pid)
  | unregister (n : Name)
  | whereis (n : Name)
deriving DecidableEq, Repr

def AOp.apply (r : Reg) : AOp → Reg × Res
  | .insert p => (r.insert p, .ok)
  | .drop p => ({ r with byPid := pidDel p r.byPid }, .ok)
  | .sweep p => ({ r with byName := nameSweep p r.byName }, .ok)
  | .register n p => r.register n p
  | .unregister n => r.unregister n
  | .whereis n => (r, .found (r.whereis n))

/-- the atomic operations one after the other: final tables and the answers in order -/
def replay (r : Reg) (ops : List AOp) : Reg × List Res :=
  ops.foldl (fun acc o => ((o.apply acc.1).1, acc.2 ++ [(o.apply acc.1).2])) (r, [])

structure St where
  reg : Reg := {}
  holder : Option Tid := none            -- the task that holds `by_name.write()` across statements
  tasks : Tid → Task := fun _ => {}
  lin : List (Tid × AOp × Res) := []     -- ghost: linearization order with the answers

/-- claim or refusal of `register` under the names lock: new names and the answer -/
def claimRes (live : Bool) (n : Name) (p : Pid) (names : List (Name × Pid)) : List (Name × Pid) × Res :=
  if live then
    match nameFind n names with
    | some _ => (names, .taken)
    | none => (names ++ [(n, p)], .ok)
  else (names, .noProc)

/-- one step of task `t`; `none` when it has finished or is blocked -/
def step (st : St) (t : Tid) : Option St :=
  let k := st.tasks t
  match k.code with
  | [] => none
  | .acqNames :: rest =>
    match st.holder with
    | none => some { st with holder := some t, tasks := upd st.tasks t { k with code := rest } }
    | some _ => none
  | .checkLive :: rest =>
    some { st with tasks := upd st.tasks t { k with code := rest, live := decide (k.pid ∈ st.reg.byPid) },
                   lin := st.lin ++ [(t, .register k.name k.pid, (st.reg.register k.name k.pid).2)] }
  | .claim :: rest =>
    if st.holder = some t then
      some { st with reg := { st.reg with byName := (claimRes k.live k.name k.pid st.reg.byName).1 }, holder := none,
                     tasks := upd st.tasks t { k with code := rest, res := some (claimRes k.live k.name k.pid st.reg.byName).2 } }
    else none
  | .dropPid :: rest =>
    some { st with reg := { st.reg with byPid := pidDel k.pid st.reg.byPid },
                   tasks := upd st.tasks t { k with code := rest }, lin := st.lin ++ [(t, .drop k.pid, .ok)] }
  | .sweep :: rest =>
    match st.holder with
    | none => some { st with reg := { st.reg with byName := nameSweep k.pid st.reg.byName },
                             tasks := upd st.tasks t { k with code := rest, res := some .ok },
                             lin := st.lin ++ [(t, .sweep k.pid, .ok)] }
    | some _ => none
  | .delName :: rest =>
    match st.holder with
    | none => some { st with reg := (st.reg.unregister k.name).1,
                             tasks := upd st.tasks t { k with code := rest, res := some (st.reg.unregister k.name).2 },
                             lin := st.lin ++ [(t, .unregister k.name, (st.reg.unregister k.name).2)] }
    | some _ => none
  | .lookup :: rest =>
    match st.holder with
    | none => some { st with tasks := upd st.tasks t { k with code := rest, res := some (.found (st.reg.whereis k.name)) },
                             lin := st.lin ++ [(t, .whereis k.name, .found (st.reg.whereis k.name))] }
    | some _ => none
  | .insPid :: rest =>
    some { st with reg := st.reg.insert k.pid, tasks := upd st.tasks t { k with code := rest, res := some .ok },
                   lin := st.lin ++ [(t, .insert k.pid, .ok)] }

/-- a schedule is a list of task ids; the step of a blocked or finished task is a no-op -/
def run (st : St) (sched : List Tid) : St := sched.foldl (fun st t => (step st t).getD st) st

/-- task `i` is the `i`-th call; every other id is a finished task -/
def init (pr : Progs) (r0 : Reg) (calls : List Call) : St :=
  { reg := r0, tasks := fun t => match calls[t]? with | some c => c.task pr | none => {} }

/-- every task has returned -/
def Quiescent (st : St) : Prop := ∀ t, (st.tasks t).code = []

/-- a `remove` of `p` that has dropped `p` from `by_pid` and has not swept the names yet -/
def Pend (tasks : Tid → Task) (p : Pid) : Prop := ∃ t, (tasks t).code = [.sweep] ∧ (tasks t).pid = p

end Edp.Impl.RegistryLocks
