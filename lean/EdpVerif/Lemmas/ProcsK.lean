import EdpVerif.Impl.ProcsK
/-! Lemmas about the send-form parametrised model (`Impl/ProcsK.lean`): with every site waiting it IS `Impl/Procs.lean`;
a full mailbox suspends the sending step; the receiver's step makes room. Core Lean only. -/
namespace Edp.Impl.ProcsK
open Edp Edp.Impl.Procs Edp.Chan

theorem clientStepK_await (F : Site → Form) (hF : ∀ s, F s = .await) (k : KSt) (t : Tid) :
    clientStepK F k t = (clientStep k.st t).map (⟨·, k.dropped⟩) := by
  unfold clientStepK
  simp only [hF, Form.givesUp, Bool.false_eq_true, and_false, if_false]
  split <;> rfl

theorem procStepK_await (F : Site → Form) (hF : ∀ s, F s = .await) (k : KSt) (p : Pid) (i : Nat) :
    procStepK F k p i = (procStep k.st p i).map (⟨·, k.dropped⟩) := by
  unfold procStepK
  simp only [hF, Form.givesUp, Bool.false_eq_true, and_false, if_false]
  split <;> rfl

theorem stepEvK_await (F : Site → Form) (hF : ∀ s, F s = .await) (k : KSt) (e : Ev) :
    stepEvK F k e = (stepEv k.st e).map (⟨·, k.dropped⟩) := by
  cases e with
  | start t op => rfl
  | cont t => exact clientStepK_await F hF k t
  | «proc» p i => exact procStepK_await F hF k p i

theorem runK_await (F : Site → Form) (hF : ∀ s, F s = .await) (evs : List Ev) (k : KSt) :
    runK F k evs = ⟨run k.st evs, k.dropped⟩ := by
  induction evs generalizing k with
  | nil => rfl
  | cons e es ih =>
    have h1 : runK F k (e :: es) = runK F ((stepEvK F k e).getD k) es := rfl
    have h2 : run k.st (e :: es) = run ((stepEv k.st e).getD k.st) es := rfl
    rw [h1, h2, ih, stepEvK_await F hF]
    cases stepEv k.st e <;> rfl

/-- a client step that sends into `p`: suspended while `p`'s mailbox is full and its receiver is there -/
theorem clientStep_full_blocks (st : St) (t : Tid) (p : Pid) (ht : cTarget (st.cpc t) = some p)
    (hc : (st.procs p).closed = false) (hf : st.cap ≤ (st.procs p).mailbox.length) : clientStep st t = none := by
  have hn : ¬ (st.procs p).mailbox.length < st.cap := by omega
  unfold clientStep
  cases h : st.cpc t <;> simp [h, cTarget] at ht <;> subst ht <;> simp [hc, hn]

/-- … and with room it is enabled and puts exactly one message at the end of `p`'s queue (and of what `p` accepted) -/
theorem clientStep_room_sends (st : St) (t : Tid) (p : Pid) (ht : cTarget (st.cpc t) = some p)
    (hc : (st.procs p).closed = false) (hf : (st.procs p).mailbox.length < st.cap) :
    ∃ st' m, clientStep st t = some st' ∧ (st'.procs p).mailbox = (st.procs p).mailbox ++ [m] ∧
      (st'.procs p).accepted.map (·.2) = (st.procs p).accepted.map (·.2) ++ [m] ∧
      ∀ q, q ≠ p → (st'.procs q).mailbox = (st.procs q).mailbox := by
  unfold clientStep
  cases h : st.cpc t <;> simp [h, cTarget] at ht <;> subst ht <;>
    simp [hc, hf, St.deliver, St.modP, St.ret, St.setC, Proc.push, upd] <;>
    (intro q hq; simp [hq])

theorem procStep_full_blocks (st : St) (q : Pid) (i : Nat) (p : Pid) (ht : pTarget (st.procs q).pc = some p)
    (hc : (st.procs p).closed = false) (hf : st.cap ≤ (st.procs p).mailbox.length) : procStep st q i = none := by
  have hn : ¬ (st.procs p).mailbox.length < st.cap := by omega
  unfold procStep
  cases h : (st.procs q).pc <;> simp [h, pTarget] at ht <;> subst ht <;> simp [hc, hn]

/-- the receiver's step: a process in its loop with a non-empty queue can always step; the step takes the OLDEST message
and nothing else out of the queue, and touches no other process, no client task -/
theorem procStep_recv_makes_room (st : St) (p : Pid) (i : Nat) (m : Msg) (rest : List Msg)
    (hp : (st.procs p).pc = .recv) (hm : (st.procs p).mailbox = m :: rest) :
    ∃ st', procStep st p i = some st' ∧ (st'.procs p).mailbox = rest ∧ (st'.procs p).closed = (st.procs p).closed ∧
      st'.cap = st.cap ∧ st'.cpc = st.cpc ∧ ∀ q, q ≠ p → st'.procs q = st.procs q := by
  unfold procStep
  simp [hp, hm, St.modP, upd]
  intro q hq
  simp [hq]

end Edp.Impl.ProcsK
