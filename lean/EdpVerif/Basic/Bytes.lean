/-
Bytes, big-endian readers/writers and their round-trip lemmas.
Core Lean only (this file is linked into the driver executable).
-/
namespace Edp

abbrev Bytes := List UInt8

/-- `n` as `k` big-endian bytes (value taken mod 256^k, like a Rust `as uN` + `put_uN`). -/
def beN : Nat → Nat → Bytes
  | 0, _ => []
  | k+1, n => UInt8.ofNat (n / 256 ^ k) :: beN k n

/-- read `k` big-endian bytes as a number -/
def rdN : Nat → Bytes → Option (Nat × Bytes)
  | 0, bs => some (0, bs)
  | _+1, [] => none
  | k+1, b :: bs =>
    match rdN k bs with
    | some (v, r) => some (b.toNat * 256 ^ k + v, r)
    | none => none

def be8 (n : Nat) : Bytes := beN 1 n
def be16 (n : Nat) : Bytes := beN 2 n
def be32 (n : Nat) : Bytes := beN 4 n
def be64 (n : Nat) : Bytes := beN 8 n
def rd8 (bs : Bytes) := rdN 1 bs
def rd16 (bs : Bytes) := rdN 2 bs
def rd32 (bs : Bytes) := rdN 4 bs
def rd64 (bs : Bytes) := rdN 8 bs

/-- `take n` in the style of nom's `take`: fails on short input -/
def takeN (n : Nat) (bs : Bytes) : Option (Bytes × Bytes) :=
  if n ≤ bs.length then some (bs.take n, bs.drop n) else none

theorem rdN_lt : ∀ (k : Nat) (bs : Bytes) (v : Nat) (r : Bytes), rdN k bs = some (v, r) → v < 256 ^ k := by
  intro k
  induction k with
  | zero => intro bs v r h; simp [rdN] at h; omega
  | succ k ih =>
    intro bs v r h
    cases bs with
    | nil => simp [rdN] at h
    | cons b bs =>
      simp only [rdN] at h
      cases hr : rdN k bs with
      | none => simp [hr] at h
      | some p =>
        obtain ⟨v', r'⟩ := p
        simp [hr] at h
        have := ih bs v' r' hr
        have hb : b.toNat < 256 := b.toNat_lt
        obtain ⟨h1, _⟩ := h
        subst h1
        rw [Nat.pow_succ]
        calc b.toNat * 256 ^ k + v' < b.toNat * 256 ^ k + 256 ^ k := by omega
          _ = (b.toNat + 1) * 256 ^ k := by rw [Nat.add_mul]; simp
          _ ≤ 256 * 256 ^ k := Nat.mul_le_mul_right _ (by omega)
          _ = 256 ^ k * 256 := Nat.mul_comm _ _

theorem rdN_length : ∀ (k : Nat) (bs : Bytes) (v : Nat) (r : Bytes), rdN k bs = some (v, r) → bs.length = k + r.length := by
  intro k
  induction k with
  | zero => intro bs v r h; simp [rdN] at h; simp [h.2]
  | succ k ih =>
    intro bs v r h
    cases bs with
    | nil => simp [rdN] at h
    | cons b bs =>
      simp only [rdN] at h
      cases hr : rdN k bs with
      | none => simp [hr] at h
      | some p =>
        obtain ⟨v', r'⟩ := p
        simp [hr] at h
        have := ih bs v' r' hr
        obtain ⟨_, h2⟩ := h
        subst h2
        simp [this]; omega

theorem beN_length (k n : Nat) : (beN k n).length = k := by
  induction k with
  | zero => simp [beN]
  | succ k ih => simp [beN, ih]

theorem beN_mod (k : Nat) : ∀ n, beN k n = beN k (n % 256 ^ k) := by
  induction k with
  | zero => intro n; simp [beN]
  | succ j ihj =>
    intro n
    simp only [beN]
    have e1 : n % 256 ^ (j+1) / 256 ^ j = (n / 256 ^ j) % 256 := by
      rw [Nat.pow_succ, Nat.mod_mul_right_div_self]
    have e2 : n % 256 ^ (j+1) % 256 ^ j = n % 256 ^ j := by
      rw [Nat.pow_succ]; exact Nat.mod_mul_right_mod _ _ _
    rw [e1]
    congr 1
    · apply UInt8.toNat_inj.mp; simp
    · rw [ihj n, ihj (n % 256 ^ (j+1)), e2]

/-- reading back what was written: the central codec lemma -/
theorem rdN_beN (k n : Nat) (r : Bytes) (h : n < 256 ^ k) : rdN k (beN k n ++ r) = some (n, r) := by
  induction k generalizing n with
  | zero => simp [beN, rdN]; simp at h; omega
  | succ k ih =>
    simp only [beN, List.cons_append, rdN]
    have hpos : 0 < 256 ^ k := Nat.pow_pos (by omega)
    have hdiv : n / 256 ^ k < 256 := by
      rw [Nat.div_lt_iff_lt_mul hpos]; rw [Nat.pow_succ] at h; rw [Nat.mul_comm]; exact h
    rw [beN_mod k n, ih (n % 256 ^ k) (Nat.mod_lt _ hpos)]
    simp only [UInt8.toNat_ofNat']
    have : n / 256 ^ k % 2 ^ 8 = n / 256 ^ k := Nat.mod_eq_of_lt (by simpa using hdiv)
    rw [this]
    have := Nat.div_add_mod n (256 ^ k)
    rw [Nat.mul_comm] at this
    rw [this]

theorem takeN_append (a r : Bytes) : takeN a.length (a ++ r) = some (a, r) := by
  simp [takeN]

def hexDigit (n : Nat) : Char :=
  if n < 10 then Char.ofNat (48 + n) else Char.ofNat (87 + n)

def hexOf (bs : Bytes) : String :=
  String.ofList (bs.flatMap fun b => [hexDigit (b.toNat / 16), hexDigit (b.toNat % 16)])

def hexVal (c : Char) : Option Nat :=
  if '0' ≤ c ∧ c ≤ '9' then some (c.toNat - 48)
  else if 'a' ≤ c ∧ c ≤ 'f' then some (c.toNat - 87)
  else none

def unhexL : List Char → Option Bytes
  | [] => some []
  | [_] => none
  | a :: b :: r =>
    match hexVal a, hexVal b, unhexL r with
    | some x, some y, some t => some (UInt8.ofNat (x * 16 + y) :: t)
    | _, _, _ => none

def unhex (s : String) : Option Bytes := if s == "-" then some [] else unhexL s.toList

end Edp
