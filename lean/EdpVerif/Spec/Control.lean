import EdpVerif.Impl.Control
import EdpVerif.Impl.Den
/-
The distribution protocol's control messages (erl_dist_protocol, OTP 26/27; DESIGN.md Appendix B.3), written from
the protocol and not from the library: tag number, protocol name, the elements of the control tuple after the tag,
and what (if anything) follows the control tuple as a separate term.

This table *is* the oracle of the numbering theorem.  It also fixes the two name correspondences a comparison with
the library needs (which `ControlMessage` variant implements which operation; which struct field plays which role).
-/
namespace Edp.Spec

structure CtlOp where
  tag : Nat
  name : String
  /-- roles of the tuple elements after the tag, in order -/
  fields : List String
  /-- the term that follows the control tuple, if the operation has one -/
  payload : Option String := none
  /-- other layouts accepted by the comparison (see `controlTable`, SPAWN_REQUEST) -/
  alt : List (List String) := []
  deriving Repr, DecidableEq

def controlTable : List CtlOp := [
  { tag := 1,  name := "LINK", fields := ["FromPid", "ToPid"] },
  { tag := 2,  name := "SEND", fields := ["Unused", "ToPid"], payload := some "Message" },
  { tag := 3,  name := "EXIT", fields := ["FromPid", "ToPid", "Reason"] },
  { tag := 4,  name := "UNLINK", fields := ["FromPid", "ToPid"] },
  { tag := 5,  name := "NODE_LINK", fields := [] },
  { tag := 6,  name := "REG_SEND", fields := ["FromPid", "Unused", "ToName"], payload := some "Message" },
  { tag := 7,  name := "GROUP_LEADER", fields := ["FromPid", "ToPid"] },
  { tag := 8,  name := "EXIT2", fields := ["FromPid", "ToPid", "Reason"] },
  { tag := 12, name := "SEND_TT", fields := ["Unused", "ToPid", "TraceToken"], payload := some "Message" },
  { tag := 13, name := "EXIT_TT", fields := ["FromPid", "ToPid", "TraceToken", "Reason"] },
  { tag := 16, name := "REG_SEND_TT", fields := ["FromPid", "Unused", "ToName", "TraceToken"], payload := some "Message" },
  { tag := 18, name := "EXIT2_TT", fields := ["FromPid", "ToPid", "TraceToken", "Reason"] },
  { tag := 19, name := "MONITOR_P", fields := ["FromPid", "ToProc", "Ref"] },
  { tag := 20, name := "DEMONITOR_P", fields := ["FromPid", "ToProc", "Ref"] },
  { tag := 21, name := "MONITOR_P_EXIT", fields := ["FromProc", "ToPid", "Ref", "Reason"] },
  { tag := 22, name := "SEND_SENDER", fields := ["FromPid", "ToPid"], payload := some "Message" },
  { tag := 23, name := "SEND_SENDER_TT", fields := ["FromPid", "ToPid", "TraceToken"], payload := some "Message" },
  { tag := 24, name := "PAYLOAD_EXIT", fields := ["FromPid", "ToPid"], payload := some "Reason" },
  { tag := 25, name := "PAYLOAD_EXIT_TT", fields := ["FromPid", "ToPid", "TraceToken"], payload := some "Reason" },
  { tag := 26, name := "PAYLOAD_EXIT2", fields := ["FromPid", "ToPid"], payload := some "Reason" },
  { tag := 27, name := "PAYLOAD_EXIT2_TT", fields := ["FromPid", "ToPid", "TraceToken"], payload := some "Reason" },
  { tag := 28, name := "PAYLOAD_MONITOR_P_EXIT", fields := ["FromProc", "ToPid", "Ref"], payload := some "Reason" },
  -- SPAWN_REQUEST: the protocol carries ArgList as the payload (arity 6 / 7).  The library keeps `arg_list` inside
  -- the control tuple (arity 7 / 8).  Appendix B.3 holds that difference with low confidence, so the layout with
  -- ArgList before OptList is listed as an accepted alternative and is NOT reported.
  { tag := 29, name := "SPAWN_REQUEST", fields := ["ReqId", "From", "GroupLeader", "MFA", "OptList"],
    payload := some "ArgList", alt := [["ReqId", "From", "GroupLeader", "MFA", "ArgList", "OptList"]] },
  { tag := 30, name := "SPAWN_REQUEST_TT", fields := ["ReqId", "From", "GroupLeader", "MFA", "OptList", "TraceToken"],
    payload := some "ArgList", alt := [["ReqId", "From", "GroupLeader", "MFA", "ArgList", "OptList", "TraceToken"]] },
  { tag := 31, name := "SPAWN_REPLY", fields := ["ReqId", "To", "Flags", "Result"] },
  { tag := 32, name := "SPAWN_REPLY_TT", fields := ["ReqId", "To", "Flags", "Result", "TraceToken"] },
  { tag := 33, name := "ALIAS_SEND", fields := ["FromPid", "Alias"], payload := some "Message" },
  { tag := 34, name := "ALIAS_SEND_TT", fields := ["FromPid", "Alias", "TraceToken"], payload := some "Message" },
  { tag := 35, name := "UNLINK_ID", fields := ["Id", "FromPid", "ToPid"] },
  { tag := 36, name := "UNLINK_ID_ACK", fields := ["Id", "FromPid", "ToPid"] }]

/-- the role whose value is an integer `0 ≤ id < 2^64` rather than an arbitrary term -/
def idRole : String := "Id"

/-- which protocol operation a `ControlMessage` variant implements -/
def opOfVariant : List (String × String) := [
  ("Link", "LINK"), ("Send", "SEND"), ("Exit", "EXIT"), ("Unlink", "UNLINK"), ("NodeLink", "NODE_LINK"),
  ("RegSend", "REG_SEND"), ("GroupLeader", "GROUP_LEADER"), ("Exit2", "EXIT2"), ("SendTt", "SEND_TT"),
  ("ExitTt", "EXIT_TT"), ("RegSendTt", "REG_SEND_TT"), ("Exit2Tt", "EXIT2_TT"), ("MonitorP", "MONITOR_P"),
  ("DemonitorP", "DEMONITOR_P"), ("MonitorPExit", "MONITOR_P_EXIT"), ("SendSender", "SEND_SENDER"),
  ("SendSenderTt", "SEND_SENDER_TT"), ("PayloadExit", "PAYLOAD_EXIT"), ("PayloadExitTt", "PAYLOAD_EXIT_TT"),
  ("PayloadExit2", "PAYLOAD_EXIT2"), ("PayloadExit2Tt", "PAYLOAD_EXIT2_TT"),
  ("PayloadMonitorPExit", "PAYLOAD_MONITOR_P_EXIT"), ("SpawnRequest", "SPAWN_REQUEST"),
  ("SpawnRequestTt", "SPAWN_REQUEST_TT"), ("SpawnReply", "SPAWN_REPLY"), ("SpawnReplyTt", "SPAWN_REPLY_TT"),
  ("AliasSend", "ALIAS_SEND"), ("AliasSendTt", "ALIAS_SEND_TT"), ("UnlinkId", "UNLINK_ID"),
  ("UnlinkIdAck", "UNLINK_ID_ACK")]

/-- which protocol role a struct field of the library plays -/
def roleOfField : List (String × String) := [
  ("from_pid", "FromPid"), ("to_pid", "ToPid"), ("cookie", "Unused"), ("reason", "Reason"), ("to_name", "ToName"),
  ("trace_token", "TraceToken"), ("to_proc", "ToProc"), ("from_proc", "FromProc"), ("reference", "Ref"),
  ("req_id", "ReqId"), ("from", "From"), ("group_leader", "GroupLeader"), ("mfa", "MFA"), ("arg_list", "ArgList"),
  ("opt_list", "OptList"), ("to", "To"), ("flags", "Flags"), ("result", "Result"), ("alias", "Alias"), ("id", "Id")]

def findOp (name : String) : Option CtlOp := controlTable.find? (fun o => o.name = name)

def opOfTagArity (tag arity : Nat) : Option CtlOp :=
  controlTable.find? (fun o => o.tag = tag ∧ (o.fields.length + 1 = arity ∨ o.alt.any (fun l => l.length + 1 = arity)))

open Edp.Control in
/-- the role of the field a parser arm fills from tuple element `k` (`"?"` when none / unknown field) -/
def roleAt (a : FromArm) (k : Nat) : String :=
  match a.fields.find? (fun p => p.2.idx = k) with
  | some p => (lookup roleOfField p.1).getD "?"
  | none => "?"

open Edp.Control in
/-- roles of the elements `1 .. arity-1` as the library's parser arm reads them -/
def libRoles (a : FromArm) : List String := (List.range (a.arity - 1)).map (fun k => roleAt a (k + 1))

open Edp.Control in
/-- the library's variant (as extracted into `tbl`) uses the protocol's tag, arity and element order, and reads
exactly the `Id` element as a `u64` -/
def agrees (tbl : Table) (a : FromArm) : Bool :=
  match lookup opOfVariant a.variant with
  | none => false
  | some pn =>
    match findOp pn with
    | none => false
    | some op =>
      decide (enumDisc tbl a.ty = some op.tag) &&
      (decide (libRoles a = op.fields) || op.alt.contains (libRoles a)) &&
      decide (a.fields.length + 1 = a.arity) &&
      a.fields.all (fun p => decide ((lookup roleOfField p.1 = some idRole) ↔ (p.2 = .uid p.2.idx)))

/-! ### the property evaluated on observed behaviour (oracle for the harness' `P` lines) -/

/-- position of the `Id` element of the operation with this tag and arity, if it has one -/
def idPos (tag arity : Nat) : Option Nat :=
  match opOfTagArity tag arity with
  | some op => if op.fields.length + 1 = arity then (op.fields.idxOf? idRole).map (· + 1) else none
  | none => none

/-- the integer a term stands for, if it is an integer term (`Integer` or `BigInt`) -/
def intOf (t : Term) : Option Int := Edp.Control.intOf t

open Edp.Control in
/-- every element the library's parser arm reads as a `u64` id is the protocol's `Id` element of the operation with
that tag and arity -/
def idsAtSpec (tbl : Table) (a : FromArm) : Bool :=
  a.fields.all fun p =>
    match p.2 with
    | .elem _ => true
    | .uid k =>
      match enumDisc tbl a.ty with
      | some d => decide (idPos d a.arity = some k)
      | none => false

/-- is `t` a control tuple the protocol allows: a tuple headed by `Integer 0..255`; and if the operation has an `Id`
element, that element stands for an integer `0 ≤ id < 2^64` (as `Integer` or as `BigInt`, any digit count) -/
inductive Shape where
  | notControl
  | badId
  | control
  deriving Repr, DecidableEq

def shape : Term → Shape
  | .tuple (.int i :: rest) =>
    if 0 ≤ i ∧ i ≤ 255 then
      match idPos i.toNat (rest.length + 1) with
      | none => .control
      | some k =>
        match (Term.int i :: rest)[k]? with
        | some e =>
          match intOf e with
          | some v => if 0 ≤ v ∧ v < 2 ^ 64 then .control else .badId
          | none => .badId
        | none => .badId
    else .notControl
  | _ => .notControl

end Edp.Spec
