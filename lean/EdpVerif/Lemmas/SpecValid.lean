import EdpVerif.Lemmas.Reencode
import EdpVerif.Spec.Etf
/-! The encoder's output is read by the independent spec reader as the term's value (C01 validity, C14 reuse). -/
namespace Edp
open Term

theorem leVal_eq_magVal (d : Bytes) : Spec.leVal d = magVal d := by
  induction d with
  | nil => rfl
  | cons b r ih => simp [Spec.leVal, magVal, ih]

theorem rdN_byte (n : Nat) (r : Bytes) (h : n < 256) : rdN 1 (UInt8.ofNat n :: r) = some (n, r) := by
  have := rdN_beN 1 n r (by simpa using h)
  simpa [beN] using this

theorem rdN_be8 (n : Nat) (r : Bytes) (h : n < 256) : rdN 1 (be8 n ++ r) = some (n, r) := rdN_beN 1 n r (by simpa using h)
theorem rdN_be16 (n : Nat) (r : Bytes) (h : n < 65536) : rdN 2 (be16 n ++ r) = some (n, r) := rdN_beN 2 n r (by simpa using h)
theorem rdN_be32 (n : Nat) (r : Bytes) (h : n < 4294967296) : rdN 4 (be32 n ++ r) = some (n, r) := rdN_beN 4 n r (by simpa using h)
theorem rdN_be64 (n : Nat) (r : Bytes) (h : n < 18446744073709551616) : rdN 8 (be64 n ++ r) = some (n, r) :=
  rdN_beN 8 n r (by simpa using h)

theorem takeN_of_length (n : Nat) (a r : Bytes) (h : a.length = n) : takeN n (a ++ r) = some (a, r) := by
  subst h; exact takeN_append a r

theorem utf8_cps (a : Bytes) (h : validUtf8 a = true) : utf8Decode a = some (cps a) := by
  unfold validUtf8 at h; unfold cps
  cases hd : utf8Decode a with
  | none => simp [hd] at h
  | some c => simp

theorem spec_atom (env : Spec.Env) (cache : List Bytes) (a bs r : Bytes) (fuel : Nat)
    (hrefs : env.refs = cache.map cps) (hlen : cache.length ≤ 256) (hu : validUtf8 a = true)
    (h : encAtom cache a = .ok bs) :
    Spec.parse env (fuel + 1) (bs ++ r) = some (.atom (cps a), r) := by
  rcases enc_atomC_ok cache a bs h with ⟨i, hi, rfl⟩ | ⟨_, hl, rfl⟩ | ⟨_, hl, hl2, rfl⟩
  · have hi256 : i < 256 := by have := indexOf?_lt a cache i hi; omega
    have hg := indexOf?_get a cache i hi
    simp only [List.cons_append, List.nil_append]
    rw [Spec.parse.eq_3]
    simp [rdN_byte i r hi256, hrefs, hg]
  · simp only [List.cons_append, List.append_assoc]
    rw [Spec.parse.eq_3]
    simp [rdN_be8 a.length (a ++ r) (by omega), takeN_append, utf8_cps a hu]
  · simp only [List.cons_append, List.append_assoc]
    rw [Spec.parse.eq_3]
    simp [rdN_be16 a.length (a ++ r) (by omega), takeN_append, utf8_cps a hu]

theorem spec_int (env : Spec.Env) (v : Int) (r : Bytes) (fuel : Nat)
    (hv : -9223372036854775808 ≤ v ∧ v ≤ 9223372036854775807) :
    Spec.parse env (fuel + 1) (encInt v ++ r) = some (.int v, r) := by
  unfold encInt
  by_cases h1 : 0 ≤ v ∧ v ≤ 255
  · simp only [h1, and_self, ↓reduceIte, List.cons_append, List.nil_append]
    rw [Spec.parse.eq_3]
    have hn : v.toNat < 256 := by omega
    simp [rdN_byte v.toNat r hn]
    omega
  · by_cases h2 : -2147483648 ≤ v ∧ v ≤ 2147483647
    · simp only [h1, h2, and_self, ↓reduceIte, List.cons_append]
      rw [Spec.parse.eq_3]
      have hlt : (v % 4294967296).toNat < 4294967296 := by omega
      simp [rdN_be32 _ r hlt, Spec.i32]
      split <;> omega
    · simp only [h1, h2, ↓reduceIte, List.cons_append]
      rw [Spec.parse.eq_3]
      have hlen : 1 ≤ (leN 8 v.natAbs).length := by simp [leN_length]
      have hs := sigLen_le (leN 8 v.natAbs) hlen
      have hs8 : sigLen (leN 8 v.natAbs) ≤ 8 := by simpa [leN_length] using hs
      have hn : sigLen (leN 8 v.natAbs) < 256 := by omega
      have htl : ((leN 8 v.natAbs).take (sigLen (leN 8 v.natAbs))).length = sigLen (leN 8 v.natAbs) := by
        simp [leN_length]; omega
      have hval : magVal ((leN 8 v.natAbs).take (sigLen (leN 8 v.natAbs))) = v.natAbs := by
        rw [magVal_take_sigLen, magVal_leN]; exact Nat.mod_eq_of_lt (by omega)
      by_cases hneg : v ≥ 0
      · have e0 : rdN 1 ((0 : UInt8) :: ((leN 8 v.natAbs).take (sigLen (leN 8 v.natAbs)) ++ r)) = some (0, _) := rdN_byte 0 _ (by omega)
        simp [rdN_byte _ _ hn, hneg, e0, takeN_of_length _ _ r htl, leVal_eq_magVal, hval]
        omega
      · have e1 : rdN 1 ((1 : UInt8) :: ((leN 8 v.natAbs).take (sigLen (leN 8 v.natAbs)) ++ r)) = some (1, _) := rdN_byte 1 _ (by omega)
        simp [rdN_byte _ _ hn, hneg, e1, takeN_of_length _ _ r htl, leVal_eq_magVal, hval]
        omega

theorem spec_big (env : Spec.Env) (neg : Bool) (dg r : Bytes) (fuel : Nat) (hl : dg.length < 4294967296) :
    Spec.parse env (fuel + 1) (encBig neg dg ++ r) = some (.int (bigVal neg dg), r) := by
  unfold encBig
  have es : rdN 1 ((if neg then (1 : UInt8) else 0) :: (dg ++ r)) = some (if neg then 1 else 0, dg ++ r) := by
    cases neg
    · exact rdN_byte 0 _ (by omega)
    · exact rdN_byte 1 _ (by omega)
  by_cases h255 : dg.length ≤ 255
  · simp only [h255, ↓reduceIte, List.cons_append, List.append_assoc]
    rw [Spec.parse.eq_3]
    simp only [show (110 : UInt8).toNat = 110 by decide]
    rw [rdN_be8 _ _ (by omega)]
    simp only [es, takeN_append, Option.map_some, leVal_eq_magVal, bigVal]
    cases neg <;> simp
  · simp only [h255, ↓reduceIte, List.cons_append, List.append_assoc]
    rw [Spec.parse.eq_3]
    simp only [show (111 : UInt8).toNat = 111 by decide]
    rw [rdN_be32 _ _ hl]
    simp only [es, takeN_append, Option.map_some, leVal_eq_magVal, bigVal]
    cases neg <;> simp


def finiteF (b : Nat) : Bool := !(b / 2 ^ 52 % 2048 == 2047)

mutual
/-- no NaN and no infinity among the floats (they are not Erlang floats; the encoder writes them all the same) -/
def finiteFloats : Term → Bool
  | .float b => finiteF b
  | .list l => finiteFloatsL l
  | .ilist l t => finiteFloatsL l && finiteFloats t
  | .map kvs => finiteFloatsKV kvs
  | .tuple l => finiteFloatsL l
  | .ifun _ _ _ _ _ _ _ _ fr => finiteFloatsL fr
  | _ => true
def finiteFloatsL : List Term → Bool
  | [] => true
  | t :: ts => finiteFloats t && finiteFloatsL ts
def finiteFloatsKV : List (Term × Term) → Bool
  | [] => true
  | (k, v) :: r => finiteFloats k && finiteFloats v && finiteFloatsKV r
end

theorem spec_rdWords_map (ids : List Nat) (r : Bytes) (h : ∀ i ∈ ids, i < 4294967296) :
    Spec.rdWords ids.length ((ids.map be32).flatten ++ r) = some (ids, r) := by
  induction ids with
  | nil => simp [Spec.rdWords]
  | cons i ids ih =>
    have hi := h i (by simp)
    have := ih (fun j hj => h j (by simp [hj]))
    simp [Spec.rdWords, rdN_be32 i _ hi, this]

theorem rdN_be32_mod (n : Nat) (r : Bytes) : rdN 4 (be32 n ++ r) = some (n % 4294967296, r) := by
  have h := rdN_be32 (n % 4294967296) r (Nat.mod_lt _ (by omega))
  have e : be32 (n % 4294967296) = be32 n := by
    unfold be32; exact (beN_mod 4 n).symm
  rw [e] at h; exact h

theorem spec_pid (env : Spec.Env) (cache : List Bytes) (hrefs : env.refs = cache.map cps) (hlen : cache.length ≤ 256)
    (p : PidF) (bs r : Bytes) (fuel : Nat) (hw : wfPid p = true) (h : encPid cache p = .ok bs) :
    Spec.parse env (fuel + 2) (bs ++ r) = some (.pid (cps p.node) p.id p.serial p.creation, r) := by
  obtain ⟨node, id, serial, creation, loc⟩ := p
  simp only [wfPid, Bool.and_eq_true, decide_eq_true_eq, Option.isNone_iff_eq_none] at hw
  obtain ⟨⟨⟨⟨hu, h1⟩, h2⟩, h3⟩, h4⟩ := hw
  subst h4
  simp only [encPid] at h
  cases ha : encAtom cache node with
  | error e => simp [ha] at h
  | ok ab =>
    simp [ha] at h; subst h
    simp only [List.cons_append, List.append_assoc]
    rw [Spec.parse.eq_3]
    have hat := spec_atom env cache node ab (be32 id ++ (be32 serial ++ (be32 creation ++ r))) fuel hrefs hlen hu ha
    simp [hat, rdN_be32 _ _ h1, rdN_be32 _ _ h2, rdN_be32 _ _ h3]

theorem spec_port (env : Spec.Env) (cache : List Bytes) (hrefs : env.refs = cache.map cps) (hlen : cache.length ≤ 256)
    (n : Bytes) (i c : Nat) (bs r : Bytes) (fuel : Nat)
    (hw : wfT (.port n i c none) = true) (h : encPort cache n i c none = .ok bs) :
    Spec.parse env (fuel + 2) (bs ++ r) = some (.port (cps n) i c, r) := by
  simp only [wfT, Bool.and_eq_true, decide_eq_true_eq, Option.isNone_none, and_true] at hw
  obtain ⟨⟨hu, h1⟩, h2⟩ := hw
  simp only [encPort] at h
  cases ha : encAtom cache n with
  | error e => simp [ha] at h
  | ok ab =>
    simp [ha] at h; subst h
    simp only [List.cons_append, List.append_assoc]
    rw [Spec.parse.eq_3]
    have hat := spec_atom env cache n ab (be64 i ++ (be32 c ++ r)) fuel hrefs hlen hu ha
    simp [hat, rdN_be64 _ _ h1, rdN_be32 _ _ h2]

theorem spec_ref (env : Spec.Env) (cache : List Bytes) (hrefs : env.refs = cache.map cps) (hlen : cache.length ≤ 256)
    (n : Bytes) (c : Nat) (ids : List Nat) (bs r : Bytes) (fuel : Nat)
    (hw : wfT (.ref n c ids none) = true) (h : encRef cache n c ids none = .ok bs) :
    Spec.parse env (fuel + 2) (bs ++ r) = some (.ref (cps n) c ids, r) := by
  simp only [wfT, Bool.and_eq_true, decide_eq_true_eq, Option.isNone_none, and_true, List.all_eq_true] at hw
  obtain ⟨⟨hu, h1⟩, h2⟩ := hw
  simp only [encRef] at h
  by_cases hl : ids.length > u16max
  · simp [hl] at h
  · simp only [hl, ↓reduceIte] at h
    cases ha : encAtom cache n with
    | error e => simp [ha] at h
    | ok ab =>
      simp [ha] at h; subst h
      have hl' : ids.length < 65536 := by simp [u16max] at hl; omega
      simp only [List.cons_append, List.append_assoc]
      rw [Spec.parse.eq_3]
      have hat := spec_atom env cache n ab (be32 c ++ ((ids.map be32).flatten ++ r)) fuel hrefs hlen hu ha
      simp [hat, rdN_be16 _ _ hl', rdN_be32 _ _ h1, spec_rdWords_map ids r h2]

theorem spec_xfun (env : Spec.Env) (cache : List Bytes) (hrefs : env.refs = cache.map cps) (hlen : cache.length ≤ 256)
    (m f : Bytes) (a : Nat) (bs r : Bytes) (fuel : Nat)
    (hw : wfT (.xfun m f a) = true) (h : enc cache (.xfun m f a) = .ok bs) :
    Spec.parse env (fuel + 2) (bs ++ r) = some (.xfun (cps m) (cps f) a, r) := by
  simp only [wfT, Bool.and_eq_true, decide_eq_true_eq] at hw
  obtain ⟨⟨hm, hf⟩, ha⟩ := hw
  simp only [enc] at h
  cases hma : encAtom cache m with
  | error e => simp [hma] at h
  | ok mb =>
    cases hfa : encAtom cache f with
    | error e => simp [hma, hfa] at h
    | ok fb =>
      simp [hma, hfa] at h; subst h
      simp only [List.cons_append, List.append_assoc]
      rw [Spec.parse.eq_3]
      have h1 := spec_atom env cache m mb (fb ++ (encInt a ++ r)) fuel hrefs hlen hm hma
      have h2 := spec_atom env cache f fb (encInt a ++ r) fuel hrefs hlen hf hfa
      have h3 := spec_int env (a : Int) r fuel (by omega)
      simp [h1, h2, h3]
      omega


theorem mkBits8 (b : Bytes) : Value.mkBits b 8 = den (.bin b) := rfl

mutual
theorem spec_enc (env : Spec.Env) (cache : List Bytes) (hrefs : env.refs = cache.map cps) (hlen : cache.length ≤ 256)
    (t : Term) (bs r : Bytes) (fuel : Nat)
    (hw : wfT t = true) (hfin : finiteFloats t = true) (he : enc cache t = .ok bs) (hsz : bs.length < 4294967296)
    (hf : tsz t ≤ fuel) :
    Spec.parse env fuel (bs ++ r) = some (den t, r) := by
  match t with
  | .atom a =>
    simp only [tsz] at hf; obtain ⟨f, rfl⟩ : ∃ f, fuel = f + 1 := ⟨fuel - 1, by omega⟩
    simp only [wfT] at hw; simp only [enc] at he
    have := spec_atom env cache a bs r f hrefs hlen hw he
    simpa [den] using this
  | .int i =>
    simp only [tsz] at hf; obtain ⟨f, rfl⟩ : ∃ f, fuel = f + 1 := ⟨fuel - 1, by omega⟩
    simp only [wfT, decide_eq_true_eq] at hw; simp only [enc, Except.ok.injEq] at he
    subst he
    simpa [den] using spec_int env i r f hw
  | .float b =>
    simp only [tsz] at hf; obtain ⟨f, rfl⟩ : ∃ f, fuel = f + 1 := ⟨fuel - 1, by omega⟩
    simp only [wfT, decide_eq_true_eq] at hw; simp only [enc, Except.ok.injEq] at he
    subst he
    simp only [finiteFloats, finiteF, Bool.not_eq_true', beq_eq_false_iff_ne, ne_eq] at hfin
    rw [List.cons_append, Spec.parse.eq_3]
    simp [rdN_be64 b r hw, den]
    exact hfin
  | .bin b =>
    simp only [tsz] at hf; obtain ⟨f, rfl⟩ : ∃ f, fuel = f + 1 := ⟨fuel - 1, by omega⟩
    simp only [enc, encBinary] at he
    split at he <;> simp at he
    rename_i hl; subst he
    have h32 : b.length < 4294967296 := by simp [u32max] at hl; omega
    simp only [List.cons_append, List.append_assoc]
    rw [Spec.parse.eq_3]
    simp [rdN_be32 _ _ h32, takeN_append, den]
  | .str b =>
    simp only [tsz] at hf; obtain ⟨f, rfl⟩ : ∃ f, fuel = f + 1 := ⟨fuel - 1, by omega⟩
    simp only [enc, encBinary] at he
    split at he <;> simp at he
    rename_i hl; subst he
    have h32 : b.length < 4294967296 := by simp [u32max] at hl; omega
    simp only [List.cons_append, List.append_assoc]
    rw [Spec.parse.eq_3]
    simp [rdN_be32 _ _ h32, takeN_append, den]
  | .bits b n =>
    simp only [tsz] at hf; obtain ⟨f, rfl⟩ : ∃ f, fuel = f + 1 := ⟨fuel - 1, by omega⟩
    simp only [wfT, Bool.and_eq_true, decide_eq_true_eq, Bool.or_eq_true, Bool.not_eq_true', beq_iff_eq] at hw
    simp only [enc, encBits] at he
    split at he <;> simp at he
    rename_i hl; subst he
    have h32 : b.length < 4294967296 := by simp [u32max] at hl; omega
    have hn8 : n < 256 := by omega
    have hz : ¬ (n = 0 ∨ 8 < n) := by omega
    have h0 : b = [] → n = 8 := by
      intro hb; subst hb; simpa using hw.1.2
    simp only [List.cons_append, List.append_assoc]
    rw [Spec.parse.eq_3]
    simp [rdN_be32 _ _ h32, rdN_byte n (b ++ r) hn8, takeN_append, den]
    exact ⟨by omega, h0⟩
  | .big neg dg =>
    simp only [tsz] at hf; obtain ⟨f, rfl⟩ : ∃ f, fuel = f + 1 := ⟨fuel - 1, by omega⟩
    simp only [wfT, decide_eq_true_eq] at hw; simp only [enc, Except.ok.injEq] at he
    subst he
    simpa [den] using spec_big env neg dg r f hw
  | .nil =>
    simp only [tsz] at hf; obtain ⟨f, rfl⟩ : ∃ f, fuel = f + 1 := ⟨fuel - 1, by omega⟩
    simp only [enc, Except.ok.injEq] at he
    subst he
    rw [List.cons_append, Spec.parse.eq_3]
    simp [den]
  | .pid p =>
    simp only [tsz] at hf; obtain ⟨f, rfl⟩ : ∃ f, fuel = f + 2 := ⟨fuel - 2, by omega⟩
    simp only [wfT] at hw; simp only [enc] at he
    simpa [den] using spec_pid env cache hrefs hlen p bs r f hw he
  | .port n i c l =>
    simp only [tsz] at hf; obtain ⟨f, rfl⟩ : ∃ f, fuel = f + 2 := ⟨fuel - 2, by omega⟩
    have hl : l = none := by
      simp only [wfT, Bool.and_eq_true, Option.isNone_iff_eq_none] at hw; exact hw.2
    subst hl
    simp only [enc] at he
    simpa [den] using spec_port env cache hrefs hlen n i c bs r f hw he
  | .ref n c ids l =>
    simp only [tsz] at hf; obtain ⟨f, rfl⟩ : ∃ f, fuel = f + 2 := ⟨fuel - 2, by omega⟩
    have hl : l = none := by
      simp only [wfT, Bool.and_eq_true, Option.isNone_iff_eq_none] at hw; exact hw.2
    subst hl
    simp only [enc] at he
    simpa [den] using spec_ref env cache hrefs hlen n c ids bs r f hw he
  | .xfun m fn a =>
    simp only [tsz] at hf; obtain ⟨f, rfl⟩ : ∃ f, fuel = f + 2 := ⟨fuel - 2, by omega⟩
    simpa [den] using spec_xfun env cache hrefs hlen m fn a bs r f hw he
  | .tuple l =>
    simp only [tsz] at hf; obtain ⟨f, rfl⟩ : ∃ f, fuel = f + 1 := ⟨fuel - 1, by omega⟩
    simp only [wfT, Bool.and_eq_true, decide_eq_true_eq] at hw
    simp only [finiteFloats] at hfin
    simp only [enc] at he
    cases hl : encL cache l with
    | error e => simp only [hl] at he; (repeat' split at he) <;> simp at he
    | ok lb =>
      have hlb : lb.length < 4294967296 := by
        simp only [hl] at he; (repeat' split at he) <;> simp at he <;> subst he <;> simp at hsz <;> omega
      have ih := fun r' => specN_encL env cache hrefs hlen l lb r' f hw.2 hfin hl hlb (by omega)
      by_cases h255 : l.length ≤ 255
      · simp [hl, h255] at he; subst he
        simp only [List.cons_append, List.append_assoc]
        rw [Spec.parse.eq_3]
        simp [rdN_be8 _ _ (show l.length < 256 by omega), ih, den]
      · have h32 : l.length < 4294967296 := by have := hw.1; simp [MAX_TUPLE_SIZE] at this; omega
        have hnm : ¬ l.length > u32max := by simp [u32max]; omega
        simp [hl, h255, hnm] at he; subst he
        simp only [List.cons_append, List.append_assoc]
        rw [Spec.parse.eq_3]
        simp [rdN_be32 _ _ h32, ih, den]
  | .list l =>
    simp only [tsz] at hf; obtain ⟨f, rfl⟩ : ∃ f, fuel = f + 1 := ⟨fuel - 1, by omega⟩
    simp only [wfT, Bool.and_eq_true, decide_eq_true_eq] at hw
    simp only [finiteFloats] at hfin
    simp only [enc] at he
    cases hl : encL cache l with
    | error e =>
      cases l with
      | nil => simp [encL] at hl
      | cons a l' => simp only [hl, List.isEmpty_cons, Bool.false_eq_true, ↓reduceIte] at he; (repeat' split at he) <;> simp at he
    | ok lb =>
      have ih := fun (hlb : lb.length < 4294967296) r' => specN_encL env cache hrefs hlen l lb r' f hw.2 hfin hl hlb (by omega)
      cases l with
      | nil =>
        simp at he; subst he
        rw [List.cons_append, Spec.parse.eq_3]
        simp [den, denL, Value.mkList]
      | cons a l' =>
        have h32 : (a :: l').length < 4294967296 := by have := hw.1; simp [MAX_LIST_SIZE] at this ⊢; omega
        have hnm : ¬ (a :: l').length > u32max := by simp [u32max] at h32 ⊢; omega
        simp only [hl, hnm, List.isEmpty_cons, Bool.false_eq_true, ↓reduceIte, Except.ok.injEq] at he
        subst he
        have hlb : lb.length < 4294967296 := by simp at hsz; omega
        have ih' := ih hlb
        simp only [tszL] at hf
        obtain ⟨f', rfl⟩ : ∃ f', f = f' + 1 := ⟨f - 1, by omega⟩
        simp only [List.cons_append, List.append_assoc]
        rw [Spec.parse.eq_3]
        have hn : Spec.parse env (f' + 1) (106 :: r) = some (.nil, r) := by rw [Spec.parse.eq_3]; simp
        simp only [List.length_cons] at ih' h32
        simp [rdN_be32 _ _ h32, ih', hn, den]
  | .ilist l tl =>
    simp only [tsz] at hf; obtain ⟨f, rfl⟩ : ∃ f, fuel = f + 1 := ⟨fuel - 1, by omega⟩
    simp only [wfT, Bool.and_eq_true, decide_eq_true_eq] at hw
    simp only [finiteFloats, Bool.and_eq_true] at hfin
    have h32 : l.length < 4294967296 := by have := hw.1.1; simp [MAX_LIST_SIZE] at this ⊢; omega
    have hnm : ¬ l.length > u32max := by simp [u32max] at h32 ⊢; omega
    simp only [enc, hnm, ↓reduceIte] at he
    cases hl : encL cache l with
    | error e => simp [hl] at he
    | ok lb =>
      cases ht : enc cache tl with
      | error e => simp [hl, ht] at he
      | ok tb =>
        simp [hl, ht] at he; subst he
        have hlb : lb.length < 4294967296 := by simp at hsz; omega
        have htb : tb.length < 4294967296 := by simp at hsz; omega
        have ih := fun r' => specN_encL env cache hrefs hlen l lb r' f hw.1.2 hfin.1 hl hlb (by omega)
        have iht := spec_enc env cache hrefs hlen tl tb r f hw.2 hfin.2 ht htb (by omega)
        simp only [List.cons_append, List.append_assoc]
        rw [Spec.parse.eq_3]
        simp [rdN_be32 _ _ h32, ih, iht, den]
  | .map kvs =>
    simp only [tsz] at hf; obtain ⟨f, rfl⟩ : ∃ f, fuel = f + 1 := ⟨fuel - 1, by omega⟩
    simp only [wfT, Bool.and_eq_true, decide_eq_true_eq] at hw
    simp only [finiteFloats] at hfin
    have h32 : kvs.length < 4294967296 := by have := hw.1; simp [MAX_MAP_SIZE] at this ⊢; omega
    have hnm : ¬ kvs.length > u32max := by simp [u32max] at h32 ⊢; omega
    simp only [enc, hnm, ↓reduceIte] at he
    cases hl : encKV cache kvs with
    | error e => simp [hl] at he
    | ok lb =>
      simp [hl] at he; subst he
      have hlb : lb.length < 4294967296 := by simp at hsz; omega
      have ih := fun r' => specKV_encKV env cache hrefs hlen kvs lb r' f hw.2 hfin hl hlb (by omega)
      simp only [List.cons_append, List.append_assoc]
      rw [Spec.parse.eq_3]
      simp [rdN_be32 _ _ h32, ih, den]
  | .ifun a u i nf m oi ou p fr =>
    simp only [tsz] at hf; obtain ⟨f, rfl⟩ : ∃ f, fuel = f + 3 := ⟨fuel - 3, by omega⟩
    simp only [wfT, Bool.and_eq_true, decide_eq_true_eq] at hw
    obtain ⟨⟨⟨⟨⟨⟨⟨⟨⟨ha, hu⟩, hi⟩, hnf⟩, hnf32⟩, hm⟩, hoi⟩, hou⟩, hp⟩, hfr⟩ := hw
    simp only [finiteFloats] at hfin
    simp only [enc] at he
    cases hma : encAtom cache m with
    | error e => simp [hma] at he
    | ok mb =>
      cases hpa : encPid cache p with
      | error e => simp [hma, hpa] at he
      | ok pb =>
        cases hfa : encL cache fr with
        | error e => simp [hma, hpa, hfa] at he
        | ok fb =>
          simp only [hma, hpa, hfa, Except.ok.injEq] at he
          subst he
          have hfb : fb.length < 4294967296 := by simp at hsz; omega
          have ih := fun r' => specN_encL env cache hrefs hlen fr fb r' (f + 2) hfr hfin hfa hfb (by omega)
          have h1 := fun r' => spec_atom env cache m mb r' (f + 1) hrefs hlen hm hma
          have h2 := fun r' => spec_int env (oi : Int) r' (f + 1) (by omega)
          have h3 := fun r' => spec_int env (ou : Int) r' (f + 1) (by omega)
          have h4 := fun r' => spec_pid env cache hrefs hlen p pb r' f hp hpa
          subst hnf
          have hoi0 : ¬ ((oi : Int) < 0) := by omega
          have hou0 : ¬ ((ou : Int) < 0) := by omega
          generalize hbody : (UInt8.ofNat a :: u ++ be32 i ++ be32 fr.length ++ mb ++ encInt ↑oi ++ encInt ↑ou ++ pb ++ fb) = body at hsz ⊢
          have hbl : body.length + 4 < 4294967296 := by simp [be32, beN_length] at hsz; omega
          simp only [List.cons_append, List.append_assoc]
          rw [Spec.parse.eq_3]
          simp only [show (112 : UInt8).toNat = 112 by decide]
          rw [rdN_be32 _ _ hbl]
          have hs1 : ¬ (body.length + 4 < 4 ∨ body.length + 4 - 4 > (body ++ r).length) := by simp
          simp only [Bool.or_eq_true, decide_eq_true_eq, hs1, ↓reduceIte]
          subst hbody
          simp [rdN_byte a _ (by omega), takeN_of_length 16 u _ hu,
            rdN_be32 _ _ hi, rdN_be32 _ _ hnf32, h1, h2, h3, h4, ih, den, hoi0, hou0]
          omega
termination_by sizeOf t
decreasing_by all_goals (simp_wf; try omega)
theorem specN_encL (env : Spec.Env) (cache : List Bytes) (hrefs : env.refs = cache.map cps) (hlen : cache.length ≤ 256)
    (l : List Term) (bs r : Bytes) (fuel : Nat)
    (hw : wfL l = true) (hfin : finiteFloatsL l = true) (he : encL cache l = .ok bs) (hsz : bs.length < 4294967296)
    (hf : tszL l ≤ fuel) :
    Spec.parseN env fuel l.length (bs ++ r) = some (denL l, r) := by
  match l with
  | [] => simp [encL] at he; subst he; simp [Spec.parseN, denL]
  | t :: ts =>
    simp only [tszL] at hf; obtain ⟨f, rfl⟩ : ∃ f, fuel = f + 1 := ⟨fuel - 1, by omega⟩
    simp only [wfL, Bool.and_eq_true] at hw
    simp only [finiteFloatsL, Bool.and_eq_true] at hfin
    simp only [encL] at he
    cases h1 : enc cache t with
    | error e => simp [h1] at he
    | ok a =>
      cases h2 : encL cache ts with
      | error e => simp [h1, h2] at he
      | ok b =>
        simp [h1, h2] at he; subst he
        have ih1 := spec_enc env cache hrefs hlen t a (b ++ r) f hw.1 hfin.1 h1 (by simp at hsz; omega) (by omega)
        have ih2 := specN_encL env cache hrefs hlen ts b r f hw.2 hfin.2 h2 (by simp at hsz; omega) (by omega)
        simp [Spec.parseN, ih1, ih2, denL]
termination_by sizeOf l
decreasing_by all_goals (simp_wf; try omega)
theorem specKV_encKV (env : Spec.Env) (cache : List Bytes) (hrefs : env.refs = cache.map cps) (hlen : cache.length ≤ 256)
    (kvs : List (Term × Term)) (bs r : Bytes) (fuel : Nat)
    (hw : wfKV kvs = true) (hfin : finiteFloatsKV kvs = true) (he : encKV cache kvs = .ok bs) (hsz : bs.length < 4294967296)
    (hf : tszKV kvs ≤ fuel) :
    Spec.parseKV env fuel kvs.length (bs ++ r) = some (denKV kvs, r) := by
  match kvs with
  | [] => simp [encKV] at he; subst he; simp [Spec.parseKV, denKV]
  | (k, v) :: ts =>
    simp only [tszKV] at hf; obtain ⟨f, rfl⟩ : ∃ f, fuel = f + 1 := ⟨fuel - 1, by omega⟩
    simp only [wfKV, Bool.and_eq_true] at hw
    simp only [finiteFloatsKV, Bool.and_eq_true] at hfin
    simp only [encKV] at he
    cases h1 : enc cache k with
    | error e => simp [h1] at he
    | ok a =>
      cases h2 : enc cache v with
      | error e => simp [h1, h2] at he
      | ok b =>
        cases h3 : encKV cache ts with
        | error e => simp [h1, h2, h3] at he
        | ok c =>
          simp [h1, h2, h3] at he; subst he
          have ih1 := spec_enc env cache hrefs hlen k a (b ++ (c ++ r)) f hw.1.1 hfin.1.1 h1 (by simp at hsz; omega) (by omega)
          have ih2 := spec_enc env cache hrefs hlen v b (c ++ r) f hw.1.2 hfin.1.2 h2 (by simp at hsz; omega) (by omega)
          have ih3 := specKV_encKV env cache hrefs hlen ts c r f hw.2 hfin.2 h3 (by simp at hsz; omega) (by omega)
          simp [Spec.parseKV, ih1, ih2, ih3, denKV]
termination_by sizeOf kvs
decreasing_by all_goals (simp_wf; try omega)
end


theorem encAtom_head (cache : List Bytes) (a bs : Bytes) (h : encAtom cache a = .ok bs) :
    ∃ tag rest, bs = tag :: rest ∧ tag ≠ 80 := by
  rcases enc_atomC_ok cache a bs h with ⟨i, _, rfl⟩ | ⟨_, _, rfl⟩ | ⟨_, _, _, rfl⟩
  · exact ⟨82, _, rfl, by decide⟩
  · exact ⟨119, _, rfl, by decide⟩
  · exact ⟨118, _, rfl, by decide⟩

theorem encInt_head (v : Int) : ∃ tag rest, encInt v = tag :: rest ∧ tag ≠ 80 := by
  unfold encInt
  split
  · exact ⟨97, _, rfl, by decide⟩
  · split
    · exact ⟨98, _, rfl, by decide⟩
    · exact ⟨110, _, rfl, by decide⟩

/-- the encoder never starts a term with the COMPRESSED tag -/
theorem enc_head (cache : List Bytes) (t : Term) (bs : Bytes) (h : enc cache t = .ok bs) :
    ∃ tag rest, bs = tag :: rest ∧ tag ≠ 80 := by
  cases t with
  | atom a => simp only [enc] at h; exact encAtom_head cache a bs h
  | int i => simp only [enc, Except.ok.injEq] at h; subst h; exact encInt_head i
  | float b => simp only [enc, Except.ok.injEq] at h; subst h; exact ⟨70, _, rfl, by decide⟩
  | bin b => simp only [enc, encBinary] at h; split at h <;> simp at h; subst h; exact ⟨109, _, rfl, by decide⟩
  | str b => simp only [enc, encBinary] at h; split at h <;> simp at h; subst h; exact ⟨109, _, rfl, by decide⟩
  | bits b n => simp only [enc, encBits] at h; split at h <;> simp at h; subst h; exact ⟨77, _, rfl, by decide⟩
  | big neg dg =>
    simp only [enc, Except.ok.injEq, encBig] at h; subst h
    split
    · exact ⟨110, _, rfl, by decide⟩
    · exact ⟨111, _, rfl, by decide⟩
  | nil => simp only [enc, Except.ok.injEq] at h; subst h; exact ⟨106, _, rfl, by decide⟩
  | pid p =>
    simp only [enc, encPid] at h
    split at h
    · simp at h; subst h; exact ⟨121, _, rfl, by decide⟩
    · split at h <;> simp at h; subst h; exact ⟨88, _, rfl, by decide⟩
  | port n i c l =>
    simp only [enc, encPort] at h
    split at h
    · simp at h; subst h; exact ⟨121, _, rfl, by decide⟩
    · split at h <;> simp at h; subst h; exact ⟨120, _, rfl, by decide⟩
  | ref n c ids l =>
    simp only [enc, encRef] at h
    split at h
    · simp at h; subst h; exact ⟨121, _, rfl, by decide⟩
    · split at h
      · simp at h
      · split at h <;> simp at h; subst h; exact ⟨90, _, rfl, by decide⟩
  | xfun m f a =>
    simp only [enc] at h
    (repeat' split at h) <;> simp at h; subst h; exact ⟨113, _, rfl, by decide⟩
  | tuple l =>
    simp only [enc] at h
    (repeat' split at h) <;> simp at h <;> subst h
    · exact ⟨104, _, rfl, by decide⟩
    · exact ⟨105, _, rfl, by decide⟩
  | list l =>
    simp only [enc] at h
    (repeat' split at h) <;> simp at h <;> subst h
    · exact ⟨106, _, rfl, by decide⟩
    · exact ⟨108, _, rfl, by decide⟩
  | ilist l tl =>
    simp only [enc] at h
    (repeat' split at h) <;> simp at h; subst h; exact ⟨108, _, rfl, by decide⟩
  | map kvs =>
    simp only [enc] at h
    (repeat' split at h) <;> simp at h; subst h; exact ⟨116, _, rfl, by decide⟩
  | ifun a u i nf m oi ou p fr =>
    simp only [enc] at h
    (repeat' split at h) <;> simp at h; subst h; exact ⟨112, _, rfl, by decide⟩

/-- the whole-message form: version byte, then the term, nothing left -/
theorem specTop_enc (env : Spec.Env) (cache : List Bytes) (hrefs : env.refs = cache.map cps) (hlen : cache.length ≤ 256)
    (t : Term) (b : Bytes) (hw : wfT t = true) (hfin : finiteFloats t = true) (he : enc cache t = .ok b)
    (hsz : b.length < 4294967296) :
    Spec.parseTop env (131 :: b) = some (den t, []) := by
  obtain ⟨tag, rest, rfl, htag⟩ := enc_head cache t b he
  have hl := tsz_le_length cache t _ hw he
  have := spec_enc env cache hrefs hlen t _ [] ((tag :: rest).length + 1) hw hfin he hsz (by omega)
  simp only [List.append_nil] at this
  unfold Spec.parseTop
  split
  · rename_i r heq; simp at heq; exact absurd heq.1 htag
  · rename_i r _ heq; simp at heq; subst heq; exact this
  · rename_i h1 h2; exact absurd rfl (h2 _)

end Edp
