"""Per-property configuration for check.py."""

COMMON_ASSUME = [
    "Spec modules are a faithful transcription of erl_ext_dist / erl_dist_protocol (OTP 26/27)",
    "the hand-written Impl model is the code on the inputs the correspondence run did not reach",
    "nom `complete` combinators fail without panicking on short input",
]

PROPS = {
    "C01": {
        "module": "EdpVerif.Props.C01",
        "domains": ["c01"],
        "tables": ["Tags"],
        "assumptions": COMMON_ASSUME,
    },
}

# per-property plug-in files: tools/props.d/Cxx.json
import glob as _glob
import json as _json
import os as _os
for _f in sorted(_glob.glob(_os.path.join(_os.path.dirname(_os.path.abspath(__file__)), "props.d", "*.json"))):
    _c = _json.load(open(_f))
    _c.setdefault("assumptions", COMMON_ASSUME)
    PROPS[_os.path.basename(_f)[:-5]] = _c
