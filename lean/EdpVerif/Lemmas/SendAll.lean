import EdpVerif.Lemmas.Send
import EdpVerif.Lemmas.SendSched
import EdpVerif.Lemmas.SpecValid
import EdpVerif.Impl.SendConn
/-!
C07, lemmas of the audit round:
* the payload hypothesis of the one-frame theorems discharged from C01's validity theorem (`spec_enc`) for every payload
  within C01's guard (`wfT`, `finiteFloats`);
* one lemma for both framing modes (`op_frame`);
* sequences of operations on one connection, with operations that stop in the middle of their frame (`runOps`).
-/
namespace Edp.Send
open Edp Edp.Spec Edp.Spec.Wire Edp.Term
open Edp.Impl.Handshake (ConnState)

/-- C01's guard on a payload: a value of the Rust type within the decoder's limits, floats finite -/
def PayOk (op : Op) : Prop := ∀ m, op.payload = some m → wfT m = true ∧ finiteFloats m = true

/-- C01's validity theorem in the vocabulary of this property -/
theorem reads_wf {cache : List Bytes} {env : Env} (he : EnvFor cache env) (m : Term) (hw : wfT m = true)
    (hfin : finiteFloats m = true) (b : Bytes) (h : enc cache m = .ok b) (hsz : b.length < 4294967296) :
    Reads env b m.den := by
  intro fuel r hf
  exact spec_enc env cache he.refs he.len m b r fuel hw hfin h hsz
    (by have := tsz_le_length cache m b hw h; omega)

/-! ### the atoms of a well-formed term are UTF-8 -/

theorem wfPid_utf8 {p : PidF} (h : wfPid p = true) : validUtf8 p.node = true := by
  simp only [wfPid, Bool.and_eq_true] at h
  exact h.1.1.1.1

mutual
theorem collectAtoms_wf (t : Term) (hw : wfT t = true) : ∀ a ∈ collectAtoms t, validUtf8 a = true := by
  match t with
  | .atom a => intro x hx; simp only [collectAtoms, List.mem_singleton] at hx; subst hx; simpa [wfT] using hw
  | .int _ => intro x hx; simp [collectAtoms] at hx
  | .float _ => intro x hx; simp [collectAtoms] at hx
  | .pid p =>
    intro x hx; simp only [collectAtoms, List.mem_singleton] at hx; subst hx
    simp only [wfT] at hw; exact wfPid_utf8 hw
  | .port n _ _ _ =>
    intro x hx; simp only [collectAtoms, List.mem_singleton] at hx; subst hx
    simp only [wfT, Bool.and_eq_true] at hw; exact hw.1.1.1
  | .ref n _ _ _ =>
    intro x hx; simp only [collectAtoms, List.mem_singleton] at hx; subst hx
    simp only [wfT, Bool.and_eq_true] at hw; exact hw.1.1.1
  | .bin _ => intro x hx; simp [collectAtoms] at hx
  | .bits _ _ => intro x hx; simp [collectAtoms] at hx
  | .str _ => intro x hx; simp [collectAtoms] at hx
  | .list l =>
    simp only [wfT, Bool.and_eq_true] at hw
    simpa [collectAtoms] using collectAtomsL_wf l hw.2
  | .ilist l t =>
    simp only [wfT, Bool.and_eq_true] at hw
    intro x hx
    simp only [collectAtoms, List.mem_append] at hx
    rcases hx with hx | hx
    · exact collectAtomsL_wf l hw.1.2 x hx
    · exact collectAtoms_wf t hw.2 x hx
  | .map kvs =>
    simp only [wfT, Bool.and_eq_true] at hw
    simpa [collectAtoms] using collectAtomsKV_wf kvs hw.2
  | .tuple l =>
    simp only [wfT, Bool.and_eq_true] at hw
    simpa [collectAtoms] using collectAtomsL_wf l hw.2
  | .big _ _ => intro x hx; simp [collectAtoms] at hx
  | .xfun m f _ =>
    intro x hx
    simp only [wfT, Bool.and_eq_true] at hw
    simp only [collectAtoms, List.mem_cons, List.not_mem_nil, or_false] at hx
    rcases hx with rfl | rfl
    · exact hw.1.1
    · exact hw.1.2
  | .ifun _ _ _ _ m _ _ p fr =>
    intro x hx
    simp only [wfT, Bool.and_eq_true] at hw
    simp only [collectAtoms, List.mem_cons] at hx
    rcases hx with rfl | rfl | hx
    · exact hw.1.1.1.1.2
    · exact wfPid_utf8 hw.1.2
    · exact collectAtomsL_wf fr hw.2 x hx
  | .nil => intro x hx; simp [collectAtoms] at hx
theorem collectAtomsL_wf (l : List Term) (hw : wfL l = true) : ∀ a ∈ collectAtomsL l, validUtf8 a = true := by
  match l with
  | [] => intro x hx; simp [collectAtomsL] at hx
  | t :: ts =>
    simp only [wfL, Bool.and_eq_true] at hw
    intro x hx
    simp only [collectAtomsL, List.mem_append] at hx
    rcases hx with hx | hx
    · exact collectAtoms_wf t hw.1 x hx
    · exact collectAtomsL_wf ts hw.2 x hx
theorem collectAtomsKV_wf (l : List (Term × Term)) (hw : wfKV l = true) : ∀ a ∈ collectAtomsKV l, validUtf8 a = true := by
  match l with
  | [] => intro x hx; simp [collectAtomsKV] at hx
  | (k, v) :: r =>
    simp only [wfKV, Bool.and_eq_true] at hw
    intro x hx
    simp only [collectAtomsKV, List.mem_append] at hx
    rcases hx with (hx | hx) | hx
    · exact collectAtoms_wf k hw.1.1 x hx
    · exact collectAtoms_wf v hw.1.2 x hx
    · exact collectAtomsKV_wf r hw.2 x hx
end

/-! ### the terms of a distribution header are no longer than the header -/

theorem distHeader_encL {order : List Bytes} {terms : List Term} {hb : Bytes} (h : distHeader order terms = .ok hb) :
    ∃ tb, encL order terms = .ok tb ∧ tb.length ≤ hb.length := by
  unfold distHeader at h
  simp only at h
  split at h
  · simp at h
  · split at h
    · rename_i hemp
      have ho : order = [] := by simpa using hemp
      subst ho
      cases hb' : encL [] terms with
      | error e => simp [hb'] at h
      | ok b =>
        simp only [hb'] at h
        have : hb = 131 :: 68 :: 0 :: b := by injection h with h; exact h.symm
        subst this
        exact ⟨b, rfl, by simp; omega⟩
    · split at h
      · simp at h
      · split at h
        · simp at h
        · cases hb' : encL order terms with
          | error e => simp [hb'] at h
          | ok b =>
            simp only [hb'] at h
            injection h with h
            subst h
            exact ⟨b, rfl, by simp; omega⟩

/-! ### one operation = one frame, both modes, every payload within C01's guard -/

/-- the framing mode a connection uses for what it sends -/
def modeOf (c : Conn) : Mode := if usePassThrough c then .passThrough else .distHeader

theorem pt_frame_wf (c : Conn) (order : List Bytes) (op : Op) (ws : List Bytes)
    (h : sendOp c order op = .ok ws) (hpt : usePassThrough c = true) (hok : OpOk op) (hpay : PayOk op) :
    ∃ body, ws.flatten = be32 body.length ++ body ∧ body.length < 4294967296 ∧ body ≠ [] ∧
      ∀ cache, readBody .passThrough cache body = some (itemFor op.den, cache) := by
  refine pt_frame c order op ws h hpt hok ?_
  intro m b hp hb
  obtain ⟨_, _, cb, _, hsh⟩ := sendOp_pt_shape c order op ws h hpt
  rcases hsh with ⟨hp', _, _⟩ | ⟨m', mb, hp', hmb, _, hsz⟩
  · rw [hp] at hp'; cases hp'
  · have hm : m' = m := by rw [hp] at hp'; injection hp' with e; exact e.symm
    subst hm
    have hbm : mb = b := by rw [hb] at hmb; injection hmb with e; exact e.symm
    subst hbm
    obtain ⟨hw, hfin⟩ := hpay m' hp
    exact reads_wf envFor_nil m' hw hfin mb hb (by simp [u32max] at hsz; omega)

theorem hdr_frame_wf (c : Conn) (order : List Bytes) (op : Op) (ws : List Bytes)
    (h : sendOp c order op = .ok ws) (hpt : usePassThrough c = false) (hok : OpOk op) (hpay : PayOk op) :
    ∃ body, ws.flatten = be32 body.length ++ body ∧ body.length < 4294967296 ∧ body ≠ [] ∧
      ∀ cache, ∃ cache', readBody .distHeader cache body = some (itemFor op.den, cache') := by
  refine hdr_frame c order op ws h hpt hok ?_ ?_
  · intro m hp
    exact collectAtoms_wf m (hpay m hp).1
  · intro env m b henv hp hb
    obtain ⟨_, _, hbytes, hd, _, hsz⟩ := sendOp_hdr_shape c order op ws h hpt
    obtain ⟨tb, htb, hlen⟩ := distHeader_encL hd
    obtain ⟨hw, hfin⟩ := hpay m hp
    refine reads_wf henv m hw hfin b hb ?_
    -- `b` is a part of `tb`
    simp only [hp, Option.toList, encL] at htb
    cases hcb : enc order (controlTerm op) with
    | error e => simp [hcb] at htb
    | ok cb =>
      simp only [hcb, hb] at htb
      have : tb = cb ++ b := by injection htb with e; simpa using e.symm
      subst this
      simp [u32max] at hsz hlen
      omega

/-- in whichever mode the connection uses: the bytes of a successful operation are one length-prefixed body that the
independent reader, with any atom cache, reads as the operation's item -/
theorem op_frame (c : Conn) (order : List Bytes) (op : Op) (ws : List Bytes)
    (h : sendOp c order op = .ok ws) (hok : OpOk op) (hpay : PayOk op) :
    ∃ body, ws.flatten = be32 body.length ++ body ∧ body.length < 4294967296 ∧ body ≠ [] ∧
      ∀ cache, ∃ cache', readBody (modeOf c) cache body = some (itemFor op.den, cache') := by
  cases hpt : usePassThrough c with
  | true =>
    obtain ⟨body, h1, h2, h3, h4⟩ := pt_frame_wf c order op ws h hpt hok hpay
    exact ⟨body, h1, h2, h3, fun cache => ⟨cache, by simpa [modeOf, hpt] using h4 cache⟩⟩
  | false =>
    obtain ⟨body, h1, h2, h3, h4⟩ := hdr_frame_wf c order op ws h hpt hok hpay
    refine ⟨body, h1, h2, h3, fun cache => ?_⟩
    obtain ⟨c', hc'⟩ := h4 cache
    exact ⟨c', by simpa [modeOf, hpt] using hc'⟩

/-! ### a closed connection -/

theorem sendOp_closed (c : Conn) (order : List Bytes) (op : Op) : sendOp c.closed order op = .error .invalidState := by
  simp [sendOp, Conn.closed]

theorem sendOpF_closed (c : Conn) (order : List Bytes) (op : Op) (fate : Fate) :
    sendOpF c.closed order op fate = (c.closed, [], .err .invalidState) := by
  unfold sendOpF
  rw [sendOp_closed]

theorem runOps_closed (c : Conn) : ∀ calls : List Call,
    runOps c.closed calls = ([], calls.map fun _ => .err .invalidState) := by
  intro calls
  induction calls with
  | nil => rfl
  | cons x xs ih =>
    have hcc : c.closed.closed = c.closed := rfl
    simp only [runOps, sendOpF_closed, List.map_cons]
    rw [ih]
    simp

theorem itemsOf_errs (calls : List Call) (e : Err) : itemsOf calls (calls.map fun _ => .err e) = [] := by
  induction calls with
  | nil => rfl
  | cons x xs ih => simpa [itemsOf] using ih

/-- the bytes of a cut operation are a prefix of its frame -/
theorem cutBytes_prefix (ws : List Bytes) (i k : Nat) : ∃ rest, ws.flatten = cutBytes ws i k ++ rest := by
  unfold cutBytes
  by_cases hi : i < ws.length
  · have hsplit : ws = ws.take i ++ ws[i] :: ws.drop (i + 1) := by
      conv => lhs; rw [← List.take_append_drop i ws]
      congr 1
      exact List.drop_eq_getElem_cons hi
    refine ⟨ws[i].drop k ++ (ws.drop (i + 1)).flatten, ?_⟩
    have hg : ws[i]? = some ws[i] := List.getElem?_eq_getElem hi
    rw [hg]
    simp only [Option.getD_some, List.append_assoc]
    have hf := congrArg List.flatten hsplit
    rw [List.flatten_append, List.flatten_cons] at hf
    rw [← List.append_assoc (List.take k ws[i]), List.take_append_drop]
    exact hf
  · have hg : ws[i]? = none := List.getElem?_eq_none (by omega)
    refine ⟨[], ?_⟩
    rw [hg, List.take_of_length_le (by omega)]
    simp

/-! ### sequences of operations on one connection -/

theorem sendOpF_error (c : Conn) (order : List Bytes) (op : Op) (fate : Fate) (e : Err)
    (h : sendOp c order op = .error e) :
    sendOpF c order op fate = (if e = .noStream then c.closed else c, [], .err e) := by
  unfold sendOpF
  rw [h]
  cases e <;> simp

theorem sendOpF_whole (c : Conn) (order : List Bytes) (op : Op) (ws : List Bytes) (h : sendOp c order op = .ok ws) :
    sendOpF c order op .whole = (c, ws.flatten, .ok) := by
  unfold sendOpF
  rw [h]

theorem sendOpF_cut (c : Conn) (order : List Bytes) (op : Op) (ws : List Bytes) (i k : Nat)
    (h : sendOp c order op = .ok ws) :
    sendOpF c order op (.cut i k) = (c.closed, cutBytes ws i k, .cut) := by
  unfold sendOpF
  rw [h]

/-- everything a sequence of operations puts on the stream of one connection: the whole frames of the operations that
returned `Ok`, which the independent reader reads as exactly their items in order (in the connection's framing mode, from
any atom cache), followed by nothing or by a prefix of the frame of ONE operation that was cut -/
theorem runOps_wire (c : Conn) : ∀ (calls : List Call), (∀ x ∈ calls, OpOk x.op ∧ PayOk x.op) → ∀ (cache : Cache),
    ∃ whole tail, (runOps c calls).1 = whole ++ tail ∧
      readFramesFrom (modeOf c) cache whole = some (itemsOf calls (runOps c calls).2) ∧
      (tail = [] ∨ ∃ x ∈ calls, x.fate ≠ .whole ∧ ∃ ws rest, sendOp c x.order x.op = .ok ws ∧ ws.flatten = tail ++ rest) := by
  intro calls
  induction calls with
  | nil => intro _ cache; exact ⟨[], [], rfl, by simp [runOps, itemsOf, readFrames_nil], Or.inl rfl⟩
  | cons x xs ih =>
    intro hall cache
    have hx := hall x (by simp)
    have hxs : ∀ y ∈ xs, OpOk y.op ∧ PayOk y.op := fun y hy => hall y (by simp [hy])
    cases hs : sendOp c x.order x.op with
    | error e =>
      have hF := sendOpF_error c x.order x.op x.fate e hs
      by_cases he : e = .noStream
      · subst he
        simp only [↓reduceIte] at hF
        refine ⟨[], [], ?_, ?_, Or.inl rfl⟩
        · simp [runOps, hF, runOps_closed]
        · simp [runOps, hF, runOps_closed, itemsOf, itemsOf_errs, readFrames_nil]
      · simp only [he, ↓reduceIte] at hF
        obtain ⟨whole, tail, h1, h2, h3⟩ := ih hxs cache
        refine ⟨whole, tail, ?_, ?_, ?_⟩
        · simp [runOps, hF, h1]
        · simpa [runOps, hF, itemsOf] using h2
        · rcases h3 with h3 | ⟨y, hy, h3⟩
          · exact Or.inl h3
          · exact Or.inr ⟨y, by simp [hy], h3⟩
    | ok ws =>
      cases hf : x.fate with
      | whole =>
        have hF := sendOpF_whole c x.order x.op ws hs
        obtain ⟨body, hflat, hlen, hne, hrb⟩ := op_frame c x.order x.op ws hs hx.1 hx.2
        obtain ⟨cache', hc'⟩ := hrb cache
        obtain ⟨whole, tail, h1, h2, h3⟩ := ih hxs cache'
        refine ⟨ws.flatten ++ whole, tail, ?_, ?_, ?_⟩
        · simp [runOps, hf, hF, h1]
        · rw [hflat, readFrames_cons (modeOf c) cache body whole hlen hne _ cache' hc', h2]
          simp [runOps, hf, hF, itemsOf]
        · rcases h3 with h3 | ⟨y, hy, h3⟩
          · exact Or.inl h3
          · exact Or.inr ⟨y, by simp [hy], h3⟩
      | cut i k =>
        have hF := sendOpF_cut c x.order x.op ws i k hs
        obtain ⟨rest, hrest⟩ := cutBytes_prefix ws i k
        refine ⟨[], cutBytes ws i k, ?_, ?_, Or.inr ⟨x, by simp, by simp [hf], ws, rest, hs, hrest⟩⟩
        · simp [runOps, hf, hF, runOps_closed]
        · simp [runOps, hf, hF, runOps_closed, itemsOf, itemsOf_errs, readFrames_nil]

/-- the connection after a sequence of operations -/
def connAfter : Conn → List Call → Conn
  | c, [] => c
  | c, x :: xs => connAfter (sendOpF c x.order x.op x.fate).1 xs

theorem runOps_append (c : Conn) (pre post : List Call) :
    runOps c (pre ++ post) =
      ((runOps c pre).1 ++ (runOps (connAfter c pre) post).1, (runOps c pre).2 ++ (runOps (connAfter c pre) post).2) := by
  induction pre generalizing c with
  | nil => simp [runOps, connAfter]
  | cons x xs ih =>
    simp only [List.cons_append, runOps, connAfter]
    rw [ih]
    simp

/-- an operation whose outcome is `cut` leaves the connection closed -/
theorem sendOpF_cut_closed (c : Conn) (order : List Bytes) (op : Op) (fate : Fate)
    (h : (sendOpF c order op fate).2.2 = .cut) : (sendOpF c order op fate).1 = c.closed := by
  unfold sendOpF at h ⊢
  cases hs : sendOp c order op with
  | error e =>
    rw [hs] at h
    cases e <;> simp at h
  | ok ws =>
    rw [hs] at h
    cases fate with
    | whole => simp at h
    | cut i k => rfl

/-- after an operation was cut, nothing more reaches the stream and every later operation fails at the gate -/
theorem runOps_after_cut (c : Conn) (pre : List Call) (x : Call) (post : List Call)
    (h : (sendOpF (connAfter c pre) x.order x.op x.fate).2.2 = .cut) :
    (runOps c (pre ++ x :: post)).1 = (runOps c (pre ++ [x])).1 ∧
    (runOps c (pre ++ x :: post)).2 = (runOps c (pre ++ [x])).2 ++ post.map (fun _ => .err .invalidState) := by
  have hcl := sendOpF_cut_closed _ _ _ _ h
  rw [runOps_append c pre (x :: post), runOps_append c pre [x]]
  simp only [runOps, hcl, runOps_closed]
  simp

end Edp.Send
