import EdpVerif.Drv.Etf
import EdpVerif.Impl.EqHash
import EdpVerif.Impl.CmpArms
namespace Edp.Drv
open Edp

def ordText : Ordering → String
  | .lt => "lt" | .eq => "eq" | .gt => "gt"

/-- C11 tie: the model of `Ord::cmp` -/
def handleC11 : List String → Option String
  | ["c11cmp", a, b] => some <| run do
    let a ← getTerm a
    let b ← getTerm b
    pure (ordText (Term.cmp a b))
  -- tie: the arm-by-arm models of `impl Ord for OwnedTerm` and of `impl Ord for BorrowedTerm` (Impl/CmpArms.lean)
  | ["c11all", a, b] => some <| run do
    let a ← getTerm a
    let b ← getTerm b
    pure (ordText (Term.cmp a b) ++ " " ++ ordText (Term.cmpOwned a b) ++ " " ++ ordText (Term.cmpBorrowed a b))
  | ["c11arms", a, b] => some <| run do
    let a ← getTerm a
    let b ← getTerm b
    pure (ordText (Term.cmpOwned a b) ++ " " ++ ordText (Term.cmpBorrowed a b))
  -- tie: the model of the derived `PartialEq`
  | ["c11eqv", a, b] => some <| run do
    let a ← getTerm a
    let b ← getTerm b
    pure (if Term.eqv a b then "true" else "false")
  -- tie: the byte stream `Hash::hash` feeds to the hasher
  | ["c11hash", a] => some <| run do
    let a ← getTerm a
    pure (hexOf (Term.hashBytes a))
  | _ => none

end Edp.Drv
