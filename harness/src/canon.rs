//! Canonical text forms shared with the Lean driver (lean/EdpVerif/Impl/Term.lean `Term.text`).
//! Deliberately not ETF, so the codec is never used to test the codec.
use erltf::OwnedTerm;
use erltf::types::{ExternalPid, Sign};

pub fn hex(b: &[u8]) -> String {
    let mut s = String::with_capacity(b.len() * 2);
    for x in b {
        s.push_str(&format!("{:02x}", x));
    }
    s
}

/// hex, with "-" for the empty string where a token must be non-empty
pub fn hexarg(b: &[u8]) -> String {
    if b.is_empty() { "-".to_string() } else { hex(b) }
}

pub fn unhex(s: &str) -> Vec<u8> {
    if s == "-" {
        return vec![];
    }
    (0..s.len() / 2)
        .map(|i| u8::from_str_radix(&s[2 * i..2 * i + 2], 16).unwrap())
        .collect()
}

fn loc(l: &Option<bytes::Bytes>) -> String {
    match l {
        None => "-".to_string(),
        Some(b) => format!("={}", hex(b)),
    }
}

pub fn pid_text(p: &ExternalPid) -> String {
    format!(
        "P({},{},{},{},{})",
        hex(p.node.as_str().as_bytes()),
        p.id,
        p.serial,
        p.creation,
        loc(&p.local_ext_bytes)
    )
}

pub fn term_text(t: &OwnedTerm) -> String {
    let mut s = String::new();
    put(t, &mut s);
    s
}

fn put_list(l: &[OwnedTerm], s: &mut String) {
    for (i, e) in l.iter().enumerate() {
        if i > 0 {
            s.push(',');
        }
        put(e, s);
    }
}

fn put(t: &OwnedTerm, s: &mut String) {
    match t {
        OwnedTerm::Atom(a) => {
            s.push('A');
            s.push_str(&hex(a.as_str().as_bytes()));
        }
        OwnedTerm::Integer(i) => s.push_str(&format!("I{}", i)),
        OwnedTerm::Float(f) => s.push_str(&format!("F{:016x}", f.to_bits())),
        OwnedTerm::Pid(p) => s.push_str(&pid_text(p)),
        OwnedTerm::Port(p) => s.push_str(&format!(
            "O({},{},{},{})",
            hex(p.node.as_str().as_bytes()),
            p.id,
            p.creation,
            loc(&p.local_ext_bytes)
        )),
        OwnedTerm::Reference(r) => s.push_str(&format!(
            "R({},{},{},{})",
            hex(r.node.as_str().as_bytes()),
            r.creation,
            r.ids.iter().map(|x| x.to_string()).collect::<Vec<_>>().join("."),
            loc(&r.local_ext_bytes)
        )),
        OwnedTerm::Binary(b) => {
            s.push('B');
            s.push_str(&hex(b));
        }
        OwnedTerm::BitBinary { bytes, bits } => s.push_str(&format!("K{}:{}", bits, hex(bytes))),
        OwnedTerm::String(x) => {
            s.push('S');
            s.push_str(&hex(x.as_bytes()));
        }
        OwnedTerm::List(l) => {
            s.push_str("L[");
            put_list(l, s);
            s.push(']');
        }
        OwnedTerm::ImproperList { elements, tail } => {
            s.push_str("J[");
            put_list(elements, s);
            s.push('|');
            put(tail, s);
            s.push(']');
        }
        OwnedTerm::Map(m) => {
            s.push_str("D[");
            let mut first = true;
            for (k, v) in m.iter() {
                if !first {
                    s.push(',');
                }
                first = false;
                put(k, s);
                s.push(',');
                put(v, s);
            }
            s.push(']');
        }
        OwnedTerm::Tuple(l) => {
            s.push_str("U[");
            put_list(l, s);
            s.push(']');
        }
        OwnedTerm::BigInt(b) => {
            s.push('G');
            s.push(if b.sign == Sign::Negative { '-' } else { '+' });
            s.push_str(&hex(&b.digits));
        }
        OwnedTerm::ExternalFun(f) => s.push_str(&format!(
            "X({},{},{})",
            hex(f.module.as_str().as_bytes()),
            hex(f.function.as_str().as_bytes()),
            f.arity
        )),
        OwnedTerm::InternalFun(f) => {
            s.push_str(&format!(
                "Y({},{},{},{},{},{},{},{},[",
                f.arity,
                hex(&f.uniq),
                f.index,
                f.num_free,
                hex(f.module.as_str().as_bytes()),
                f.old_index,
                f.old_uniq,
                pid_text(&f.pid)
            ));
            put_list(&f.free_vars, s);
            s.push_str("])");
        }
        OwnedTerm::Nil => s.push('N'),
    }
}
