import EdpVerif.Drv.Common
import EdpVerif.Impl.PidAlloc
import EdpVerif.Impl.RefCounter
import EdpVerif.Impl.NodeIds
/-! Driver requests of property C16 (pid allocator, reference counter).

Result text of one `allocate()` call: `<id>.<serial>.<creation>` | `err` | `panic`; of one reference `<creation>:<w0>:<w1>:<w2>`.

* `c16seq id0 ser0 cre n`            — n sequential allocations from the given counter position: hash, number of `ok`, last result, final state
* `c16win id0 ser0 cre from count`   — the results `from .. from+count-1` of that sequential run
* `c16ops id0 ser0 cre ops`          — sequential mix of `a` (allocate) and `c<N>` (set_creation N)
* `c16thr id0 ser0 cre setcs lists`  — trace validation at allocation granularity: per-thread result lists observed on real OS
                                        threads (`;` between threads, `,` between results), `setcs` the values stored by a
                                        concurrent `set_creation` thread in order (`-` if none). The driver reconstructs a
                                        schedule of the small-step model that produces exactly these per-thread results, or rejects.
* `c16trace id0 ser0 cre k tokens`   — replay of an executed step trace recorded by the hook-level scheduler (needs the hook patch)
* `c16uniq cre setcs lists`          — Spec oracle on the implementation's output: (id, serial) pairwise distinct, creations in force
* `c16refseq c0 cre n`, `c16refrun c0 cre n`, `c16refthr c0 cre lists`, `c16refuniq cre lists` — the same for references
-/
namespace Edp.Drv
namespace C16
open Edp.Impl

def nat (s : String) : Except String Nat :=
  match s.toNat? with
  | some n => .ok n
  | none => .error ("bad-nat " ++ s)

def runE (r : Except String String) : String :=
  match r with
  | .ok s => s
  | .error e => "bad-op " ++ e

def mix (h : UInt64) (w : Nat) : UInt64 := (h ^^^ w.toUInt64) * 1099511628211
def hash0 : UInt64 := 14695981039346656037

/-! ### pids -/
section Pids
open PidAlloc

def resText : Res → String
  | .ok p => s!"{p.id}.{p.serial}.{p.creation}"
  | .err => "err"
  | .panic => "panic"

def parseRes (s : String) : Except String Res :=
  if s == "err" then .ok .err else if s == "panic" then .ok .panic else
  match s.splitOn "." with
  | [a, b, c] => do pure (.ok ⟨← nat a, ← nat b, ← nat c⟩)
  | _ => .error ("bad-res " ++ s)

def hashRes (h : UInt64) : Res → UInt64
  | .ok p => mix (mix (mix (mix h 0) p.id) p.serial) p.creation
  | .err => mix h 1
  | .panic => mix h 2

def isOk : Res → Bool
  | .ok _ => true
  | _ => false

def stText (s : Sh) : String := s!"{s.nextId},{s.nextSerial},{if s.poisoned then 1 else 0}"

def seqLoop : Nat → Sh → UInt64 → Nat → Res → Sh × UInt64 × Nat × Res
  | 0, s, h, k, last => (s, h, k, last)
  | n + 1, s, h, k, _ =>
    let x := alloc s
    seqLoop n x.2 (hashRes h x.1) (if isOk x.1 then k + 1 else k) x.1

def skip : Nat → Sh → Sh
  | 0, s => s
  | n + 1, s => skip n (alloc s).2

def window : Nat → Sh → List Res → List Res
  | 0, _, acc => acc.reverse
  | n + 1, s, acc => let x := alloc s; window n x.2 (x.1 :: acc)

def parseOps (s : String) : Except String (List Op) :=
  (s.splitOn ",").mapM fun w =>
    if w == "a" then .ok Op.alloc
    else if w.startsWith "c" then do pure (Op.setCreation (← nat (w.drop 1).toString))
    else .error ("bad-op " ++ w)

def parseLists (s : String) : Except String (List (List Res)) :=
  (s.splitOn ";").mapM fun th => if th == "-" then .ok [] else (th.splitOn ",").mapM parseRes

def parseNats (s : String) : Except String (List Nat) :=
  if s == "-" then .ok [] else (s.splitOn ",").mapM nat

/-- run thread `t` until its call has finished (fuel: a call has at most 7 steps) -/
def finishCall (st : St) (t : Nat) : Nat → Option St
  | 0 => none
  | f + 1 =>
    match step st t with
    | none => none
    | some st' => if st'.out.length > st.out.length then some st' else finishCall st' t f

def setc (st : St) (c : Nat) : St := (stepEv st (.setCreation c)).getD st

/-- perform pending `set_creation`s until the creation in force is `target` -/
def advanceC (st : St) (target : Nat) : List Nat → Option (St × List Nat)
  | [] => if st.sh.creation == target then some (st, []) else none
  | c :: rest => if st.sh.creation == target then some (st, c :: rest) else advanceC (setc st c) target rest

def sameKey : Res → Res → Bool
  | .ok p, .ok q => p.id == q.id && p.serial == q.serial
  | .err, .err => true
  | .panic, .panic => true
  | _, _ => false

/-- index of the first thread whose next observed result is the one the model hands out next -/
def findThread (want : Res) : Nat → List (List Res) → Option (Nat × Res)
  | _, [] => none
  | k, [] :: rest => findThread want (k + 1) rest
  | k, (hd :: _) :: rest => if sameKey hd want then some (k, hd) else findThread want (k + 1) rest

def dropHead (k : Nat) : List (List Res) → List (List Res)
  | [] => []
  | l :: rest => if k == 0 then l.tail :: rest else l :: dropHead (k - 1) rest

def validate : Nat → St → List (List Res) → List Nat → Except String St
  | 0, st, heads, pend =>
    if heads.all List.isEmpty then .ok (pend.foldl setc st) else .error "fuel"
  | f + 1, st, heads, pend =>
    if heads.all List.isEmpty then .ok (pend.foldl setc st) else
    -- the lock is free here, so the shared state is the sequential one: the next call to acquire it gets `alloc st.sh`
    let want := (alloc st.sh).1
    match findThread want 0 heads with
    | none => .error ("no-thread-has-next=" ++ resText want)
    | some (k, hd) =>
      let adv : Option (St × List Nat) :=
        match hd with
        | .ok p => advanceC st p.creation pend
        | _ => some (st, pend)
      match adv with
      | none => .error ("creation-never-in-force=" ++ resText hd)
      | some (st1, pend1) =>
        match finishCall st1 k 8 with
        | none => .error "model-stuck"
        | some st2 =>
          if st2.out.getLast? == some (k, hd) then validate f st2 (dropHead k heads) pend1
          else .error ("model-gives=" ++ (match st2.out.getLast? with | some x => resText x.2 | none => "-") ++ " observed=" ++ resText hd)

/-- replay an executed step trace (hook-level scheduler): tokens `<thread><code>`, code `L` = `lock()` granted and
acquired, `B` = lock attempt found the mutex busy (the model's thread must be blocked), `s` = one atomic step,
`c` = the creation load and the return (two model steps, no hook point between them) -/
def replay (st : St) : List String → Except String St
  | [] => .ok st
  | tok :: rest => do
    let code := tok.back
    let t ← nat (tok.dropEnd 1).toString
    let one (st : St) : Except String St :=
      match step st t with
      | some st' => .ok st'
      | none => .error s!"model-blocked-at={tok}"
    let st' ← match code with
      | 'B' => match step st t with
        | none => .ok st
        | some _ => .error s!"model-not-blocked-at={tok}"
      | 'L' => do
        let st' ← one st
        if st'.lock == some t || st.sh.poisoned then pure st' else .error s!"not-a-lock-step={tok}"
      | 's' => one st
      | 'c' => do one (← one st)
      | _ => .error ("bad-token " ++ tok)
    replay st' rest

/-- per-thread projection of the model's completion log -/
def perThread (out : List (Nat × Res)) (k : Nat) : List Res := (out.filter (·.1 == k)).map (·.2)

def allPairs (l : List (Nat × Nat)) : Bool :=
  match l with
  | [] => true
  | x :: rest => !rest.contains x && allPairs rest

end Pids

/-! ### references -/
section Refs
open RefCounter

def refText (r : Ref) : String := s!"{r.creation}:{r.w0}:{r.w1}:{r.w2}"

def parseRef (s : String) : Except String Ref :=
  match s.splitOn ":" with
  | [c, a, b, d] => do pure ⟨← nat c, ← nat a, ← nat b, ← nat d⟩
  | _ => .error ("bad-ref " ++ s)

def hashRef (h : UInt64) (r : Ref) : UInt64 := mix (mix (mix (mix h r.creation) r.w0) r.w1) r.w2

def refSeqLoop (c0 cre : Nat) : Nat → Nat → UInt64 → Ref → UInt64 × Ref
  | 0, _, h, last => (h, last)
  | n + 1, i, h, _ => let r := seqRef c0 cre i; refSeqLoop c0 cre n (i + 1) (hashRef h r) r

def parseRefLists (s : String) : Except String (List (List Ref)) :=
  (s.splitOn ";").mapM fun th => if th == "-" then .ok [] else (th.splitOn ",").mapM parseRef

/-- the word thread `k` must obtain next, given its program counter and its next observed reference -/
def needed (pc : RPc) (hd : Ref) : Option Nat :=
  match pc with
  | .idle => some hd.w0
  | .f1 _ => some hd.w1
  | .f2 _ _ => some hd.w2
  | _ => none

def findRefThread (st : RSt) : Nat → List (List Ref) → Option (Nat × Ref)
  | _, [] => none
  | k, [] :: rest => findRefThread st (k + 1) rest
  | k, (hd :: _) :: rest =>
    if needed (st.pc k) hd == some st.counter then some (k, hd) else findRefThread st (k + 1) rest

def dropRefHead (k : Nat) : List (List Ref) → List (List Ref)
  | [] => []
  | l :: rest => if k == 0 then l.tail :: rest else l :: dropRefHead (k - 1) rest

def isF3 : RPc → Bool
  | .f3 _ _ _ => true
  | _ => false

/-- every `fetch_add` of the observed run is replayed as one model step of the thread that observed its value -/
def validateRefs : Nat → RSt → List (List Ref) → Except String RSt
  | 0, st, heads => if heads.all List.isEmpty then .ok st else .error "fuel"
  | f + 1, st, heads =>
    if heads.all List.isEmpty then .ok st else
    match findRefThread st 0 heads with
    | none => .error s!"no-thread-wants-counter={st.counter}"
    | some (k, hd) =>
      let st1 := RefCounter.step st k
      if isF3 (st1.pc k) then
        -- third word obtained: the creation load and the return follow (no other thread can observe the difference)
        let st2 := RefCounter.step (RefCounter.step st1 k) k
        if st2.out.getLast? == some (k, hd) then validateRefs f st2 (dropRefHead k heads)
        else .error ("model-gives=" ++ (match st2.out.getLast? with | some x => refText x.2 | none => "-") ++ " observed=" ++ refText hd)
      else validateRefs f st1 heads

def allDistinct (l : List Ref) : Bool :=
  match l with
  | [] => true
  | x :: rest => !rest.contains x && allDistinct rest

end Refs

/-! ### node-level histories (`Impl/Edp.Impl.NodeIds.lean`) -/

def parseNodeOp (t : String) : Except String Edp.Impl.NodeIds.Op :=
  if t == "r" then .ok .makeRef else if t == "p" then .ok .spawn else if t == "a" then .ok .allocate
  else if t == "u" then .ok .unlink else if t == "S!" then .ok (.start none)
  else if t.startsWith "S" then do pure (.start (some (← nat (t.drop 1).toString)))
  else .error ("bad node op " ++ t)

def nodeOutText : Edp.Impl.NodeIds.Out → String
  | .pid r => "P" ++ resText r
  | .ref r => "R" ++ refText r
  | .unlinkId n => "U" ++ toString n
  | .startOk => "ok"
  | .refused => "refused"

/-- the creation in force before each call of a history, computed directly from the history's text (independent of the
model): 1 until the first `start`; the value EPMD gave if that first `start` got one; later `start`s change nothing -/
def creationsInForce : Bool → Nat → List String → List Nat
  | _, _, [] => []
  | started, cur, t :: r =>
    if t.startsWith "S" then
      let cur' := if started || t == "S!" then cur else ((t.drop 1).toString.toNat?).getD cur
      cur :: creationsInForce true cur' r
    else cur :: creationsInForce started cur r

def nodeCreationOf (o : String) : Option Nat :=
  if o.startsWith "R" then ((o.drop 1).toString.splitOn ":").head?.bind String.toNat?
  else if o.startsWith "P" then (((o.drop 1).toString.splitOn ".").getD 2 "").toNat?
  else none

def allDistinctStr : List String → Bool
  | [] => true
  | a :: r => !r.contains a && allDistinctStr r


end C16

open C16 Edp.Impl in

def handleC16 : List String → Option String
  | ["c16seq", id0, ser0, cre, n] => some <| runE do
    let s : PidAlloc.Sh := ⟨← nat id0, ← nat ser0, ← nat cre, false⟩
    let (s', h, k, last) := seqLoop (← nat n) s hash0 0 .err
    pure s!"h={h} ok={k} last={resText last} st={stText s'}"
  | ["c16win", id0, ser0, cre, frm, cnt] => some <| runE do
    let s : PidAlloc.Sh := ⟨← nat id0, ← nat ser0, ← nat cre, false⟩
    let rs := window (← nat cnt) (skip (← nat frm) s) []
    pure (",".intercalate (rs.map resText))
  | ["c16ops", id0, ser0, cre, ops] => some <| runE do
    let s : PidAlloc.Sh := ⟨← nat id0, ← nat ser0, ← nat cre, false⟩
    let q := PidAlloc.seqRun s (← parseOps ops)
    pure s!"{",".intercalate (q.1.map resText)} st={stText q.2} cre={q.2.creation}"
  | ["c16thr", id0, ser0, cre, setcs, lists] => some <| runE do
    let s : PidAlloc.Sh := ⟨← nat id0, ← nat ser0, ← nat cre, false⟩
    let heads ← parseLists lists
    let pend ← parseNats setcs
    let n := heads.foldl (fun a l => a + l.length) 0
    match validate (n + 1) (PidAlloc.St.init s) heads pend with
    | .error e => pure ("rejected " ++ e)
    | .ok st =>
      -- the reconstructed schedule, run through the small-step model, reproduces every thread's observations
      let okAll := (List.range heads.length).all fun k => perThread st.out k == heads.getD k []
      if okAll && st.lock == none then pure s!"admitted n={n} st={stText st.sh} cre={st.sh.creation}"
      else pure "rejected per-thread-mismatch"
  | ["c16trace", id0, ser0, cre, nthreads, toks] => some <| runE do
    let s : PidAlloc.Sh := ⟨← nat id0, ← nat ser0, ← nat cre, false⟩
    match replay (PidAlloc.St.init s) (toks.splitOn ",") with
    | .error e => pure ("rejected " ++ e)
    | .ok st =>
      let per := (List.range (← nat nthreads)).map fun k => ",".intercalate ((perThread st.out k).map resText)
      pure s!"{";".intercalate per} st={stText st.sh} lock={match st.lock with | some t => toString t | none => "-"}"
  | ["c16uniq", cre, setcs, lists] => some <| runE do
    let heads ← parseLists lists
    let allowed := (← nat cre) :: (← parseNats setcs)
    let oks := heads.flatten.filterMap fun r => match r with | .ok p => some p | _ => none
    if !allPairs (oks.map fun p => (p.id, p.serial)) then pure "FAIL duplicate-id-serial"
    else if !oks.all (fun p => allowed.contains p.creation) then pure "FAIL creation-never-in-force"
    else pure "ok"
  | ["c16refseq", c0, cre, n] => some <| runE do
    let (h, last) := refSeqLoop (← nat c0) (← nat cre) (← nat n) 0 hash0 default
    pure s!"h={h} last={refText last}"
  | ["c16refrun", c0, cre, n] => some <| runE do
    -- the small-step model itself, one thread, n calls in a row
    let st := RefCounter.run (RefCounter.RSt.init (← nat c0) (← nat cre)) (List.replicate (5 * (← nat n)) (RefCounter.REv.task 0))
    pure (",".intercalate (st.out.map fun x => refText x.2))
  | ["c16refthr", c0, cre, lists] => some <| runE do
    let heads ← parseRefLists lists
    let n := heads.foldl (fun a l => a + l.length) 0
    match validateRefs (3 * n + 1) (RefCounter.RSt.init (← nat c0) (← nat cre)) heads with
    | .error e => pure ("rejected " ++ e)
    | .ok st =>
      let okAll := (List.range heads.length).all fun k =>
        ((st.out.filter (·.1 == k)).map (·.2)) == heads.getD k []
      if okAll then pure s!"admitted n={n} counter={st.counter}" else pure "rejected per-thread-mismatch"
  | ["c16refuniq", cre, lists] => some <| runE do
    let rs := (← parseRefLists lists).flatten
    let c ← nat cre
    if !allDistinct rs then pure "FAIL duplicate-reference"
    else if !rs.all (fun r => r.creation == c) then pure "FAIL creation-never-in-force"
    else pure "ok"
  | ["c16node", ops] => some <| runE do
    let ops ← (ops.splitOn ",").mapM parseNodeOp
    pure (",".intercalate ((NodeIds.run NodeIds.NSt.new ops).1.map nodeOutText))
  | ["c16nodecre", ops, outs] => some <| runE do
    let os := outs.splitOn ","
    let inf := creationsInForce false 1 (ops.splitOn ",")
    if os.length != inf.length then pure "FAIL length" else
    let bad := (os.zip inf).filter fun (o, c) => match nodeCreationOf o with | some g => g != c | none => false
    let ids := os.filter fun o => o.startsWith "R" || (o.startsWith "P" && o != "Perr" && o != "Ppanic")
    if !bad.isEmpty then pure s!"FAIL creation-not-in-force {bad.head!.1} want={bad.head!.2}"
    else if !allDistinctStr ids then pure "FAIL duplicate-identifier"
    else pure "ok"
  | _ => none

end Edp.Drv
