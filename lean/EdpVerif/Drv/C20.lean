import EdpVerif.Drv.Etf
import EdpVerif.Impl.Elixir
import EdpVerif.Spec.Elixir
/-! Driver requests of property C20 (Elixir wrappers, ranges, proplist/map helpers). -/
namespace Edp.Drv
open Edp Edp.Ex

namespace C20

def getInt (s : String) : Except String Int :=
  match s.toInt? with
  | some i => .ok i
  | none => .error ("bad-int " ++ s)

def getNat (s : String) : Except String Nat :=
  match s.toNat? with
  | some i => .ok i
  | none => .error ("bad-nat " ++ s)

/-- `-` = None, `=<hex>` = Some(bytes) -/
def getOptHex (s : String) : Except String (Option Bytes) :=
  if s == "-" then .ok none else
  match s.toList with
  | '=' :: r => match unhexL r with
    | some b => .ok (some b)
    | none => .error "bad-opt-hex"
  | _ => .error "bad-opt-hex"

def getOptInt (s : String) : Except String (Option Int) :=
  if s == "-" then .ok none else
  match s.toList with
  | '=' :: r => (getInt (String.ofList r)).map some
  | _ => .error "bad-opt-int"

def getOptTerm (s : String) : Except String (Option Term) :=
  if s == "-" then .ok none else
  match s.toList with
  | '=' :: r => (getTerm (String.ofList r)).map some
  | _ => .error "bad-opt-term"

def hintText (h : Nat × Option Nat) : String :=
  toString h.1 ++ "/" ++ (match h.2 with | some n => toString n | none => "none")

def intsText (l : List Int) : String := if l.isEmpty then "-" else ",".intercalate (l.map toString)

def optHexText : Option Bytes → String
  | none => "-"
  | some b => "=" ++ hexOf b

def optIntText : Option Int → String
  | none => "-"
  | some i => "=" ++ toString i

def optTermText : Option Term → String
  | none => "-"
  | some t => "=" ++ t.text

def naiveText (x : Naive) : String :=
  s!"{x.year},{x.month},{x.day},{x.hour},{x.minute},{x.second},{x.usValue},{x.usPrecision}"

/-- module of the one-field exceptions, by short name -/
def excModule : String → Except String Bytes
  | "argument" => .ok mArgumentError
  | "runtime" => .ok mRuntimeError
  | "arithmetic" => .ok mArithmeticError
  | "match" => .ok mMatchError
  | "badmap" => .ok mBadMapError
  | "badfun" => .ok mBadFunctionError
  | "caseclause" => .ok mCaseClauseError
  | "withclause" => .ok mWithClauseError
  | s => .error ("bad-exc " ++ s)

def getNaive (a : List String) : Except String Naive :=
  match a with
  | [y, mo, d, h, mi, s, uv, up] => do
    pure ⟨← getInt y, ← getInt mo, ← getInt d, ← getInt h, ← getInt mi, ← getInt s, ← getInt uv, ← getInt up⟩
  | _ => .error "bad-naive"

/-- the `(key, value)` pairs of a list of `{atom, value}` tuples (builder input) -/
def getPairs (t : Term) : Except String (List (Bytes × Term)) :=
  match t with
  | .nil => .ok []
  | .list l => l.mapM fun
    | .tuple [.atom k, v] => .ok (k, v)
    | _ => .error "bad-pairs"
  | _ => .error "bad-pairs"

def toTermReq : List String → Except String Term
  | ["range", f, l, s] => do pure (Range.toTerm ⟨← getInt f, ← getInt l, ← getInt s⟩)
  | ["date", y, m, d] => do pure (Date.toTerm ⟨← getInt y, ← getInt m, ← getInt d⟩)
  | ["time", h, mi, s, uv, up] => do
    pure (Time.toTerm ⟨← getInt h, ← getInt mi, ← getInt s, ← getInt uv, ← getInt up⟩)
  | "naive" :: r => do pure (Naive.toTerm (← getNaive r))
  | ["datetime", y, mo, d, h, mi, s, uv, up, tz, za, uo, so] => do
    pure (DateTime.toTerm ⟨← getNaive [y, mo, d, h, mi, s, uv, up], ← getHex tz, ← getHex za, ← getInt uo, ← getInt so⟩)
  | ["mapset", vals] => do
    match ← getTerm vals with
    | .list l => pure (MapSet.ofValues l).toTerm
    | .nil => pure (MapSet.ofValues []).toTerm
    | _ => .error "bad-mapset"
  | ["msg", k, m] => do pure (msgExcToTerm (← excModule k) (← getHex m))
  | ["texc", k, t] => do pure (termExcToTerm (← excModule k) (← getTerm t))
  | ["cond"] => pure condExcToTerm
  | ["keyerr", k, t, m] => do pure (KeyError.toTerm ⟨← getTerm k, ← getTerm t, ← getOptHex m⟩)
  | ["undef", m, f, a, r] => do pure (UndefFn.toTerm ⟨← getHex m, ← getHex f, ← getInt a, ← getOptHex r⟩)
  | ["fncl", m, f, a, g] => do pure (FnClause.toTerm ⟨← getOptHex m, ← getOptHex f, ← getOptInt a, ← getOptTerm g⟩)
  | _ => .error "bad-c20to"

def optText {α : Type} (f : α → String) : Option α → String
  | none => "none"
  | some a => f a

def fromTermReq (kind : List String) (t : Term) : Except String String :=
  match kind with
  | ["range"] => pure <| optText (fun r => s!"R({r.first},{r.last},{r.step})") (Range.fromTerm t)
  | ["date"] => pure <| optText (fun d => s!"D({d.year},{d.month},{d.day})") (Date.fromTerm t)
  | ["time"] => pure <| optText (fun x => s!"T({x.hour},{x.minute},{x.second},{x.usValue},{x.usPrecision})") (Time.fromTerm t)
  | ["naive"] => pure <| optText (fun x => "N(" ++ naiveText x ++ ")") (Naive.fromTerm t)
  | ["datetime"] => pure <| optText (fun x =>
      "Z(" ++ naiveText x.naive ++ s!",{hexOf x.timeZone},{hexOf x.zoneAbbr},{x.utcOffset},{x.stdOffset})") (DateTime.fromTerm t)
  | ["mapset"] => pure <| optText (fun s => "M[" ++ Term.textL s.elements ++ "]") (MapSet.fromTerm t)
  | ["msg", k] => do
    let m ← excModule k
    pure <| optText (fun b => "E" ++ hexOf b) (msgExcFromTerm m t)
  | ["texc", k] => do
    let m ← excModule k
    pure <| optText (fun x => "X" ++ x.text) (termExcFromTerm m t)
  | ["cond"] => pure <| optText (fun _ => "C") (condExcFromTerm t)
  | ["keyerr"] => pure <| optText (fun e => "K(" ++ e.key.text ++ ";" ++ e.term.text ++ ";" ++ optHexText e.message ++ ")") (KeyError.fromTerm t)
  | ["undef"] => pure <| optText (fun e => s!"UF({hexOf e.module},{hexOf e.function},{e.arity},{optHexText e.reason})") (UndefFn.fromTerm t)
  | ["fncl"] => pure <| optText (fun e =>
      "FC(" ++ optHexText e.module ++ "," ++ optHexText e.function ++ "," ++ optIntText e.arity ++ "," ++ optTermText e.args ++ ")") (FnClause.fromTerm t)
  | _ => .error "bad-c20from"

def resText : Option Term → String
  | some t => "ok " ++ t.text
  | none => "err"

end C20

open C20 in
def handleC20 : List String → Option String
  -- model of ElixirRange: is_empty, len, contains(v), size_hint, the first k `next()` results, size_hint afterwards
  | ["c20range", f, l, s, v, k] => some <| run do
    let r : Range := ⟨← getInt f, ← getInt l, ← getInt s⟩
    let v ← getInt v
    let k ← getNat k
    let (xs, it, ended) := r.walk k r.iter []
    pure (s!"e={if r.isEmpty then 1 else 0} len={r.len} c={if r.contains v then 1 else 0} sh={hintText (r.sizeHint r.iter)} " ++
      s!"it={intsText xs};{if ended then "end" else "more"} sh2={hintText (r.sizeHint it)}")
  -- Spec oracles on the implementation's answers
  -- `len` is the Spec's count, saturated at usize::MAX (2^64 - 1) because the return type cannot hold more
  | ["c20rlen", f, l, s, got] => some <| run do
    let c := Spec.Range.count (← getInt f) (← getInt l) (← getInt s)
    let want := toString (min c 18446744073709551615)
    pure (if got == want then "ok" else s!"FAIL spec={c} impl={got}")
  -- `size_hint` is (count, Some(count)), or (usize::MAX, None) when the count does not fit usize
  | ["c20rhint", f, l, s, got] => some <| run do
    let c := Spec.Range.count (← getInt f) (← getInt l) (← getInt s)
    let want := if c ≤ 18446744073709551615 then s!"{c}/{c}" else "18446744073709551615/none"
    pure (if got == want then "ok" else s!"FAIL spec={c} impl={got}")
  | ["c20rcont", f, l, s, v, got] => some <| run do
    let b := Spec.Range.mem (← getInt f) (← getInt l) (← getInt s) (← getInt v)
    let want := if b then "1" else "0"
    pure (if got == want then "ok" else s!"FAIL spec={want} impl={got}")
  | ["c20riter", f, l, s, k, got] => some <| run do
    let f ← getInt f
    let l ← getInt l
    let s ← getInt s
    let k ← getNat k
    let c := Spec.Range.count f l s
    let xs := (List.range (min c k)).map (Spec.Range.nth f s)
    let want := intsText xs ++ ";" ++ (if c < k then "end" else "more")
    pure (if got == want then "ok" else s!"FAIL spec={want} impl={got}")
  -- the constructors that normalise the module spelling
  | ["c20new", "undef", m, f, a, r] => some <| run do
    let e := UndefFn.new (← getHex m) (← getHex f) (← getInt a) (← getOptHex r)
    pure s!"UF({hexOf e.module},{hexOf e.function},{e.arity},{optHexText e.reason})"
  | ["c20new", "fncl", m, f, a, g] => some <| run do
    let e := FnClause.new (← getHex m) (← getHex f) (← getInt a) (← getTerm g)
    pure ("FC(" ++ optHexText e.module ++ "," ++ optHexText e.function ++ "," ++ optIntText e.arity ++ "," ++ optTermText e.args ++ ")")
  | "c20to" :: r => some <| run do
    let t ← toTermReq r
    pure t.text
  | "c20from" :: r =>
    match r.reverse with
    | t :: kindRev => some <| run do
      let t ← getTerm t
      fromTermReq kindRev.reverse t
    | [] => some "bad-op c20from"
  -- what the wire does to a term; the Lean codec model must agree with `wireNorm`
  | ["c20wire", t] => some <| run do
    let t ← getTerm t
    let w := wireNorm t
    match encode t with
    | .error _ => pure "err"
    | .ok b =>
      match decode Ext.none b with
      | .ok d => if d == w then pure ("ok " ++ w.text) else pure ("MODEL-CODEC-DISAGREES wireNorm=" ++ w.text ++ " codec=" ++ d.text)
      | .error _ => pure "MODEL-CODEC-REJECTS"
  | ["c20isp", t] => some <| run do pure (if isProplist (← getTerm t) then "1" else "0")
  | ["c20norm", t] => some <| run do pure (resText (normalizeProplist (← getTerm t)))
  | ["c20p2m", t] => some <| run do pure (resText (proplistToMap (← getTerm t)))
  | ["c20m2p", t] => some <| run do pure (resText (mapToProplist (← getTerm t)))
  | ["c20rec", t] => some <| run do pure ("ok " ++ (toMapRec t.length (← getTerm t)).text)
  | ["c20pget", t, k] => some <| run do
    pure (optText (fun x => "ok " ++ x.text) (proplistGetAtomKey (← getTerm t) (← getHex k)))
  | ["c20kw", t] => some <| run do pure (kwBuild (← getPairs (← getTerm t))).text
  | ["c20akm", t] => some <| run do pure (akmBuild (← getPairs (← getTerm t))).text
  | ["c20akms", t, m] => some <| run do pure (akmBuildStruct (← getPairs (← getTerm t)) (← getHex m)).text
  | _ => none

end Edp.Drv
