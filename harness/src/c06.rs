//! C06: receiving delivers each peer message exactly once, in order, and survives junk.
//!
//! Drives the REAL `Connection::receive_message` and `Connection::receive_message_from_read_half` over a loopback socket
//! against the scripted peer (peer.rs), one fresh connection per frame history.
//!
//!   T c06recv <conn|rh> <oracle> <frames>                      the results the real API returned for the history vs. the Lean
//!                                                               model (lean/EdpVerif/Impl/Recv.lean)
//!   P c06oracle <conn|rh> <pt|hdr> <oracle> <frames> <results> the reference receiver of Spec/Peer.lean reads the same frames
//!                                                               by the protocol and judges the real results
//!   P c06form …                                                 the frames the peer sent are the frames Spec/Peer.lean part 1
//!                                                               builds from the terms' bytes (ties the theorems' frame
//!                                                               builders to real bytes)
//!   X c06-panic / c06-timeout / c06-connect                     the harness itself saw the receive task die / hang
//!
//! Failure classes: `gen`; `kf-c06-multi-fragment-order` (a message in two or more fragments comes out scrambled because
//! the assembler concatenates by ascending fragment id — recorded known finding, see notes/C06.md).
use crate::canon::{hex, term_text};
use crate::oracle::oracle_for;
use crate::peer::*;
use crate::rng::Rng;
use crate::tgen::{gen_pid, gen_ref, gen_term, Cfg};
use crate::Ctx;
use edp_client::{Connection, ConnectionConfig, DistributionFlags, Error};
use erltf::types::Atom;
use erltf::OwnedTerm;
use std::sync::{Arc, Mutex};
use std::time::Duration;
use tokio::io::{AsyncReadExt, AsyncWriteExt};
use tokio::net::TcpListener;

#[derive(Clone, Copy, PartialEq, Debug)]
enum Api {
    Conn,
    Rh,
}

#[derive(Clone, Copy, PartialEq, Debug)]
enum Mode {
    Pt,
    Hdr,
}

impl Api {
    fn word(self) -> &'static str {
        match self {
            Api::Conn => "conn",
            Api::Rh => "rh",
        }
    }
}
impl Mode {
    fn word(self) -> &'static str {
        match self {
            Mode::Pt => "pt",
            Mode::Hdr => "hdr",
        }
    }
}

fn frames_word(frames: &[Vec<u8>]) -> String {
    if frames.is_empty() {
        return "-".to_string();
    }
    frames.iter().map(|f| if f.is_empty() { "-".to_string() } else { hex(f) }).collect::<Vec<_>>().join(",")
}

fn results_word(r: &[String]) -> String {
    if r.is_empty() { "-".to_string() } else { r.join("/") }
}

/// external-call table for a whole history: every frame, plus the bodies in sending order and in reverse (what a
/// reassembly may put next to each other)
fn history_oracle(frames: &[Vec<u8>]) -> Option<String> {
    let mut entries: Vec<String> = vec![];
    let mut add = |b: &[u8]| -> bool {
        match oracle_for(b) {
            None => false,
            Some(s) => {
                if s != "-" {
                    for e in s.split(';') {
                        entries.push(e.to_string());
                    }
                }
                true
            }
        }
    };
    let all: Vec<u8> = frames.iter().flatten().copied().collect();
    let rev: Vec<u8> = frames.iter().rev().flatten().copied().collect();
    if !add(&all) || !add(&rev) {
        return None;
    }
    entries.sort();
    entries.dedup();
    Some(if entries.is_empty() { "-".to_string() } else { entries.join(";") })
}

/// One history against the real code. Returns what the successive receive calls returned.
async fn run_history(
    listener: &Arc<TcpListener>,
    case: usize,
    api: Api,
    mode: Mode,
    frames: &[Vec<u8>],
    cuts: Option<Vec<usize>>,
) -> Vec<String> {
    let mut pcfg = PeerCfg::new("c06peer@127.0.0.1", "secret");
    if mode == Mode::Hdr {
        pcfg.flags |= 0x2000 | 0x800_0000;
    }
    let l2 = listener.clone();
    let frames2: Vec<Vec<u8>> = frames.to_vec();
    let peer = tokio::spawn(async move {
        let Some(mut p) = accept_and_handshake(&l2, &pcfg).await else { return false };
        let mut stream = vec![];
        for f in &frames2 {
            stream.extend_from_slice(&(f.len() as u32).to_be_bytes());
            stream.extend_from_slice(f);
        }
        match cuts {
            Some(c) => p.send_chunked(&stream, &c).await,
            None => {
                let _ = p.stream.write_all(&stream).await;
                let _ = p.stream.flush().await;
            }
        }
        // end of stream for the client; then wait for it to hang up
        let _ = p.stream.shutdown().await;
        let mut sink = [0u8; 64];
        let _ = tokio::time::timeout(Duration::from_secs(5), p.stream.read(&mut sink)).await;
        true
    });
    let mut flags = DistributionFlags::default().as_u64();
    if mode == Mode::Hdr {
        flags |= 0x2000;
    }
    let timeout = Duration::from_millis(2500);
    let cfg = ConnectionConfig::new(format!("c06cli{}@127.0.0.1", case), "c06peer@127.0.0.1", "secret")
        .with_flags(DistributionFlags::new(flags))
        .with_timeout(timeout);
    let results: Arc<Mutex<Vec<String>>> = Arc::new(Mutex::new(vec![]));
    let r2 = results.clone();
    let limit = frames.len() + 2;
    let client = tokio::spawn(async move {
        let push = |s: String| r2.lock().unwrap().push(s);
        let mut conn = Connection::new(cfg);
        if conn.connect().await.is_err() {
            push("connect-failed".into());
            return;
        }
        if mode == Mode::Hdr {
            let ok = conn.negotiated_flags().map(|f| f.as_u64() & 0x2000 != 0).unwrap_or(false);
            if !ok {
                push("header-mode-not-negotiated".into());
                return;
            }
        }
        let show = |r: Result<(edp_client::control::ControlMessage, Option<OwnedTerm>), Error>| -> Option<String> {
            match r {
                Ok((c, p)) => Some(format!(
                    "ok~{}~{}",
                    crate::c08::msg_text(&c),
                    p.as_ref().map(term_text).unwrap_or("-".to_string())
                )),
                Err(Error::Io(_)) => None,
                Err(Error::Timeout(_)) => Some("timeout".to_string()),
                Err(Error::MessageTooLarge { .. }) => Some("too-large".to_string()),
                Err(_) => Some("err".to_string()),
            }
        };
        match api {
            Api::Conn => {
                for _ in 0..limit {
                    match show(conn.receive_message().await) {
                        None => break,
                        Some(s) => {
                            let stop = s == "timeout";
                            push(s);
                            if stop {
                                break;
                            }
                        }
                    }
                }
            }
            Api::Rh => {
                let Some(mut rh) = conn.take_read_half() else {
                    push("no-read-half".into());
                    return;
                };
                for _ in 0..limit {
                    match show(Connection::receive_message_from_read_half(&mut rh, timeout).await) {
                        None => break,
                        Some(s) => {
                            let stop = s == "timeout";
                            push(s);
                            if stop {
                                break;
                            }
                        }
                    }
                }
            }
        }
    });
    let joined = client.await;
    if let Err(e) = joined {
        if e.is_panic() {
            results.lock().unwrap().push("panic".to_string());
        }
    }
    let _ = tokio::time::timeout(Duration::from_secs(6), peer).await;
    let out = results.lock().unwrap().clone();
    out
}

/* ------------------------------------------------------------------------------------------------------------------ */
/* generators                                                                                                         */

/// (tag, arity including the tag) of every operation the library has a structured variant for
const OPS: &[(u8, usize)] = &[
    (1, 3), (2, 3), (3, 4), (4, 3), (5, 1), (6, 4), (7, 3), (8, 4), (12, 4), (13, 5), (16, 5), (18, 5), (19, 4), (20, 4),
    (21, 5), (22, 3), (23, 4), (24, 3), (25, 4), (26, 3), (27, 4), (28, 4), (29, 7), (30, 8), (31, 5), (32, 6), (33, 3),
    (34, 4), (35, 4), (36, 4),
];

fn small_cfg() -> Cfg {
    Cfg { max_depth: 2, wf: true, maps: true, local_ids: false, huge: false, funs: true }
}

fn gen_element(r: &mut Rng) -> OwnedTerm {
    match r.below(6) {
        0 | 1 => OwnedTerm::Pid(gen_pid(r, false)),
        2 => OwnedTerm::Atom(Atom::new(*r.pick(&["", "ok", "normal", "rex", "kill", "noproc"]))),
        3 => OwnedTerm::Reference(gen_ref(r, false, false)),
        _ => gen_term(r, &small_cfg(), 1),
    }
}

/// a control tuple: every operation the library knows (right arity), sometimes an unknown tag or an arity the table does
/// not have (both come back as `Generic`)
fn gen_control(r: &mut Rng, ctx_count: &mut Vec<String>) -> OwnedTerm {
    let (tag, arity) = match r.below(12) {
        0 => (*r.pick(&[0u8, 9, 10, 11, 14, 15, 17, 37, 38, 100, 255]), r.range(1, 5) as usize),
        1 => {
            let (t, a) = *r.pick(OPS);
            (t, if a > 1 && r.chance(1, 2) { a - 1 } else { a + 1 })
        }
        _ => *r.pick(OPS),
    };
    ctx_count.push(format!("control_tag_{}", tag));
    let mut v = vec![OwnedTerm::Integer(tag as i64)];
    for i in 1..arity {
        if (tag == 35 || tag == 36) && i == 1 && arity == 4 {
            // the Id element: 0 ≤ id < 2^64, as an integer or (above i64::MAX) a bignum
            let id = *r.pick(&[0u64, 1, 255, 256, 1 << 31, 1 << 32, (1 << 63) - 1, 1 << 63, u64::MAX]);
            if id <= i64::MAX as u64 {
                v.push(OwnedTerm::Integer(id as i64));
            } else {
                let mut d = id.to_le_bytes().to_vec();
                while d.len() > 1 && *d.last().unwrap() == 0 {
                    d.pop();
                }
                v.push(OwnedTerm::BigInt(erltf::types::BigInt::new(false, d)));
            }
        } else {
            v.push(gen_element(r));
        }
    }
    OwnedTerm::Tuple(v)
}

fn gen_payload(r: &mut Rng, big: bool) -> OwnedTerm {
    if big {
        // sizes up to multi-fragment: a binary well above one TCP segment
        let n = *r.pick(&[1500usize, 4096, 70000]);
        return OwnedTerm::Tuple(vec![OwnedTerm::Atom(Atom::new("blob")), OwnedTerm::Binary(r.bytes(n))]);
    }
    let c = Cfg { max_depth: 3, wf: true, maps: true, local_ids: r.chance(1, 4), huge: false, funs: true };
    gen_term(r, &c, 0)
}

/// a valid message in pass-through form: (frame, control bytes without version, payload bytes without version)
fn gen_pt_message(r: &mut Rng, big: bool, counts: &mut Vec<String>) -> (Vec<u8>, Vec<u8>, Option<Vec<u8>>) {
    loop {
        let control = gen_control(r, counts);
        let payload = if big || r.chance(3, 5) { Some(gen_payload(r, big)) } else { None };
        let Ok(cb) = erltf::encode(&control) else { continue };
        let pb = match &payload {
            Some(p) => match erltf::encode(p) {
                Ok(b) => Some(b),
                Err(_) => continue,
            },
            None => None,
        };
        let frame = pass_through(&control, payload.as_ref());
        return (frame, cb[1..].to_vec(), pb.map(|b| b[1..].to_vec()));
    }
}

/// Terms written directly as external-format bytes for header mode: atoms are references into the header under
/// construction (or inline SMALL_ATOM_UTF8_EXT, which is legal too). Only modern tags.
struct HGen {
    atoms: Vec<Vec<u8>>,
    /// at least one atom longer than 255 bytes forces the LongAtoms layout
    allow_long: bool,
}

impl HGen {
    fn atom(&mut self, r: &mut Rng, out: &mut Vec<u8>) {
        let name: Vec<u8> = match r.below(10) {
            0 => vec![],
            1 => "kéks".as_bytes().to_vec(),
            2 if self.allow_long && r.chance(1, 3) => vec![b'x'; 300],
            3 => vec![b'y'; 255],
            _ => r.pick(&["ok", "error", "a@h", "n@127.0.0.1", "rex", "true", "Elixir.Foo", "b"]).as_bytes().to_vec(),
        };
        if name.len() <= 255 && r.chance(1, 6) {
            out.push(119);
            out.push(name.len() as u8);
            out.extend_from_slice(&name);
            return;
        }
        let idx = match self.atoms.iter().position(|a| *a == name) {
            Some(i) => i,
            None => {
                if self.atoms.len() >= 255 {
                    0
                } else {
                    self.atoms.push(name);
                    self.atoms.len() - 1
                }
            }
        };
        out.push(82);
        out.push(idx as u8);
    }
    fn pid(&mut self, r: &mut Rng, out: &mut Vec<u8>) {
        out.push(88);
        self.atom(r, out);
        out.extend_from_slice(&(r.next() as u32 & 0x0fff_ffff).to_be_bytes());
        out.extend_from_slice(&(r.below(8192) as u32).to_be_bytes());
        out.extend_from_slice(&(r.next() as u32).to_be_bytes());
    }
    fn reference(&mut self, r: &mut Rng, out: &mut Vec<u8>) {
        let n = r.range(1, 5) as u16;
        out.push(90);
        out.extend_from_slice(&n.to_be_bytes());
        self.atom(r, out);
        out.extend_from_slice(&(r.next() as u32).to_be_bytes());
        for _ in 0..n {
            out.extend_from_slice(&(r.next() as u32).to_be_bytes());
        }
    }
    fn term(&mut self, r: &mut Rng, depth: u32, out: &mut Vec<u8>) {
        let leaf = depth >= 3 || r.chance(1, 2);
        if leaf {
            match r.below(12) {
                0 => out.extend_from_slice(&[97, r.next() as u8]),
                1 => {
                    out.push(98);
                    out.extend_from_slice(&(r.next() as u32).to_be_bytes());
                }
                2 => {
                    let n = r.range(1, 9) as u8;
                    out.extend_from_slice(&[110, n, r.below(2) as u8]);
                    let mut d = r.bytes(n as usize);
                    *d.last_mut().unwrap() |= 1;
                    out.extend_from_slice(&d);
                }
                3 => {
                    out.push(70);
                    out.extend_from_slice(&f64::to_bits(*r.pick(&[0.0, -1.5, 1e300, 3.25])).to_be_bytes());
                }
                4 | 5 => self.atom(r, out),
                6 => {
                    let n = r.below(9) as u32;
                    out.push(109);
                    out.extend_from_slice(&n.to_be_bytes());
                    out.extend_from_slice(&r.bytes(n as usize));
                }
                7 => out.push(106),
                8 => {
                    let n = r.range(1, 5) as u16;
                    out.push(107);
                    out.extend_from_slice(&n.to_be_bytes());
                    out.extend_from_slice(&r.bytes(n as usize));
                }
                9 => self.pid(r, out),
                10 => self.reference(r, out),
                _ => {
                    out.push(120);
                    self.atom(r, out);
                    out.extend_from_slice(&r.next().to_be_bytes());
                    out.extend_from_slice(&(r.next() as u32).to_be_bytes());
                }
            }
            return;
        }
        let n = r.below(4) as u32;
        match r.below(4) {
            0 => {
                out.extend_from_slice(&[104, n as u8]);
                for _ in 0..n {
                    self.term(r, depth + 1, out);
                }
            }
            1 => {
                if n == 0 {
                    out.push(106);
                    return;
                }
                out.push(108);
                out.extend_from_slice(&n.to_be_bytes());
                for _ in 0..n {
                    self.term(r, depth + 1, out);
                }
                if r.chance(1, 5) {
                    out.extend_from_slice(&[97, 7]); // improper tail
                } else {
                    out.push(106);
                }
            }
            2 => {
                out.push(116);
                out.extend_from_slice(&n.to_be_bytes());
                for k in 0..n {
                    out.extend_from_slice(&[97, k as u8]); // distinct keys
                    self.term(r, depth + 1, out);
                }
            }
            _ => {
                out.push(105);
                out.extend_from_slice(&n.to_be_bytes());
                for _ in 0..n {
                    self.term(r, depth + 1, out);
                }
            }
        }
    }
    fn control(&mut self, r: &mut Rng, counts: &mut Vec<String>) -> Vec<u8> {
        let (tag, arity) = if r.chance(1, 12) { (*r.pick(&[9u8, 40, 200]), r.range(1, 4) as usize) } else { *r.pick(OPS) };
        counts.push(format!("control_tag_{}", tag));
        let mut out = vec![104, arity as u8, 97, tag];
        for i in 1..arity {
            if (tag == 35 || tag == 36) && i == 1 {
                match r.below(3) {
                    0 => out.extend_from_slice(&[97, r.next() as u8]),
                    1 => {
                        out.push(98);
                        out.extend_from_slice(&(r.next() as u32 & 0x7fff_ffff).to_be_bytes());
                    }
                    _ => {
                        out.extend_from_slice(&[110, 8, 0]);
                        let mut d = r.bytes(8);
                        d[7] |= 0x80;
                        out.extend_from_slice(&d);
                    }
                }
                continue;
            }
            match r.below(4) {
                0 | 1 => self.pid(r, &mut out),
                2 => self.atom(r, &mut out),
                _ => self.term(r, 1, &mut out),
            }
        }
        out
    }
}

/// `N, flags, refs…` with every reference a new entry whose internal index is its position; `segs[i]` is the segment
fn header_bytes(atoms: &[Vec<u8>], segs: &[u8], long: bool) -> Vec<u8> {
    let n = atoms.len();
    if n == 0 {
        return vec![0];
    }
    let mut out = vec![n as u8];
    let mut nibbles: Vec<u8> = (0..n).map(|i| 8 | (segs[i] & 7)).collect();
    nibbles.push(if long { 1 } else { 0 });
    for pair in nibbles.chunks(2) {
        out.push(pair[0] | (pair.get(1).copied().unwrap_or(0) << 4));
    }
    for (i, a) in atoms.iter().enumerate() {
        out.push(i as u8);
        if long {
            out.extend_from_slice(&(a.len() as u16).to_be_bytes());
        } else {
            out.push(a.len() as u8);
        }
        out.extend_from_slice(a);
    }
    out
}

struct HMsg {
    atoms: Vec<Vec<u8>>,
    segs: Vec<u8>,
    long: bool,
    ctl: Vec<u8>,
    pay: Option<Vec<u8>>,
}

impl HMsg {
    fn header(&self) -> Vec<u8> {
        header_bytes(&self.atoms, &self.segs, self.long)
    }
    fn terms(&self) -> Vec<u8> {
        let mut t = self.ctl.clone();
        if let Some(p) = &self.pay {
            t.extend_from_slice(p);
        }
        t
    }
    fn frame(&self) -> Vec<u8> {
        let mut f = vec![131, 68];
        f.extend_from_slice(&self.header());
        f.extend_from_slice(&self.terms());
        f
    }
    /// the frames of this message cut into `lens.len() + 1` fragments
    fn fragments(&self, seq: u64, lens: &[usize]) -> Vec<Vec<u8>> {
        let terms = self.terms();
        let mut pieces: Vec<Vec<u8>> = vec![];
        let mut rest: &[u8] = &terms;
        for &l in lens {
            let k = l.min(rest.len());
            pieces.push(rest[..k].to_vec());
            rest = &rest[k..];
        }
        pieces.push(rest.to_vec());
        let n = pieces.len() as u64;
        let mut out = vec![];
        for (i, p) in pieces.iter().enumerate() {
            let mut f = vec![131, if i == 0 { 69 } else { 70 }];
            f.extend_from_slice(&seq.to_be_bytes());
            f.extend_from_slice(&(n - i as u64).to_be_bytes());
            if i == 0 {
                f.extend_from_slice(&self.header());
            }
            f.extend_from_slice(p);
            out.push(f);
        }
        out
    }
    fn atoms_word(&self) -> String {
        if self.atoms.is_empty() {
            "-".to_string()
        } else {
            self.atoms.iter().map(|a| if a.is_empty() { ".".to_string() } else { hex(a) }).collect::<Vec<_>>().join(",")
        }
    }
    fn segs_word(&self) -> String {
        if self.segs.is_empty() { "-".to_string() } else { self.segs.iter().map(|s| s.to_string()).collect::<Vec<_>>().join(",") }
    }
    fn pay_word(&self) -> String {
        self.pay.as_ref().map(|p| hex(p)).unwrap_or("-".to_string())
    }
}

fn gen_h_message(r: &mut Rng, big: bool, counts: &mut Vec<String>) -> HMsg {
    let mut g = HGen { atoms: vec![], allow_long: r.chance(1, 5) };
    let ctl = g.control(r, counts);
    let pay = if big {
        let n = *r.pick(&[1500usize, 70000]);
        let mut p = vec![104, 2];
        g.atom(r, &mut p);
        p.push(109);
        p.extend_from_slice(&(n as u32).to_be_bytes());
        p.extend_from_slice(&r.bytes(n));
        Some(p)
    } else if r.chance(3, 5) {
        let mut p = vec![];
        g.term(r, 0, &mut p);
        Some(p)
    } else {
        None
    };
    let long = g.atoms.iter().any(|a| a.len() > 255);
    let segs: Vec<u8> = if r.chance(1, 2) { vec![0; g.atoms.len()] } else { (0..g.atoms.len()).map(|_| r.below(8) as u8).collect() };
    HMsg { atoms: g.atoms, segs, long, ctl, pay }
}

/// random bytes that are never 99 (FLOAT_EXT) or 80 (COMPRESSED): junk that may be glued to other frames' bytes by a
/// reassembly must not need external-call table entries the per-history table cannot foresee
fn plain_bytes(r: &mut Rng, n: usize) -> Vec<u8> {
    r.bytes(n).into_iter().map(|b| if b == 99 { 98 } else if b == 80 { 81 } else { b }).collect()
}

const JUNK_KINDS: usize = 16;

/// a malformed frame of kind `k`, derived from `valid` (a valid frame of the mode) where the kind needs one
fn gen_junk(r: &mut Rng, k: usize, mode: Mode, valid: &[u8]) -> (&'static str, Vec<u8>) {
    match k {
        0 => ("random", {
            let n = r.range(1, 24) as usize;
            plain_bytes(r, n)
        }),
        1 => ("random-after-marker", {
            let n = r.range(0, 12) as usize;
            let mut v = if mode == Mode::Pt { vec![112, 131] } else { vec![131, 68] };
            v.extend_from_slice(&plain_bytes(r, n));
            v
        }),
        2 => ("truncated", {
            let n = r.range(1, (valid.len() - 1).max(1) as u64) as usize;
            valid[..n].to_vec()
        }),
        3 => ("wrong-marker", {
            let mut v = valid.to_vec();
            if mode == Mode::Pt {
                v[0] = *r.pick(&[0u8, 111, 113, 130]);
            } else {
                v[1] = *r.pick(&[0u8, 67, 71, 72]);
            }
            v
        }),
        4 => ("not-a-control-tuple", {
            let body: &[u8] = *r.pick(&[&[106u8][..], &[97, 1], &[104, 0], &[104, 2, 119, 1, b'a', 97, 1], &[104, 1, 98, 0, 0, 1, 0], &[109, 0, 0, 0, 1, 7]]);
            let mut v = if mode == Mode::Pt { vec![112, 131] } else { vec![131, 68, 0] };
            v.extend_from_slice(body);
            v
        }),
        5 => ("bad-unlink-id", {
            // {35, -1, [], []} and {36, 2^64, [], []}
            let body: &[u8] = if r.chance(1, 2) { &[104, 4, 97, 35, 98, 255, 255, 255, 255, 106, 106] } else { &[104, 4, 97, 36, 110, 9, 0, 0, 0, 0, 0, 0, 0, 0, 0, 1, 106, 106] };
            let mut v = if mode == Mode::Pt { vec![112, 131] } else { vec![131, 68, 0] };
            v.extend_from_slice(body);
            v
        }),
        6 => ("trailing-bytes", {
            let mut v = valid.to_vec();
            // make sure a payload is present (pass-through: otherwise the extra bytes would be read as the payload)
            if mode == Mode::Pt {
                v = vec![112, 131, 104, 1, 97, 5, 131, 106];
            }
            v.extend_from_slice(&[106]);
            v
        }),
        7 => ("unmarked-term", vec![131, 104, 1, 97, 5]),
        8 => ("frag-header-short", {
            let n = r.below(17) as usize;
            let mut v = vec![131, 69];
            v.extend_from_slice(&plain_bytes(r, n));
            v
        }),
        9 => ("frag-header-count-beyond-frame", {
            // 20-byte frame whose reference count byte announces more than follows
            let mut v = vec![131, 69];
            v.extend_from_slice(&7u64.to_be_bytes());
            v.extend_from_slice(&1u64.to_be_bytes());
            v.push(*r.pick(&[1u8, 5, 200, 255]));
            v
        }),
        10 => ("frag-header-id-zero", {
            let mut v = vec![131, 69];
            v.extend_from_slice(&9u64.to_be_bytes());
            v.extend_from_slice(&0u64.to_be_bytes());
            v.extend_from_slice(&[0, 104, 1, 97, 5]);
            v
        }),
        11 => ("frag-cont-short", {
            let n = r.below(16) as usize;
            let mut v = vec![131, 70];
            v.extend_from_slice(&plain_bytes(r, n));
            v
        }),
        12 => ("stray-continuation", {
            let mut v = vec![131, 70];
            v.extend_from_slice(&(0xdead_0000u64 + r.below(1000)).to_be_bytes());
            v.extend_from_slice(&r.range(0, 3).to_be_bytes());
            v.extend_from_slice(&plain_bytes(r, 5));
            v
        }),
        13 => ("single-fragment-garbage", {
            let mut v = vec![131, 69];
            v.extend_from_slice(&(0xbeef_0000u64 + r.below(1000)).to_be_bytes());
            v.extend_from_slice(&1u64.to_be_bytes());
            v.push(0);
            v.extend_from_slice(&[119, 200, 1, 2]);
            v
        }),
        14 => ("header-refs-missing", {
            // N = 3 but the frame ends inside the references
            vec![131, 68, 3, 0x88, 0x08, 0, 1, b'a', 1]
        }),
        _ => ("header-atom-not-utf8", vec![131, 68, 1, 0x08, 0, 2, 0xff, 0xfe, 104, 1, 97, 5]),
    }
}

/// the number of bytes the first term of `body` occupies (terms as they stand after a distribution header: no version
/// byte, atoms as ATOM_CACHE_REF or inline); only the shapes the cached sender writes for a control tuple
fn erltf_term_len(body: &[u8]) -> usize {
    fn skip(b: &[u8], p: usize) -> usize {
        match b[p] {
            82 | 97 => p + 2,
            98 => p + 5,
            106 => p + 1,
            119 => p + 2 + b[p + 1] as usize,
            118 => p + 3 + u16::from_be_bytes([b[p + 1], b[p + 2]]) as usize,
            88 => skip(b, p + 1) + 12,
            104 => {
                let mut q = p + 2;
                for _ in 0..b[p + 1] {
                    q = skip(b, q);
                }
                q
            }
            t => panic!("erltf_term_len: tag {} not expected in a control tuple of the cached sender", t),
        }
    }
    skip(body, 0)
}

fn gen_cuts(r: &mut Rng, total: usize) -> Option<Vec<usize>> {
    match r.below(4) {
        0 => None,
        1 => Some(vec![1, 1, 1, 1, 1, 1]),
        2 => Some((0..r.range(1, 5)).map(|_| r.range(1, 9) as usize).collect()),
        _ => Some((0..r.range(1, 4)).map(|_| r.range(1, total.max(2) as u64) as usize).collect()),
    }
}


/// one reference of a distribution header as the sender decided it: (atom text, segment, internal index, new entry)
type Entry = (Vec<u8>, u8, u8, bool);
/// one header-mode message for the `c06form chist` line: (LongAtoms, references, bytes of the terms, the `131, 68` frame)
type CMsg = (bool, Vec<Entry>, Vec<u8>, Vec<u8>);

/// read `N, flags, refs…` of a well-formed `131, 68` frame back into the sender's decisions; the text of a reference to an
/// existing entry comes from `slots` (what the sender's cache holds), which is updated with the new entries
fn read_entries(frame: &[u8], slots: &mut std::collections::HashMap<(u8, u8), Vec<u8>>) -> Option<(bool, Vec<Entry>, usize)> {
    if frame.len() < 3 || frame[0] != 131 || frame[1] != 68 {
        return None;
    }
    let n = frame[2] as usize;
    if n == 0 {
        return Some((false, vec![], 3));
    }
    let fl = n / 2 + 1;
    let flags = frame.get(3..3 + fl)?;
    let nib = |i: usize| if i % 2 == 0 { flags[i / 2] & 15 } else { flags[i / 2] >> 4 };
    let long = nib(n) & 1 == 1;
    let mut pos = 3 + fl;
    let mut es = vec![];
    for i in 0..n {
        let idx = *frame.get(pos)?;
        pos += 1;
        let seg = nib(i) & 7;
        if nib(i) & 8 != 0 {
            let len = if long {
                let l = u16::from_be_bytes([*frame.get(pos)?, *frame.get(pos + 1)?]) as usize;
                pos += 2;
                l
            } else {
                let l = *frame.get(pos)? as usize;
                pos += 1;
                l
            };
            let text = frame.get(pos..pos + len)?.to_vec();
            pos += len;
            slots.insert((seg, idx), text.clone());
            es.push((text, seg, idx, true));
        } else {
            es.push((slots.get(&(seg, idx))?.clone(), seg, idx, false));
        }
    }
    Some((long, es, pos))
}

fn chist_word(msgs: &[CMsg]) -> String {
    if msgs.is_empty() {
        return "-".to_string();
    }
    msgs.iter()
        .map(|(long, es, terms, frame)| {
            let ew = if es.is_empty() {
                "-".to_string()
            } else {
                es.iter()
                    .map(|(a, seg, idx, new)| format!("{}:{}:{}:{}", if a.is_empty() { ".".to_string() } else { hex(a) }, seg, idx, if *new { "n" } else { "o" }))
                    .collect::<Vec<_>>()
                    .join(",")
            };
            format!("{};{};{};{}", *long as u8, ew, if terms.is_empty() { "-".to_string() } else { hex(terms) }, hex(frame))
        })
        .collect::<Vec<_>>()
        .join("/")
}

/* ------------------------------------------------------------------------------------------------------------------ */

struct Runner {
    listener: Arc<TcpListener>,
    case: usize,
    /// also compare the model's atom cache with the reference receiver's after the history (`c06cache`); only for
    /// histories without multi-fragment messages (the recorded finding makes the two caches differ there by design)
    cache_check: bool,
}

impl Runner {
    fn bump(r: &mut Runner) {
        r.case += 1;
    }
    /// run one history, write its T and P lines. `ptag` is the failure class of the oracle line; `lenient` names sequence
    /// ids whose frames the second (always `gen`) oracle line does not judge.
    async fn one(&mut self, ctx: &mut Ctx, api: Api, mode: Mode, frames: &[Vec<u8>], cuts: Option<Vec<usize>>, ptag: &str, lenient: &[u64]) -> Vec<String> {
        self.case += 1;
        let Some(oracle) = history_oracle(frames) else {
            ctx.count("skipped_oracle_too_large");
            return vec![];
        };
        let res = run_history(&self.listener, self.case, api, mode, frames, cuts).await;
        ctx.count(&format!("histories_{}_{}", api.word(), mode.word()));
        ctx.add("frames_sent", frames.len() as u64);
        ctx.add("results_ok", res.iter().filter(|s| s.starts_with("ok~")).count() as u64);
        ctx.add("results_err", res.iter().filter(|s| *s == "err").count() as u64);
        let fw = frames_word(frames);
        let rw = results_word(&res);
        if res.iter().any(|s| s == "panic") {
            ctx.fail("c06-panic", &format!("{} {} frames={} results={}", api.word(), mode.word(), fw, rw));
        }
        if res.iter().any(|s| s == "timeout" || s == "too-large") {
            ctx.fail("c06-timeout", &format!("{} {} frames={} results={}", api.word(), mode.word(), fw, rw));
            return res;
        }
        if res.iter().any(|s| s == "connect-failed" || s == "header-mode-not-negotiated" || s == "no-read-half") {
            ctx.fail("c06-connect", &format!("{} {} results={}", api.word(), mode.word(), rw));
            return res;
        }
        ctx.tie("gen", &format!("c06recv {} {} {}", api.word(), oracle, fw), &rw);
        if self.cache_check && api == Api::Conn && mode == Mode::Hdr {
            ctx.prop("gen", &format!("c06cache {} {}", oracle, fw), "ok");
        }
        if api == Api::Rh && mode == Mode::Hdr {
            // the read-half copy on a header-mode connection (recorded finding): judged at full strength, like `receive_message`
            ctx.prop(ptag, &format!("c06oracle conn hdr {} {} {} -", oracle, fw, rw), "ok");
            return res;
        }
        if lenient.is_empty() {
            ctx.prop(ptag, &format!("c06oracle {} {} {} {} {} -", api.word(), mode.word(), oracle, fw, rw), "ok");
        } else if ptag == "gen" {
            // no recorded finding involved: the named sequences carry frames on which the reference reader and the
            // property have nothing to say beyond "one result or none, no panic, later frames intact"
            let lw = lenient.iter().map(|s| s.to_string()).collect::<Vec<_>>().join(",");
            ctx.prop("gen", &format!("c06oracle {} {} {} {} {} {}", api.word(), mode.word(), oracle, fw, rw, lw), "ok");
        } else {
            let lw = lenient.iter().map(|s| s.to_string()).collect::<Vec<_>>().join(",");
            ctx.prop(ptag, &format!("c06oracle {} {} {} {} {} -", api.word(), mode.word(), oracle, fw, rw), "ok");
            ctx.prop("gen", &format!("c06oracle {} {} {} {} {} {}", api.word(), mode.word(), oracle, fw, rw, lw), "ok");
        }
        res
    }
}

fn flush_counts(ctx: &mut Ctx, counts: &mut Vec<String>) {
    for c in counts.drain(..) {
        ctx.count(&c);
    }
}

pub fn run(ctx: &mut Ctx) {
    let rt = tokio::runtime::Builder::new_current_thread().enable_all().build().unwrap();
    rt.block_on(async {
        let epmd = FakeEpmd::start().await;
        let listener = Arc::new(listen_as(&epmd, "c06peer").await);
        let mut run = Runner { listener, case: 0, cache_check: false };
        let mut counts: Vec<String> = vec![];

        // A. pass-through histories: valid messages of every control kind, ticks anywhere, arbitrary segmentation;
        //    through `receive_message` and through the read-half copy
        let n_a = ctx.n(60, 400);
        for i in 0..n_a {
            let api = if i % 2 == 0 { Api::Conn } else { Api::Rh };
            let len = ctx.rng.range(0, 6) as usize;
            let big = ctx.rng.chance(1, 25);
            let mut frames: Vec<Vec<u8>> = vec![];
            for _ in 0..len {
                if ctx.rng.chance(1, 4) {
                    frames.push(vec![]);
                    ctx.count("ticks_sent");
                    continue;
                }
                let (f, cb, pb) = gen_pt_message(&mut ctx.rng, big && frames.is_empty(), &mut counts);
                ctx.count(if pb.is_some() { "pt_msg_with_payload" } else { "pt_msg_control_only" });
                ctx.prop("gen", &format!("c06form pt {} {} {}", hex(&cb), pb.as_ref().map(|b| hex(b)).unwrap_or("-".into()), hex(&f)), "ok");
                frames.push(f);
            }
            let total: usize = frames.iter().map(|f| f.len() + 4).sum();
            let cuts = gen_cuts(&mut ctx.rng, total);
            run.one(ctx, api, Mode::Pt, &frames, cuts, "gen", &[]).await;
            flush_counts(ctx, &mut counts);
        }

        // B. header-mode histories (DIST_HDR_ATOM_CACHE negotiated): whole-frame messages and single-fragment messages
        //    (fragment id 1), ticks anywhere
        let n_b = ctx.n(50, 300);
        for _ in 0..n_b {
            let len = ctx.rng.range(0, 5) as usize;
            let big = ctx.rng.chance(1, 25);
            let mut frames: Vec<Vec<u8>> = vec![];
            let mut sent: Vec<CMsg> = vec![];
            for k in 0..len {
                if ctx.rng.chance(1, 5) {
                    frames.push(vec![]);
                    ctx.count("ticks_sent");
                    continue;
                }
                let m = gen_h_message(&mut ctx.rng, big && frames.is_empty(), &mut counts);
                sent.push((m.long, m.atoms.iter().enumerate().map(|(i, a)| (a.clone(), m.segs[i] & 7, i as u8, true)).collect(), m.terms(), m.frame()));
                if ctx.rng.chance(1, 3) {
                    let seq = 1000 + k as u64;
                    let fs = m.fragments(seq, &[]);
                    ctx.count("hdr_msg_single_fragment");
                    ctx.prop("gen", &format!("c06form frag {} - {} {} {} {} {} {}", seq, m.atoms_word(), m.segs_word(), m.long as u8, hex(&m.ctl), m.pay_word(), frames_word(&fs)), "ok");
                    frames.extend(fs);
                } else {
                    ctx.count(if m.pay.is_some() { "hdr_msg_with_payload" } else { "hdr_msg_control_only" });
                    ctx.count(&format!("hdr_atoms_{}", m.atoms.len().min(6)));
                    if m.long {
                        ctx.count("hdr_long_atoms");
                    }
                    let f = m.frame();
                    ctx.prop("gen", &format!("c06form hdr {} {} {} {} {} {}", m.atoms_word(), m.segs_word(), m.long as u8, hex(&m.ctl), m.pay_word(), hex(&f)), "ok");
                    frames.push(f);
                }
            }
            let total: usize = frames.iter().map(|f| f.len() + 4).sum();
            let cuts = gen_cuts(&mut ctx.rng, total);
            // the messages are a history of the conforming sender the theorems quantify over (Spec/DistHeader.lean)
            if total < 20000 {
                ctx.prop("gen", &format!("c06form chist {}", chist_word(&sent)), "ok");
            }
            run.one(ctx, Api::Conn, Mode::Hdr, &frames, cuts, "gen", &[]).await;
            flush_counts(ctx, &mut counts);
        }

        // C. junk at every position of short histories, every junk kind, all three settings
        let settings = [(Api::Conn, Mode::Pt), (Api::Rh, Mode::Pt), (Api::Conn, Mode::Hdr)];
        let rounds = ctx.n(1, 4);
        for _ in 0..rounds {
            for &(api, mode) in &settings {
                let base_len = ctx.rng.range(2, 3) as usize;
                let mut base: Vec<Vec<u8>> = vec![];
                for _ in 0..base_len {
                    if mode == Mode::Pt {
                        base.push(gen_pt_message(&mut ctx.rng, false, &mut counts).0);
                    } else {
                        let m = gen_h_message(&mut ctx.rng, false, &mut counts);
                        base.push(if ctx.rng.chance(1, 3) { m.fragments(77, &[]).remove(0) } else { m.frame() });
                    }
                }
                for k in 0..JUNK_KINDS {
                    for pos in 0..=base.len() {
                        let sample = base[ctx.rng.below(base.len() as u64) as usize].clone();
                        let (kind, junk) = gen_junk(&mut ctx.rng, k, mode, &sample);
                        ctx.count(&format!("junk_{}", kind));
                        let mut frames = base.clone();
                        frames.insert(pos, junk);
                        if ctx.rng.chance(1, 3) {
                            let p = ctx.rng.below(frames.len() as u64 + 1) as usize;
                            frames.insert(p, vec![]);
                        }
                        let total: usize = frames.iter().map(|f| f.len() + 4).sum();
                        let cuts = if ctx.rng.chance(1, 3) { gen_cuts(&mut ctx.rng, total) } else { None };
                        run.one(ctx, api, mode, &frames, cuts, "gen", &[]).await;
                    }
                }
                flush_counts(ctx, &mut counts);
            }
        }

        // D. several junk frames in one history (fault sequences), header mode and pass-through
        let n_d = ctx.n(20, 150);
        for i in 0..n_d {
            let (api, mode) = settings[i % 3];
            let mut frames: Vec<Vec<u8>> = vec![];
            let mut sample: Vec<u8> = if mode == Mode::Pt { gen_pt_message(&mut ctx.rng, false, &mut counts).0 } else { gen_h_message(&mut ctx.rng, false, &mut counts).frame() };
            for _ in 0..ctx.rng.range(2, 7) {
                match ctx.rng.below(5) {
                    0 => frames.push(vec![]),
                    1 | 2 => {
                        let k = ctx.rng.below(JUNK_KINDS as u64) as usize;
                        let (kind, junk) = gen_junk(&mut ctx.rng, k, mode, &sample);
                        ctx.count(&format!("junk_{}", kind));
                        frames.push(junk);
                    }
                    _ => {
                        sample = if mode == Mode::Pt { gen_pt_message(&mut ctx.rng, false, &mut counts).0 } else { gen_h_message(&mut ctx.rng, false, &mut counts).frame() };
                        frames.push(sample.clone());
                    }
                }
            }
            let total: usize = frames.iter().map(|f| f.len() + 4).sum();
            let cuts = gen_cuts(&mut ctx.rng, total);
            run.one(ctx, api, mode, &frames, cuts, "gen", &[]).await;
            flush_counts(ctx, &mut counts);
        }

        // E. messages in two or more fragments. Cuts whose pieces read the same in ascending and in descending fragment id
        //    (every continuation piece empty) are delivered and belong to class `gen`; every other cut is the recorded
        //    finding: the assembler concatenates by ascending id, the message comes out scrambled and fails to decode.
        let n_e = ctx.n(24, 120);
        for i in 0..n_e {
            let m = gen_h_message(&mut ctx.rng, i % 12 == 11, &mut counts);
            let terms_len = m.terms().len();
            let nfrag = ctx.rng.range(2, 4) as usize;
            let order_free = i % 4 == 0;
            let lens: Vec<usize> = if order_free {
                // the first fragment takes everything, the continuations are empty
                let mut l = vec![terms_len];
                l.extend(std::iter::repeat(0).take(nfrag - 2));
                l
            } else {
                (0..nfrag - 1).map(|_| ctx.rng.range(1, (terms_len / nfrag).max(1) as u64) as usize).collect()
            };
            let seq = 5000 + i as u64;
            let fs = m.fragments(seq, &lens);
            ctx.prop("gen", &format!("c06form frag {} {} {} {} {} {} {} {}", seq, lens.iter().map(|l| l.to_string()).collect::<Vec<_>>().join(","), m.atoms_word(), m.segs_word(), m.long as u8, hex(&m.ctl), m.pay_word(), frames_word(&fs)), "ok");
            // surrounded by ordinary messages and ticks, which must be delivered whatever happens to the fragmented one
            let before = gen_h_message(&mut ctx.rng, false, &mut counts).frame();
            let after = gen_h_message(&mut ctx.rng, false, &mut counts).frame();
            let mut frames = vec![before];
            for (j, f) in fs.into_iter().enumerate() {
                if j > 0 && ctx.rng.chance(1, 3) {
                    frames.push(vec![]);
                }
                frames.push(f);
            }
            frames.push(after);
            let total: usize = frames.iter().map(|f| f.len() + 4).sum();
            let cuts = gen_cuts(&mut ctx.rng, total);
            if order_free {
                ctx.count("multi_fragment_order_free");
                run.one(ctx, Api::Conn, Mode::Hdr, &frames, cuts, "gen", &[]).await;
            } else {
                ctx.count("multi_fragment_scrambled");
                run.one(ctx, Api::Conn, Mode::Hdr, &frames, cuts, "kf-c06-multi-fragment-order", &[seq]).await;
            }
            flush_counts(ctx, &mut counts);
        }

        // G. header-mode histories in which the peer's atom cache is carried across messages: references to entries created
        //    by earlier headers, overwrites, boundary slots of every segment, ticks and junk in between. What the real
        //    connection delivers is judged by the reference receiver of Spec/Peer.lean, which keeps the protocol's
        //    (segment, index) cache.
        let n_g = ctx.n(14, 120);
        run.cache_check = true;
        for i in 0..n_g {
            let mut stats: Vec<&'static str> = vec![];
            let mut frames: Vec<Vec<u8>> = vec![];
            let mut sender = crate::c14::Sender::new(ctx.rng.next(), *ctx.rng.pick(&[256u64, 4, 2]), *ctx.rng.pick(&[8u64, 2, 1]));
            let msgs: Vec<Vec<OwnedTerm>> = if i % 3 == 0 {
                // a sweep over the boundary indices of all segments (or, now and then, over a random slice of all slots)
                let slots: Vec<(u8, u8)> = if i % 6 == 0 {
                    (0..8u8).flat_map(|s| [0u8, 1, 254, 255].into_iter().map(move |j| (s, j))).collect()
                } else {
                    let mut all: Vec<(u8, u8)> = (0..=255u8).flat_map(|j| (0..8u8).map(move |s| (s, j))).collect();
                    ctx.rng.shuffle(&mut all);
                    all.truncate(40);
                    all
                };
                ctx.count("hdr_cache_sweep");
                let chunk = 1 + ctx.rng.below(12) as usize;
                crate::c14::sweep_messages(&mut ctx.rng, &mut sender, &slots, chunk)
            } else {
                let pool = ["ok", "error", "rex", "", "kéks", "x@h", "Elixir.Foo", "undefined", "b", "node@host"];
                (0..ctx.rng.range(3, 8)).map(|_| {
                    let control = OwnedTerm::Tuple(vec![
                        OwnedTerm::Integer(6),
                        OwnedTerm::Pid(erltf::types::ExternalPid::new(Atom::new(*ctx.rng.pick(&pool)), 5, 0, 1)),
                        OwnedTerm::Atom(Atom::new("")),
                        OwnedTerm::Atom(Atom::new(*ctx.rng.pick(&pool))),
                    ]);
                    let n = ctx.rng.below(5) as usize;
                    let payload = OwnedTerm::Tuple((0..n).map(|_| OwnedTerm::Atom(Atom::new(*ctx.rng.pick(&pool)))).collect());
                    vec![control, payload]
                }).collect()
            };
            let mut sample: Vec<u8> = vec![];
            let mut shadow: std::collections::HashMap<(u8, u8), Vec<u8>> = std::collections::HashMap::new();
            let mut sent: Vec<CMsg> = vec![];
            // per message: index of its frame among the frames that are no ticks, existing-entry references, overwrites
            let mut per_msg: Vec<(usize, u64, u64)> = vec![];
            for terms in &msgs {
                if ctx.rng.chance(1, 5) {
                    frames.push(vec![]);
                    ctx.count("ticks_sent");
                }
                if !sample.is_empty() && ctx.rng.chance(1, 8) {
                    let k = ctx.rng.below(JUNK_KINDS as u64) as usize;
                    let (kind, junk) = gen_junk(&mut ctx.rng, k, Mode::Hdr, &sample);
                    ctx.count(&format!("junk_{}", kind));
                    frames.push(junk);
                }
                let bytes = sender.send(&mut ctx.rng, terms, &mut stats);
                let before = shadow.clone();
                if let Some((long, es, hlen)) = read_entries(&bytes, &mut shadow) {
                    let olds = es.iter().filter(|e| !e.3).count() as u64;
                    let overwrites = es.iter().filter(|e| e.3 && before.get(&(e.1, e.2)).map(|a| *a != e.0).unwrap_or(false)).count() as u64;
                    per_msg.push((frames.iter().filter(|f| !f.is_empty()).count(), olds, overwrites));
                    sent.push((long, es, bytes[hlen..].to_vec(), bytes.clone()));
                } else {
                    ctx.fail("c06-harness", "the sender model wrote a header the harness cannot read back");
                }
                if ctx.rng.chance(1, 4) {
                    // the same message as a single fragment (fragment id 1): 131 69 seq id header terms
                    let mut f = vec![131u8, 69];
                    f.extend_from_slice(&(9000 + frames.len() as u64).to_be_bytes());
                    f.extend_from_slice(&1u64.to_be_bytes());
                    f.extend_from_slice(&bytes[2..]);
                    ctx.count("hdr_cached_single_fragment");
                    frames.push(f);
                } else {
                    frames.push(bytes.clone());
                }
                sample = bytes;
            }
            for st in stats {
                ctx.count(&format!("cache_{}", st));
            }
            ctx.count("hdr_cache_histories");
            let total: usize = frames.iter().map(|f| f.len() + 4).sum();
            let cuts = if ctx.rng.chance(1, 2) { gen_cuts(&mut ctx.rng, total) } else { None };
            ctx.prop("gen", &format!("c06form chist {}", chist_word(&sent)), "ok");
            let res = run.one(ctx, Api::Conn, Mode::Hdr, &frames, cuts, "gen", &[]).await;
            // how much of the cache traffic came through the real connection (only when results and frames line up one to
            // one: a stray continuation among the junk returns nothing)
            if res.len() == frames.iter().filter(|f| !f.is_empty()).count() {
                for (k, olds, overwrites) in &per_msg {
                    if res[*k].starts_with("ok~") {
                        ctx.add("cached_refs_delivered", *olds);
                        ctx.add("overwrites_delivered", *overwrites);
                        ctx.count("cache_history_messages_delivered");
                    }
                }
            } else {
                ctx.count("cache_histories_not_aligned");
            }
            flush_counts(ctx, &mut counts);
        }

        // I. scripted: a malformed header that has written a cache slot before failing, then the sender re-creates the slot
        //    (from then on every reference to it must resolve to the sender's atom again), or refers to it at once (no
        //    longer ours to judge: Spec/Peer.lean `taint`, theorem C06_header_junk_isolated)
        {
            let ctl = [104u8, 4, 97, 6, 88, 119, 1, b'n', 0, 0, 0, 5, 0, 0, 0, 0, 0, 0, 0, 1, 119, 0, 82, 0];
            let msg = |hdr: &[u8]| -> Vec<u8> {
                let mut v = vec![131u8, 68];
                v.extend_from_slice(hdr);
                v.extend_from_slice(&ctl);
                v
            };
            let create_foo = msg(&[1, 0x0b, 7, 3, b'f', b'o', b'o']);
            let refer = msg(&[1, 0x03, 7]);
            // two references announced: the first writes slot (3, 7) = bar, the frame ends inside the second
            let junk = vec![131u8, 68, 2, 0xbb, 0x00, 7, 3, b'b', b'a', b'r', 9, 200, b'x'];
            for (k, frames) in [
                vec![create_foo.clone(), refer.clone(), junk.clone(), create_foo.clone(), refer.clone(), vec![], refer.clone()],
                vec![create_foo.clone(), junk.clone(), refer.clone(), create_foo.clone(), refer.clone()],
                vec![junk.clone(), create_foo.clone(), refer.clone()],
            ]
            .into_iter()
            .enumerate()
            {
                let res = run.one(ctx, Api::Conn, Mode::Hdr, &frames, None, "gen", &[]).await;
                // the guarantee itself, checked here as well: once the slot is re-created, `foo` and nothing else
                let after_recreate = [vec![3usize, 4, 5], vec![3, 4], vec![1, 2]];
                for &i in &after_recreate[k] {
                    if res.get(i).map(|r| r.ends_with("to_name=A666f6f}~-")) != Some(true) {
                        ctx.fail("gen", &format!("c06-recreated-slot history {} result {} = {:?}", frames_word(&frames), i, res.get(i)));
                    }
                }
                ctx.count("scripted_taint_histories");
            }
        }

        // J. REFUSED BODIES BEHIND ACCEPTED HEADERS. Histories of the cached sender in which some messages arrive with an
        //    intact distribution header (new entries, references to existing entries) and a body the receiver must refuse:
        //    truncated terms, a byte left over, a control term that is no control tuple, random bytes, an unknown tag, a
        //    payload nested deeper than the decoder goes. The peer has announced the header's entries: from then on it
        //    refers to them as existing entries. The refused frame must cost exactly one error; every later message must
        //    be delivered as meant. Whole frames, single fragments and two-fragment sequences whose continuation is empty
        //    (the header then reaches the decoder only when the LAST fragment completes the sequence).
        let n_j = ctx.n(22, 160);
        for i in 0..n_j {
            let mut stats: Vec<&'static str> = vec![];
            let mut frames: Vec<Vec<u8>> = vec![];
            let mut lenient: Vec<u64> = vec![];
            let mut sender = crate::c14::Sender::new(ctx.rng.next(), *ctx.rng.pick(&[256u64, 256, 4]), *ctx.rng.pick(&[8u64, 2, 1]));
            let pool = ["ok", "error", "rex", "", "kéks", "x@h", "Elixir.Foo", "undefined", "b", "node@host", "gen_server", "call"];
            let len = ctx.rng.range(3, 7) as usize;
            // the refused message comes early, so that what it announced is used afterwards
            let bad_at = ctx.rng.below(2) as usize;
            let mut shadow: std::collections::HashMap<(u8, u8), Vec<u8>> = std::collections::HashMap::new();
            let mut sent: Vec<CMsg> = vec![];
            // per message: index of its result among the results, existing-entry references, refused?
            let mut per_msg: Vec<(usize, u64, bool)> = vec![];
            let mut seen_bad = false;
            for k in 0..len {
                if ctx.rng.chance(1, 6) {
                    frames.push(vec![]);
                    ctx.count("ticks_sent");
                }
                let control = OwnedTerm::Tuple(vec![
                    OwnedTerm::Integer(6),
                    OwnedTerm::Pid(erltf::types::ExternalPid::new(Atom::new(*ctx.rng.pick(&pool)), 5, 0, 1)),
                    OwnedTerm::Atom(Atom::new("")),
                    OwnedTerm::Atom(Atom::new(*ctx.rng.pick(&pool))),
                ]);
                let n = ctx.rng.range(1, 4) as usize;
                let payload = OwnedTerm::Tuple((0..n).map(|_| OwnedTerm::Atom(Atom::new(*ctx.rng.pick(&pool)))).collect());
                let bytes = sender.send(&mut ctx.rng, &[control, payload], &mut stats);
                let Some((long, es, hlen)) = read_entries(&bytes, &mut shadow) else {
                    ctx.fail("c06-harness", "the sender model wrote a header the harness cannot read back");
                    continue;
                };
                let olds = es.iter().filter(|e| !e.3).count() as u64;
                let news = es.iter().filter(|e| e.3).count() as u64;
                let good_body = bytes[hlen..].to_vec();
                let bad = k == bad_at || ctx.rng.chance(1, 5);
                let mut deep = false;
                let body: Vec<u8> = if !bad {
                    good_body.clone()
                } else {
                    seen_bad = true;
                    ctx.add("refused_body_new_entries_announced", news);
                    let kind = if i % 7 == 3 && k == bad_at { 5 } else { ctx.rng.below(7) };
                    match kind {
                        0 => {
                            ctx.count("refused_body_truncated");
                            // inside the control tuple, or inside the payload
                            let cut = ctx.rng.range(0, good_body.len() as u64 - 1) as usize;
                            good_body[..cut].to_vec()
                        }
                        1 => {
                            ctx.count("refused_body_trailing_byte");
                            let mut b = good_body.clone();
                            b.push(106);
                            b
                        }
                        2 => {
                            ctx.count("refused_body_not_a_control_tuple");
                            let b: &[u8] = *ctx.rng.pick(&[&[106u8][..], &[97, 1], &[104, 0], &[104, 2, 82, 0, 97, 1]]);
                            b.to_vec()
                        }
                        3 => {
                            ctx.count("refused_body_random");
                            let n = ctx.rng.range(1, 16) as usize;
                            plain_bytes(&mut ctx.rng, n)
                        }
                        4 => {
                            ctx.count("refused_body_unknown_tag");
                            // the control tuple intact, the payload starts with a tag no term has
                            let mut b = good_body.clone();
                            let ctl_len = erltf_term_len(&good_body);
                            b.truncate(ctl_len);
                            b.extend_from_slice(&[*ctx.rng.pick(&[0u8, 1, 96, 200, 255]), 1, 2, 3]);
                            b
                        }
                        5 => {
                            ctx.count("refused_body_nested_too_deep");
                            // the control tuple intact, the payload a list nested 300 deep (the decoder stops at 256)
                            deep = true;
                            let mut b = good_body.clone();
                            let ctl_len = erltf_term_len(&good_body);
                            b.truncate(ctl_len);
                            for _ in 0..300 {
                                b.extend_from_slice(&[108, 0, 0, 0, 1]);
                            }
                            b.push(106);
                            for _ in 0..300 {
                                b.push(106);
                            }
                            b
                        }
                        _ => {
                            ctx.count("refused_body_empty");
                            vec![]
                        }
                    }
                };
                let mut whole = bytes[..hlen].to_vec();
                whole.extend_from_slice(&body);
                per_msg.push((frames.iter().filter(|f| !f.is_empty() && !(f.len() > 1 && f[1] == 69 && f[17] == 2)).count(), olds, bad));
                sent.push((long, es, body.clone(), whole.clone()));
                let seq = 7000 + (i * 16 + k) as u64;
                let framing = if deep { 1 } else { ctx.rng.below(4) };
                match framing {
                    1 => {
                        // single fragment; a body nested too deep always travels like this, so that its sequence id can be
                        // exempted: the reference reader has no nesting limit (that limit is the decoder's, C02)
                        let mut f = vec![131u8, 69];
                        f.extend_from_slice(&seq.to_be_bytes());
                        f.extend_from_slice(&1u64.to_be_bytes());
                        f.extend_from_slice(&whole[2..]);
                        if deep {
                            lenient.push(seq);
                        }
                        ctx.count(if bad { "refused_body_in_single_fragment" } else { "hdr_cached_single_fragment" });
                        frames.push(f);
                    }
                    2 => {
                        // two fragments, everything in the first, the last one empty (order-insensitive, so the recorded
                        // finding about the order does not apply); a tick may come between them
                        let mut f = vec![131u8, 69];
                        f.extend_from_slice(&seq.to_be_bytes());
                        f.extend_from_slice(&2u64.to_be_bytes());
                        f.extend_from_slice(&whole[2..]);
                        frames.push(f);
                        if ctx.rng.chance(1, 3) {
                            frames.push(vec![]);
                        }
                        let mut c = vec![131u8, 70];
                        c.extend_from_slice(&seq.to_be_bytes());
                        c.extend_from_slice(&1u64.to_be_bytes());
                        frames.push(c);
                        ctx.count(if bad { "refused_body_completed_by_last_fragment" } else { "hdr_cached_two_fragments" });
                    }
                    _ => {
                        ctx.count(if bad { "refused_body_in_whole_frame" } else { "hdr_cached_whole_frame" });
                        frames.push(whole);
                    }
                }
                let _ = seen_bad;
            }
            for st in stats {
                ctx.count(&format!("cache_{}", st));
            }
            ctx.count("refused_body_histories");
            let total: usize = frames.iter().map(|f| f.len() + 4).sum();
            let cuts = if ctx.rng.chance(1, 3) { gen_cuts(&mut ctx.rng, total) } else { None };
            // the headers (with whatever follows them) are a history of the conforming sender
            ctx.prop("gen", &format!("c06form chist {}", chist_word(&sent)), "ok");
            let res = run.one(ctx, Api::Conn, Mode::Hdr, &frames, cuts, "gen", &lenient).await;
            if res.len() == per_msg.len() {
                let mut after_bad = false;
                for (k, olds, bad) in &per_msg {
                    if *bad {
                        after_bad = true;
                        if res[*k] == "err" {
                            ctx.count("refused_body_answered_with_error");
                        }
                    } else if after_bad && res[*k].starts_with("ok~") {
                        ctx.count("messages_delivered_after_refused_body");
                        ctx.add("cached_refs_delivered_after_refused_body", *olds);
                    }
                }
            } else {
                ctx.count("refused_body_histories_not_aligned");
            }
            flush_counts(ctx, &mut counts);
        }

        // K. SEVERAL SEQUENCES IN FLIGHT. Two or three fragmented messages (every continuation empty, so the recorded finding
        //    about the order does not apply) whose frames are interleaved with each other — each sequence in its own order —,
        //    with whole messages and with ticks. Every message brings its atoms along, so nothing here depends on WHEN a
        //    fragment header's cache entries take effect (that is K2). Each message exactly once, at its last fragment.
        let n_k = ctx.n(12, 80);
        for i in 0..n_k {
            let nseq = ctx.rng.range(2, 3) as usize;
            let mut lanes: Vec<Vec<Vec<u8>>> = vec![];
            for q in 0..nseq {
                let m = gen_h_message(&mut ctx.rng, false, &mut counts);
                let nfrag = ctx.rng.range(2, 4) as usize;
                let mut lens = vec![m.terms().len()];
                lens.extend(std::iter::repeat(0).take(nfrag - 2));
                lanes.push(m.fragments(8000 + (i * 4 + q) as u64, &lens));
            }
            for _ in 0..ctx.rng.range(0, 2) {
                lanes.push(vec![gen_h_message(&mut ctx.rng, false, &mut counts).frame()]);
            }
            for _ in 0..ctx.rng.range(0, 2) {
                lanes.push(vec![vec![]]);
            }
            if ctx.rng.chance(1, 2) {
                // a frame that ends in an error while the sequences are in flight: it must cost them nothing
                let sample = gen_h_message(&mut ctx.rng, false, &mut counts).frame();
                let k = *ctx.rng.pick(&[0usize, 1, 2, 3, 4, 5, 6, 7, 8, 9, 10, 11, 14, 15]);
                let (kind, junk) = gen_junk(&mut ctx.rng, k, Mode::Hdr, &sample);
                ctx.count(&format!("junk_{}", kind));
                ctx.count("sequences_in_flight_with_error_frame");
                lanes.push(vec![junk]);
            }
            let mut frames: Vec<Vec<u8>> = vec![];
            let mut at: Vec<usize> = vec![0; lanes.len()];
            loop {
                let open: Vec<usize> = (0..lanes.len()).filter(|&l| at[l] < lanes[l].len()).collect();
                if open.is_empty() {
                    break;
                }
                let l = *ctx.rng.pick(&open);
                frames.push(lanes[l][at[l]].clone());
                at[l] += 1;
            }
            ctx.count("sequences_in_flight_histories");
            ctx.add("sequences_in_flight", nseq as u64);
            let total: usize = frames.iter().map(|f| f.len() + 4).sum();
            let cuts = if ctx.rng.chance(1, 3) { gen_cuts(&mut ctx.rng, total) } else { None };
            run.one(ctx, Api::Conn, Mode::Hdr, &frames, cuts, "gen", &[]).await;
            flush_counts(ctx, &mut counts);
        }

        // K2. WHEN DO THE CACHE ENTRIES OF A FRAGMENT HEADER TAKE EFFECT? The peer announces them with the first fragment and
        //     may refer to them in any frame it sends afterwards — also in a message that overtakes the rest of the sequence
        //     (frames of different sequences and unfragmented messages may be interleaved; each receiver of the reference
        //     implementation applies the header when the first fragment arrives). `receive_message` parses the header only when
        //     the LAST fragment completes the sequence. Recorded finding, fixed witness, replayed on every run: the first
        //     fragment of a two-fragment message creates slot (3, 7) = a@h; a whole message refers to the slot; the (empty)
        //     last fragment follows.
        {
            let hdr_new: [u8; 7] = [1, 0x0b, 7, 3, b'a', b'@', b'h'];
            let terms: [u8; 6] = [104, 1, 97, 5, 82, 0];
            let mut first = vec![131u8, 69];
            first.extend_from_slice(&9u64.to_be_bytes());
            first.extend_from_slice(&2u64.to_be_bytes());
            first.extend_from_slice(&hdr_new);
            first.extend_from_slice(&terms);
            let overtaking = vec![131u8, 68, 1, 0x03, 7, 104, 1, 97, 5, 82, 0];
            let mut last = vec![131u8, 70];
            last.extend_from_slice(&9u64.to_be_bytes());
            last.extend_from_slice(&1u64.to_be_bytes());
            let frames = vec![first, overtaking, last];
            self::Runner::bump(&mut run);
            let res = run_history(&run.listener, run.case, Api::Conn, Mode::Hdr, &frames, None).await;
            let want = "ok~NodeLink{}~A614068";
            ctx.count("fragment_header_cache_timing_witnesses");
            if res.len() != 2 || res[0] != want || res[1] != want {
                ctx.fail(
                    "kf-c06-fragment-header-applied-late",
                    &format!("frames={} results={} expected={}/{}", frames_word(&frames), results_word(&res), want, want),
                );
            }
        }

        run.cache_check = false;

        // H. the read-half copy on a header-mode connection (recorded finding KF-C06-read-half-header-mode): it has no atom
        //    cache and no assembler and refuses every `131, …` frame. The fixed witness (one message that brings its atom
        //    along) and a short cached history, replayed on every run, judged like `receive_message`.
        {
            let witness = vec![131u8, 68, 1, 0x0b, 7, 3, 97, 64, 104, 104, 1, 97, 5, 82, 0];
            run.one(ctx, Api::Rh, Mode::Hdr, &[witness.clone()], None, "kf-c06-read-half-header-mode", &[]).await;
            let old = vec![131u8, 68, 1, 0x03, 7, 104, 1, 97, 5, 82, 0];
            run.one(ctx, Api::Rh, Mode::Hdr, &[witness, vec![], old], None, "kf-c06-read-half-header-mode", &[]).await;
            ctx.count("readhalf_header_mode_witnesses");
        }

        // F. the fixed witness of the known finding, replayed on every run: {2, '', pid} ! [] in two fragments
        {
            let m = HMsg { atoms: vec![b"a@h".to_vec()], segs: vec![0], long: false, ctl: vec![104, 1, 97, 5], pay: Some(vec![106]) };
            let fs = m.fragments(1, &[4]);
            run.one(ctx, Api::Conn, Mode::Hdr, &fs, None, "kf-c06-multi-fragment-order", &[1]).await;
        }
    });
}
