import EdpVerif.Generated.MiscC16
/-!
Model of `crates/edp_client/src/pid_allocator.rs` (`PidAllocator`), bug-for-bug.

* `alloc`     — `PidAllocator::allocate` run to completion by one caller (the sequential function).
* `hstep`     — the same function cut at its accesses to shared state: one atomic access per step.
* `step/run`  — small-step semantics of any number of OS threads calling `allocate` any number of times, plus
                `set_creation` calls, under an arbitrary schedule (a list of events).

Integer widths: `next_id : AtomicU32`, `next_serial : AtomicU64`, `creation : AtomicU32`. The harness builds the dev
profile, so `id + 1` (u32) and `fetch_add(..) + 1` (u64) panic on overflow; a panic while the guard is held poisons
the mutex and every later `lock()` returns `Err` (mapped to `Error::InvalidStateMessage`).
-/
namespace Edp.Impl.PidAlloc

/-- `MAX_PROCESSES_PER_NODE` (regenerated from the source) -/
def MAXP : Nat := Gen.MAX_PROCESSES_PER_NODE
def U32 : Nat := 4294967296
def U64 : Nat := 18446744073709551616

/-- the observable part of an `ExternalPid` made by the allocator (the node name is a constant of the allocator) -/
structure Pid where
  id : Nat
  serial : Nat
  creation : Nat
deriving DecidableEq, Repr, Inhabited

/-- outcome of one `allocate()` call -/
inductive Res
  | ok (p : Pid)
  | err        -- `Err(InvalidStateMessage)`: the mutex is poisoned
  | panic      -- arithmetic overflow panic (dev profile) while holding the guard
deriving DecidableEq, Repr, Inhabited

/-- shared state of one `PidAllocator` -/
structure Sh where
  nextId : Nat          -- AtomicU32
  nextSerial : Nat      -- AtomicU64
  creation : Nat        -- AtomicU32
  poisoned : Bool       -- poison flag of `wrap_lock`
deriving DecidableEq, Repr, Inhabited

/-- `PidAllocator::new(node, creation)` -/
def Sh.new (creation : Nat) : Sh := { nextId := 1, nextSerial := 0, creation := creation, poisoned := false }

def Sh.setCreation (s : Sh) (c : Nat) : Sh := { s with creation := c }

/-- `PidAllocator::allocate`, one caller, start to end -/
def alloc (s : Sh) : Res × Sh :=
  if s.poisoned then (.err, s) else
  let id := s.nextId
  let su := s.nextSerial
  let serial := su % U32
  -- `let next_id = id + 1;` is evaluated before the branch
  if id + 1 ≥ U32 then (.panic, { s with poisoned := true }) else
  if id ≥ MAXP then
    let s1 := { s with nextId := 1 }
    -- `fetch_add` wraps in the atomic; the `+ 1` on the returned value is checked arithmetic
    let s2 := { s1 with nextSerial := (su + 1) % U64 }
    if su + 1 ≥ U64 then (.panic, { s2 with poisoned := true }) else
    (.ok ⟨id, (su + 1) % U32, s2.creation⟩, s2)
  else
    let s1 := { s with nextId := id + 1 }
    (.ok ⟨id, serial, s1.creation⟩, s1)

/-! ### the same code cut into atomic steps -/

/-- program counter of one thread; the payload is the thread's locals -/
inductive Pc
  | idle                           -- outside `allocate` or blocked in `lock()`
  | locked                         -- holds the guard; next: `next_id.load`
  | gotId (id : Nat)               -- next: `next_serial.load`, then `serial`, `next_id = id + 1` (may panic)
  | gotSerial (id su : Nat)        -- next: the branch and its `next_id.store`
  | storedWrap (id : Nat)          -- wrap branch; next: `next_serial.fetch_add` (`+ 1` may panic)
  | gotOut (id serial : Nat)       -- next: `creation.load`
  | gotCreation (p : Pid)          -- next: return, dropping the guard
deriving DecidableEq, Repr, Inhabited

/-- result of one step of the lock holder -/
inductive HOut
  | cont (s : Sh) (pc : Pc)
  | done (s : Sh) (r : Res)        -- the call ends (return or unwind); the guard is dropped
deriving DecidableEq, Repr

/-- one atomic step of the thread that holds the guard -/
def hstep (s : Sh) : Pc → HOut
  | .idle => .cont s .idle
  | .locked => .cont s (.gotId s.nextId)
  | .gotId id =>
    if id + 1 ≥ U32 then .done { s with poisoned := true } .panic
    else .cont s (.gotSerial id s.nextSerial)
  | .gotSerial id su =>
    if id ≥ MAXP then .cont { s with nextId := 1 } (.storedWrap id)
    else .cont { s with nextId := id + 1 } (.gotOut id (su % U32))
  | .storedWrap id =>
    let su := s.nextSerial
    let s' := { s with nextSerial := (su + 1) % U64 }
    if su + 1 ≥ U64 then .done { s' with poisoned := true } .panic
    else .cont s' (.gotOut id ((su + 1) % U32))
  | .gotOut id ser => .cont s (.gotCreation ⟨id, ser, s.creation⟩)
  | .gotCreation p => .done s (.ok p)

/-- name of the shared-state operation performed by the step taken from a program counter
(`wrap` selects the branch at `gotSerial`; tied to the source text by `Gen.ALLOCATE_SHARED_OPS`) -/
def Pc.opName : Pc → String
  | .idle => "wrap_lock.lock"
  | .locked => "next_id.load"
  | .gotId _ => "next_serial.load"
  | .gotSerial _ _ => "next_id.store"
  | .storedWrap _ => "next_serial.fetch_add"
  | .gotOut _ _ => "creation.load"
  | .gotCreation _ => "drop(_guard)"

/-- the sequential operations a linearised history consists of -/
inductive Op
  | alloc
  | setCreation (c : Nat)
deriving DecidableEq, Repr

/-- events a schedule consists of: thread `t` takes its next step / some thread calls `set_creation(c)` -/
inductive Ev
  | task (t : Nat)
  | setCreation (c : Nat)
deriving DecidableEq, Repr

/-- global state of the concurrent system -/
structure St where
  sh : Sh
  lock : Option Nat                -- holder of `wrap_lock`
  pc : Nat → Pc                    -- per-thread program counter and locals
  out : List (Nat × Res)           -- finished calls (thread, result) in completion order
  acq : List Nat                   -- threads in the order `lock()` returned to them
  lin : List Op                    -- ghost: the operations in the order of their linearisation points

def upd (f : Nat → Pc) (t : Nat) (v : Pc) : Nat → Pc := fun x => if x = t then v else f x

def St.init (s : Sh) : St := { sh := s, lock := none, pc := fun _ => .idle, out := [], acq := [], lin := [] }

/-- the step from this program counter is the call's linearisation point when it continues -/
def Pc.isGotOut : Pc → Bool
  | .gotOut _ _ => true
  | _ => false

/-- thread `t` takes one step; `none` when it is blocked on the mutex -/
def step (st : St) (t : Nat) : Option St :=
  match st.pc t with
  | .idle =>
    match st.lock with
    | some _ => none
    | none =>
      if st.sh.poisoned then
        -- `lock()` returns `Err(PoisonError)`; the guard inside the error is dropped at once
        some { st with out := st.out ++ [(t, .err)], acq := st.acq ++ [t], lin := st.lin ++ [.alloc] }
      else
        some { st with lock := some t, pc := upd st.pc t .locked, acq := st.acq ++ [t] }
  | pc =>
    match hstep st.sh pc with
    | .cont s' pc' =>
      some { st with sh := s', pc := upd st.pc t pc', lin := if pc.isGotOut then st.lin ++ [.alloc] else st.lin }
    | .done s' r =>
      some { st with sh := s', lock := none, pc := upd st.pc t .idle, out := st.out ++ [(t, r)],
                     lin := if r = .panic then st.lin ++ [.alloc] else st.lin }

def stepEv (st : St) : Ev → Option St
  | .task t => step st t
  | .setCreation c => some { st with sh := st.sh.setCreation c, lin := st.lin ++ [.setCreation c] }

/-- run a schedule; an event of a blocked thread is skipped -/
def run (st : St) (evs : List Ev) : St := evs.foldl (fun st e => (stepEv st e).getD st) st

/-- run a schedule that consists of thread steps only -/
def runTasks (st : St) (σ : List Nat) : St := run st (σ.map .task)

/-! ### sequential reference -/

def seqStep (acc : List Res × Sh) : Op → List Res × Sh
  | .alloc => (acc.1 ++ [(alloc acc.2).1], (alloc acc.2).2)
  | .setCreation c => (acc.1, acc.2.setCreation c)

/-- run a list of operations one after the other: results of the `alloc`s and the final state -/
def seqRun (s : Sh) (ops : List Op) : List Res × Sh := ops.foldl seqStep ([], s)

/-- state after `i` sequential allocations -/
def seqState (s : Sh) : Nat → Sh
  | 0 => s
  | i + 1 => (alloc (seqState s i)).2

/-- result of the `i`-th (0-based) of a row of sequential allocations -/
def seqAlloc (s : Sh) (i : Nat) : Res := (alloc (seqState s i)).1

/-- `(id, serial)` of a successful result -/
def Res.key : Res → Option (Nat × Nat)
  | .ok p => some (p.id, p.serial)
  | _ => none

def Res.creation? : Res → Option Nat
  | .ok p => some p.creation
  | _ => none

end Edp.Impl.PidAlloc
