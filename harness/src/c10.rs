//! C10: identifiers received from a peer are re-emitted byte-for-byte, wherever nested and however converted.
use crate::canon::{hex, hexarg, term_text};
use crate::tgen::{gen_node, gen_pid, gen_port, gen_ref, gen_term, gen_u32, gen_u64, Cfg};
use crate::Ctx;
use erltf::types::{Atom, ExternalPid, ExternalPort, ExternalReference, InternalFun};
use erltf::{BorrowedTerm, OwnedTerm};
use std::collections::BTreeMap;
use std::hash::{Hash, Hasher};

fn put_atom(v: &mut Vec<u8>, a: &str) {
    v.push(119);
    v.push(a.len() as u8);
    v.extend_from_slice(a.as_bytes());
}

/// bytes of one identifier in a randomly chosen wire form (modern, legacy where the fields fit, LOCAL_EXT around either)
fn ident_bytes(ctx: &mut Ctx) -> (Vec<u8>, &'static str) {
    let r = &mut ctx.rng;
    let node = gen_node(r);
    let node = if node.as_str().len() > 200 { Atom::new("n@h") } else { node };
    let mut v = vec![];
    let kind;
    match r.below(3) {
        0 => {
            let (id, serial, creation) = (gen_u32(r), gen_u32(r), gen_u32(r));
            if r.chance(1, 4) {
                kind = "pid-legacy";
                v.push(103);
                put_atom(&mut v, node.as_str());
                v.extend_from_slice(&id.to_be_bytes());
                v.extend_from_slice(&serial.to_be_bytes());
                v.push(creation as u8);
            } else {
                kind = "pid";
                v.push(88);
                put_atom(&mut v, node.as_str());
                v.extend_from_slice(&id.to_be_bytes());
                v.extend_from_slice(&serial.to_be_bytes());
                v.extend_from_slice(&creation.to_be_bytes());
            }
        }
        1 => {
            let (id, creation) = (gen_u64(r), gen_u32(r));
            match r.below(4) {
                0 => {
                    kind = "port-legacy";
                    v.push(102);
                    put_atom(&mut v, node.as_str());
                    v.extend_from_slice(&(id as u32).to_be_bytes());
                    v.push(creation as u8);
                }
                1 => {
                    kind = "port-new";
                    v.push(89);
                    put_atom(&mut v, node.as_str());
                    v.extend_from_slice(&(id as u32).to_be_bytes());
                    v.extend_from_slice(&creation.to_be_bytes());
                }
                _ => {
                    kind = "port";
                    v.push(120);
                    put_atom(&mut v, node.as_str());
                    v.extend_from_slice(&id.to_be_bytes());
                    v.extend_from_slice(&creation.to_be_bytes());
                }
            }
        }
        _ => {
            let n = r.range(1, 5) as usize;
            let ids: Vec<u32> = (0..n).map(|_| gen_u32(r)).collect();
            let creation = gen_u32(r);
            if r.chance(1, 4) {
                kind = "ref-legacy";
                v.push(114);
                v.extend_from_slice(&(n as u16).to_be_bytes());
                put_atom(&mut v, node.as_str());
                v.push(creation as u8);
            } else {
                kind = "ref";
                v.push(90);
                v.extend_from_slice(&(n as u16).to_be_bytes());
                put_atom(&mut v, node.as_str());
                v.extend_from_slice(&creation.to_be_bytes());
            }
            for i in ids {
                v.extend_from_slice(&i.to_be_bytes());
            }
        }
    }
    (v, kind)
}

fn local_wrap(ctx: &mut Ctx, inner: &[u8]) -> Vec<u8> {
    let mut v = vec![121u8];
    v.extend(ctx.rng.bytes(8));
    v.extend_from_slice(inner);
    v
}

/// put the identifier bytes into a random container context (tuple, list, list tail, map key/value, fun environment)
fn in_context(ctx: &mut Ctx, id: &[u8], depth: u32) -> (Vec<u8>, &'static str) {
    let r = &mut ctx.rng;
    let mut v = vec![];
    let is_pid = matches!(id.first(), Some(88) | Some(103)) || (id.first() == Some(&121) && matches!(id.get(9), Some(88) | Some(103)));
    let k = r.below(8);
    let name = match k {
        6 if is_pid => {
            // NEW_FUN_EXT whose creator pid IS the identifier (a pid in the fun's Pid field, any form it arrived in)
            let mut body = vec![0u8];
            body.extend_from_slice(&[7u8; 16]);
            body.extend_from_slice(&[0, 0, 0, 2, 0, 0, 0, 0]);
            put_atom(&mut body, "mod");
            body.extend_from_slice(&[97, 5, 97, 6]);
            body.extend_from_slice(id);
            v.push(112);
            v.extend_from_slice(&((body.len() + 4) as u32).to_be_bytes());
            v.extend_from_slice(&body);
            "funpid"
        }
        0 => {
            v.extend_from_slice(&[104, 2, 97, 1]);
            v.extend_from_slice(id);
            "tuple"
        }
        1 => {
            v.extend_from_slice(&[108, 0, 0, 0, 2]);
            v.extend_from_slice(id);
            v.extend_from_slice(&[97, 7, 106]);
            "list"
        }
        2 => {
            v.extend_from_slice(&[108, 0, 0, 0, 1, 97, 1]);
            v.extend_from_slice(id);
            "tail"
        }
        3 => {
            v.extend_from_slice(&[116, 0, 0, 0, 1]);
            v.extend_from_slice(id);
            v.extend_from_slice(&[97, 1]);
            "mapkey"
        }
        4 => {
            v.extend_from_slice(&[116, 0, 0, 0, 1, 97, 1]);
            v.extend_from_slice(id);
            "mapval"
        }
        5 => {
            // NEW_FUN_EXT with the identifier as its only free variable
            let mut body = vec![2u8];
            body.extend_from_slice(&[9u8; 16]);
            body.extend_from_slice(&[0, 0, 0, 1, 0, 0, 0, 1]);
            put_atom(&mut body, "m");
            body.extend_from_slice(&[97, 3, 97, 4]);
            body.push(88);
            put_atom(&mut body, "a@h");
            body.extend_from_slice(&[0, 0, 0, 1, 0, 0, 0, 2, 0, 0, 0, 3]);
            body.extend_from_slice(id);
            v.push(112);
            v.extend_from_slice(&((body.len() + 4) as u32).to_be_bytes());
            v.extend_from_slice(&body);
            "funenv"
        }
        _ => {
            v.extend_from_slice(id);
            "bare"
        }
    };
    if depth > 0 && ctx.rng.chance(1, 2) {
        let (w, _) = in_context(ctx, &v, depth - 1);
        return (w, name);
    }
    (v, name)
}

fn h64<T: Hash>(t: &T) -> u64 {
    let mut s = std::collections::hash_map::DefaultHasher::new();
    t.hash(&mut s);
    s.finish()
}

fn convert(ctx: &mut Ctx, t: OwnedTerm) -> OwnedTerm {
    let mut t = t;
    let n = ctx.rng.below(7);
    for _ in 0..n {
        t = match ctx.rng.below(4) {
            0 => t.clone(),
            1 => BorrowedTerm::from(&t).to_owned(),
            2 => {
                let b = BorrowedTerm::from(&t);
                let b2 = b.clone();
                b2.to_owned()
            }
            _ => {
                let moved = t;
                moved
            }
        };
        ctx.count("conversions");
    }
    t
}

pub fn run(ctx: &mut Ctx) {
    let n = ctx.n(1500, 60000);
    for _ in 0..n {
        let (id, kind) = ident_bytes(ctx);
        let local = ctx.rng.chance(1, 2);
        let idb = if local { local_wrap(ctx, &id) } else { id.clone() };
        let (body, cname) = in_context(ctx, &idb, 2);
        ctx.count(&format!("kind_{}{}", kind, if local { "_local" } else { "" }));
        ctx.count(&format!("context_{}", cname));
        let mut bytes = vec![131u8];
        bytes.extend_from_slice(&body);
        let (dr, dt) = crate::c01::dec_result(&bytes);
        ctx.tie("gen", &format!("dec {} -", hexarg(&bytes)), &dr);
        let Some(t) = dt else {
            ctx.fail("c10-own-bytes-rejected", &format!("{} {}", hex(&bytes), dr));
            continue;
        };
        let t2 = convert(ctx, t.clone());
        let (er, eb) = crate::c01::enc_result(&t2);
        ctx.tie("gen", &format!("enc {}", term_text(&t2)), &er);
        // the property: identifier-canonical input (modern form or LOCAL_EXT around anything) comes back byte for byte
        let canonical = local || !kind.ends_with("legacy") && kind != "port-new";
        if canonical {
            if eb.as_deref() != Some(&bytes[..]) {
                ctx.fail("c10-not-reemitted", &format!("in={} out={}", hex(&bytes), er));
            }
        } else {
            ctx.count("legacy_plain_form");
        }
        if t2 != t || h64(&t2) != h64(&t) || t2.cmp(&t) != std::cmp::Ordering::Equal {
            ctx.fail("c10-conversion-changes-term", &format!("{} vs {}", term_text(&t), term_text(&t2)));
        }
    }
    // identifiers compare and hash by their logical fields only
    for _ in 0..n / 3 {
        let p = gen_pid(&mut ctx.rng, false);
        let pl = ExternalPid::with_local_ext_bytes(p.node.clone(), p.id, p.serial, p.creation, ctx.rng.bytes(20));
        let q = gen_port(&mut ctx.rng, false);
        let ql = ExternalPort::with_local_ext_bytes(q.node.clone(), q.id, q.creation, ctx.rng.bytes(20));
        let r = gen_ref(&mut ctx.rng, false, false);
        let rl = ExternalReference::with_local_ext_bytes(r.node.clone(), r.creation, r.ids.clone(), ctx.rng.bytes(20));
        if p != pl || h64(&p) != h64(&pl) || p.cmp(&pl) != std::cmp::Ordering::Equal {
            ctx.fail("c10-logical-identity", &format!("pid {:?}", p));
        }
        if q != ql || h64(&q) != h64(&ql) || q.cmp(&ql) != std::cmp::Ordering::Equal {
            ctx.fail("c10-logical-identity", &format!("port {:?}", q));
        }
        if r != rl || h64(&r) != h64(&rl) || r.cmp(&rl) != std::cmp::Ordering::Equal {
            ctx.fail("c10-logical-identity", &format!("ref {:?}", r));
        }
        // and different logical fields are told apart
        let p2 = ExternalPid::with_local_ext_bytes(p.node.clone(), p.id.wrapping_add(1), p.serial, p.creation, pl.local_ext_bytes.clone().unwrap());
        if p2 == pl || OwnedTerm::Pid(p2.clone()).cmp(&OwnedTerm::Pid(pl.clone())) == std::cmp::Ordering::Equal {
            ctx.fail("c10-logical-identity", &format!("pid with different id equal {:?}", p2));
        }
        ctx.count("identity_checks");
        // model tie of the comparison
        let (a, b) = (OwnedTerm::Pid(pl.clone()), OwnedTerm::Pid(p2));
        let o = match a.cmp(&b) {
            std::cmp::Ordering::Less => "lt",
            std::cmp::Ordering::Equal => "eq",
            std::cmp::Ordering::Greater => "gt",
        };
        ctx.tie("gen", &format!("c11cmp {} {}", term_text(&a), term_text(&b)), o);
    }
    // identifiers that differ in exactly one logical field are different in every representation, and a map keyed by
    // both keeps both through the zero-copy representation and back
    for _ in 0..n / 3 {
        let p = gen_pid(&mut ctx.rng, true);
        let q = gen_port(&mut ctx.rng, true);
        let r = gen_ref(&mut ctx.rng, true, false);
        let mut variants: Vec<(OwnedTerm, OwnedTerm, &str)> = vec![];
        let mk_pid = |id, serial, creation| OwnedTerm::Pid(ExternalPid::new(p.node.clone(), id, serial, creation));
        variants.push((OwnedTerm::Pid(p.clone()), mk_pid(p.id ^ 1, p.serial, p.creation), "pid.id"));
        variants.push((OwnedTerm::Pid(p.clone()), mk_pid(p.id, p.serial ^ 1, p.creation), "pid.serial"));
        variants.push((OwnedTerm::Pid(p.clone()), mk_pid(p.id, p.serial, p.creation ^ 1), "pid.creation"));
        variants.push((OwnedTerm::Port(q.clone()), OwnedTerm::Port(ExternalPort::new(q.node.clone(), q.id ^ 1, q.creation)), "port.id"));
        variants.push((OwnedTerm::Port(q.clone()), OwnedTerm::Port(ExternalPort::new(q.node.clone(), q.id, q.creation ^ 1)), "port.creation"));
        variants.push((OwnedTerm::Port(q.clone()), OwnedTerm::Port(ExternalPort::new(Atom::new("other@node"), q.id, q.creation)), "port.node"));
        let mut ids2 = r.ids.clone();
        if let Some(x) = ids2.last_mut() {
            *x ^= 1;
        } else {
            ids2.push(1);
        }
        variants.push((OwnedTerm::Reference(r.clone()), OwnedTerm::Reference(ExternalReference::new(r.node.clone(), r.creation, ids2)), "ref.ids"));
        variants.push((OwnedTerm::Reference(r.clone()), OwnedTerm::Reference(ExternalReference::new(r.node.clone(), r.creation ^ 1, r.ids.clone())), "ref.creation"));
        for (a, b, what) in variants {
            ctx.count("one_field_pairs");
            let (ba, bb) = (BorrowedTerm::from(&a), BorrowedTerm::from(&b));
            if a == b || a.cmp(&b) == std::cmp::Ordering::Equal || ba == bb || ba.cmp(&bb) == std::cmp::Ordering::Equal {
                ctx.fail("c10-logical-identity", &format!("{}: {} vs {} not told apart (owned cmp {:?}, borrowed cmp {:?})", what, term_text(&a), term_text(&b), a.cmp(&b), ba.cmp(&bb)));
            }
            let mut m = BTreeMap::new();
            m.insert(a.clone(), OwnedTerm::Integer(1));
            m.insert(b.clone(), OwnedTerm::Integer(2));
            let map = OwnedTerm::Map(m);
            let Ok(bytes) = erltf::encode(&map) else { continue };
            let via_from = BorrowedTerm::from(&map).to_owned();
            let via_dec = erltf::decode_borrowed(&bytes).map(|t| t.to_owned());
            if erltf::encode(&via_from).ok().as_deref() != Some(&bytes[..]) {
                ctx.fail("c10-not-reemitted", &format!("{}: map keyed by both, through BorrowedTerm::from/to_owned: {}", what, term_text(&via_from)));
            }
            // the zero-copy decoder does not know LOCAL_EXT; only plain-form keys go through it
            if !bytes.contains(&121) {
                match via_dec {
                    Ok(t) if erltf::encode(&t).ok().as_deref() == Some(&bytes[..]) => {}
                    other => ctx.fail("c10-not-reemitted", &format!("{}: map keyed by both, through decode_borrowed: {:?}", what, other.map(|t| term_text(&t)))),
                }
            }
        }
    }
    // generated whole terms with identifiers in local form: encode/decode/encode
    let cfg = Cfg { huge: false, ..Cfg::default() };
    for _ in 0..n / 3 {
        let t = gen_term(&mut ctx.rng, &cfg, 0);
        let Ok(b) = erltf::encode(&t) else { continue };
        let Ok(d) = erltf::decode(&b) else {
            ctx.fail("c10-own-bytes-rejected", &hex(&b));
            continue;
        };
        let d2 = convert(ctx, d);
        if erltf::encode(&d2).ok().as_deref() != Some(&b[..]) {
            ctx.fail("c10-not-reemitted", &format!("term {}", term_text(&t)));
        }
    }
    let _ = (BTreeMap::<u8, u8>::new(), InternalFun::new);
}
