import EdpVerif.Drv.Etf
import EdpVerif.Impl.DistHeader
import EdpVerif.Spec.DistHeader
namespace Edp.Drv
open Edp Edp.DistHeader

/-- `-` (no atoms / none observed) or comma-separated atoms, each lower-case hex, `e` for the empty atom -/
def getAtoms (s : String) : Except String (List Bytes) :=
  if s == "-" then .ok [] else
  (s.splitOn ",").mapM fun a => if a == "e" then .ok [] else getHex a

def getTerms (ts : List String) : Except String (List Term) := ts.mapM getTerm

def showPair : Except DErr (Term × Option Term) → String
  | .ok (c, none) => "ok " ++ c.text ++ " -"
  | .ok (c, some p) => "ok " ++ c.text ++ " " ++ p.text
  | .error .err => "err"
  | .error (.trailing n) => "trailing " ++ toString n
  | .error .panic => "panic"

def c14enc (order : String) (ts : List String) : Except String String := do
  let terms ← getTerms ts
  let order ← if order == "?" then pure (dedup (atomsOfL terms)) else getAtoms order
  -- the observed order must list exactly the atoms `collect_atoms` finds, each once
  if !isOrderFor order terms then pure "bad-order" else
  pure (showEnc (encodeDist order terms))

def c14spec (o h : String) (ts : List String) : Except String String := do
  let terms ← getTerms ts
  let b ← getHex h
  match Spec.DistHeader.readMessage (parseOracle o).env.inflate [] b with
  | none => pure "FAIL spec-rejects"
  | some (vs, _) =>
    let want := terms.map Term.den
    if vs == want then pure "ok"
    else pure ("FAIL spec=" ++ " ".intercalate (vs.map Value.text) ++ " den=" ++ " ".intercalate (want.map Value.text))

/-- `intended`: messages separated by `;`, the terms of one message by `&` -/
def getIntended (s : String) : Except String (List (List Term)) :=
  (s.splitOn ";").mapM fun m => (m.splitOn "&").mapM getTerm

def handleC14 : List String → Option String
  | "c14enc" :: order :: ts => some <| run (c14enc order ts)
  | ["c14seq", o, ms] => some <| run do
    let msgs ← (ms.splitOn ",").mapM getHex
    pure (";".intercalate ((decodeSeq (parseOracle o).ext {} msgs).map showPair))
  | "c14spec" :: o :: h :: ts => some <| run (c14spec o h ts)
  | ["c14hist", o, ms, intended] => some <| run do
    let msgs ← (ms.splitOn ",").mapM getHex
    let want ← getIntended intended
    let got := Spec.DistHeader.readSeq (parseOracle o).env.inflate [] msgs
    if got == want.map (fun ts => some (ts.map Term.den)) then pure "ok"
    else pure ("FAIL spec-reads " ++ " | ".intercalate (got.map fun
      | some vs => " ".intercalate (vs.map Value.text)
      | none => "rejected"))
  | _ => none

end Edp.Drv
