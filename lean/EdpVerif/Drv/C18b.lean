import EdpVerif.Drv.Common
import EdpVerif.Impl.Behaviours
import EdpVerif.Spec.Behaviours
/-! Driver requests of the behaviours clause of C18 (domain `c18b`).

step  = `<msg>~<ans>~<env>` (gen_server) / `M<msg>~<env>` (event manager)
msg   = `R<from|->!<body>` | `C` | `E<reason>` | `O`
ans   = `n` | `e` | `r<term>`
env   = `-` | entries joined by `!`: `l<pid>` (registered, mailbox open) | `c<pid>` (registered, mailbox closed)

* `c18bgs step…`      — `gsRun`: callbacks and sends in order, `|alive` / `|dead`
* `c18bgsn step…`     — the same run as a real `Node` shows it: callbacks, the messages per reachable caller, alive
* `c18bgsspec alive got step…` — Spec oracle: `got` = `pid>body` joined by `&`
* `c18bge oracle op…` — the event manager: ops `M…` (message), `A<uid>!<hid>!<args>` (add_handler), `D<key>`
  (delete_handler), `T` (`Process::terminate`); result: callbacks per handler instance | sends | results of A / D
  oracle = `-` | entries joined by `;`: `<uid>.<k>~<o|r|s|e>~<val>~<newUid>~<newKey>~<args>`
* `c18bgespec got op…` — Spec oracle on the messages of the same ops
-/
namespace Edp.Drv
namespace C18b
open Edp Edp.Impl.Beh

def runE (r : Except String String) : String :=
  match r with
  | .ok s => s
  | .error e => "bad-op " ++ e

def getPid (s : String) : Except String PidF := do
  match ← getTerm s with
  | .pid p => pure p
  | _ => .error "bad-pid"

def samePid (a b : PidF) : Bool := a.node == b.node && a.id == b.id && a.serial == b.serial && a.creation == b.creation

def parseEnv (s : String) : Except String (Env × List PidF) :=
  if s == "-" then pure ((fun _ => .absent), []) else do
    let es ← (s.splitOn "!").mapM fun e => do
      let p ← getPid (e.drop 1).toString
      if e.startsWith "l" then pure (p, Reach.live)
      else if e.startsWith "c" then pure (p, Reach.closed)
      else .error "bad-env"
    let env : Env := fun q => match es.find? (fun e => samePid e.1 q) with
      | some e => e.2
      | none => .absent
    pure (env, (es.filter (fun e => e.2 == .live)).map (·.1))

instance : BEq Reach := ⟨fun a b => decide (a = b)⟩

def parseMsg (s : String) : Except String Edp.Impl.Beh.Msg :=
  if s == "C" then pure .control
  else if s == "O" then pure .other
  else if s.startsWith "E" then do pure (.exit (← getTerm (s.drop 1).toString))
  else if s.startsWith "R" then
    match (s.drop 1).toString.splitOn "!" with
    | [f, b] => do
      let frm ← if f == "-" then pure none else do pure (some (← getPid f))
      pure (.regular frm (← getTerm b))
    | _ => .error "bad-msg"
  else .error "bad-msg"

def parseAns (s : String) : Except String GsAns :=
  if s == "n" then pure .noReply else if s == "e" then pure .err
  else if s.startsWith "r" then do pure (.reply (← getTerm (s.drop 1).toString))
  else .error "bad-ans"

def parseGsStep (s : String) : Except String (GsStep × List PidF) :=
  match s.splitOn "~" with
  | [m, a, e] => do
    let (env, live) ← parseEnv e
    pure (⟨← parseMsg m, ← parseAns a, env⟩, live)
  | _ => .error "bad-step"

def cbText : Cb → String
  | .gsCall q f => s!"call:{q.text}:{Term.pidText f}"
  | .gsCast q => s!"cast:{q.text}"
  | .gsInfo b => s!"info:{b.text}"
  | .gsTerminate r => s!"term:{r.text}"
  | .init u a => s!"init:{u}:{a.text}"
  | .event u e => s!"event:{u}:{e.text}"
  | .call u q => s!"hcall:{u}:{q.text}"
  | .info u b => s!"hinfo:{u}:{b.text}"
  | .terminate u r => s!"hterm:{u}:{r.text}"

def insertSorted (x : String) : List String → List String
  | [] => [x]
  | y :: r => if x ≤ y then x :: y :: r else y :: insertSorted x r

def sortStrings (l : List String) : List String := l.foldl (fun acc x => insertSorted x acc) []

/-- a reply that carries a list (the ids of `which_handlers`, in map order): the list sorted by text -/
def canonBody (b : Term) : String :=
  match b with
  | .tuple [r, .list l] => "U[" ++ r.text ++ ",L{" ++ ",".intercalate (sortStrings (l.map Term.text)) ++ "}]"
  | _ => b.text

def outText : Out → String
  | .cb c => cbText c
  | .send p b => s!"send:{Term.pidText p}:{canonBody b}"

def joinOr (sep : String) (l : List String) : String := if l.isEmpty then "-" else sep.intercalate l

def addPid (acc : List PidF) (p : PidF) : List PidF := if acc.any (samePid p) then acc else acc ++ [p]

def projText (watch : List PidF) (sends : List (PidF × Term)) : String :=
  joinOr ";" (watch.map fun p =>
    Term.pidText p ++ "=" ++ joinOr "&" ((sends.filter fun e => samePid e.1 p).map fun e => canonBody e.2))

def toSpecMsg : Edp.Impl.Beh.Msg → Spec.Beh.Msg
  | .regular f b => .regular f b
  | .control => .control
  | .exit r => .exit r
  | .other => .other

def toSpecStep (s : GsStep) : Spec.Beh.Step :=
  ⟨toSpecMsg s.msg, (match s.ans with | .reply v => .reply v | .noReply => .noReply | .err => .failed),
    fun p => s.env p == .live⟩

def parseGot (s : String) : Except String (List (PidF × Term)) :=
  if s == "-" then pure [] else
  (s.splitOn "&").mapM fun e =>
    match e.splitOn ">" with
    | [p, b] => do pure (← getPid p, ← getTerm b)
    | _ => .error "bad-got"

/-! ### event manager -/

def parseKind (s : String) : Except String AnsKind :=
  if s == "o" then pure .ok else if s == "r" then pure .remove else if s == "s" then pure .swap
  else if s == "e" then pure .err else .error "bad-kind"

def natOf (s : String) : Except String Nat :=
  match s.toNat? with
  | some n => pure n
  | none => .error ("bad-nat " ++ s)

def parseOracleB (s : String) : Except String Edp.Impl.Beh.Oracle :=
  if s == "-" then pure (fun _ _ => {}) else do
    let es ← (s.splitOn ";").mapM fun e =>
      match e.splitOn "~" with
      | [uk, k, v, nu, nk, a] =>
        match uk.splitOn "." with
        | [u, i] => do
          pure ((← natOf u, ← natOf i),
            ({ kind := ← parseKind k, val := ← getTerm v, newUid := ← natOf nu, newKey := ← getTerm nk, args := ← getTerm a } : Ans))
        | _ => .error "bad-oracle-key"
      | _ => .error "bad-oracle"
    pure fun u k => match es.find? (fun e => e.1.1 == u && e.1.2 == k) with
      | some e => e.2
      | none => {}

inductive GeOp where
  | msg (s : GeStep) (live : List PidF)
  | add (uid : Nat) (hid args : Term)
  | del (key : Term)
  | term

def parseGeOp (s : String) : Except String GeOp :=
  if s == "T" then pure .term
  else if s.startsWith "M" then
    match (s.drop 1).toString.splitOn "~" with
    | [m, e] => do
      let (env, live) ← parseEnv e
      pure (.msg ⟨← parseMsg m, env⟩ live)
    | _ => .error "bad-geop"
  else if s.startsWith "A" then
    match (s.drop 1).toString.splitOn "!" with
    | [u, h, a] => do pure (.add (← natOf u) (← getTerm h) (← getTerm a))
    | _ => .error "bad-geop"
  else if s.startsWith "D" then do pure (.del (← getTerm (s.drop 1).toString))
  else .error "bad-geop"

def cbUid : Cb → Option Nat
  | .init u _ => some u
  | .event u _ => some u
  | .call u _ => some u
  | .info u _ => some u
  | .terminate u _ => some u
  | _ => none

def insertNat (x : Nat) : List Nat → List Nat
  | [] => [x]
  | y :: r => if x < y then x :: y :: r else if x == y then y :: r else y :: insertNat x r

def perUidText (outs : List Out) : String :=
  let cbs := cbsOf outs
  let uids := cbs.foldl (fun acc c => match cbUid c with | some u => insertNat u acc | none => acc) []
  joinOr ";" (uids.map fun u =>
    toString u ++ "=" ++ "&".intercalate ((cbs.filter fun c => cbUid c == some u).map cbText))

def geExec (ω : Edp.Impl.Beh.Oracle) (ops : List GeOp) : List Out × List String :=
  let (_, outs, res) := ops.foldl (fun (acc : GeSt × List Out × List String) op =>
    let (st, outs, res) := acc
    match op with
    | .msg s _ => let (st', o) := geHandle ω st s; (st', outs ++ o, res)
    | .add u h a => let (st', o, ok) := addHandler ω st u h a; (st', outs ++ o, res ++ [if ok then "ok" else "err"])
    | .del k => let (st', o, ok) := deleteHandler st k; (st', outs ++ o, res ++ [if ok then "ok" else "err"])
    | .term => (st, outs ++ geTerminate st, res)) (({} : GeSt), [], [])
  (outs, res)

end C18b

open C18b in
def handleC18b : List String → Option String
  | "c18bgs" :: steps => some <| C18b.runE do
      let ss ← steps.mapM parseGsStep
      let r := Edp.Impl.Beh.gsRun (ss.map (·.1))
      pure (joinOr "&" (r.1.map outText) ++ (if r.2 then "|alive" else "|dead"))
  | "c18bgsn" :: steps => some <| C18b.runE do
      let ss ← steps.mapM parseGsStep
      let r := Edp.Impl.Beh.gsRun (ss.map (·.1))
      let watch := ss.foldl (fun acc s => s.2.foldl addPid acc) []
      pure (joinOr "&" ((Edp.Impl.Beh.cbsOf r.1).map cbText) ++ "|" ++ projText watch (Edp.Impl.Beh.sendsOf r.1) ++
        (if r.2 then "|alive" else "|dead"))
  | "c18bgsspec" :: alive :: got :: steps => some <| C18b.runE do
      let ss ← steps.mapM parseGsStep
      let got ← parseGot got
      pure (Edp.Spec.Beh.gsCheck (ss.map fun s => toSpecStep s.1) got (alive == "alive"))
  | "c18bge" :: oracle :: ops => some <| C18b.runE do
      let ω ← parseOracleB oracle
      let ops ← ops.mapM parseGeOp
      let (outs, res) := geExec ω ops
      pure (perUidText outs ++ "|" ++ joinOr "&" ((outs.filter fun o => match o with | .send .. => true | _ => false).map outText) ++
        "|" ++ joinOr "," res)
  | "c18bgen" :: oracle :: ops => some <| C18b.runE do
      let ω ← parseOracleB oracle
      let ops ← ops.mapM parseGeOp
      let (outs, _) := geExec ω ops
      let watch := ops.foldl (fun acc o => match o with | .msg _ live => live.foldl addPid acc | _ => acc) []
      pure (perUidText outs ++ "|" ++ projText watch (Edp.Impl.Beh.sendsOf outs))
  | "c18bgespec" :: got :: ops => some <| C18b.runE do
      let ops ← ops.mapM parseGeOp
      let got ← parseGot got
      let steps := ops.filterMap fun o => match o with
        | .msg s _ => some (⟨toSpecMsg s.msg, fun p => s.env p == .live⟩ : Edp.Spec.Beh.EvStep)
        | _ => none
      pure (Edp.Spec.Beh.geCheck steps got)
  | _ => none

end Edp.Drv
