import EdpVerif.Drv.Common
namespace Edp.Drv

/-- driver requests of property C08 (stub: nothing handled yet) -/
def handleC08 : List String → Option String
  | _ => none

end Edp.Drv
