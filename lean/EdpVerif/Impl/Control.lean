import EdpVerif.Impl.Encode
import EdpVerif.Impl.Den
/-
Model of crates/edp_client/src/control.rs: `ControlMessageType` (+ `TryFrom<u8>`), and
`ControlMessage::from_term / to_term / into_term`.

The three ~30-arm matches are *data* (`Table`), re-extracted from control.rs on every run by
tools/gen_control.py into `Generated/Control.lean`; the functions below interpret that data exactly as
the Rust `match`es do (first matching arm wins, guards, indexing panics), so they are meaningful for any
table, consistent or not.  `tableOK` is the decidable consistency predicate the generic theorems need.
-/
namespace Edp.Control

/-- initialiser of one struct field in a `from_term` arm -/
inductive Src where
  /-- `elements[i].clone()` / `mem::take(&mut elements[i])` -/
  | elem (i : Nat)
  /-- `let id = unlink_id_from_term(&elements[i], "..")?;` -/
  | uid (i : Nat)
  deriving Repr, DecidableEq

def Src.idx : Src → Nat
  | .elem i => i
  | .uid i => i

/-- one element (after the head) of the `vec![..]` of a `to_term` / `into_term` arm -/
inductive Out where
  /-- `f.clone()` / `f` -/
  | fld (f : String)
  /-- `unlink_id_to_term(*f)` / `unlink_id_to_term(f)` -/
  | uid (f : String)
  deriving Repr, DecidableEq

def Out.name : Out → String
  | .fld f => f
  | .uid f => f

/-- `Some(ControlMessageType::ty) if elements.len() == arity => Ok(ControlMessage::variant { fields })` -/
structure FromArm where
  ty : String
  arity : Nat
  variant : String
  fields : List (String × Src)
  deriving Repr, DecidableEq

/-- `ControlMessage::variant { .. } => OwnedTerm::Tuple(vec![Integer(ControlMessageType::head as i64), outs..])` -/
structure ToArm where
  variant : String
  head : String
  outs : List Out
  deriving Repr, DecidableEq

structure Table where
  /-- `enum ControlMessageType { Name = n, .. }` -/
  enumTags : List (String × Nat)
  /-- `TryFrom<u8>`: arms `n => Ok(Self::Name)` in source order (anything else is `Err`) -/
  tryFrom : List (Nat × String)
  /-- `enum ControlMessage` variants except `Generic`: declared fields, `true` = `u64`, `false` = `OwnedTerm` -/
  variants : List (String × List (String × Bool))
  /-- arms of the `match ControlMessageType::from_u8(msg_type)` in `from_term`, in source order -/
  fromArms : List FromArm
  toArms : List ToArm
  intoArms : List ToArm
  deriving Repr

/-- a field value of a structured message -/
inductive FVal where
  | term (t : Term)
  | uid (n : Nat)
  deriving Repr, Inhabited

/-- `ControlMessage`: a structured variant with its named fields, or `Generic { message_type, fields }` -/
inductive Msg where
  | known (variant : String) (fields : List (String × FVal))
  | generic (ty : Nat) (fields : List Term)
  deriving Repr, Inhabited

inductive PErr where
  /-- `Err(Error::InvalidControlMessage(_))` -/
  | err
  /-- slice index out of bounds -/
  | panic
  deriving Repr, DecidableEq

def lookup {α : Type} : List (String × α) → String → Option α
  | [], _ => none
  | (g, v) :: r, f => if g = f then some v else lookup r f

/-- `ControlMessageType::X as i64` -/
def enumDisc (tbl : Table) (n : String) : Option Nat := lookup tbl.enumTags n

/-- `ControlMessageType::from_u8` (= `TryFrom<u8>`, first matching arm) -/
def fromU8 (tbl : Table) (v : Nat) : Option String :=
  match tbl.tryFrom.find? (fun p => p.1 = v) with
  | some p => some p.2
  | none => none

/-- the `from_term` arm taken for `from_u8` result `ty` and `elements.len() = len` (none = the `_` arm) -/
def selectArm (tbl : Table) (ty : Option String) (len : Nat) : Option FromArm :=
  match ty with
  | none => none
  | some n => tbl.fromArms.find? (fun a => a.ty = n ∧ a.arity = len)

/-- `digits.iter().rposition(|&d| d != 0).map_or(0, |p| p + 1)`: the number of digits up to the last non-zero one -/
def sigDigits : Bytes → Nat
  | [] => 0
  | b :: r => if sigDigits r = 0 then (if b = 0 then 0 else 1) else sigDigits r + 1

/-- `unlink_id_from_term` (`none` = `Err`): `Integer(i)` with `i ≥ 0`, or a `BigInt` that is not negative (a negative
sign on an all-zero magnitude passes) and has at most 8 significant little-endian digits -/
def unlinkIdFromTerm : Term → Option Nat
  | .int i => if i < 0 then none else some i.toNat
  | .big neg d =>
    if 0 < sigDigits d ∧ neg = true then none
    else if 8 < sigDigits d then none
    else some (magVal (d.take (sigDigits d)))
  | _ => none

/-- `unlink_id_to_term`: `Integer` up to `i64::MAX`, above that `BigInt(+, id.to_le_bytes())` -/
def unlinkIdToTerm (n : Nat) : Term :=
  if n ≤ 9223372036854775807 then .int (n : Int) else .big false (leN 8 n)

/-- the integer an integer term stands for (`Integer` and `BigInt` are the two representations) -/
def intOf : Term → Option Int
  | .int v => some v
  | .big neg d => some (bigVal neg d)
  | _ => none

def evalSrc (els : List Term) : Src → Except PErr FVal
  | .elem i =>
    match els[i]? with
    | some t => .ok (.term t)
    | none => .error .panic
  | .uid i =>
    match els[i]? with
    | some t =>
      match unlinkIdFromTerm t with
      | some n => .ok (.uid n)
      | none => .error .err
    | none => .error .panic

def evalFields (els : List Term) : List (String × Src) → Except PErr (List (String × FVal))
  | [] => .ok []
  | (f, s) :: r =>
    match evalSrc els s with
    | .error e => .error e
    | .ok v =>
      match evalFields els r with
      | .error e => .error e
      | .ok vs => .ok ((f, v) :: vs)

/-- `ControlMessage::from_term` -/
def parse (tbl : Table) : Term → Except PErr Msg
  | .tuple [] => .error .err
  | .tuple (.int raw :: rest) =>
    if 0 ≤ raw ∧ raw ≤ 255 then
      match selectArm tbl (fromU8 tbl raw.toNat) (rest.length + 1) with
      | some arm =>
        match evalFields (.int raw :: rest) arm.fields with
        | .ok fs => .ok (.known arm.variant fs)
        | .error e => .error e
      | none => .ok (.generic raw.toNat rest)
    else .error .err
  | _ => .error .err

/-- `none`: the field does not exist with that type (cannot happen for a Rust value of the enum) -/
def evalOut (fs : List (String × FVal)) : Out → Option Term
  | .fld f =>
    match lookup fs f with
    | some (.term t) => some t
    | _ => none
  | .uid f =>
    match lookup fs f with
    | some (.uid n) => some (unlinkIdToTerm n)
    | _ => none

def evalOuts (fs : List (String × FVal)) : List Out → Option (List Term)
  | [] => some []
  | o :: os =>
    match evalOut fs o with
    | none => none
    | some t =>
      match evalOuts fs os with
      | none => none
      | some ts => some (t :: ts)

def findTo (arms : List ToArm) (v : String) : Option ToArm := arms.find? (fun b => b.variant = v)

/-- the common shape of `to_term` and `into_term`; `none` = no arm / ill-typed message (not a Rust value) -/
def serialise (tbl : Table) (arms : List ToArm) : Msg → Option Term
  | .generic ty fields => some (.tuple (.int (ty : Int) :: fields))
  | .known v fs =>
    match findTo arms v with
    | none => none
    | some arm =>
      match enumDisc tbl arm.head, evalOuts fs arm.outs with
      | some d, some outs => some (.tuple (.int (d : Int) :: outs))
      | _, _ => none

/-- `ControlMessage::to_term` -/
def toTerm (tbl : Table) (m : Msg) : Option Term := serialise tbl tbl.toArms m

/-- `ControlMessage::into_term` -/
def intoTerm (tbl : Table) (m : Msg) : Option Term := serialise tbl tbl.intoArms m

/-! ### consistency of a table (decidable) -/

/-- position by position, the serialiser's `k`-th element is the field the parser filled from `elements[k]` -/
def matchOuts (flds : List (String × Src)) : List Out → Nat → Bool
  | [], _ => true
  | .fld f :: os, k => decide (lookup flds f = some (.elem k)) && matchOuts flds os (k + 1)
  | .uid f :: os, k => decide (lookup flds f = some (.uid k)) && matchOuts flds os (k + 1)

/-- the parser arm reads back every element the serialiser arm wrote -/
def matchFlds (outs : List Out) : List (String × Src) → Bool
  | [] => true
  | (f, .elem k) :: r => decide (1 ≤ k ∧ outs[k - 1]? = some (.fld f)) && matchFlds outs r
  | (f, .uid k) :: r => decide (1 ≤ k ∧ outs[k - 1]? = some (.uid f)) && matchFlds outs r

def fromArmOK (tbl : Table) (a : FromArm) : Bool :=
  match findTo tbl.toArms a.variant with
  | none => false
  | some b =>
    decide (b.head = a.ty) && decide (b.outs.length + 1 = a.arity) && matchOuts a.fields b.outs 1 &&
      a.fields.all (fun p => decide (p.2.idx < a.arity))

/-- declared field `(name, isU64)` ↔ serialiser element -/
def outOfDecl (p : String × Bool) : Out := if p.2 then .uid p.1 else .fld p.1

/-- every declared variant has the same serialiser arm in both matches, writing only declared fields with their
declared type, and the parser arm that is selected for what the serialiser writes builds this variant, fills
exactly the declared fields, each from the position the serialiser wrote it to -/
def variantOK (tbl : Table) (v : String × List (String × Bool)) : Bool :=
  match findTo tbl.toArms v.1, findTo tbl.intoArms v.1 with
  | some b, some c =>
    decide (b = c) && b.outs.all (fun o => decide (o ∈ v.2.map outOfDecl)) &&
      (match enumDisc tbl b.head with
       | none => false
       | some d =>
         decide (d ≤ 255) &&
         match selectArm tbl (fromU8 tbl d) (b.outs.length + 1) with
         | none => false
         | some a =>
           decide (a.variant = v.1) && matchFlds b.outs a.fields &&
             v.2.all (fun p => (lookup a.fields p.1).isSome) && a.fields.all (fun p => (lookup v.2 p.1).isSome))
  | _, _ => false

def tableOK (tbl : Table) : Bool :=
  -- `TryFrom<u8>` is the inverse of `as u8`
  tbl.tryFrom.all (fun p => decide (enumDisc tbl p.2 = some p.1)) &&
  tbl.enumTags.all (fun p => decide (fromU8 tbl p.2 = some p.1)) &&
  -- every parser arm has a serialiser arm with the same head, arity and field positions
  tbl.fromArms.all (fromArmOK tbl) &&
  -- the two serialisers have the same arms
  tbl.toArms.all (fun b => decide (findTo tbl.intoArms b.variant = findTo tbl.toArms b.variant)) &&
  tbl.intoArms.all (fun c => (findTo tbl.toArms c.variant).isSome) &&
  -- every declared variant is served by all three matches
  tbl.variants.all (variantOK tbl) &&
  tbl.toArms.all (fun b => (lookup tbl.variants b.variant).isSome) &&
  tbl.fromArms.all (fun a => (lookup tbl.variants a.variant).isSome)

def TableOK (tbl : Table) : Prop := tableOK tbl = true

instance (tbl : Table) : Decidable (TableOK tbl) := by unfold TableOK; infer_instance

/-! ### predicates used by the property statements -/

/-- `t` is a tuple whose first element is `Integer(i)` with `0 ≤ i ≤ 255` -/
def tagged : Term → Bool
  | .tuple (.int i :: _) => decide (0 ≤ i ∧ i ≤ 255)
  | _ => false

/-- the element an unlink-id field is read from stands for an integer `0 ≤ id < 2^64`
(`elem` sources carry no condition) -/
def srcIdOk (els : List Term) : Src → Bool
  | .elem _ => true
  | .uid i =>
    match els[i]? with
    | some e =>
      match intOf e with
      | some v => decide (0 ≤ v ∧ v < 2 ^ 64)
      | none => false
    | none => false

/-- what the property itself excludes: in the arm `from_term` takes for this tuple (if any), every `u64` id field
is read from an element that stands for a non-negative integer of at most 64 bits -/
def idGuard (tbl : Table) : Term → Bool
  | .tuple (.int raw :: rest) =>
    match selectArm tbl (fromU8 tbl raw.toNat) (rest.length + 1) with
    | some arm => arm.fields.all (fun p => srcIdOk (.int raw :: rest) p.2)
    | none => true
  | _ => true

/-- the field declared as `(name, isU64)` is present with that type (`u64` values below 2^64) -/
def fieldOk (fs : List (String × FVal)) (p : String × Bool) : Bool :=
  match lookup fs p.1 with
  | some (.term _) => !p.2
  | some (.uid n) => p.2 && decide (n < 2 ^ 64)
  | none => false

/-- a message as the Rust type system allows it: a declared variant with exactly its declared fields, each of
its declared type; or `Generic` with a `u8` type -/
def wellTyped (tbl : Table) : Msg → Bool
  | .generic ty _ => decide (ty ≤ 255)
  | .known v fs =>
    match lookup tbl.variants v with
    | some ds => ds.all (fieldOk fs) && fs.all (fun p => (lookup ds p.1).isSome)
    | none => false

def FVal.map (w : Term → Term) : FVal → FVal
  | .term t => .term (w t)
  | .uid n => .uid n

def mapFields (w : Term → Term) : List (String × FVal) → List (String × FVal)
  | [] => []
  | (f, v) :: r => (f, v.map w) :: mapFields w r

/-- the message with `w` applied to every term it carries (ids and the type number unchanged) -/
def Msg.mapTerms (w : Term → Term) : Msg → Msg
  | .known v fs => .known v (mapFields w fs)
  | .generic ty l => .generic ty (l.map w)

/-- what a trip through the wire does to a term, as far as control messages care: tuples are mapped element by
element, `Integer 0..255` comes back as itself, and an integer comes back as an integer of the same value (possibly in
the other representation).  For `decode ∘ encode` this is C01's theorem. -/
structure Transparent (w : Term → Term) : Prop where
  tuple : ∀ l, w (.tuple l) = .tuple (l.map w)
  small : ∀ i : Int, 0 ≤ i → i ≤ 255 → w (.int i) = .int i
  ints : ∀ t v, intOf t = some v → intOf (w t) = some v

/-- two messages are the same variant with the same value for every field name -/
def Msg.Same : Msg → Msg → Prop
  | .known v fs, .known w gs => v = w ∧ ∀ f, lookup fs f = lookup gs f
  | .generic a l, .generic b r => a = b ∧ l = r
  | _, _ => False

/-! ### canonical text (driver and harness) -/

def FVal.text : FVal → String
  | .term t => t.text
  | .uid n => "#" ++ toString n

def insertField (p : String × FVal) : List (String × FVal) → List (String × FVal)
  | [] => [p]
  | x :: xs => if p.1 ≤ x.1 then p :: x :: xs else x :: insertField p xs

/-- `Variant{a=T;b=T}` with the fields sorted by name; `Generic:<ty>{T;T}` -/
def Msg.text : Msg → String
  | .known v fs =>
    v ++ "{" ++ ";".intercalate ((fs.foldr insertField []).map fun p => p.1 ++ "=" ++ p.2.text) ++ "}"
  | .generic ty l => "Generic:" ++ toString ty ++ "{" ++ ";".intercalate (l.map Term.text) ++ "}"

def FVal.ofText (s : String) : Option FVal :=
  match s.toList with
  | '#' :: r => if r.all Char.isDigit && !r.isEmpty then some (.uid (String.ofList r).toNat!) else none
  | _ => (Term.ofText s).map .term

def splitFirst (s : String) (c : Char) : Option (String × String) :=
  let l := s.toList
  let a := l.takeWhile (· != c)
  if a.length < l.length then some (String.ofList a, String.ofList (l.drop (a.length + 1))) else none

def optAll {α β : Type} (f : α → Option β) : List α → Option (List β)
  | [] => some []
  | a :: r =>
    match f a, optAll f r with
    | some b, some bs => some (b :: bs)
    | _, _ => none

def Msg.ofText (s : String) : Option Msg :=
  match splitFirst s '{' with
  | none => none
  | some (hd, body) =>
    if !body.endsWith "}" then none else
    let inner := String.ofList (body.toList.take (body.length - 1))
    let parts := if inner.isEmpty then [] else inner.splitOn ";"
    if hd.startsWith "Generic:" then
      let n := String.ofList (hd.toList.drop 8)
      if n.isNat then (optAll Term.ofText parts).map (.generic n.toNat!) else none
    else
      (optAll (fun p => match splitFirst p '=' with
        | some (f, v) => (FVal.ofText v).map fun x => (f, x)
        | none => none) parts).map (.known hd)

end Edp.Control
