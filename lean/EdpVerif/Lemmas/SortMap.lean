import EdpVerif.Lemmas.SortedInsert
import EdpVerif.Lemmas.ErlAgreeRec
/-!
Consequences of the order laws for the containers the property names:
* sorting (core Lean's stable merge sort, run with the model order) returns a permutation in ascending order;
* the ordered map (`mapInsert`, the model of `BTreeMap::insert`): a lookup returns the LAST value written under a key
  that compares Equal; removal keeps the keys sorted;
* every map built by insertions stores its entries in ascending key order (`adjSorted`, the `mapsSorted` guard of C12).
-/
open Edp Edp.Term
namespace Edp

/-- terms whose big integers have minimal digits -/
abbrev WTerm := { t : Term // WFo t = true }

/-- `a <= b` under the model order -/
def leT (a b : WTerm) : Bool := Term.cmp a.1 b.1 != .gt

theorem leT_trans (a b c : WTerm) (h1 : leT a b = true) (h2 : leT b c = true) : leT a c = true := by
  simp only [leT, bne_iff_ne] at *
  exact cmp_trans_le a.2 b.2 c.2 h1 h2

theorem leT_total (a b : WTerm) : (leT a b || leT b a) = true := by
  simp only [leT]
  rw [cmp_swap a.1 b.1]
  cases Term.cmp b.1 a.1 <;> simp

/-- lookup under the order's equality: the value stored under the first key that compares Equal -/
def mapGet (m : List (Term × Term)) (k : Term) : Option Term :=
  (m.find? (fun p => Term.cmp k p.1 == .eq)).map (·.2)

theorem mapGet_cons (p : Term × Term) (m : List (Term × Term)) (k : Term) :
    mapGet (p :: m) k = if Term.cmp k p.1 = .eq then some p.2 else mapGet m k := by
  simp only [mapGet, List.find?_cons]
  cases h : Term.cmp k p.1 <;> simp

/-- one insertion: the inserted key (and every key Equal to it) now reads the new value, every other key reads what it
read before -/
theorem mapGet_mapInsert (m : List (Term × Term)) (k v k' : Term) (hk : WFo k) (hk' : WFo k')
    (hm : ∀ p ∈ m, WFo p.1) :
    mapGet (mapInsert m k v) k' = if Term.cmp k' k = .eq then some v else mapGet m k' := by
  induction m with
  | nil => simp [mapInsert, mapGet]
  | cons p0 r ih =>
    obtain ⟨k0, v0⟩ := p0
    have hk0 : WFo k0 := hm (k0, v0) (by simp)
    have hr : ∀ p ∈ r, WFo p.1 := fun p hp => hm p (List.mem_cons_of_mem _ hp)
    simp only [mapInsert]
    cases h : Term.cmp k k0 <;> simp only
    · simp only [mapGet_cons]
    · -- the stored key stays, its value is replaced: `k'` equals `k` exactly when it equals the stored key
      simp only [mapGet_cons]
      by_cases h1 : Term.cmp k' k = .eq
      · have : Term.cmp k' k0 = .eq := cmp_trans_eq_eq hk' hk hk0 h1 h
        simp [h1, this]
      · have : Term.cmp k' k0 ≠ .eq := by
          intro h2
          have h3 : Term.cmp k0 k = .eq := by rw [cmp_swap k0 k, h]; rfl
          exact h1 (cmp_trans_eq_eq hk' hk0 hk h2 h3)
        simp [h1, this]
    · simp only [mapGet_cons, ih hr]
      by_cases h1 : Term.cmp k' k = .eq
      · have : Term.cmp k' k0 ≠ .eq := by
          intro h2
          have h3 : Term.cmp k k' = .eq := by rw [cmp_swap k k', h1]; rfl
          have := cmp_trans_eq_eq hk hk' hk0 h3 h2
          rw [h] at this; cases this
        simp [h1, this]
      · simp [h1]

/-- any sequence of insertions into the empty map: a lookup returns the value of the LAST insertion whose key compares
Equal to the looked-up key, and nothing if there was none -/
theorem mapGet_build (l : List (Term × Term)) (k' : Term) (hl : ∀ p ∈ l, WFo p.1) (hk' : WFo k') :
    mapGet (l.foldl (fun m kv => mapInsert m kv.1 kv.2) []) k' =
      (l.reverse.find? (fun p => Term.cmp k' p.1 == .eq)).map (·.2) := by
  suffices H : ∀ (l acc : List (Term × Term)), (∀ p ∈ l, WFo p.1) → (∀ p ∈ acc, WFo p.1) →
      mapGet (l.foldl (fun m kv => mapInsert m kv.1 kv.2) acc) k' =
        match l.reverse.find? (fun p => Term.cmp k' p.1 == .eq) with
        | some p => some p.2
        | none => mapGet acc k' by
    rw [H l [] hl (by simp)]
    cases l.reverse.find? (fun p => Term.cmp k' p.1 == .eq) <;> simp [mapGet]
  intro l
  induction l with
  | nil => intro acc _ _; simp
  | cons e r ih =>
    intro acc hl hacc
    have he : WFo e.1 := hl e (by simp)
    have hr : ∀ p ∈ r, WFo p.1 := fun p hp => hl p (List.mem_cons_of_mem _ hp)
    simp only [List.foldl_cons, List.reverse_cons, List.find?_append]
    rw [ih (mapInsert acc e.1 e.2) hr (mapInsert_wf acc e.1 e.2 he hacc)]
    cases hf : r.reverse.find? (fun p => Term.cmp k' p.1 == .eq) with
    | some p => simp
    | none =>
      simp only [Option.none_or, List.find?_cons, List.find?_nil]
      rw [mapGet_mapInsert acc e.1 e.2 k' he hk' hacc]
      cases h : Term.cmp k' e.1 <;> simp

/-- removing entries keeps the keys strictly ascending -/
theorem keysSorted_sublist {m m' : List (Term × Term)} (h : m'.Sublist m) (hs : keysSorted m) : keysSorted m' :=
  List.Pairwise.sublist h hs

/-- strictly ascending keys are in particular ascending from each entry to the next (the `mapsSorted` guard of C12) -/
theorem adjSorted_of_keysSorted : ∀ (m : List (Term × Term)), keysSorted m → adjSorted m = true
  | [], _ => by simp [adjSorted]
  | [_], _ => by simp [adjSorted]
  | (k, v) :: (k2, v2) :: r, hs => by
    unfold keysSorted at hs
    rw [List.pairwise_cons] at hs
    simp only [adjSorted, Bool.and_eq_true, beq_iff_eq]
    exact ⟨hs.1 (k2, v2) (by simp), adjSorted_of_keysSorted ((k2, v2) :: r) hs.2⟩

theorem mapsSortedKV_iff : ∀ (m : List (Term × Term)),
    mapsSortedKV m = true ↔ ∀ p ∈ m, mapsSorted p.1 = true ∧ mapsSorted p.2 = true
  | [] => by simp [mapsSortedKV]
  | (k, v) :: r => by
    simp only [mapsSortedKV, Bool.and_eq_true, List.mem_cons, forall_eq_or_imp, mapsSortedKV_iff r, and_assoc]

/-- every key and every value of the result of an insertion was a key / value before or is the inserted one -/
theorem mapInsert_parts (m : List (Term × Term)) (k v : Term) :
    ∀ q ∈ mapInsert m k v, (q.1 = k ∨ ∃ p ∈ m, q.1 = p.1) ∧ (q.2 = v ∨ ∃ p ∈ m, q.2 = p.2) := by
  induction m with
  | nil => intro q hq; simp [mapInsert] at hq; subst hq; simp
  | cons p0 r ih =>
    obtain ⟨k0, v0⟩ := p0
    intro q hq
    simp only [mapInsert] at hq
    cases h : Term.cmp k k0 <;> simp only [h] at hq
    · rcases List.mem_cons.mp hq with rfl | hq
      · simp
      · exact ⟨.inr ⟨q, hq, rfl⟩, .inr ⟨q, hq, rfl⟩⟩
    · rcases List.mem_cons.mp hq with rfl | hq
      · exact ⟨.inr ⟨(k0, v0), by simp, rfl⟩, .inl rfl⟩
      · exact ⟨.inr ⟨q, List.mem_cons_of_mem _ hq, rfl⟩, .inr ⟨q, List.mem_cons_of_mem _ hq, rfl⟩⟩
    · rcases List.mem_cons.mp hq with rfl | hq
      · exact ⟨.inr ⟨(k0, v0), by simp, rfl⟩, .inr ⟨(k0, v0), by simp, rfl⟩⟩
      · obtain ⟨h1, h2⟩ := ih q hq
        refine ⟨h1.imp id ?_, h2.imp id ?_⟩
        · rintro ⟨p, hp, e⟩; exact ⟨p, List.mem_cons_of_mem _ hp, e⟩
        · rintro ⟨p, hp, e⟩; exact ⟨p, List.mem_cons_of_mem _ hp, e⟩

/-- the map built from an entry list by successive insertions -/
def mapBuild (l : List (Term × Term)) : List (Term × Term) := l.foldl (fun m kv => mapInsert m kv.1 kv.2) []

theorem foldInsert_sorted : ∀ (l acc : List (Term × Term)), (∀ p ∈ l, WFo p.1) → (∀ p ∈ acc, WFo p.1) → keysSorted acc →
    keysSorted (l.foldl (fun m kv => mapInsert m kv.1 kv.2) acc) ∧
    ∀ q ∈ l.foldl (fun m kv => mapInsert m kv.1 kv.2) acc,
      (∃ p, (p ∈ l ∨ p ∈ acc) ∧ q.1 = p.1) ∧ (∃ p, (p ∈ l ∨ p ∈ acc) ∧ q.2 = p.2)
  | [], acc, _, _, hs => ⟨hs, fun q hq => ⟨⟨q, .inr hq, rfl⟩, ⟨q, .inr hq, rfl⟩⟩⟩
  | e :: r, acc, hl, hacc, hs => by
    have he : WFo e.1 := hl e (by simp)
    have hr : ∀ p ∈ r, WFo p.1 := fun p hp => hl p (List.mem_cons_of_mem _ hp)
    obtain ⟨s1, s2⟩ := foldInsert_sorted r (mapInsert acc e.1 e.2) hr (mapInsert_wf acc e.1 e.2 he hacc)
      (mapInsert_sorted acc e.1 e.2 he hacc hs)
    refine ⟨s1, ?_⟩
    intro q hq
    obtain ⟨⟨p, hp, e1⟩, ⟨p', hp', e2⟩⟩ := s2 q hq
    constructor
    · rcases hp with hp | hp
      · exact ⟨p, .inl (List.mem_cons_of_mem _ hp), e1⟩
      · rcases (mapInsert_parts acc e.1 e.2 p hp).1 with h | ⟨p0, h0, h⟩
        · exact ⟨e, .inl (by simp), e1.trans h⟩
        · exact ⟨p0, .inr h0, e1.trans h⟩
    · rcases hp' with hp' | hp'
      · exact ⟨p', .inl (List.mem_cons_of_mem _ hp'), e2⟩
      · rcases (mapInsert_parts acc e.1 e.2 p' hp').2 with h | ⟨p0, h0, h⟩
        · exact ⟨e, .inl (by simp), e2.trans h⟩
        · exact ⟨p0, .inr h0, e2.trans h⟩

/-- a map built by insertions from entries whose own maps are in key order is in key order, at every level -/
theorem mapsSorted_mapBuild (l : List (Term × Term)) (hk : ∀ p ∈ l, WFo p.1)
    (hs : ∀ p ∈ l, mapsSorted p.1 = true ∧ mapsSorted p.2 = true) : mapsSorted (.map (mapBuild l)) = true := by
  obtain ⟨s1, s2⟩ := foldInsert_sorted l [] hk (by simp) (by simp [keysSorted])
  simp only [mapsSorted, Bool.and_eq_true]
  refine ⟨adjSorted_of_keysSorted _ s1, (mapsSortedKV_iff _).mpr ?_⟩
  intro q hq
  obtain ⟨⟨p, hp, e1⟩, ⟨p', hp', e2⟩⟩ := s2 q hq
  simp only [List.not_mem_nil, or_false] at hp hp'
  exact ⟨e1 ▸ (hs p hp).1, e2 ▸ (hs p' hp').2⟩

end Edp
