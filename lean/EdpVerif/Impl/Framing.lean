import EdpVerif.Basic.Bytes
import EdpVerif.Generated.MiscC05
/-!
Model of crates/edp_client/src/framing.rs (`MessageFramer`, `MessageDeframer`), of the transport-facing
contract of Tokio's `read_exact` / `read_u16` / `write_all` / `write_u16`, and of the second copy of the
read loop in crates/edp_client/src/connection.rs (`receive_message_from_read_half`).
Core Lean only (linked into the driver).

The transport is an explicit script:
* read side: a list of `Ev` — what each successive `poll_read` does (`chunk bs`: hands over up to `bs.length`
  bytes, the part that does not fit the caller's buffer stays for the next poll; `pending`: returns
  `Poll::Pending` and is woken again; `eof`: returns 0 bytes; `fail`: returns an I/O error; `stall`: returns
  `Poll::Pending` and is not woken before the `tokio::time::timeout` around the read fires, so the read future is
  dropped together with whatever it had consumed). An exhausted
  script is end of stream. A `chunk []` is a 0-byte read and therefore end-of-stream for the caller, exactly as
  in Tokio.
* write side: a list of `WEv` — what each successive `poll_write` does (`accept k`: takes `min k len` bytes,
  `accept 0` is a zero write; `pending`; `fail`). An exhausted script accepts everything.
-/
namespace Edp.Framing
open Edp

/-- framing.rs `MAX_MESSAGE_SIZE` (256 MiB), as the translator reads it from the source on every run -/
def framingCap : Nat := Gen.FRAMING_MAX_MESSAGE_SIZE
/-- connection.rs `MAX_MESSAGE_SIZE` (64 MiB), used by `receive_message_from_read_half`; regenerated likewise -/
def connCap : Nat := Gen.CONN_MAX_MESSAGE_SIZE

inductive Mode where
  | handshake
  | distribution
  deriving DecidableEq, Repr

/-- `FrameMode::length_prefix_size` -/
def Mode.prefixSize : Mode → Nat
  | .handshake => 2
  | .distribution => 4

/-- the message length is representable in the prefix (`data.len() as u16` / `as u32` does not truncate) -/
def fits (mode : Mode) (msg : Bytes) : Prop := msg.length < 256 ^ mode.prefixSize

instance (mode : Mode) (msg : Bytes) : Decidable (fits mode msg) := by unfold fits; infer_instance

/-- `MessageFramer::frame_message`: `put_u16(len as u16)` / `put_u32(len as u32)` then the data.
`beN` reduces mod 256^k, which is the `as` cast. -/
def frame (mode : Mode) (msg : Bytes) : Bytes := beN mode.prefixSize msg.length ++ msg

/-! ## write side -/

inductive WEv where
  | accept (k : Nat)
  | pending
  | fail
  /-- `Pending` without a wake-up before the `tokio::time::timeout` around the write fires (`FramedTransport::write`):
  the write future is dropped, what the sink had accepted stays on the wire -/
  | stall
  deriving DecidableEq, Repr

inductive WErr where
  | writeZero
  | io
  | timeout
  deriving DecidableEq, Repr

/-- result of a write loop: outcome, the chunks the sink accepted (in order), the rest of the script -/
structure WOut where
  res : Except WErr Unit
  chunks : List Bytes
  rest : List WEv

/-- Tokio `write_all` (and `write_u16`/`write_u32`, which run the same loop over their 2/4-byte buffer):
poll the sink with the remaining buffer until it is empty; a 0-byte acceptance is `WriteZero`. -/
def writeAll : Bytes → List WEv → WOut
  | [], s => ⟨.ok (), [], s⟩
  | b :: bs, [] => ⟨.ok (), [b :: bs], []⟩
  | b :: bs, .pending :: s => writeAll (b :: bs) s
  | _ :: _, .fail :: s => ⟨.error .io, [], s⟩
  | _ :: _, .stall :: s => ⟨.error .timeout, [], s⟩
  | b :: bs, .accept k :: s =>
    if k = 0 then ⟨.error .writeZero, [], s⟩
    else
      let o := writeAll ((b :: bs).drop k) s
      ⟨o.res, (b :: bs).take k :: o.chunks, o.rest⟩

/-- what successive `poll_flush` calls of the sink do: complete, `Pending` (woken again), fail, or `Pending` with no
wake-up before the surrounding timeout fires. An exhausted script completes. -/
inductive FEv where
  | done
  | pending
  | fail
  | stall
  deriving DecidableEq, Repr

/-- Tokio `flush()`: poll until ready -/
def flushAll : List FEv → Except WErr Unit × List FEv
  | [] => (.ok (), [])
  | .done :: r => (.ok (), r)
  | .pending :: r => flushAll r
  | .fail :: r => (.error .io, r)
  | .stall :: r => (.error .timeout, r)

/-- outcome of `write_framed`: result, accepted chunks, number of `flush` calls that completed (0 or 1), and what is
left of the two scripts for the next call on the same sink -/
structure WFOut where
  res : Except WErr Unit
  chunks : List Bytes
  flushes : Nat
  rest : List WEv := []
  frest : List FEv := []

/-- `MessageFramer::write_framed`: `write_u16/u32(len as ..)`, `write_all(data)`, `flush()` with `?` after each
(the step order is `Gen.WRITE_FRAMED_STEPS`). `fl` scripts the sink's `poll_flush`. -/
def writeFramed (mode : Mode) (msg : Bytes) (s : List WEv) (fl : List FEv := []) : WFOut :=
  let o1 := writeAll (beN mode.prefixSize msg.length) s
  match o1.res with
  | .error e => ⟨.error e, o1.chunks, 0, o1.rest, fl⟩
  | .ok () =>
    let o2 := writeAll msg o1.rest
    match o2.res with
    | .error e => ⟨.error e, o1.chunks ++ o2.chunks, 0, o2.rest, fl⟩
    | .ok () =>
      match flushAll fl with
      | (.error e, fr) => ⟨.error e, o1.chunks ++ o2.chunks, 0, o2.rest, fr⟩
      | (.ok (), fr) => ⟨.ok (), o1.chunks ++ o2.chunks, 1, o2.rest, fr⟩

/-- a caller that sends the messages one after the other through `FramedTransport::write`
(= `timeout(d, write_framed)`) on the same socket and, following `Error::is_recoverable`, goes on after
`Error::Timeout` (a retry is the same message twice in the list); any other error ends it.
Returns the results and everything the sink accepted. -/
def writeMany (mode : Mode) : List Bytes → List WEv → List FEv → List (Except WErr Unit) × List Bytes
  | [], _, _ => ([], [])
  | m :: ms, s, fl =>
    let o := writeFramed mode m s fl
    match o.res with
    | .ok () =>
      let r := writeMany mode ms o.rest o.frest
      (.ok () :: r.1, o.chunks ++ r.2)
    | .error .timeout =>
      let r := writeMany mode ms o.rest o.frest
      (.error .timeout :: r.1, o.chunks ++ r.2)
    | .error e => ([.error e], o.chunks)

/-! ## read side -/

inductive Ev where
  | chunk (bs : Bytes)
  | pending
  | eof
  | fail
  | stall
  deriving DecidableEq, Repr

inductive RErr where
  | eof
  | io
  | timeout
  | tooLarge (len : Nat)
  deriving DecidableEq, Repr

/-- all bytes the script will ever deliver -/
def payload : List Ev → Bytes
  | [] => []
  | .chunk bs :: r => bs ++ payload r
  | _ :: r => payload r

/-- termination measure of the read loops: every byte and every event counts -/
def weight : List Ev → Nat
  | [] => 0
  | .chunk bs :: r => bs.length + 1 + weight r
  | _ :: r => 1 + weight r

/-- Tokio `read_exact` into a buffer of `n` bytes (also `read_u16`): poll until the buffer is full; a poll that adds
nothing is `UnexpectedEof`; `Pending` polls are retried; on error the partial buffer is dropped. Returns the
bytes and the script that is left for the next read. -/
def readExact : Nat → List Ev → Except RErr Bytes × List Ev
  | 0, evs => (.ok [], evs)
  | _+1, [] => (.error .eof, [])
  | _+1, .eof :: r => (.error .eof, r)
  | _+1, .fail :: r => (.error .io, r)
  | _+1, .stall :: r => (.error .timeout, r)
  | n+1, .pending :: r => readExact (n+1) r
  | n+1, .chunk bs :: r =>
    if bs.length = 0 then (.error .eof, r)
    else if bs.length ≤ n+1 then
      match readExact (n+1 - bs.length) r with
      | (.ok t, r') => (.ok (bs ++ t), r')
      | (.error e, r') => (.error e, r')
    else (.ok (bs.take (n+1)), .chunk (bs.drop (n+1)) :: r)

/-- big-endian value of the length bytes (`u16/u32::from_be_bytes`) -/
def lenOf (lb : Bytes) : Nat :=
  match rdN lb.length lb with
  | some (v, _) => v
  | none => 0

/-- outcome of reading one frame: result, the script that is left, and the size of the `vec![0u8; len]` that was
requested for the body (0 when none was) -/
structure RdOut where
  res : Except RErr Bytes
  rest : List Ev
  allocRequested : Nat

/-- `MessageDeframer::read_framed` with the cap as a parameter (`framingCap` in the code): length prefix, zero length
is a tick, the cap is checked before the body buffer is allocated, then the body. -/
def readFramed (cap : Nat) (mode : Mode) (evs : List Ev) : RdOut :=
  match readExact mode.prefixSize evs with
  | (.error e, r) => ⟨.error e, r, 0⟩
  | (.ok lb, r) =>
    let len := lenOf lb
    if len = 0 then ⟨.ok [], r, 0⟩
    else if len > cap then ⟨.error (.tooLarge len), r, 0⟩
    else
      match readExact len r with
      | (res, r') => ⟨res, r', len⟩

/-- call a frame reader until its first error (which is kept as the last element) -/
def iterF (step : List Ev → RdOut) : Nat → List Ev → List (Except RErr Bytes)
  | 0, _ => []
  | f+1, evs =>
    match (step evs).res with
    | .error e => [.error e]
    | .ok m => .ok m :: iterF step f (step evs).rest

/-- a caller that treats `Error::Timeout` as recoverable (`Error::is_recoverable`) and calls again: like `iterF`, but a
timeout is recorded and the loop goes on (every timeout consumes its `stall` event, so `weight evs + 1` is enough fuel) -/
def iterRetryF (step : List Ev → RdOut) : Nat → List Ev → List (Except RErr Bytes)
  | 0, _ => []
  | f+1, evs =>
    match (step evs).res with
    | .error .timeout => .error .timeout :: iterRetryF step f (step evs).rest
    | .error e => [.error e]
    | .ok m => .ok m :: iterRetryF step f (step evs).rest

def readRetry (cap : Nat) (mode : Mode) (evs : List Ev) : List (Except RErr Bytes) :=
  iterRetryF (readFramed cap mode) (weight evs + 1) evs

/-- `read_framed` until the first error. The fuel is enough: every successful read consumes part of the script
(`iterF_fuel` in Lemmas/Framing.lean: any larger fuel gives the same list). -/
def readAll (cap : Nat) (mode : Mode) (evs : List Ev) : List (Except RErr Bytes) :=
  iterF (readFramed cap mode) (weight evs + 1) evs

/-! ## the second copy: `Connection::receive_message_from_read_half` (connection.rs), up to the point where the body
is handed to the term decoder. Always 4-byte prefix, cap `connCap`, a zero length is skipped (`continue`). -/

def recvBodyF (cap : Nat) : Nat → List Ev → RdOut
  | 0, evs => ⟨.error .eof, evs, 0⟩
  | f+1, evs =>
    match readExact 4 evs with
    | (.error e, r) => ⟨.error e, r, 0⟩
    | (.ok lb, r) =>
      let len := lenOf lb
      if len = 0 then recvBodyF cap f r
      else if len > cap then ⟨.error (.tooLarge len), r, 0⟩
      else
        match readExact len r with
        | (res, r') => ⟨res, r', len⟩

def recvBody (cap : Nat) (evs : List Ev) : RdOut := recvBodyF cap (weight evs + 1) evs

/-- what `receive_message_from_read_half` does with a body before decoding it -/
inductive Body where
  | empty                 -- `buf.is_empty()` (dead code: a zero length never reaches it)
  | badMarker (b : UInt8) -- first byte is not PASS_THROUGH (112)
  | pass (rest : Bytes)   -- the control term and payload bytes handed to `decode_with_trailing`
  deriving DecidableEq, Repr

def classifyBody : Bytes → Body
  | [] => .empty
  | b :: r => if b.toNat = Gen.CONN_PASS_THROUGH then .pass r else .badMarker b

/-- repeated calls of the second copy until the first error -/
def recvAll (cap : Nat) (evs : List Ev) : List (Except RErr Bytes) :=
  iterF (recvBody cap) (weight evs + 1) evs

/-- the second copy under a caller that calls again after `Error::Timeout` -/
def recvRetry (cap : Nat) (evs : List Ev) : List (Except RErr Bytes) :=
  iterRetryF (recvBody cap) (weight evs + 1) evs

/-! ## `FramedTransport` (transport.rs): which half exists, and the frame mode of each direction -/

/-- `FramedTransport`: `read_half` / `write_half` present, the mode of `framer` and of `deframer` -/
structure TState where
  rd : Bool
  wr : Bool
  fm : Mode
  dm : Mode
  deriving DecidableEq, Repr

/-- `FramedTransport::new`: no stream, both directions in handshake mode -/
def TState.new : TState := ⟨false, false, .handshake, .handshake⟩

inductive TOp where
  | connect | setMode (m : Mode) | close | takeRead | isConnected | hasWrite
  | read (wire : Bytes)      -- the peer has sent `wire`; the caller reads until nothing is left
  | write (msg : Bytes) | writeRaw (data : Bytes)
  deriving DecidableEq, Repr

/-- observable outcome of one operation -/
inductive TRes where
  | unit
  | bool (b : Bool)
  | noStream                               -- `Error::InvalidStateMessage("no active stream")`
  | msgs (ms : List (Except RErr Bytes))   -- what `read` returned, call by call
  | wire (bs : Bytes)                      -- what reached the peer
  deriving Repr

def tstep (cap : Nat) (st : TState) : TOp → TState × TRes
  | .connect => ({ st with rd := true, wr := true }, .unit)
  | .setMode m => ({ st with fm := m, dm := m }, .unit)
  | .close => ({ st with rd := false, wr := false }, .unit)
  | .takeRead => ({ st with rd := false }, .bool st.rd)
  | .isConnected => (st, .bool (st.rd && st.wr))
  | .hasWrite => (st, .bool st.wr)
  | .read w => (st, if st.rd then .msgs ((iterF (readFramed cap st.dm) (w.length + 2) [.chunk w]).dropLast) else .noStream)
  | .write m => (st, if st.wr then .wire (frame st.fm m) else .noStream)
  | .writeRaw d => (st, if st.wr then .wire d else .noStream)

def trun (cap : Nat) : TState → List TOp → List TRes
  | _, [] => []
  | st, op :: r => (tstep cap st op).2 :: trun cap (tstep cap st op).1 r

/-- the state reached after a list of operations -/
def tstate (cap : Nat) : TState → List TOp → TState
  | st, [] => st
  | st, op :: r => tstate cap (tstep cap st op).1 r

end Edp.Framing
