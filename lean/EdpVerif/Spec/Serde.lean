import EdpVerif.Impl.Serde
/-
C15: the side conditions of the property, written from the property statement (not from the code).

* `Ty.wf`   — the type is one the term format can carry without ambiguity: field / variant names are distinct
              (and, being Rust identifiers, valid UTF-8),
              and an `Option` never wraps something whose own encoding may be the atom `undefined`
              (a directly nested `Option`, `()`, a unit struct or unit variant called `undefined`);
* `Val.plain` — the value has no `f32` NaN (payloads are not preserved by `as f64` / `as f32`) and every map lists its
              entries in the order of the serialised keys (the canonical representative of a `HashMap`/`BTreeMap`:
              equality of maps does not see the order, the term map iterates in key order);
* `distinguishable v ty := ty.wf && v.plain` is the property's "shapes the format can distinguish";
* `wireFits`  — resource limits of the decoder and well-formed names (atoms are valid UTF-8 of at most 65535 bytes).
-/
namespace Edp.Spec.Serde
open Edp Edp.Serde

def namesDistinct : List Bytes → Bool
  | [] => true
  | n :: ns => !ns.contains n && namesDistinct ns

mutual
/-- some value of the type serialises to the bare atom `undefined`.  (`()` does not: with the default features it is the
atom `nil`, so `Option<()>` — which the property allows to be excluded — is in fact carried faithfully and is covered.) -/
def mayBeUndef : Ty → Bool
  | .option _ => true
  | .unitStruct n => decide (n = sUndefined)
  | .newtype _ t => mayBeUndef t
  | .enum _ vs => anyUndefVariant vs
  | _ => false
def anyUndefVariant : List (Bytes × Ty) → Bool
  | [] => false
  | (n, sh) :: vs =>
    (decide (n = sUndefined) && (match sh with | .unit => true | _ => false)) || anyUndefVariant vs
end

mutual
def Ty.wf : Ty → Bool
  | .option t => !mayBeUndef t && Ty.wf t
  | .tuple ts => wfL ts
  | .seq t => Ty.wf t
  | .map k v => Ty.wf k && Ty.wf v
  | .struct _ fs => namesDistinct (fs.map (·.1)) && fs.all (fun f => validUtf8 f.1) && wfF fs
  | .newtype _ t => Ty.wf t
  | .tupleStruct _ ts => wfL ts
  | .exStruct _ fs => namesDistinct (fs.map (·.1)) && !(fs.map (·.1)).contains sStructKey && wfF fs
  | .enum _ vs => namesDistinct (vs.map (·.1)) && wfV vs
  | _ => true
def wfL : List Ty → Bool
  | [] => true
  | t :: ts => Ty.wf t && wfL ts
def wfF : List (Bytes × Ty) → Bool
  | [] => true
  | (_, t) :: fs => Ty.wf t && wfF fs
def wfV : List (Bytes × Ty) → Bool
  | [] => true
  | (_, sh) :: vs => wfShape sh && wfV vs
/-- variant shapes: the marker itself is not a type, its components are -/
def wfShape : Ty → Bool
  | .unit => true
  | .newtype _ t => Ty.wf t
  | .tuple ts => wfL ts
  | .struct _ fs => namesDistinct (fs.map (·.1)) && fs.all (fun f => validUtf8 f.1) && wfF fs
  | _ => false
end

/-- every key is greater (in the term order) than all the keys before it -/
def ascending (f : Term → Term) : List Term → List Term → Bool
  | _, [] => true
  | before, k :: r => before.all (fun p => Term.cmp (f k) (f p) == .gt) && ascending f (before ++ [k]) r

mutual
/-- value-level side conditions, with `f` applied to the serialised keys (`id` in memory, `wireT` across the wire) -/
def plainWith (f : Term → Term) : Val → Bool
  | .f32 b => !f32IsNaN b
  | .some v => plainWith f v
  | .tuple vs => plainL f vs
  | .seq vs => plainL f vs
  | .map kvs => plainKV f kvs && ascending f [] (keysOf kvs)
  | .struct _ fs => plainF f fs
  | .newtype _ v => plainWith f v
  | .tupleStruct _ vs => plainL f vs
  | .exStruct _ fs => plainF f fs
  | .variant _ _ p => plainWith f p
  | _ => true
def plainL (f : Term → Term) : List Val → Bool
  | [] => true
  | v :: vs => plainWith f v && plainL f vs
def plainKV (f : Term → Term) : List (Val × Val) → Bool
  | [] => true
  | (k, v) :: r => plainWith f k && plainWith f v && plainKV f r
def plainF (f : Term → Term) : List (Bytes × Val) → Bool
  | [] => true
  | (_, v) :: r => plainWith f v && plainF f r
def keysOf : List (Val × Val) → List Term
  | [] => []
  | (k, _) :: r => ser k :: keysOf r
end

def Val.plain (v : Val) : Bool := plainWith id v
def Val.plainW (v : Val) : Bool := plainWith wireT v

def distinguishable (v : Val) (ty : Ty) : Bool := Ty.wf ty && Val.plain v

/-- the same, with the canonical order of map entries also taken on the wire form of the keys (an integer key outside
the i32 range travels as a big integer); nothing else is excluded -/
def distinguishableW (v : Val) (ty : Ty) : Bool := distinguishable v ty && Val.plainW v

/-- a map key whose serialised form is the same term before and after the wire (strings, bytes, bool, unit structs,
integers within the i32 range, `u64` above `i64::MAX`) -/
def stableKey : Val → Bool
  | .string _ => true
  | .bytes _ => true
  | .bool _ => true
  | .unit => true
  | .unitStruct _ => true
  | .int k i => inI32 i || (decide (k = .u64) && decide (i > i64Max))
  | _ => false

mutual
/-- every map inside the value has only `stableKey` keys: then the canonical order of its entries is the same in memory
and after the wire, and `Val.plainW` follows from `Val.plain` -/
def keysStable : Val → Bool
  | .some v => keysStable v
  | .tuple vs => keysStableL vs
  | .seq vs => keysStableL vs
  | .map kvs => keysStableKV kvs
  | .struct _ fs => keysStableF fs
  | .newtype _ v => keysStable v
  | .tupleStruct _ vs => keysStableL vs
  | .exStruct _ fs => keysStableF fs
  | .variant _ _ p => keysStable p
  | _ => true
def keysStableL : List Val → Bool
  | [] => true
  | v :: vs => keysStable v && keysStableL vs
def keysStableKV : List (Val × Val) → Bool
  | [] => true
  | (k, v) :: r => stableKey k && keysStable v && keysStableKV r
def keysStableF : List (Bytes × Val) → Bool
  | [] => true
  | (_, v) :: r => keysStable v && keysStableF r
end

/-- the number an integer term denotes, in either of its two representations (SMALL_INTEGER/INTEGER_EXT, or
SMALL_BIG/LARGE_BIG_EXT: sign and little-endian base-256 digits) -/
def intVal : Term → Option Int
  | .int i => some i
  | .big neg d => some (if neg then -((magVal d : Nat) : Int) else ((magVal d : Nat) : Int))
  | _ => none

mutual
/-- the decoder's resource limits and atom rules, on a term of the serialiser's fragment -/
def wireFits : Term → Bool
  | .atom a => validUtf8 a && decide (a.length ≤ 65535)
  | .int i => decide (i64Min ≤ i) && decide (i ≤ i64Max)
  | .float b => decide (b < 2 ^ 64)
  | .bin b => decide (b.length ≤ MAX_BINARY_SIZE)
  | .str s => decide (s.length ≤ MAX_BINARY_SIZE)
  | .list l => decide (l.length ≤ MAX_LIST_SIZE) && wireFitsL l
  | .tuple l => decide (l.length ≤ MAX_TUPLE_SIZE) && wireFitsL l
  | .map kvs => decide (kvs.length ≤ MAX_MAP_SIZE) && wireFitsKV kvs
  | .big _ d => decide (d.length ≤ 255)
  | .nil => true
  | _ => false
def wireFitsL : List Term → Bool
  | [] => true
  | t :: ts => wireFits t && wireFitsL ts
def wireFitsKV : List (Term × Term) → Bool
  | [] => true
  | (k, v) :: r => wireFits k && wireFits v && wireFitsKV r
end

mutual
/-- how many levels of containers the decoder descends into below the term's own level (it refuses more than
`MAX_NESTING_DEPTH`) -/
def nesting : Term → Nat
  | .list l => 1 + nestingL l
  | .tuple l => 1 + nestingL l
  | .map kvs => 1 + nestingKV kvs
  | _ => 0
def nestingL : List Term → Nat
  | [] => 0
  | t :: ts => max (nesting t) (nestingL ts)
def nestingKV : List (Term × Term) → Nat
  | [] => 0
  | (k, v) :: r => max (max (nesting k) (nesting v)) (nestingKV r)
end

/-- the term of the value is one the decoder accepts: within its size limits and its nesting limit -/
def decodable (t : Term) : Bool := wireFits t && decide (nesting t ≤ MAX_NESTING_DEPTH)

end Edp.Spec.Serde
