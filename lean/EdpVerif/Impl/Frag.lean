import EdpVerif.Basic.Bytes
import EdpVerif.Generated.MiscC09
/-!
Model of `crates/edp_client/src/fragmentation.rs`, function by function, bug-for-bug (the code after the repairs
7a903d6 — counts above the slot-vector limit go through the pending map — and e936302 — a header whose count conflicts
with the known count of its sequence is ignored), and of the use `Connection::receive_message` makes of its assembler
(f40d0e7: `cleanup_expired` once per received frame; `Assembler.onFrame`).
The constants come from the source through the translator (`tools/gen_misc.py` → `Generated/Misc.lean`).

* `u64`/`usize` values are `Nat` (no arithmetic in the Rust code can overflow: the only subtraction is `fragment_id - 1`
  behind `fragment_id != 0`, the only additions are `received_count += 1`; `as usize` is the identity on a 64-bit target).
* `HashMap<SequenceId, FragmentedMessage>` is an association list with at most one entry per key (`insertKey` erases first);
  nothing observable depends on the iteration order (`retain` and `drain` act per key, and the drained keys are distinct).
* `Instant` is a logical clock: every operation that reads the clock takes `now` as a parameter, `elapsed()` is the
  saturating difference `now - last`.
Core Lean only (linked into the driver executable).
-/
namespace Edp.Frag

/-- `const MAX_FRAGMENTS_VEC: u64` (extracted from the source on every run) -/
def MAX_FRAGMENTS_VEC : Nat := Gen.MAX_FRAGMENTS_VEC
/-- `const MAX_FRAGMENT_COUNT: u64` (extracted from the source on every run) -/
def MAX_FRAGMENT_COUNT : Nat := Gen.MAX_FRAGMENT_COUNT
/-- `DEFAULT_FRAGMENT_TIMEOUT` in milliseconds (extracted from the source on every run) -/
def DEFAULT_FRAGMENT_TIMEOUT : Nat := Gen.DEFAULT_FRAGMENT_TIMEOUT_MS

/-- `struct FragmentedMessage` (`total` is the `FragmentCount` inside the option) -/
structure FragMsg where
  total : Option Nat
  slots : List (Option Bytes)
  pend : List (Nat × Bytes)
  received : Nat
  cache : Option Bytes
  last : Nat
deriving Repr, DecidableEq

/-- `Vec::resize(n, None)` -/
def resize (l : List (Option Bytes)) (n : Nat) : List (Option Bytes) :=
  l.take n ++ List.replicate (n - l.length) none

/-- `FragmentedMessage::new` -/
def FragMsg.new (total : Option Nat) (cache : Option Bytes) (now : Nat) : FragMsg :=
  { total := total
    slots := match total with
      | some c => if MAX_FRAGMENTS_VEC < c then [] else List.replicate c none
      | none => []
    pend := []
    received := 0
    cache := cache
    last := now }

/-- the slot store shared by `add_fragment` and `set_total_fragments`:
`idx = fragment_id - 1; if idx < fragments.len() && fragments[idx].is_none() { fragments[idx] = Some(data); received_count += 1 }` -/
def FragMsg.place (m : FragMsg) (fid : Nat) (data : Bytes) : FragMsg :=
  if fid - 1 < m.slots.length then
    match m.slots[fid - 1]? with
    | some none => { m with slots := m.slots.set (fid - 1) (some data), received := m.received + 1 }
    | _ => m
  else m

/-- `pending_fragments.get(&fragment_id)` (the map has one entry per key: `buffer` inserts only into a vacant entry) -/
def pendGet (fid : Nat) : List (Nat × Bytes) → Option Bytes
  | [] => none
  | (k, d) :: r => if k = fid then some d else pendGet fid r

/-- `if let Entry::Vacant(e) = self.pending_fragments.entry(fragment_id) { e.insert(data); … }`: the first copy wins;
`counted` says whether the insertion bumps `received_count` (it does once the count is known) -/
def FragMsg.buffer (m : FragMsg) (counted : Bool) (fid : Nat) (data : Bytes) : FragMsg :=
  if m.pend.any (fun p => p.1 == fid) then m
  else { m with pend := m.pend ++ [(fid, data)], received := if counted then m.received + 1 else m.received }

/-- `FragmentedMessage::add_fragment` -/
def FragMsg.addFragment (m : FragMsg) (now fid : Nat) (data : Bytes) : FragMsg :=
  let m := { m with last := now }
  if fid = 0 then m else
  match m.total with
  | some c =>
    if fid ≤ c then
      if MAX_FRAGMENTS_VEC < c then m.buffer true fid data else m.place fid data
    else m
  | none => m.buffer false fid data

/-- the loop body of `set_total_fragments` over the drained pending fragments -/
def FragMsg.placePending (c : Nat) (m : FragMsg) (p : Nat × Bytes) : FragMsg :=
  if 0 < p.1 ∧ p.1 ≤ c then m.place p.1 p.2 else m

/-- `FragmentedMessage::set_total_fragments`: above the vector limit the buffered fragments stay in the pending map
(`retain` those with an id up to the count; `received_count = pending_fragments.len()`), otherwise `resize` and the drain of
the pending map into the slots -/
def FragMsg.setTotal (m : FragMsg) (c : Nat) : FragMsg :=
  if m.total = some c then m else
  let m := { m with total := some c }
  if MAX_FRAGMENTS_VEC < c then
    let kept := m.pend.filter (fun p => decide (p.1 ≤ c))
    { m with pend := kept, received := kept.length }
  else
  let pending := m.pend
  let m := { m with slots := resize m.slots c, pend := [] }
  pending.foldl (FragMsg.placePending c) m

/-- `FragmentedMessage::is_complete` -/
def FragMsg.isComplete (m : FragMsg) : Bool :=
  match m.total with
  | some c => m.received == c
  | none => false

/-- `FragmentedMessage::is_expired`: `last_update.elapsed() > timeout` -/
def FragMsg.isExpired (m : FragMsg) (now timeout : Nat) : Bool :=
  decide (timeout < now - m.last)

/-- `FragmentedMessage::reassemble`: atom-cache data, then the fragments by ASCENDING fragment id — above the vector limit
the pending map read by fragment id `1..=count`, otherwise the slots in index order -/
def FragMsg.reassemble (m : FragMsg) : Option Bytes :=
  if m.isComplete then
    some (m.cache.getD [] ++
      (match m.total with
        | some c =>
          if MAX_FRAGMENTS_VEC < c then ((List.range c).filterMap (fun i => pendGet (i + 1) m.pend)).flatten
          else (m.slots.filterMap id).flatten
        | none => (m.slots.filterMap id).flatten))
  else none

/-! ### the `pending` map -/

abbrev PMap := List (Nat × FragMsg)

def lookup (q : Nat) : PMap → Option FragMsg
  | [] => none
  | (k, m) :: r => if k = q then some m else lookup q r

def eraseKey (q : Nat) (l : PMap) : PMap := l.filter (fun p => p.1 != q)

def insertKey (q : Nat) (m : FragMsg) (l : PMap) : PMap := (q, m) :: eraseKey q l

/-- `struct FragmentAssembler` -/
structure Assembler where
  pending : PMap
  timeout : Nat
deriving Repr

/-- `FragmentAssembler::with_timeout` -/
def Assembler.new (timeout : Nat) : Assembler := { pending := [], timeout := timeout }

/-- `FragmentAssembler::new()` = `with_timeout(DEFAULT_FRAGMENT_TIMEOUT)` (clock unit: milliseconds) -/
def Assembler.default : Assembler := Assembler.new DEFAULT_FRAGMENT_TIMEOUT

/-- `FragmentAssembler::start_fragment` -/
def Assembler.startFragment (a : Assembler) (now seq fid : Nat) (cache : Option Bytes) (payload : Bytes) :
    Assembler × Option Bytes :=
  -- `FragmentCount::new(fragment_id)` fails for 0 and for > MAX_FRAGMENT_COUNT
  if fid = 0 ∨ MAX_FRAGMENT_COUNT < fid then (a, none) else
  match lookup seq a.pending with
  | some msg =>
    -- `msg.total_fragments.is_some_and(|known| known != count)`: a conflicting header is ignored
    if msg.total.isSome ∧ msg.total ≠ some fid then (a, none) else
    let msg := ({ msg.setTotal fid with cache := cache }).addFragment now fid payload
    if msg.isComplete then ({ a with pending := eraseKey seq a.pending }, msg.reassemble)
    else ({ a with pending := insertKey seq msg a.pending }, none)
  | none =>
    let msg := (FragMsg.new (some fid) cache now).addFragment now fid payload
    if msg.isComplete then (a, msg.reassemble)
    else ({ a with pending := insertKey seq msg a.pending }, none)

/-- `FragmentAssembler::add_fragment` -/
def Assembler.addFragment (a : Assembler) (now seq fid : Nat) (payload : Bytes) : Assembler × Option Bytes :=
  match lookup seq a.pending with
  | some msg =>
    let msg := msg.addFragment now fid payload
    if msg.isComplete then ({ a with pending := eraseKey seq a.pending }, msg.reassemble)
    else ({ a with pending := insertKey seq msg a.pending }, none)
  | none =>
    let msg := (FragMsg.new none none now).addFragment now fid payload
    ({ a with pending := insertKey seq msg a.pending }, none)

/-- `FragmentAssembler::cleanup_expired`: drops the expired entries, returns how many were dropped -/
def Assembler.cleanupExpired (a : Assembler) (now : Nat) : Assembler × Nat :=
  let kept := a.pending.filter (fun p => !p.2.isExpired now a.timeout)
  ({ a with pending := kept }, a.pending.length - kept.length)

/-- `FragmentAssembler::clear` -/
def Assembler.clear (a : Assembler) : Assembler := { a with pending := [] }

/-- `FragmentAssembler::pending_count` -/
def Assembler.pendingCount (a : Assembler) : Nat := a.pending.length

/-! ### operation sequences (what a connection does to its assembler) -/

/-- one event at the assembler; `now` is the clock value the operation observes -/
inductive Op where
  | start (now seq fid : Nat) (cache : Option Bytes) (payload : Bytes)
  | add (now seq fid : Nat) (payload : Bytes)
  | cleanup (now : Nat)
deriving Repr, DecidableEq

/-- the sequence id an event belongs to (`cleanup` concerns every sequence) -/
def Op.seq : Op → Option Nat
  | .start _ q _ _ _ => some q
  | .add _ q _ _ => some q
  | .cleanup _ => none

def Assembler.step (a : Assembler) : Op → Assembler × Option Bytes
  | .start now q fid cache payload => a.startFragment now q fid cache payload
  | .add now q fid payload => a.addFragment now q fid payload
  | .cleanup now => ((a.cleanupExpired now).1, none)

/-- the assembler after a list of events -/
def Assembler.after (a : Assembler) : List Op → Assembler
  | [] => a
  | o :: r => (a.step o).1.after r

/-- everything the assembler returned, one entry per event -/
def Assembler.outs (a : Assembler) : List Op → List (Option Bytes)
  | [] => []
  | o :: r => (a.step o).2 :: (a.step o).1.outs r

/-- what the assembler returned at the events of sequence `q`, in order -/
def Assembler.outsFor (q : Nat) (a : Assembler) : List Op → List (Option Bytes)
  | [] => []
  | o :: r =>
    if o.seq = some q then (a.step o).2 :: Assembler.outsFor q (a.step o).1 r
    else Assembler.outsFor q (a.step o).1 r

/-! ### what a connection does to its assembler for one received frame (`Connection::receive_message`, one loop iteration) -/

/-- the clock value an event observes -/
def Op.now : Op → Nat
  | .start now _ _ _ _ => now
  | .add now _ _ _ => now
  | .cleanup now => now

/-- one received frame at clock `now`: `self.fragment_assembler.cleanup_expired()` first (every frame, ticks included), then —
for a fragment frame — `start_fragment` / `add_fragment` (`o`; `none` for every other frame) -/
def Assembler.onFrame (a : Assembler) (now : Nat) (o : Option Op) : Assembler × Option Bytes :=
  match o with
  | none => ((a.cleanupExpired now).1, none)
  | some o => (a.cleanupExpired now).1.step o

/-- the assembler of a connection after a list of received frames -/
def Assembler.afterFrames (a : Assembler) : List (Nat × Option Op) → Assembler
  | [] => a
  | f :: r => (a.onFrame f.1 f.2).1.afterFrames r

end Edp.Frag
