import EdpVerif.Spec.Etf
/-
What a conforming peer reads off a distribution connection (erl_dist_protocol "Protocol between Connected Nodes",
DESIGN Appendix B.2), and the control tuple the protocol assigns to each send-side operation (Appendix B.3).
Written from the protocol, not from the library: this file is the oracle of C07.

A connection carries frames `length:u32, body`.  A body of length 0 is a tick.  Otherwise
* pass-through framing (DIST_HDR_ATOM_CACHE not negotiated): `112, 131, Control [, 131, Message]`;
* distribution header:  `131, 68, N, Flags, Refs, Control [, Message]` where `Flags` is `N/2 + 1` bytes of 4-bit fields,
  least significant nibble first (field `i < N`: `NewCacheEntryFlag:1 | SegmentIndex:3` of reference `i`; field `N`:
  `unused:3 | LongAtoms:1`), reference `i` is `InternalSegmentIndex:u8` and, for a new entry, `Length:u8` (`u16` with
  LongAtoms) and the atom's UTF-8 text.  `N = 0` has neither flags nor references.  The receiver keeps a cache addressed
  by (segment, internal index): a new entry is written to its slot, an old one is read from it.  Inside the terms
  `ATOM_CACHE_REF i` is reference `i` of this header.  The terms carry no version byte.
-/
namespace Edp.Spec.Wire
open Edp Edp.Spec

inductive Mode where
  | passThrough
  | distHeader
  deriving DecidableEq, Repr

/-- what one frame means to the receiver -/
inductive Item where
  | tick
  | msg (control : Value) (payload : Option Value)
  deriving Repr, BEq, Inhabited

/-- the receiver's atom cache: (segment index, internal segment index) ↦ atom text -/
abbrev Cache := List ((Nat × Nat) × List Nat)

def Cache.get (c : Cache) (k : Nat × Nat) : Option (List Nat) :=
  match c with
  | [] => none
  | (k', v) :: r => if k' = k then some v else Cache.get r k

def Cache.set (c : Cache) (k : Nat × Nat) (v : List Nat) : Cache := (k, v) :: c

/-- the 4-bit field `i` of the flag bytes -/
def nibble (flags : Bytes) (i : Nat) : Nat :=
  match flags[i / 2]? with
  | some b => if i % 2 = 0 then b.toNat % 16 else b.toNat / 16
  | none => 0

/-- references `i, i+1, .., n-1` of a header -/
def readRefs (flags : Bytes) (long : Bool) : Nat → Nat → Cache → Bytes → Option (List (List Nat) × Cache × Bytes)
  | 0, _, cache, bs => some ([], cache, bs)
  | k+1, i, cache, bs =>
    let f := nibble flags i
    let seg := f % 8
    match rdN 1 bs with
    | none => none
    | some (idx, r) =>
      if f / 8 = 1 then
        match rdN (if long then 2 else 1) r with
        | none => none
        | some (len, r1) =>
          match takeN len r1 with
          | none => none
          | some (txt, r2) =>
            match utf8Decode txt with
            | none => none
            | some a =>
              match readRefs flags long k (i + 1) (cache.set (seg, idx) a) r2 with
              | some (as, c', r3) => some (a :: as, c', r3)
              | none => none
      else
        match cache.get (seg, idx) with
        | none => none
        | some a =>
          match readRefs flags long k (i + 1) cache r with
          | some (as, c', r3) => some (a :: as, c', r3)
          | none => none

/-- the control term and, if anything follows it, the message term; nothing may follow the message -/
def readTerms (env : Env) (versioned : Bool) (bs : Bytes) : Option Item :=
  let strip (b : Bytes) : Option Bytes :=
    if versioned then (match b with | 131 :: r => some r | _ => none) else some b
  match strip bs with
  | none => none
  | some b =>
    match parse env (bs.length + 1) b with
    | none => none
    | some (c, []) => some (.msg c none)
    | some (c, r) =>
      match strip r with
      | none => none
      | some r' =>
        match parse env (bs.length + 1) r' with
        | some (p, []) => some (.msg c (some p))
        | _ => none

/-- one non-empty frame body -/
def readBody (mode : Mode) (cache : Cache) (body : Bytes) : Option (Item × Cache) :=
  match mode, body with
  | .passThrough, 112 :: r => (readTerms {} true r).map fun it => (it, cache)
  | .distHeader, 131 :: 68 :: r =>
    match rdN 1 r with
    | none => none
    | some (0, r1) => (readTerms {} false r1).map fun it => (it, cache)
    | some (n, r1) =>
      match takeN (n / 2 + 1) r1 with
      | none => none
      | some (flags, r2) =>
        let long := nibble flags n % 2 = 1
        match readRefs flags long n 0 cache r2 with
        | none => none
        | some (refs, cache', r3) => (readTerms { refs := refs } false r3).map fun it => (it, cache')
  | _, _ => none

/-- cut a byte stream at its 4-byte length prefixes; every byte must belong to a complete frame -/
def splitFrames : Nat → Bytes → Option (List Bytes)
  | _, [] => some []
  | 0, _ :: _ => none
  | fuel+1, bs =>
    match rdN 4 bs with
    | none => none
    | some (len, r) =>
      match takeN len r with
      | none => none
      | some (body, rest) =>
        match splitFrames fuel rest with
        | none => none
        | some fs => some (body :: fs)

/-- cut a byte stream at its length prefixes as far as complete frames go: the complete frames, and what is left — the
beginning of a frame whose announced length is not there yet (or fewer than four bytes) -/
def splitStream : Nat → Bytes → List Bytes × Bytes
  | 0, bs => ([], bs)
  | fuel+1, bs =>
    match rdN 4 bs with
    | none => ([], bs)
    | some (len, r) =>
      match takeN len r with
      | none => ([], bs)
      | some (body, rest) =>
        let p := splitStream fuel rest
        (body :: p.1, p.2)

def readBodies (mode : Mode) : Cache → List Bytes → Option (List Item)
  | _, [] => some []
  | cache, [] :: fs => (readBodies mode cache fs).map (Item.tick :: ·)
  | cache, body :: fs =>
    match readBody mode cache body with
    | none => none
    | some (it, cache') => (readBodies mode cache' fs).map (it :: ·)

/-- everything a receiver with atom cache `cache` reads from the bytes `bs`; `none` when the bytes are not a
sequence of complete, well-formed frames -/
def readFramesFrom (mode : Mode) (cache : Cache) (bs : Bytes) : Option (List Item) :=
  match splitFrames bs.length bs with
  | none => none
  | some fs => readBodies mode cache fs

def readFrames (mode : Mode) (bs : Bytes) : Option (List Item) := readFramesFrom mode [] bs

/-! ### the send-side operations and their control tuples (Appendix B.3) -/

/-- a send-side operation with its arguments as Erlang values -/
inductive SOp where
  /-- `Pid ! Message` -/
  | send (toPid message : Value)
  /-- `{Name, Node} ! Message` from `fromPid` -/
  | regSend (fromPid toName message : Value)
  | link (fromPid toPid : Value)
  /-- the new unlink protocol; `1 ≤ id < 2^64` -/
  | unlinkId (id : Nat) (fromPid toPid : Value)
  | monitorP (fromPid toProc ref : Value)
  | demonitorP (fromPid toProc ref : Value)
  deriving Repr

/-- the protocol's name of the operation (key into `Spec.controlTable`) -/
def SOp.name : SOp → String
  | .send .. => "SEND"
  | .regSend .. => "REG_SEND"
  | .link .. => "LINK"
  | .unlinkId .. => "UNLINK_ID"
  | .monitorP .. => "MONITOR_P"
  | .demonitorP .. => "DEMONITOR_P"

/-- the `Unused` element (the former cookie): OTP sends the empty atom, the receiver ignores it -/
def unused : Value := .atom []

/-- the control tuple of the operation -/
def controlFor : SOp → Value
  | .send to _ => .tuple [.int 2, unused, to]
  | .regSend frm name _ => .tuple [.int 6, frm, unused, name]
  | .link frm to => .tuple [.int 1, frm, to]
  | .unlinkId id frm to => .tuple [.int 35, .int id, frm, to]
  | .monitorP frm to r => .tuple [.int 19, frm, to, r]
  | .demonitorP frm to r => .tuple [.int 20, frm, to, r]

/-- the term that follows the control tuple -/
def payloadFor : SOp → Option Value
  | .send _ m => some m
  | .regSend _ _ m => some m
  | _ => none

/-- arguments the protocol allows: unlink ids are positive and below 2^64 -/
def SOp.valid : SOp → Bool
  | .unlinkId id _ _ => decide (1 ≤ id ∧ id < 2 ^ 64)
  | _ => true

/-- what the receiver must read for the operation -/
def itemFor (op : SOp) : Item := .msg (controlFor op) (payloadFor op)

/-- equality of items up to the order of map entries -/
def Item.same : Item → Item → Bool
  | .tick, .tick => true
  | .msg c p, .msg c' p' =>
    Value.same c c' && (match p, p' with
      | none, none => true
      | some a, some b => Value.same a b
      | _, _ => false)
  | _, _ => false

def Item.text : Item → String
  | .tick => "tick"
  | .msg c none => "msg(" ++ c.text ++ ")"
  | .msg c (some p) => "msg(" ++ c.text ++ ";" ++ p.text ++ ")"

end Edp.Spec.Wire
