import EdpVerif.Basic.Bytes
/-!
Fragmentation as the distribution protocol prescribes it (erl_dist_protocol, "Distribution header for fragmented messages"),
written from the protocol, not from the code:

* a message is sent as `n ≥ 1` fragments with one sequence id;
* the FIRST fragment is the `DIST_FRAG_HEADER` frame, carries `FragmentId = n` (so the id of the first fragment is the number
  of fragments), the atom-cache section and the START of the data;
* the following `DIST_FRAG_CONT` frames carry the ids `n-1, …, 1` and the following pieces of the data, in that order;
* the receiver therefore obtains the message by concatenating the pieces in DESCENDING fragment id.
-/
namespace Edp.Spec.Frag
open Edp

/-- one fragment on the wire, as the receiving connection hands it to its assembler -/
structure Frag where
  seq : Nat
  fid : Nat
  hdr : Bool
  cache : Option Bytes
  data : Bytes
deriving Repr, DecidableEq

/-- cut a message into `lens.length + 1` pieces: piece `i` takes `lens[i]` bytes (fewer when the message runs out),
the last piece takes the rest. Every way of cutting a message into `n` consecutive (possibly empty) pieces is `cut msg lens`
for some `lens` of length `n - 1`. -/
def cut : Bytes → List Nat → List Bytes
  | msg, [] => [msg]
  | msg, l :: ls => msg.take l :: cut (msg.drop l) ls

theorem cut_flatten (msg : Bytes) (lens : List Nat) : (cut msg lens).flatten = msg := by
  induction lens generalizing msg with
  | nil => simp [cut]
  | cons l ls ih => simp [cut, ih]

theorem cut_length (msg : Bytes) (lens : List Nat) : (cut msg lens).length = lens.length + 1 := by
  induction lens generalizing msg with
  | nil => simp [cut]
  | cons l ls ih => simp [cut, ih]

/-- number the pieces the protocol's way: piece `i` (0-based) gets fragment id `n - i`; piece 0 is the header fragment and
carries the atom-cache section -/
def number (q : Nat) (cache : Option Bytes) (ps : List Bytes) : List Frag :=
  ps.mapIdx (fun i p => { seq := q, fid := ps.length - i, hdr := i == 0, cache := if i == 0 then cache else none, data := p })

/-- the fragments a conforming peer sends for `msg` cut at `lens` -/
def split (q : Nat) (cache : Option Bytes) (msg : Bytes) (lens : List Nat) : List Frag :=
  number q cache (cut msg lens)

/-- what the receiver must hand on: the atom-cache section followed by the message -/
def expected (cache : Option Bytes) (msg : Bytes) : Bytes := cache.getD [] ++ msg

/-! ### executable reference receiver (used by the driver as the oracle on the implementation's outputs) -/

/-- insert by descending fragment id, ignoring an id already present -/
def insertDesc (f : Frag) : List Frag → List Frag
  | [] => [f]
  | g :: r => if f.fid = g.fid then g :: r else if g.fid < f.fid then f :: g :: r else g :: insertDesc f r

/-- reference receiver for ONE sequence: the set of fragments held (sorted by descending id) -/
structure Ref where
  held : List Frag := []
deriving Repr

/-- the fragments that count once the header (and so the number of fragments `n`) is known: ids `1..n` -/
def Ref.valid (r : Ref) : List Frag :=
  match r.held.find? (·.hdr) with
  | some h => r.held.filter (fun f => decide (1 ≤ f.fid ∧ f.fid ≤ h.fid))
  | none => []

/-- the count is known once the header fragment is held; complete = the ids `n, n-1, …, 1` are all held -/
def Ref.complete (r : Ref) : Bool :=
  match r.held.find? (·.hdr) with
  | some h => r.valid.map (·.fid) == (List.range h.fid).reverse.map (· + 1)
  | none => false

/-- data in descending fragment id, after the header's atom-cache section -/
def Ref.message (r : Ref) : Bytes :=
  let cache := match r.held.find? (·.hdr) with
    | some h => h.cache
    | none => none
  expected cache (r.valid.map (·.data)).flatten

/-- feed one fragment: returns the message exactly when this fragment was the last one missing, then forgets the sequence -/
def Ref.feed (r : Ref) (f : Frag) : Ref × Option Bytes :=
  let r' : Ref := { held := insertDesc f r.held }
  if r'.complete then ({ held := [] }, some r'.message) else (r', none)

def Ref.run (r : Ref) : List Frag → List (Option Bytes)
  | [] => []
  | f :: fs => (r.feed f).2 :: (r.feed f).1.run fs

end Edp.Spec.Frag
