import EdpVerif.Impl.Decode
import EdpVerif.Impl.Den
import EdpVerif.Spec.Etf
import EdpVerif.Lemmas.Codec
import EdpVerif.Lemmas.Refine
import EdpVerif.Lemmas.RefineEx
import EdpVerif.Lemmas.DecComplete
import EdpVerif.Lemmas.MapKept
import EdpVerif.Lemmas.NumKey
import EdpVerif.Lemmas.FloatAscii
/-
C03 — every valid external encoding of a value decodes to exactly that value.
Oracle: `Spec.parseTop` (Spec/Etf.lean), an independent reader of the format that knows every tag and width.
-/
namespace Edp.Props.C03
open Edp Edp.Term

/-- bytes remaining after one complete term are reported as an error carrying their number — never ignored:
for every input, every atom cache, every behaviour of the external calls -/
theorem C03_trailing_reported (x : Ext) (cfg : DecCfg) (r : Bytes) (t : Term) (rest : Bytes)
    (h : dec x cfg (r.length + 1 + x.extra) 0 r = .ok (t, rest)) (hne : rest ≠ []) :
    decodeWith x cfg (131 :: r) = .error (.trailing rest.length) := by
  unfold decodeWith
  cases rest with
  | nil => exact absurd rfl hne
  | cons a b => simp [h]

example : dec Ext.none {} 3 0 [106, 7] = .ok (.nil, [7]) := by simp [dec, ownedOnlyTags, MAX_NESTING_DEPTH]

/-- and a term is returned only when nothing remains -/
theorem C03_ok_consumes_everything (x : Ext) (cfg : DecCfg) (bs : Bytes) (t : Term)
    (h : decodeWith x cfg bs = .ok t) :
    ∃ r, bs = 131 :: r ∧ dec x cfg (r.length + 1 + x.extra) 0 r = .ok (t, []) := by
  unfold decodeWith at h
  cases bs with
  | nil => simp at h
  | cons v r =>
    by_cases hv : v != 131
    · simp [hv] at h
    · simp only [hv, Bool.false_eq_true, ↓reduceIte] at h
      have hv' : v = 131 := by simpa using hv
      refine ⟨r, by rw [hv'], ?_⟩
      split at h
      · simp at h
      · rename_i t' heq; simp at h; rw [heq, h]
      · simp at h

/-- Latin-1 atom text (ATOM_EXT / SMALL_ATOM_EXT): the characters the library stores are exactly the bytes received,
one character per byte — for every byte string -/
theorem C03_latin1_atom_chars (b : Bytes) : utf8Decode (latin1ToUtf8 b) = some (Spec.latin1 b) := by
  unfold latin1ToUtf8 utf8Encode Spec.latin1
  induction b with
  | nil => simp [utf8Decode]
  | cons c cs ih =>
    simp only [List.map_cons, List.flatMap_cons]
    have hc : c.toNat < 256 := c.toNat_lt
    by_cases h1 : c.toNat < 128
    · simp only [utf8EncodeCp, h1, ↓reduceIte, List.cons_append, List.nil_append]
      have : (UInt8.ofNat c.toNat) = c := by simp
      rw [this, utf8Decode.eq_def]
      simp [h1, ih]
    · have h2 : c.toNat < 2048 := by omega
      simp only [utf8EncodeCp, h1, h2, ↓reduceIte, List.cons_append, List.nil_append]
      have e1 : (UInt8.ofNat (192 + c.toNat / 64)).toNat = 192 + c.toNat / 64 := by
        simp; omega
      have e2 : (UInt8.ofNat (128 + c.toNat % 64)).toNat = 128 + c.toNat % 64 := by
        simp; omega
      have n1 : ¬ 192 + c.toNat / 64 < 128 := by omega
      have n2 : 194 ≤ 192 + c.toNat / 64 ∧ 192 + c.toNat / 64 ≤ 223 := by omega
      have n3 : (128 + c.toNat % 64) / 64 = 2 := by omega
      rw [utf8Decode.eq_def]
      simp only [e1, e2, isCont]
      rw [if_neg n1, if_pos n2, n3, ih]
      have n4 : (192 + c.toNat / 64) % 32 * 64 + (128 + c.toNat % 64) % 64 = c.toNat := by omega
      simp
      omega

/-! ### the decoder against the independent reader, for all byte strings -/

/-- the spec reader is given the same zlib function as the decoder -/
def envOf (x : Ext) : Spec.Env := { inflate := x.inflate }

/-- HYPOTHESIS about the external call `str::parse::<f64>` (FLOAT_EXT, tag 99, only): where Rust's float parser and
the spec's reading of the 31-byte `%.20e` field are both defined, they give the same double.  (The harness checks
this per generated field; it is not proved.) -/
def FloatTextAgrees (x : Ext) : Prop :=
  ∀ f b b', x.parseFloat f = some b → Spec.parseFloatText f = some b' → b' = b

/-- `v ≈ den t` (`arrivalOf v t`, Lemmas/Refine.lean): `v` is the value of a term `t₀` whose maps hold the entries
in arrival order, and `t` is `t₀` with every map re-inserted entry by entry into the ordered map (`reins`).
That is equality up to what `BTreeMap::insert` does to the arriving pairs: reordering, and merging of keys that
compare equal (the C03 known finding `1` vs `1.0`).

For EVERY byte string, every tag (all alternative forms of every node at once), every depth and fuel: if the
decoder returns a term and the reader returns a value, they stopped at the same place and the term denotes the
value in that sense. -/
theorem C03_agrees (x : Ext) (hpf : FloatTextAgrees x) (fuel fuel' d : Nat) (bs : Bytes) (t : Term) (v : Value)
    (r r' : Bytes) (h1 : dec x {} fuel d bs = .ok (t, r)) (h2 : Spec.parse (envOf x) fuel' bs = some (v, r')) :
    r' = r ∧ arrivalOf v t :=
  (dec_agrees x {} (envOf x) hpf (by intro i a c h; simp [List.lookup] at h) fuel).1 d bs t r fuel' v r' h1 h2

/-- whole messages: every byte string that is a valid encoding of a value `v` (version byte, optional top-level
compressed section through the shared inflate function) and that the library decodes, decodes to a term denoting `v` -/
theorem C03_decodes_to_the_value (x : Ext) (hpf : FloatTextAgrees x) (bs : Bytes) (t : Term) (v : Value) (rest : Bytes)
    (hv : Spec.parseTop (envOf x) bs = some (v, rest)) (hd : decode x bs = .ok t) : arrivalOf v t :=
  top_agrees x {} (envOf x) rfl hpf (by intro i a c h; simp [List.lookup] at h) bs t v rest hd hv

/-- and exactly `v` when the decoded term contains no map -/
theorem C03_exact_without_maps (x : Ext) (hpf : FloatTextAgrees x) (bs : Bytes) (t : Term) (v : Value) (rest : Bytes)
    (hv : Spec.parseTop (envOf x) bs = some (v, rest)) (hd : decode x bs = .ok t) (hm : noMaps t = true) :
    den t = v := by
  obtain ⟨t₀, h1, h2⟩ := C03_decodes_to_the_value x hpf bs t v rest hv hd
  rw [h2] at hm
  rw [h2, reins_noMaps t₀ hm, h1]

/-- or when every map's entries arrived in strictly increasing key order -/
theorem C03_exact_sorted_arrival (x : Ext) (hpf : FloatTextAgrees x) (bs : Bytes) (t : Term) (v : Value) (rest : Bytes)
    (hv : Spec.parseTop (envOf x) bs = some (v, rest)) (hd : decode x bs = .ok t) :
    ∃ t₀, v = den t₀ ∧ t = reins t₀ ∧ (arrivalSorted t₀ = true → den t = v) := by
  obtain ⟨t₀, h1, h2⟩ := C03_decodes_to_the_value x hpf bs t v rest hv hd
  exact ⟨t₀, h1, h2, fun hs => by rw [h2, reins_sorted t₀ hs, h1]⟩

/-- non-vacuity: an old-style pid (PID_EXT, Latin-1 ATOM_EXT node) inside a LARGE_TUPLE with a STRING_EXT -/
example : ∃ t v, decode Ext.none [131, 105, 0, 0, 0, 2, 103, 100, 0, 1, 97, 0, 0, 0, 1, 0, 0, 0, 2, 3, 107, 0, 1, 65] = .ok t ∧
    Spec.parseTop (envOf Ext.none) [131, 105, 0, 0, 0, 2, 103, 100, 0, 1, 97, 0, 0, 0, 1, 0, 0, 0, 2, 3, 107, 0, 1, 65] = some (v, []) ∧
    den t = v := by
  refine ⟨.tuple [.pid { node := [97], id := 1, serial := 2, creation := 3 }, .list [.int 65]],
    .tuple [.pid [97] 1 2 3, .cons [.int 65] .nil], ?_, ?_, ?_⟩
  · simp [decode, decodeWith, dec, decN, ownedOnlyTags, MAX_NESTING_DEPTH, MAX_TUPLE_SIZE, MAX_ATOM_SIZE, rdU, rdN, takeE,
      takeN, decLatin1Body, latin1ToUtf8, utf8Encode, utf8EncodeCp, Ext.none]
  · simp [Spec.parseTop, Spec.parse, Spec.parseN, rdN, takeN, Spec.latin1, Value.mkList, envOf]
  · simp [den, denL, cps, utf8Decode, Value.mkList]

/-! ### completeness: every valid encoding within the published limits IS decoded -/

/-- HYPOTHESIS about the external call `str::parse::<f64>` (FLOAT_EXT, tag 99, only), the completeness half: every
31-byte field the format's `%.20e` reading accepts is accepted by Rust's float parser.  (The harness checks it per
generated field; with `FloatTextAgrees` the result is then the same double.  That such a field passes `from_utf8` is
proved: `floatText_validUtf8`, Lemmas/FloatAscii.lean — the accepted text is ASCII.) -/
def FloatTextComplete (x : Ext) : Prop :=
  ∀ f b, Spec.parseFloatText f = some b → ∃ b', x.parseFloat f = some b'

/-- HYPOTHESIS about zlib: the inflate function returns at most `extra` bytes and consumes no more than it was given -/
def InflateBounded (x : Ext) : Prop := ∀ z out n, x.inflate z = some (out, n) → out.length ≤ x.extra ∧ n ≤ z.length

/-- EVERY byte string in the language of the independent reader — any of its 30 tags in any alternative form, any
nesting, read at any depth `d` — that stays within the library's published limits (`Spec.within`, Spec/EtfLimits.lean:
nesting ≤ MAX_NESTING_DEPTH, counts ≤ MAX_TUPLE/LIST/MAP/BINARY_SIZE, node / module / function fields in an atom form,
fun integer fields in SMALL_INTEGER/INTEGER form, fun pid in PID/NEW_PID form) is ACCEPTED by the decoder, which stops
at the same byte and returns a term denoting the reader's value up to ordered-map insertion.  The decoder's fuel
may be anything from the reader's upwards.  Nothing is assumed about the term, the value or the bytes. -/
theorem C03_complete (x : Ext) (hpf : FloatTextAgrees x) (hfc : FloatTextComplete x) (fuel f' d : Nat) (bs : Bytes)
    (v : Value) (r : Bytes) (hf : f' ≤ fuel) (h : Spec.parse (envOf x) f' bs = some (v, r))
    (hw : Spec.within (envOf x) f' d bs = true) :
    ∃ t, dec x {} fuel d bs = .ok (t, r) ∧ arrivalOf v t := by
  obtain ⟨t, ht⟩ := (dec_complete x {} (envOf x) rfl hpf (fun f b h => ⟨floatText_validUtf8 f b h, hfc f b h⟩) (by intro i a c h; simp [List.lookup] at h)
    (by intro i c h; simp [envOf] at h) fuel).1 f' d bs v r hf h hw
  exact ⟨t, ht, (C03_agrees x hpf fuel f' d bs t v r r ht h).2⟩

/-- non-vacuity: a LARGE_TUPLE holding a Latin-1 atom, a two-entry map arriving out of order and a STRING_EXT is in
the language and within the limits -/
example : Spec.parse (envOf Ext.none) 12 [105, 0, 0, 0, 3, 115, 1, 233, 116, 0, 0, 0, 2, 97, 2, 106, 97, 1, 106, 107, 0, 1, 65] =
      some (.tuple [.atom [233], .map [(.int 2, .nil), (.int 1, .nil)], .cons [.int 65] .nil], []) ∧
    Spec.within (envOf Ext.none) 12 0 [105, 0, 0, 0, 3, 115, 1, 233, 116, 0, 0, 0, 2, 97, 2, 106, 97, 1, 106, 107, 0, 1, 65] = true := by
  constructor
  · simp [Spec.parse, Spec.parseN, Spec.parseKV, rdN, takeN, Spec.latin1, Value.mkList]
  · simp [Spec.within, Spec.withinN, Spec.withinKV, Spec.parse, Spec.parseKV, rdN, takeN, Gen.MAX_NESTING_DEPTH,
      Gen.MAX_TUPLE_SIZE, Gen.MAX_MAP_SIZE]

/-- whole messages: every complete external term the format permits (version byte, optionally one top-level COMPRESSED
section) within the limits is decoded by `erltf::decode` to a term denoting its value -/
theorem C03_valid_is_decoded (x : Ext) (hpf : FloatTextAgrees x) (hfc : FloatTextComplete x) (hxl : InflateBounded x)
    (bs : Bytes) (v : Value) (hv : Spec.parseTop (envOf x) bs = some (v, []))
    (hw : Spec.withinTop (envOf x) bs = true) : ∃ t, decode x bs = .ok t ∧ arrivalOf v t := by
  obtain ⟨t, ht⟩ := top_complete x {} (envOf x) rfl rfl hpf (fun f b h => ⟨floatText_validUtf8 f b h, hfc f b h⟩) (by intro i a c h; simp [List.lookup] at h)
    (by intro i c h; simp [envOf] at h) hxl bs v [] hv hw
  simp only [if_true] at ht
  exact ⟨t, ht, C03_decodes_to_the_value x hpf bs t v [] hv ht⟩

example : Spec.parseTop (envOf Ext.none) [131, 104, 2, 100, 0, 1, 233, 98, 255, 255, 255, 255] =
      some (.tuple [.atom [233], .int (-1)], []) ∧
    Spec.withinTop (envOf Ext.none) [131, 104, 2, 100, 0, 1, 233, 98, 255, 255, 255, 255] = true := by
  constructor
  · simp [Spec.parseTop, Spec.parse, Spec.parseN, rdN, takeN, Spec.latin1, Spec.i32, envOf]
  · simp [Spec.withinTop, Spec.within, Spec.withinN, Spec.parse, rdN, takeN, Gen.MAX_NESTING_DEPTH]

/-- and exactly its value when the decoded term holds no map (or, `C03_exact_sorted_arrival`, when the entries of every
map arrived in increasing key order) -/
theorem C03_valid_is_decoded_exactly (x : Ext) (hpf : FloatTextAgrees x) (hfc : FloatTextComplete x)
    (hxl : InflateBounded x) (bs : Bytes) (v : Value) (hv : Spec.parseTop (envOf x) bs = some (v, []))
    (hw : Spec.withinTop (envOf x) bs = true) :
    ∃ t, decode x bs = .ok t ∧ (noMaps t = true → den t = v) := by
  obtain ⟨t, ht, _⟩ := C03_valid_is_decoded x hpf hfc hxl bs v hv hw
  exact ⟨t, ht, fun hm => C03_exact_without_maps x hpf bs t v [] hv ht hm⟩

/-- bytes after one complete valid term are reported with their number, whatever the term: the unconditional form of
`C03_trailing_reported` (which assumed that the decoder had accepted the term) -/
theorem C03_valid_then_trailing (x : Ext) (hpf : FloatTextAgrees x) (hfc : FloatTextComplete x) (hxl : InflateBounded x)
    (bs : Bytes) (v : Value) (rest : Bytes) (hv : Spec.parseTop (envOf x) bs = some (v, rest)) (hne : rest ≠ [])
    (hw : Spec.withinTop (envOf x) bs = true) : decode x bs = .error (.trailing rest.length) := by
  obtain ⟨t, ht⟩ := top_complete x {} (envOf x) rfl rfl hpf (fun f b h => ⟨floatText_validUtf8 f b h, hfc f b h⟩) (by intro i a c h; simp [List.lookup] at h)
    (by intro i c h; simp [envOf] at h) hxl bs v rest hv hw
  simpa [hne, decode] using ht

example : Spec.parseTop (envOf Ext.none) [131, 106, 7, 7] = some (.nil, [7, 7]) := by
  simp [Spec.parseTop, Spec.parse]

/-! ### maps: no entry is dropped or merged unless two keys compare Equal -/

/-- the decoder's ordered-map insertion keeps every arriving entry — the stored entries are a permutation of the
arriving ones — as soon as no arriving key compares `Equal` (library order) to one that arrived before it.  No law
of the order is needed.  This is the weakest key hypothesis: the only valid MAP_EXT encodings it excludes are those with
two keys that are distinct in Erlang but `Equal` under the library's `Ord` — an integer and the float of the same
value (known finding, `C03_numeric_keys_merge`), and big integers that differ only in high-order zero digits from
another integer key (KF-C11-nonminimal-big; the format permits the non-minimal width). -/
theorem C03_map_entries_kept (kvs : List (Term × Term)) (h : arrivalDistinct kvs) :
    (insertAll [] kvs).Perm kvs ∧ (insertAll [] kvs).length = kvs.length := by
  have hp := insertAll_perm [] kvs (by intro q _ p hp; simp at hp) h
  simp only [List.nil_append] at hp
  exact ⟨hp, hp.length_eq⟩

example : arrivalDistinct [(.int 2, .nil), (.atom [97], .nil), (.int 1, .nil)] := by
  simp [arrivalDistinct, Term.cmp, Term.norm, Term.cmpN, Term.rank]

/-- the known finding as a theorem (KF-C03-numeric-key-collision): the Erlang map `#{1 => 10, 1.0 => 20}` — a valid
encoding, within every limit — is accepted, and decodes to the ONE-entry map `#{1 => 20}`: the float key compares
`Equal` to the stored integer key, so the entry is merged.  This is exactly what the guard of `C03_map_entries_kept`
excludes. -/
theorem C03_numeric_keys_merge (x : Ext) :
    decode x [131, 116, 0, 0, 0, 2, 97, 1, 97, 10, 70, 0x3F, 0xF0, 0, 0, 0, 0, 0, 0, 97, 20] =
      .ok (.map [(.int 1, .int 20)]) ∧
    Spec.parseTop (envOf x) [131, 116, 0, 0, 0, 2, 97, 1, 97, 10, 70, 0x3F, 0xF0, 0, 0, 0, 0, 0, 0, 97, 20] =
      some (.map [(.int 1, .int 10), (.float 0x3FF0000000000000, .int 20)], []) ∧
    Spec.withinTop (envOf x) [131, 116, 0, 0, 0, 2, 97, 1, 97, 10, 70, 0x3F, 0xF0, 0, 0, 0, 0, 0, 0, 97, 20] = true ∧
    ¬ arrivalDistinct [(.int 1, .int 10), (.float 0x3FF0000000000000, .int 20)] := by
  have hcmp : Term.cmp (.float 4607182418800017408) (.int 1) = .eq := by
    simp [Term.cmp, Term.norm, Term.cmpN, cmpIntFloat, natDigits_one]; decide
  refine ⟨?_, ?_, ?_, ?_⟩
  · simp only [decode, decodeWith, List.length_cons, List.length_nil]
    rw [Nat.add_comm _ x.extra]
    simp [dec, decKV, ownedOnlyTags, MAX_NESTING_DEPTH, MAX_MAP_SIZE, rdU, rdN, mapInsert, hcmp]
  · simp [Spec.parseTop, Spec.parse, Spec.parseKV, rdN]
  · simp [Spec.withinTop, Spec.within, Spec.withinKV, Spec.parse, rdN, Gen.MAX_NESTING_DEPTH, Gen.MAX_MAP_SIZE]
  · simp [arrivalDistinct, hcmp]

/-! ### existence form: what the decoder accepts is a valid encoding -/

/-- HYPOTHESIS (tag 99 only), stronger than `FloatTextAgrees`: whatever Rust's float parser accepts, the spec's reading
of the field accepts with the same result -/
def FloatTextRefines (x : Ext) : Prop := ∀ f b, x.parseFloat f = some b → Spec.parseFloatText f = some b

/-- nothing inflates (input without COMPRESSED sections; the spec reader knows tag 80 only at the top) -/
def NoInflate (x : Ext) : Prop := ∀ z, x.inflate z = none

/-- every byte string the decoder accepts is a valid encoding — the independent reader accepts it at the same fuel,
stops at the same place and reads the value the decoded term denotes (equality on the nose) — for ALL byte strings
whose decoded term is `plainT`: floats finite, no map, no internal fun.  Covered tags: 97 98 99 70 100 118 119 115
104 105 106 107 108 109 77 110 111 88 103 120 89 102 90 114 101 113 121 82, in every alternative form.  MISSING from
this form (all three are covered by the agreement form `C03_agrees`):
* 116 MAP_EXT — the decoder's ordered-map insertion can drop an arriving entry (keys that compare equal), so a guard on
  the decoded term cannot speak about the dropped key/value;
* 112 NEW_FUN_EXT — the decoder ignores the Size field, the format fixes it (`C03_accepts_wrong_fun_size`);
* 80 COMPRESSED — the decoder accepts it nested at any depth, the format only at the top (`NoInflate`).
NaN/infinite NEW_FLOAT_EXT is accepted by the decoder and is not an Erlang float (`C03_accepts_nan`): hence `finiteF`. -/
theorem C03_refines_partial (x : Ext) (hpf : FloatTextRefines x) (hz : NoInflate x) (fuel d : Nat) (bs : Bytes)
    (t : Term) (r : Bytes) (h : dec x {} fuel d bs = .ok (t, r)) (hp : plainT t = true) :
    Spec.parse (envOf x) fuel bs = some (den t, r) :=
  (dec_refines x {} (envOf x) hpf hz (by intro i a h; simp [List.lookup] at h) fuel).1 d bs t r h hp

example : dec Ext.none {} 9 0 [104, 2, 115, 1, 233, 107, 0, 1, 65, 255] =
    .ok (.tuple [.atom [195, 169], .list [.int 65]], [255]) := by
  simp [dec, decN, ownedOnlyTags, MAX_NESTING_DEPTH, MAX_ATOM_SIZE, rdU, rdN, takeE, takeN, decLatin1Body,
    latin1ToUtf8, utf8Encode, utf8EncodeCp]

example : Spec.parse (envOf Ext.none) 9 [104, 2, 115, 1, 233, 107, 0, 1, 65, 255] =
    some (den (.tuple [.atom [195, 169], .list [.int 65]]), [255]) :=
  C03_refines_partial Ext.none (by intro f b h; simp [Ext.none] at h) (by intro z; rfl) 9 0 _ _ _
    (by simp [dec, decN, ownedOnlyTags, MAX_NESTING_DEPTH, MAX_ATOM_SIZE, rdU, rdN, takeE, takeN, decLatin1Body,
      latin1ToUtf8, utf8Encode, utf8EncodeCp]) (by decide)

/-- leniency 1: a NaN in NEW_FLOAT_EXT is decoded without complaint although it is not a valid encoding of any value
(the encoder side is `C01_valid_not_for_nan`) -/
theorem C03_accepts_nan (x : Ext) :
    decode x [131, 70, 0x7F, 0xF8, 0, 0, 0, 0, 0, 0] = .ok (.float 0x7FF8000000000000) ∧
      Spec.parseTop (envOf x) [131, 70, 0x7F, 0xF8, 0, 0, 0, 0, 0, 0] = none := by
  constructor
  · simp only [decode, decodeWith, List.length_cons, List.length_nil]
    rw [Nat.add_comm _ x.extra]
    simp [dec, ownedOnlyTags, MAX_NESTING_DEPTH, rdU, rdN]
  · simp [Spec.parseTop, Spec.parse, rdN]

/-- leniency 2: NEW_FUN_EXT with a wrong Size field (here 0) is decoded; the format requires Size to be the byte count -/
theorem C03_accepts_wrong_fun_size (x : Ext) :
    ∃ t, decode x ([131, 112, 0, 0, 0, 0, 0] ++ List.replicate 16 0 ++ [0, 0, 0, 0, 0, 0, 0, 0, 119, 1, 97, 97, 0, 97, 0,
        88, 119, 1, 97, 0, 0, 0, 0, 0, 0, 0, 0, 0, 0, 0, 0]) = .ok t ∧
      Spec.parseTop (envOf x) ([131, 112, 0, 0, 0, 0, 0] ++ List.replicate 16 0 ++ [0, 0, 0, 0, 0, 0, 0, 0, 119, 1, 97, 97, 0, 97, 0,
        88, 119, 1, 97, 0, 0, 0, 0, 0, 0, 0, 0, 0, 0, 0, 0]) = none := by
  refine ⟨.ifun 0 (List.replicate 16 0) 0 0 [97] 0 0 { node := [97], id := 0, serial := 0, creation := 0 } [], ?_, ?_⟩
  · simp only [decode, decodeWith, List.replicate, List.cons_append, List.nil_append, List.length_cons, List.length_nil]
    rw [Nat.add_comm _ x.extra]
    simp [dec, decN, ownedOnlyTags, MAX_NESTING_DEPTH, MAX_ATOM_SIZE, rdU, rdN, takeE, takeN,
      decAtomBody, validUtf8, utf8Decode]
  · simp [Spec.parseTop, Spec.parse, rdN, List.replicate]

end Edp.Props.C03
