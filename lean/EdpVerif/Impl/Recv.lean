import EdpVerif.Impl.Decode
import EdpVerif.Impl.Control
import EdpVerif.Impl.Frag
/-!
Model of the receiving side of `crates/edp_client/src/connection.rs`, function by function:

* `Connection::receive_message` — the per-frame dispatch (`recv`): tick skip, `131,69` fragment header, `131,70` fragment
  continuation, `112` pass-through, `131,68` distribution header, anything else is `Error::Protocol` — over the two pieces
  of state the function touches, the connection's atom cache and its fragment assembler (`St`);
* `Connection::decode_complete_fragment` (`decodeCompleteFragment`);
* `Connection::receive_message_from_read_half` (`recvRH`), the copy the node's receiver task runs: pass-through only,
  stateless;
* the entry points of `crates/erltf/src/decoder.rs` the two functions call and that `Impl/Decode.lean` does not have:
  `decode_with_trailing` (`decodeTrailing`), `parse_versioned_term_with_cache` + `parse_dist_header_with_cache`
  (`parseDistHeader`), `decode_with_atom_cache` (`decodeWithAtomCache`), `decode_fragment_header`, `decode_fragment_cont`.

The frame itself (length prefix, body, tick = empty body, segmentation) is `Impl/Framing.lean` (C05): `recv` takes the
deframed body. The term decoder is `Edp.dec` (`Impl/Decode.lean`), `ControlMessage::from_term` is `Control.parse`
(`Impl/Control.lean`), the assembler is `Frag.Assembler` (`Impl/Frag.lean`); the connection never calls
`cleanup_expired`, so the logical clock handed to the assembler is the constant 0.

NOTE (to be unified): `parseDistHeader` is this file's own minimal model of `parse_dist_header_with_cache`; property C14
models the same function in `Impl/DistHeader.lean`. Everything here lives in `Edp.Recv`.

Every slice / index expression of the Rust code is a conditional `panic` outcome here (there is none left on the
receive path after fix 2a5c554 and the fragment-header fix: `&data[1..]` sits behind `!data.is_empty()`,
`flags[i / 2]` behind `i < n` with `flags.len() = n / 2 + 1`; the decoder's one site is `DErr.panic`).
Core Lean only (linked into the driver).
-/
namespace Edp.Recv
open Edp

/-- `AtomCache`: `HashMap<u8, Atom>`; an insertion shadows the older entry of the same index -/
abbrev Cache := List (Nat × Bytes)

/-- the state `receive_message` reads and writes -/
structure St where
  cache : Cache
  asm : Frag.Assembler

/-- `Connection::new`: empty cache, `FragmentAssembler::new()` (30 s timeout, never consulted) -/
def St.init : St := { cache := [], asm := Frag.Assembler.new 30000 }

/-- what one call returns for the frame that ends it -/
inductive Res where
  | ok (control : Control.Msg) (payload : Option Term)
  /-- `Err(_)`: `Error::Decode`, `Error::InvalidControlMessage`, `Error::Protocol` — one class -/
  | err
  /-- the task would panic -/
  | panic
  deriving Repr, Inhabited

def resOfDErr : DErr → Res
  | .panic => .panic
  | _ => .err

/-- fuel for one run of the term decoder over (a suffix of) `data` -/
def fuelFor (x : Ext) (data : Bytes) : Nat := data.length + 1 + x.extra

/-- `decoder::decode_with_trailing`: version byte, one term (empty atom cache), the rest is handed back -/
def decodeTrailing (x : Ext) (data : Bytes) : Except DErr (Term × Bytes) :=
  match data with
  | [] => .error .err
  | v :: r => if v != 131 then .error .err else dec x {} (fuelFor x data) 0 r

/-- the 4-bit field of reference `i` in the flag bytes (`flags[i / 2]`, low nibble for even `i`) -/
def flagNibble (flags : Bytes) (i : Nat) : Nat :=
  let b := (flags.getD (i / 2) 0).toNat
  if i % 2 = 0 then b % 16 else b / 16 % 16

/-- the `for i in 0..num_atom_cache_refs` loop of `parse_dist_header_with_cache`: `k` references left, `i` the current one.
The cache is `&mut`: what was inserted before an error stays inserted. -/
def refsLoop (flags : Bytes) (long : Bool) : Nat → Nat → Cache → Bytes → Cache × Except DErr Bytes
  | 0, _, c, bs => (c, .ok bs)
  | k+1, i, c, bs =>
    match rdU 1 bs with
    | .error e => (c, .error e)
    | .ok (idx, r) =>
      if 8 ≤ flagNibble flags i then
        match rdU (if long then 2 else 1) r with
        | .error e => (c, .error e)
        | .ok (len, r1) =>
          match takeE len r1 with
          | .error e => (c, .error e)
          | .ok (txt, r2) =>
            if validUtf8 txt then refsLoop flags long k (i + 1) ((idx, txt) :: c) r2 else (c, .error .err)
      else refsLoop flags long k (i + 1) c r

/-- `parse_dist_header_with_cache` up to (not including) the final `parse_term`: input after `131, 68`;
returns the cache and the bytes where the control term starts -/
def parseDistHeader (c : Cache) (bs : Bytes) : Cache × Except DErr Bytes :=
  match rdU 1 bs with
  | .error e => (c, .error e)
  | .ok (n, r) =>
    if n = 0 then (c, .ok r) else
    match takeE (n / 2 + 1) r with
    | .error e => (c, .error e)
    | .ok (flags, r1) =>
      let last := (flags.getD (n / 2) 0).toNat
      let long := if n % 2 = 0 then last % 2 = 1 else last / 16 % 2 = 1
      refsLoop flags long n 0 c r1

/-- `parse_versioned_term_with_cache` after the version byte: the tag decides between the distribution header (which
writes the cache) and an ordinary term -/
def firstTerm (x : Ext) (fuel : Nat) (c : Cache) (tag : UInt8) (r1 : Bytes) : Cache × DRes :=
  if tag = 68 then
    match parseDistHeader c r1 with
    | (c1, .error e) => (c1, .error e)
    | (c1, .ok body) => (c1, dec x { cache := c1 } fuel 0 body)
  else (c, dec x { cache := c } fuel 0 (tag :: r1))

/-- the rest of `decode_with_atom_cache`: if bytes remain after the first term, the payload term with the same cache, after
which nothing may remain (`DecodeError::TrailingData`) -/
def secondTerm (x : Ext) (fuel : Nat) (c1 : Cache) (first : DRes) : Except DErr (Term × Option Term) :=
  match first with
  | .error e => .error e
  | .ok (t, []) => .ok (t, none)
  | .ok (t, b :: rest) =>
    match dec x { cache := c1 } fuel 0 (b :: rest) with
    | .error e => .error e
    | .ok (p, []) => .ok (t, some p)
    | .ok (_, m :: more) => .error (.trailing (m :: more).length)

/-- `decoder::decode_with_atom_cache(data, &mut cache)`: `parse_versioned_term_with_cache`, then the optional payload
term with the same cache, then the trailing-data check. The cache comes back whatever the outcome. -/
def decodeWithAtomCache (x : Ext) (c : Cache) (data : Bytes) : Cache × Except DErr (Term × Option Term) :=
  match data with
  | [] => (c, .error .err)
  | v :: r0 =>
    if v != 131 then (c, .error .err) else
    match r0 with
    | [] => (c, .error .err)
    | tag :: r1 =>
      ((firstTerm x (fuelFor x data) c tag r1).1,
        secondTerm x (fuelFor x data) (firstTerm x (fuelFor x data) c tag r1).1 (firstTerm x (fuelFor x data) c tag r1).2)

/-- `decoder::decode_fragment_header`: `131, 69, seq:u64, fragment_id:u64, num_atom_cache_refs:u8`, the rest -/
def decodeFragmentHeader (data : Bytes) : Except DErr ((Nat × Nat × Nat) × Bytes) :=
  match data with
  | v :: t :: r =>
    if v != 131 then .error .err else
    if t != 69 then .error .err else
    match rdU 8 r with
    | .error e => .error e
    | .ok (seq, r1) =>
      match rdU 8 r1 with
      | .error e => .error e
      | .ok (fid, r2) =>
        match rdU 1 r2 with
        | .error e => .error e
        | .ok (n, r3) => .ok ((seq, fid, n), r3)
  | _ => .error .err

/-- `decoder::decode_fragment_cont`: `131, 70, seq:u64, fragment_id:u64`, the rest -/
def decodeFragmentCont (data : Bytes) : Except DErr ((Nat × Nat) × Bytes) :=
  match data with
  | v :: t :: r =>
    if v != 131 then .error .err else
    if t != 70 then .error .err else
    match rdU 8 r with
    | .error e => .error e
    | .ok (seq, r1) =>
      match rdU 8 r1 with
      | .error e => .error e
      | .ok (fid, r2) => .ok ((seq, fid), r2)
  | _ => .error .err

/-- `ControlMessage::from_term(&control_term)?` followed by `Ok((control, message))` -/
def finish (tbl : Control.Table) (ct : Term) (p : Option Term) : Res :=
  match Control.parse tbl ct with
  | .ok m => .ok m p
  | .error .err => .err
  | .error .panic => .panic

/-- `let (control_term, message) = decode…(…)?; let control = ControlMessage::from_term(&control_term)?; Ok((control, message))` -/
def finishE (tbl : Control.Table) : Except DErr (Term × Option Term) → Res
  | .error e => resOfDErr e
  | .ok (ct, p) => finish tbl ct p

/-- `decoder::decode(complete_data)` of a buffer that does not start with `131, 68`: a bare term, no payload -/
def plainTerm (x : Ext) (data : Bytes) : Except DErr (Term × Option Term) :=
  match decode x data with
  | .error e => .error e
  | .ok ct => .ok (ct, none)

/-- `Connection::decode_complete_fragment(&complete_data, &mut self.atom_cache)` -/
def decodeCompleteFragment (x : Ext) (tbl : Control.Table) (c : Cache) (data : Bytes) : Cache × Res :=
  match data with
  | a :: b :: _ =>
    if a = 131 ∧ b = 68 then
      ((decodeWithAtomCache x c data).1, finishE tbl (decodeWithAtomCache x c data).2)
    else (c, finishE tbl (plainTerm x data))
  | _ => (c, finishE tbl (plainTerm x data))

/-- the pass-through branch of `receive_message` (`rest` = the frame after the `112`): control term, then — if bytes remain —
the payload term, after which nothing may remain; then `from_term` -/
def passThroughBody (x : Ext) (tbl : Control.Table) (rest : Bytes) : Res :=
  match decodeTrailing x rest with
  | .error e => resOfDErr e
  | .ok (ct, []) => finish tbl ct none
  | .ok (ct, remaining) =>
    match decodeTrailing x remaining with
    | .error e => resOfDErr e
    | .ok (p, []) => finish tbl ct (some p)
    | .ok (_, _ :: _) => .err

/-- what the two fragment branches do with the assembler's answer: a completed sequence goes through
`decode_complete_fragment` (the call returns), otherwise the loop goes on (`continue`) -/
def deliver (x : Ext) (tbl : Control.Table) (s : St) (r : Frag.Assembler × Option Bytes) : St × Option Res :=
  match r with
  | (a', some complete) =>
    ({ cache := (decodeCompleteFragment x tbl s.cache complete).1, asm := a' },
      some (decodeCompleteFragment x tbl s.cache complete).2)
  | (a', none) => ({ cache := s.cache, asm := a' }, none)

/-- the `131, 69` branch: `decode_fragment_header`; fragment id 0 is `Error::Protocol`; the version tag, DIST_HEADER and
the reference count go back in front of the first fragment, which is handed to `start_fragment` without atom-cache data -/
def recvFragHeader (x : Ext) (tbl : Control.Table) (s : St) (data : Bytes) : St × Option Res :=
  match decodeFragmentHeader data with
  | .error e => (s, some (resOfDErr e))
  | .ok ((seq, fid, n), remaining) =>
    if fid = 0 then (s, some .err)
    else deliver x tbl s (s.asm.startFragment 0 seq fid none (131 :: 68 :: UInt8.ofNat n :: remaining))

/-- the `131, 70` branch: `decode_fragment_cont`; fragment id 0 is `Error::Protocol`; `add_fragment` -/
def recvFragCont (x : Ext) (tbl : Control.Table) (s : St) (data : Bytes) : St × Option Res :=
  match decodeFragmentCont data with
  | .error e => (s, some (resOfDErr e))
  | .ok ((seq, fid), remaining) =>
    if fid = 0 then (s, some .err)
    else deliver x tbl s (s.asm.addFragment 0 seq fid remaining)

/-- the `131, 68` branch: `decode_with_atom_cache(&data, &mut self.atom_cache)`, then `from_term` -/
def recvHeader (x : Ext) (tbl : Control.Table) (s : St) (data : Bytes) : St × Option Res :=
  ({ cache := (decodeWithAtomCache x s.cache data).1, asm := s.asm },
    some (finishE tbl (decodeWithAtomCache x s.cache data).2))

/-- one iteration of the loop of `Connection::receive_message` on the deframed body `data`:
`none` = `continue` (tick, or a fragment that does not complete its sequence), `some r` = the call returns `r` -/
def recv (x : Ext) (tbl : Control.Table) (s : St) (data : Bytes) : St × Option Res :=
  match data with
  | [] => (s, none)
  | [a] =>
    if a = 112 then (s, some (passThroughBody x tbl [])) else (s, some .err)
  | a :: b :: rest =>
    if a = 131 ∧ b = 69 then recvFragHeader x tbl s data
    else if a = 131 ∧ b = 70 then recvFragCont x tbl s data
    else if a = 112 then (s, some (passThroughBody x tbl (b :: rest)))
    else if a = 131 ∧ b = 68 then recvHeader x tbl s data
    else (s, some .err)

/-- the state after a list of frames (a panic ends the task; the state is then irrelevant) -/
def after (x : Ext) (tbl : Control.Table) (s : St) : List Bytes → St
  | [] => s
  | f :: fs => after x tbl (recv x tbl s f).1 fs

/-- what each frame of a history makes the loop do: `none` = the loop goes on to the next frame, `some r` = a call returns `r` -/
def outs (x : Ext) (tbl : Control.Table) (s : St) : List Bytes → List (Option Res)
  | [] => []
  | f :: fs => (recv x tbl s f).2 :: outs x tbl (recv x tbl s f).1 fs

/-- a panic is the last thing a task returns -/
def cutPanic : List Res → List Res
  | [] => []
  | .panic :: _ => [.panic]
  | r :: rs => r :: cutPanic rs

/-- what successive `receive_message` calls return while the peer delivers `frames`: one entry per frame that ends a
call; a panic is the last entry (the receiving task is gone) -/
def recvAll (x : Ext) (tbl : Control.Table) (s : St) (frames : List Bytes) : List Res :=
  cutPanic ((outs x tbl s frames).filterMap id)

/-- the body handling of `Connection::receive_message_from_read_half` (a zero length never gets here: `continue`):
pass-through marker or `Error::Protocol`; control term; `from_term`; payload term; nothing may remain -/
def recvRH (x : Ext) (tbl : Control.Table) (data : Bytes) : Option Res :=
  match data with
  | [] => none
  | m :: rest =>
    if m != 112 then some .err else
    match decodeTrailing x rest with
    | .error e => some (resOfDErr e)
    | .ok (ct, remaining) =>
      match Control.parse tbl ct with
      | .error .err => some .err
      | .error .panic => some .panic
      | .ok msg =>
        match remaining with
        | [] => some (.ok msg none)
        | _ :: _ =>
          match decodeTrailing x remaining with
          | .error e => some (resOfDErr e)
          | .ok (p, []) => some (.ok msg (some p))
          | .ok (_, _ :: _) => some .err

def recvAllRH (x : Ext) (tbl : Control.Table) (frames : List Bytes) : List Res :=
  cutPanic (frames.filterMap (recvRH x tbl))

/-! ### canonical text (driver) -/

def Res.text : Res → String
  | .ok m p => "ok~" ++ m.text ++ "~" ++ (match p with | some t => t.text | none => "-")
  | .err => "err"
  | .panic => "panic"

def resultsText (l : List Res) : String :=
  if l.isEmpty then "-" else "/".intercalate (l.map Res.text)

end Edp.Recv
