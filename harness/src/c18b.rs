//! C18, behaviours clause ("OTP-style behaviours answer each call once to its caller"), domain `c18b`.
//!
//! The real `GenServerProcess` / `GenEventManager` with SCRIPTED user callbacks (every callback logs itself and answers what
//! the script says), driven
//!   * directly: `handle_message` over generated message sequences (all `Message` variants; `$gen_call` / `$gen_cast` /
//!     `$gen_notify` / `$gen_sync_notify` / `$gen_which_handlers` and their near misses, the alias form `{Pid, [alias|Ref]}` of
//!     OTP 24+) while the registry changes between messages (a caller live, gone, or registered with a closed mailbox),
//!     `add_handler` / `delete_handler` / `Process::terminate` in between; what `spawn_process` does around it (stop at the
//!     first `Err`, then `Process::terminate`) is done here;
//!   * through a real `Node`: the behaviour spawned as a process, the callers spawned as recording processes, the messages
//!     sent with `Node::send` (and, for `sync_notify`, through the caller-visible `ProcessHandle` with a `from`).
//!
//! Lines:
//!   T c18bgs  <step>..                ## <callbacks and sends in order>|alive/dead      (Impl/Behaviours.lean gsRun)
//!   T c18bgsn <step>..                ## <callbacks>|<pid>=<replies>;..|alive/dead       (the same model, as a Node shows it)
//!   P c18bgsspec <alive> <got> <step>..   ## ok                                          (Spec/Behaviours.lean)
//!   T c18bge  <oracle> <op>..         ## <callbacks per handler instance>|<sends>|<results of add/delete>
//!   T c18bgen <oracle> <op>..         ## <callbacks per handler instance>|<pid>=<replies>;..
//!   P c18bgespec <got> <op>..         ## ok
//!   X c18b-...                        what the harness sees itself
use crate::canon::{pid_text, term_text};
use crate::peer::FakeEpmd;
use crate::rng::Rng;
use crate::Ctx;
use edp_client::control::ControlMessage;
use edp_node::gen_event::{CallResult as GeCallResult, EventResult, GenEventHandler, GenEventManager};
use edp_node::{CallResult, Error, GenServer, GenServerProcess, Mailbox, Message, Node, Process, ProcessHandle, ProcessRegistry};
use erltf::types::{Atom, ExternalPid, ExternalReference};
use erltf::OwnedTerm;
use std::collections::{HashMap, VecDeque};
use std::future::Future;
use std::pin::Pin;
use std::sync::{Arc, Mutex};

fn atom(s: &str) -> OwnedTerm {
    OwnedTerm::Atom(Atom::new(s))
}
fn int(i: i64) -> OwnedTerm {
    OwnedTerm::Integer(i)
}
fn tup(v: Vec<OwnedTerm>) -> OwnedTerm {
    OwnedTerm::Tuple(v)
}
fn pidt(p: &ExternalPid) -> OwnedTerm {
    OwnedTerm::Pid(p.clone())
}
fn join_or(sep: &str, v: &[String]) -> String {
    if v.is_empty() { "-".to_string() } else { v.join(sep) }
}

/// a reply that carries a list (the ids of `which_handlers`, in map order): the list sorted by text
fn canon_body(b: &OwnedTerm) -> String {
    if let OwnedTerm::Tuple(v) = b {
        if v.len() == 2 {
            if let OwnedTerm::List(l) = &v[1] {
                let mut t: Vec<String> = l.iter().map(term_text).collect();
                t.sort();
                return format!("U[{},L{{{}}}]", term_text(&v[0]), t.join(","));
            }
        }
    }
    term_text(b)
}

// ------------------------------------------------------------------------------------------------ messages

#[derive(Clone)]
enum Msg {
    Regular(Option<ExternalPid>, OwnedTerm),
    Control,
    Exit(OwnedTerm),
    Other(u8),
}

impl Msg {
    fn text(&self) -> String {
        match self {
            Msg::Regular(f, b) => format!("R{}!{}", f.as_ref().map(pid_text).unwrap_or("-".into()), term_text(b)),
            Msg::Control => "C".into(),
            Msg::Exit(r) => format!("E{}", term_text(r)),
            Msg::Other(_) => "O".into(),
        }
    }
    fn real(&self, w: &World) -> Message {
        match self {
            Msg::Regular(f, b) => Message::Regular { from: f.clone(), body: b.clone() },
            Msg::Control => Message::Control {
                control: Box::new(ControlMessage::Link { from_pid: pidt(&w.remote), to_pid: pidt(&w.a) }),
                body: None,
            },
            Msg::Exit(r) => Message::Exit { from: w.remote.clone(), reason: r.clone() },
            Msg::Other(k) => {
                let r = ExternalReference::new(w.node.clone(), 1, vec![7, 8, 9]);
                match k % 5 {
                    0 => Message::MonitorExit { monitored: w.remote.clone(), reference: r, reason: atom("gone") },
                    1 => Message::Link { from: w.remote.clone() },
                    2 => Message::Unlink { from: w.remote.clone(), id: 3 },
                    3 => Message::Monitor { from: w.remote.clone(), reference: OwnedTerm::Reference(r) },
                    _ => Message::Demonitor { from: w.remote.clone(), reference: OwnedTerm::Reference(r) },
                }
            }
        }
    }
}

/// the pids of a scenario: two callers with real mailboxes, one registered with a closed mailbox, one never registered,
/// one of another node
#[derive(Clone)]
struct World {
    node: Atom,
    a: ExternalPid,
    b: ExternalPid,
    closed: ExternalPid,
    absent: ExternalPid,
    remote: ExternalPid,
}

impl World {
    fn direct(name: &str) -> World {
        let node = Atom::new(name);
        World {
            a: ExternalPid::new(node.clone(), 1, 0, 1),
            b: ExternalPid::new(node.clone(), 2, 0, 1),
            closed: ExternalPid::new(node.clone(), 3, 0, 1),
            absent: ExternalPid::new(node.clone(), 4, 0, 1),
            remote: ExternalPid::new(Atom::new("other@host"), 1, 0, 1),
            node,
        }
    }
    fn caller(&self, r: &mut Rng) -> ExternalPid {
        match r.below(12) {
            0..=4 => self.a.clone(),
            5..=7 => self.b.clone(),
            8..=9 => self.closed.clone(),
            10 => self.absent.clone(),
            _ => self.remote.clone(),
        }
    }
}

fn small(r: &mut Rng) -> OwnedTerm {
    match r.below(7) {
        0 => atom("get"),
        1 => int(r.below(1000) as i64 - 500),
        2 => tup(vec![atom("add"), int(r.below(9) as i64)]),
        3 => OwnedTerm::List(vec![]),
        4 => OwnedTerm::Binary(r.bytes(2)),
        5 => OwnedTerm::List(vec![int(2), int(1)]),
        _ => atom("h1"),
    }
}

const HIDS: usize = 5;
fn hid(k: usize) -> OwnedTerm {
    match k % HIDS {
        0 => atom("h1"),
        1 => atom("h2"),
        2 => atom("h3"),
        3 => tup(vec![atom("h"), int(1)]),
        _ => OwnedTerm::Binary(b"h1".to_vec()),
    }
}

/// message bodies around the `$gen_*` shapes: the well-formed ones and their near misses; `refs` makes the references of
/// one sequence distinct
fn gen_body(r: &mut Rng, for_event: bool, w: &World, refs: &mut u32) -> OwnedTerm {
    *refs += 1;
    let reference = OwnedTerm::Reference(ExternalReference::new(w.node.clone(), 1, vec![*refs, 2, 3]));
    let good_from = |r: &mut Rng| tup(vec![pidt(&w.caller(r)), reference.clone()]);
    let bad_from = |r: &mut Rng| -> OwnedTerm {
        match r.below(8) {
            0 => tup(vec![pidt(&w.caller(r))]),
            1 => tup(vec![reference.clone(), pidt(&w.caller(r))]),
            2 => tup(vec![pidt(&w.caller(r)), atom("notref")]),
            3 => OwnedTerm::List(vec![pidt(&w.caller(r)), reference.clone()]),
            4 => tup(vec![pidt(&w.caller(r)), reference.clone(), atom("x")]),
            // the alias form of OTP 24+: {Pid, [alias | Ref]}
            5 | 6 => tup(vec![pidt(&w.caller(r)), OwnedTerm::ImproperList { elements: vec![atom("alias")], tail: Box::new(reference.clone()) }]),
            _ => atom("nobody"),
        }
    };
    let call = atom("$gen_call");
    let one_arg: &[&str] = if for_event { &["$gen_notify", "$gen_notify", "$gen_sync_notify", "$gen_sync_notify", "$gen_cast"] } else { &["$gen_cast", "$gen_cast", "$gen_cast", "$gen_notify"] };
    match r.below(100) {
        0..=33 => {
            if for_event {
                tup(vec![call, good_from(r), hid(r.below(HIDS as u64 + 1) as usize), small(r)])
            } else {
                edp_elixir_terms::GenServerTerms::gen_call(pidt(&w.caller(r)), reference.clone(), small(r))
            }
        }
        34..=41 => {
            if for_event { tup(vec![call, bad_from(r), hid(r.below(HIDS as u64) as usize), small(r)]) } else { tup(vec![call, bad_from(r), small(r)]) }
        }
        42..=48 => match r.below(5) {
            0 => tup(vec![call, good_from(r)]),
            1 => tup(vec![call, good_from(r), hid(0), small(r), small(r)]),
            2 if for_event => tup(vec![call, good_from(r), small(r)]),
            2 => tup(vec![call, good_from(r), hid(0), small(r)]),
            3 => tup(vec![call]),
            _ => call.clone(),
        },
        49..=64 => {
            let tag = *r.pick(one_arg);
            if tag == "$gen_cast" { edp_elixir_terms::GenServerTerms::gen_cast(small(r)) } else { tup(vec![atom(tag), small(r)]) }
        }
        65..=68 => tup(vec![atom(*r.pick(one_arg)), small(r), small(r)]),
        69..=76 => tup(vec![atom("$gen_which_handlers"), good_from(r)]),
        77..=79 => tup(vec![atom("$gen_which_handlers"), bad_from(r)]),
        80..=82 => tup(vec![atom("other"), good_from(r), small(r)]),
        83..=84 => tup(vec![OwnedTerm::Binary(b"$gen_call".to_vec()), good_from(r), small(r)]),
        85..=86 => OwnedTerm::List(vec![call, good_from(r), small(r)]),
        87..=88 => tup(vec![good_from(r), call, small(r)]),
        89..=90 => tup(vec![atom("$gen_call "), good_from(r), small(r)]),
        _ => small(r),
    }
}

fn gen_msg(r: &mut Rng, for_event: bool, w: &World, refs: &mut u32) -> Msg {
    match r.below(40) {
        0 => Msg::Control,
        1 | 2 => Msg::Exit(if r.chance(1, 2) { atom("shutdown") } else { small(r) }),
        3 => Msg::Other(r.below(5) as u8),
        _ => {
            let from = match r.below(6) {
                0 | 1 => None,
                2 | 3 => Some(w.a.clone()),
                4 => Some(w.b.clone()),
                _ => Some(w.caller(r)),
            };
            Msg::Regular(from, gen_body(r, for_event, w, refs))
        }
    }
}

// ------------------------------------------------------------------------------------------------ the registry of a direct run

/// reach of a pid at one step: 0 absent, 1 live, 2 closed
#[derive(Clone, Copy, PartialEq)]
struct Env {
    a: bool,
    b: bool,
    closed: bool,
}

impl Env {
    fn text(&self, w: &World) -> String {
        let mut v = vec![];
        if self.a {
            v.push(format!("l{}", pid_text(&w.a)));
        }
        if self.b {
            v.push(format!("l{}", pid_text(&w.b)));
        }
        if self.closed {
            v.push(format!("c{}", pid_text(&w.closed)));
        }
        join_or("!", &v)
    }
    fn pick(r: &mut Rng, prev: Env) -> Env {
        if r.chance(3, 4) {
            return prev;
        }
        Env { a: r.chance(5, 6), b: r.chance(3, 4), closed: r.chance(2, 3) }
    }
}

struct Boxes {
    registry: Arc<ProcessRegistry>,
    a: Mailbox,
    b: Mailbox,
    ha: ProcessHandle,
    hb: ProcessHandle,
    hc: ProcessHandle,
}

impl Boxes {
    fn new(w: &World) -> Boxes {
        let a = Mailbox::with_capacity(64);
        let b = Mailbox::with_capacity(64);
        let dead = Mailbox::with_capacity(1);
        let hc = ProcessHandle::new(w.closed.clone(), dead.sender());
        drop(dead);
        Boxes {
            registry: Arc::new(ProcessRegistry::new()),
            ha: ProcessHandle::new(w.a.clone(), a.sender()),
            hb: ProcessHandle::new(w.b.clone(), b.sender()),
            hc,
            a,
            b,
        }
    }
    async fn apply(&self, w: &World, e: Env) {
        for (on, pid, h) in [(e.a, &w.a, &self.ha), (e.b, &w.b, &self.hb), (e.closed, &w.closed, &self.hc)] {
            let there = self.registry.get(pid).await.is_some();
            if on && !there {
                self.registry.insert(pid.clone(), h.clone()).await;
            } else if !on && there {
                self.registry.remove(pid).await;
            }
        }
    }
    /// what arrived since the last call: (receiver, body)
    fn drain(&mut self, w: &World) -> Vec<(ExternalPid, OwnedTerm)> {
        let mut out = vec![];
        for (pid, mb) in [(&w.a, &mut self.a), (&w.b, &mut self.b)] {
            while let Ok(m) = mb.try_recv() {
                match m {
                    Message::Regular { from: None, body } => out.push((pid.clone(), body)),
                    other => out.push((pid.clone(), atom(&format!("unexpected-{:?}", other).replace(' ', "")))),
                }
            }
        }
        out
    }
}

// ------------------------------------------------------------------------------------------------ gen_server

#[derive(Clone)]
enum GsAns {
    Reply(OwnedTerm),
    NoReply,
    Fail,
}

impl GsAns {
    fn text(&self) -> String {
        match self {
            GsAns::Reply(v) => format!("r{}", term_text(v)),
            GsAns::NoReply => "n".into(),
            GsAns::Fail => "e".into(),
        }
    }
    fn pick(r: &mut Rng) -> GsAns {
        match r.below(12) {
            0 | 1 => GsAns::NoReply,
            2 => GsAns::Fail,
            _ => GsAns::Reply(if r.chance(1, 4) { small(r) } else { int(r.below(100) as i64) }),
        }
    }
}

#[derive(Default)]
struct GsScript {
    answers: VecDeque<GsAns>,
    log: Vec<String>,
    callbacks: usize,
}

struct ScriptedServer {
    sh: Arc<Mutex<GsScript>>,
}

impl ScriptedServer {
    fn next(&self, entry: String) -> GsAns {
        let mut s = self.sh.lock().unwrap();
        s.log.push(entry);
        s.callbacks += 1;
        s.answers.pop_front().unwrap_or(GsAns::NoReply)
    }
}

impl GenServer for ScriptedServer {
    async fn init(&mut self, _args: Vec<OwnedTerm>) -> edp_node::Result<()> {
        Ok(())
    }
    async fn handle_call(&mut self, msg: OwnedTerm, from: ExternalPid) -> edp_node::Result<CallResult> {
        match self.next(format!("call:{}:{}", term_text(&msg), pid_text(&from))) {
            GsAns::Reply(v) => Ok(CallResult::Reply(v)),
            GsAns::NoReply => Ok(CallResult::NoReply),
            GsAns::Fail => Err(Error::InvalidMessage("scripted".into())),
        }
    }
    async fn handle_cast(&mut self, msg: OwnedTerm) -> edp_node::Result<()> {
        match self.next(format!("cast:{}", term_text(&msg))) {
            GsAns::Fail => Err(Error::InvalidMessage("scripted".into())),
            _ => Ok(()),
        }
    }
    async fn handle_info(&mut self, msg: OwnedTerm) -> edp_node::Result<()> {
        match self.next(format!("info:{}", term_text(&msg))) {
            GsAns::Fail => Err(Error::InvalidMessage("scripted".into())),
            _ => Ok(()),
        }
    }
    async fn terminate(&mut self, reason: OwnedTerm) {
        self.sh.lock().unwrap().log.push(format!("term:{}", term_text(&reason)));
    }
}

struct GsStep {
    msg: Msg,
    ans: GsAns,
    env: Env,
}

fn gs_steps_text(w: &World, steps: &[GsStep]) -> String {
    steps.iter().map(|s| format!("{}~{}~{}", s.msg.text(), s.ans.text(), s.env.text(w))).collect::<Vec<_>>().join(" ")
}

fn got_text(got: &[(ExternalPid, OwnedTerm)]) -> String {
    join_or("&", &got.iter().map(|(p, b)| format!("{}>{}", pid_text(p), term_text(b))).collect::<Vec<_>>())
}

/// one sequence through `GenServerProcess::handle_message`, as `spawn_process` would run it
async fn gs_direct_one(ctx: &mut Ctx, w: &World, steps: &[GsStep], what: &str) {
    let mut bx = Boxes::new(w);
    let sh = Arc::new(Mutex::new(GsScript::default()));
    let mut proc_ = GenServerProcess::new(ScriptedServer { sh: sh.clone() }, bx.registry.clone());
    let mut outs: Vec<String> = vec![];
    let mut got: Vec<(ExternalPid, OwnedTerm)> = vec![];
    let mut alive = true;
    let mut seen = 0usize;
    for s in steps {
        bx.apply(w, s.env).await;
        {
            let mut g = sh.lock().unwrap();
            g.answers.clear();
            g.answers.push_back(s.ans.clone());
        }
        let r = proc_.handle_message(s.msg.real(w)).await;
        {
            let g = sh.lock().unwrap();
            outs.extend(g.log[seen..].iter().cloned());
            seen = g.log.len();
        }
        let arrived = bx.drain(w);
        if arrived.len() > 1 {
            ctx.fail("c18b-more-than-one-message-for-one-message", &format!("{} step={} arrived={}", what, s.msg.text(), got_text(&arrived)));
        }
        for (p, b) in &arrived {
            outs.push(format!("send:{}:{}", pid_text(p), canon_body(b)));
        }
        got.extend(arrived);
        if r.is_err() {
            alive = false;
            Process::terminate(&mut proc_).await;
            let g = sh.lock().unwrap();
            outs.extend(g.log[seen..].iter().cloned());
            break;
        }
    }
    let req = gs_steps_text(w, steps);
    ctx.tie("gs", &format!("c18bgs {}", req), &format!("{}|{}", join_or("&", &outs), if alive { "alive" } else { "dead" }));
    ctx.prop("gen", &format!("c18bgsspec {} {} {}", if alive { "alive" } else { "dead" }, got_text(&got), req), "ok");
    ctx.count(if alive { "gs_direct_alive" } else { "gs_direct_dead" });
    ctx.add("gs_direct_replies", got.len() as u64);
}

fn gen_gs_steps(r: &mut Rng, w: &World, n: usize) -> Vec<GsStep> {
    let mut env = Env { a: true, b: true, closed: r.chance(1, 2) };
    let mut refs = 0u32;
    (0..n)
        .map(|_| {
            env = Env::pick(r, env);
            GsStep { msg: gen_msg(r, false, w, &mut refs), ans: GsAns::pick(r), env }
        })
        .collect()
}

fn call_of(w: &World, from: &ExternalPid, k: u32, req: OwnedTerm) -> OwnedTerm {
    tup(vec![atom("$gen_call"), tup(vec![pidt(from), OwnedTerm::Reference(ExternalReference::new(w.node.clone(), 1, vec![k, 2, 3]))]), req])
}

/// crates/edp_elixir_terms `GenServerTerms`: the constructors build the OTP shapes the behaviours dispatch on, and the parsers
/// take them apart again (the well-formed calls and casts of the generated sequences are built with them)
fn gen_server_terms(ctx: &mut Ctx, w: &World) {
    use edp_elixir_terms::GenServerTerms as G;
    for k in 0..ctx.n(60, 600) {
        let p = pidt(&w.caller(&mut ctx.rng));
        let r = OwnedTerm::Reference(ExternalReference::new(w.node.clone(), 1, vec![k as u32, 5]));
        let q = small(&mut ctx.rng);
        let call = G::gen_call(p.clone(), r.clone(), q.clone());
        let cast = G::gen_cast(q.clone());
        let from = tup(vec![p.clone(), r.clone()]);
        let ok = call == tup(vec![atom("$gen_call"), from.clone(), q.clone()])
            && cast == tup(vec![atom("$gen_cast"), q.clone()])
            && G::is_gen_call(&call)
            && !G::is_gen_call(&cast)
            && G::is_gen_cast(&cast)
            && !G::is_gen_cast(&call)
            && G::parse_gen_call(&call) == Some((&from, &q))
            && G::parse_gen_cast(&cast) == Some(&q)
            && matches!((G::parse_from(&from), &p), (Some((pp, rr)), OwnedTerm::Pid(p0)) if pp == p0 && rr == &r)
            && G::parse_gen_call(&cast).is_none()
            && G::parse_from(&q).is_none();
        if !ok {
            ctx.fail("c18b-gen-server-terms-shape", &format!("gen_call={} gen_cast={}", term_text(&call), term_text(&cast)));
        }
        ctx.count("gen_server_terms_cases");
    }
}

async fn gen_server_direct(ctx: &mut Ctx) {
    let w = World::direct("c18bgs@localhost");
    gen_server_terms(ctx, &w);
    let all = Env { a: true, b: true, closed: true };
    // directed: a reply that cannot be delivered (the caller is registered, its mailbox has no receiver any more) must
    // not cost the other callers their server
    let directed: Vec<(&str, Vec<GsStep>)> = vec![
        ("closed-caller-then-live-caller", vec![
            GsStep { msg: Msg::Regular(None, call_of(&w, &w.closed, 1, atom("get"))), ans: GsAns::Reply(int(1)), env: all },
            GsStep { msg: Msg::Regular(None, call_of(&w, &w.a, 2, atom("get"))), ans: GsAns::Reply(int(2)), env: all },
        ]),
        ("two-callers-interleaved-same-request", vec![
            GsStep { msg: Msg::Regular(None, call_of(&w, &w.a, 1, atom("get"))), ans: GsAns::Reply(int(1)), env: all },
            GsStep { msg: Msg::Regular(None, call_of(&w, &w.b, 1, atom("get"))), ans: GsAns::Reply(int(2)), env: all },
            GsStep { msg: Msg::Regular(None, call_of(&w, &w.a, 1, atom("get"))), ans: GsAns::Reply(int(3)), env: all },
        ]),
        ("failing-call-ends-the-server", vec![
            GsStep { msg: Msg::Regular(None, call_of(&w, &w.a, 1, atom("boom"))), ans: GsAns::Fail, env: all },
            GsStep { msg: Msg::Regular(None, call_of(&w, &w.b, 2, atom("get"))), ans: GsAns::Reply(int(2)), env: all },
        ]),
        ("exit-message-is-not-the-end", vec![
            GsStep { msg: Msg::Exit(atom("shutdown")), ans: GsAns::NoReply, env: all },
            GsStep { msg: Msg::Regular(None, call_of(&w, &w.a, 1, atom("get"))), ans: GsAns::Reply(int(1)), env: all },
        ]),
    ];
    for (name, steps) in &directed {
        gs_direct_one(ctx, &w, steps, name).await;
        ctx.count("gs_directed");
    }
    let cases = ctx.n(900, 9000);
    for i in 0..cases {
        let n = ctx.rng.range(1, 9) as usize;
        let steps = gen_gs_steps(&mut ctx.rng, &w, n);
        gs_direct_one(ctx, &w, &steps, &format!("gs {}", i)).await;
    }
}

// ------------------------------------------------------------------------------------------------ through a real Node

static NODE_SEQ: std::sync::atomic::AtomicU32 = std::sync::atomic::AtomicU32::new(0);
const FENCE: &str = "fence18b";

struct Recorder {
    log: Arc<Mutex<Vec<OwnedTerm>>>,
    /// full-mailbox scenarios: while `gate.0` is set the handler does not start (the process takes nothing more);
    /// `gate.1`: it is waiting there
    gate: Arc<(std::sync::atomic::AtomicBool, std::sync::atomic::AtomicBool)>,
}

const FILL: &str = "fill18b";

fn is_fill(t: &OwnedTerm) -> Option<i64> {
    if let OwnedTerm::Tuple(v) = t
        && v.len() == 2
        && v[0] == atom(FILL)
        && let OwnedTerm::Integer(k) = &v[1]
    {
        return Some(*k);
    }
    None
}

impl Process for Recorder {
    async fn handle_message(&mut self, msg: Message) -> edp_node::Result<()> {
        while self.gate.0.load(std::sync::atomic::Ordering::SeqCst) {
            self.gate.1.store(true, std::sync::atomic::Ordering::SeqCst);
            tokio::time::sleep(std::time::Duration::from_millis(1)).await;
        }
        let t = match msg {
            Message::Regular { from: None, body } => body,
            other => atom(&format!("unexpected-{:?}", other).replace(' ', "")),
        };
        self.log.lock().unwrap().push(t);
        Ok(())
    }
}

async fn wait_until<F: FnMut() -> bool>(mut cond: F) -> bool {
    for i in 0..1200 {
        if cond() {
            return true;
        }
        if i < 200 {
            tokio::task::yield_now().await;
        } else {
            tokio::time::sleep(std::time::Duration::from_millis(1)).await;
        }
    }
    cond()
}

struct NodeWorld {
    node: Arc<Node>,
    w: World,
    la: Arc<Mutex<Vec<OwnedTerm>>>,
    lb: Arc<Mutex<Vec<OwnedTerm>>>,
    /// the gate of caller `a`
    ga: Arc<(std::sync::atomic::AtomicBool, std::sync::atomic::AtomicBool)>,
}

/// caller `a` is held at its gate and its mailbox is filled to capacity (through the handle's sender, `try_send`: the harness
/// never waits); returns the number of filler messages (capacity + the one the process task holds)
async fn fill_a(nw: &NodeWorld) -> Option<usize> {
    use std::sync::atomic::Ordering::SeqCst;
    nw.ga.0.store(true, SeqCst);
    let h = nw.node.registry().get(&nw.w.a).await?;
    let body = |k: i64| Message::Regular { from: None, body: tup(vec![atom(FILL), int(k)]) };
    h.mailbox_sender.try_send(body(0)).ok()?;
    let ga = nw.ga.clone();
    if !wait_until(move || ga.1.load(SeqCst)).await {
        return None;
    }
    let mut n = 1usize;
    while n < 100_000 && h.mailbox_sender.try_send(body(n as i64)).is_ok() {
        n += 1;
    }
    Some(n)
}

/// the filler messages were handled by `a` exactly once, in order, before everything else
fn fills_in_order(nw: &NodeWorld, n: usize) -> bool {
    let l = nw.la.lock().unwrap();
    let ks: Vec<i64> = l.iter().filter_map(is_fill).collect();
    ks == (0..n as i64).collect::<Vec<i64>>() && l.iter().take(n).all(|t| is_fill(t).is_some())
}

async fn node_world() -> Option<NodeWorld> {
    let k = NODE_SEQ.fetch_add(1, std::sync::atomic::Ordering::SeqCst);
    let mut node = Node::new(format!("c18b{}@localhost", k), "cookie");
    node.start(0).await.ok()?;
    let node = Arc::new(node);
    let la = Arc::new(Mutex::new(vec![]));
    let lb = Arc::new(Mutex::new(vec![]));
    let ga = Arc::new((std::sync::atomic::AtomicBool::new(false), std::sync::atomic::AtomicBool::new(false)));
    let gb = Arc::new((std::sync::atomic::AtomicBool::new(false), std::sync::atomic::AtomicBool::new(false)));
    let a = node.spawn(Recorder { log: la.clone(), gate: ga.clone() }).await.ok()?;
    let b = node.spawn(Recorder { log: lb.clone(), gate: gb }).await.ok()?;
    let name = node.name().clone();
    let creation = node.creation();
    let closed = ExternalPid::new(name.clone(), 900_001, 0, creation);
    let absent = ExternalPid::new(name.clone(), 900_002, 0, creation);
    // a caller that has ended but whose entry is still there: registered, the mailbox has no receiver
    let dead = Mailbox::with_capacity(1);
    node.registry().insert(closed.clone(), ProcessHandle::new(closed.clone(), dead.sender())).await;
    drop(dead);
    let w = World { node: name, a, b, closed, absent, remote: ExternalPid::new(Atom::new("other@host"), 1, 0, 1) };
    Some(NodeWorld { node, w, la, lb, ga })
}

/// both callers have handled everything that was in their mailboxes
async fn fence(nw: &NodeWorld) -> bool {
    let f = atom(FENCE);
    let _ = nw.node.send(&nw.w.a, f.clone()).await;
    let _ = nw.node.send(&nw.w.b, f.clone()).await;
    let (la, lb) = (nw.la.clone(), nw.lb.clone());
    wait_until(move || la.lock().unwrap().last() == Some(&f) && lb.lock().unwrap().last() == Some(&f)).await
}

fn proj_text(nw: &NodeWorld) -> (String, Vec<(ExternalPid, OwnedTerm)>) {
    let mut parts = vec![];
    let mut got = vec![];
    for (p, l) in [(&nw.w.a, &nw.la), (&nw.w.b, &nw.lb)] {
        let items: Vec<OwnedTerm> = l.lock().unwrap().iter().filter(|t| **t != atom(FENCE) && is_fill(t).is_none()).cloned().collect();
        parts.push(format!("{}={}", pid_text(p), join_or("&", &items.iter().map(canon_body).collect::<Vec<_>>())));
        got.extend(items.into_iter().map(|t| (p.clone(), t)));
    }
    (parts.join(";"), got)
}

/// `full`: caller `a` is a whole mailbox behind (held at a gate, mailbox filled to capacity) while the server handles the
/// messages — the first of which is a call from `a` that is answered —, then the gate opens
async fn gen_server_node(ctx: &mut Ctx, full: bool) {
    let cases = if full { ctx.n(3, 30) } else { ctx.n(120, 1500) };
    for i in 0..cases {
        let Some(nw) = node_world().await else {
            ctx.fail("c18b-node-start-failed", &format!("gs node {}", i));
            continue;
        };
        let w = nw.w.clone();
        let fills = if full {
            match fill_a(&nw).await {
                Some(n) => n,
                None => {
                    ctx.fail("c18b-full-setup", &format!("gs node {}", i));
                    continue;
                }
            }
        } else {
            0
        };
        let env = Env { a: true, b: true, closed: true };
        let n = ctx.rng.range(1, 10) as usize;
        let mut refs = 0u32;
        let steps: Vec<GsStep> = (0..n)
            .map(|j| {
                // the first case is the directed one: the closed caller first
                let body = if full && j == 0 {
                    call_of(&w, &w.a, 78, atom("get"))
                } else if i == 0 && j == 0 {
                    call_of(&w, &w.closed, 77, atom("get"))
                } else {
                    gen_body(&mut ctx.rng, false, &w, &mut refs)
                };
                let ans = if i == 0 || (full && j == 0) { GsAns::Reply(int(j as i64)) } else { GsAns::pick(&mut ctx.rng) };
                GsStep { msg: Msg::Regular(None, body), ans, env }
            })
            .collect();
        let sh = Arc::new(Mutex::new(GsScript::default()));
        sh.lock().unwrap().answers = steps.iter().map(|s| s.ans.clone()).collect();
        let Ok(server) = nw.node.spawn(GenServerProcess::new(ScriptedServer { sh: sh.clone() }, nw.node.registry())).await else {
            ctx.fail("c18b-spawn-failed", &format!("gs node {}", i));
            continue;
        };
        for s in &steps {
            if let Msg::Regular(_, body) = &s.msg {
                let _ = nw.node.send(&server, body.clone()).await;
            }
        }
        if full {
            // the server is inside its first reply, waiting for room in the mailbox of `a`
            tokio::time::sleep(std::time::Duration::from_millis(40)).await;
            nw.ga.0.store(false, std::sync::atomic::Ordering::SeqCst);
        }
        // every message was handled, or the server is gone
        let reg = nw.node.registry();
        let total = steps.len();
        let mut gone = false;
        let mut done = false;
        for it in 0..1200 {
            if sh.lock().unwrap().callbacks >= total {
                done = true;
                break;
            }
            if reg.get(&server).await.is_none() {
                gone = true;
                break;
            }
            if it < 200 {
                tokio::task::yield_now().await;
            } else {
                tokio::time::sleep(std::time::Duration::from_millis(1)).await;
            }
        }
        if done {
            // the last callback may have failed: then `terminate` is logged at once and the entry goes next
            for _ in 0..200 {
                tokio::task::yield_now().await;
                if sh.lock().unwrap().log.last().is_some_and(|l| l.starts_with("term:")) {
                    break;
                }
            }
            if sh.lock().unwrap().log.last().is_some_and(|l| l.starts_with("term:")) {
                for _ in 0..2000 {
                    if reg.get(&server).await.is_none() {
                        gone = true;
                        break;
                    }
                    tokio::time::sleep(std::time::Duration::from_millis(1)).await;
                }
            }
        } else if !gone {
            ctx.fail("c18b-server-hung", &format!("gs node {}: {} of {} callbacks", i, sh.lock().unwrap().callbacks, total));
        }
        if !fence(&nw).await {
            ctx.fail("c18b-callers-hung", &format!("gs node {}", i));
        }
        let cbs = sh.lock().unwrap().log.clone();
        let (proj, got) = proj_text(&nw);
        let req = gs_steps_text(&w, &steps);
        let alive = if gone { "dead" } else { "alive" };
        ctx.tie("gsnode", &format!("c18bgsn {}", req), &format!("{}|{}|{}", join_or("&", &cbs), proj, alive));
        ctx.prop("gen", &format!("c18bgsspec {} {} {}", alive, got_text(&got), req), "ok");
        if full {
            if !fills_in_order(&nw, fills) {
                ctx.fail("c18b-full-mailbox-lost-or-reordered", &format!("gs node: {} fillers, caller saw {} messages; steps={}", fills, nw.la.lock().unwrap().len(), req));
            }
            ctx.count("gs_node_full_caller");
            ctx.add("full_mailbox_fillers", fills as u64);
        }
        ctx.count(if gone { "gs_node_dead" } else { "gs_node_alive" });
        ctx.add("gs_node_replies", got.len() as u64);
    }
}

// ------------------------------------------------------------------------------------------------ gen_event

#[derive(Clone)]
struct HAns {
    kind: u8, // 0 ok, 1 remove, 2 swap, 3 err
    val: OwnedTerm,
    new_uid: u32,
    new_key: OwnedTerm,
    args: OwnedTerm,
}

impl HAns {
    fn default() -> HAns {
        HAns { kind: 0, val: OwnedTerm::Nil, new_uid: 0, new_key: OwnedTerm::Nil, args: OwnedTerm::Nil }
    }
}

#[derive(Default)]
struct GeShared {
    oracle: HashMap<(u32, u32), HAns>,
    log: Vec<(u32, String)>,
    /// for every log entry: the kind of the answer the instance gave (9: `terminate`, which answers nothing)
    answers: Vec<u8>,
}

/// the lifecycle clause, judged on the log alone: a handler instance that answered `Remove`, `SwapHandler` or `Err` to an
/// event or a call is told so (one `terminate`) and is never called again
fn life_check(g: &GeShared) -> Option<String> {
    let mut uids: Vec<u32> = g.log.iter().map(|e| e.0).collect();
    uids.sort();
    uids.dedup();
    for u in uids {
        let mine: Vec<(&String, u8)> = g.log.iter().zip(g.answers.iter()).filter(|(e, _)| e.0 == u).map(|(e, a)| (&e.1, *a)).collect();
        if let Some(i) = mine.iter().position(|(t, a)| (t.starts_with("event:") || t.starts_with("hcall:")) && (1..=3).contains(a)) {
            let rest: Vec<&String> = mine[i + 1..].iter().map(|(t, _)| *t).collect();
            if rest.len() != 1 || !rest[0].starts_with("hterm:") {
                return Some(format!("handler instance {} left with {} (answer kind {}) and then saw [{}]", u, mine[i].0, mine[i].1, rest.iter().map(|s| s.as_str()).collect::<Vec<_>>().join(" ")));
            }
        }
    }
    None
}

struct ScriptedHandler {
    uid: u32,
    hid: OwnedTerm,
    n: u32,
    sh: Arc<Mutex<GeShared>>,
}

impl ScriptedHandler {
    fn next(&mut self, entry: String) -> HAns {
        let mut s = self.sh.lock().unwrap();
        s.log.push((self.uid, entry));
        let a = s.oracle.get(&(self.uid, self.n)).cloned().unwrap_or_else(HAns::default);
        s.answers.push(a.kind);
        self.n += 1;
        a
    }
    fn fresh(&self, a: &HAns) -> Box<dyn GenEventHandler> {
        Box::new(ScriptedHandler { uid: a.new_uid, hid: a.new_key.clone(), n: 0, sh: self.sh.clone() })
    }
}

impl GenEventHandler for ScriptedHandler {
    fn init<'a>(&'a mut self, args: OwnedTerm) -> Pin<Box<dyn Future<Output = edp_node::Result<()>> + Send + 'a>> {
        let a = self.next(format!("init:{}:{}", self.uid, term_text(&args)));
        Box::pin(async move { if a.kind == 3 { Err(Error::InvalidMessage("scripted".into())) } else { Ok(()) } })
    }
    fn handle_event<'a>(&'a mut self, event: OwnedTerm) -> Pin<Box<dyn Future<Output = edp_node::Result<EventResult>> + Send + 'a>> {
        let a = self.next(format!("event:{}:{}", self.uid, term_text(&event)));
        let fresh = self.fresh(&a);
        Box::pin(async move {
            match a.kind {
                0 => Ok(EventResult::Ok),
                1 => Ok(EventResult::Remove),
                2 => Ok(EventResult::SwapHandler(fresh, a.args)),
                _ => Err(Error::InvalidMessage("scripted".into())),
            }
        })
    }
    fn handle_call<'a>(&'a mut self, request: OwnedTerm) -> Pin<Box<dyn Future<Output = edp_node::Result<GeCallResult>> + Send + 'a>> {
        let a = self.next(format!("hcall:{}:{}", self.uid, term_text(&request)));
        let fresh = self.fresh(&a);
        Box::pin(async move {
            match a.kind {
                0 => Ok(GeCallResult::Reply(a.val)),
                1 => Ok(GeCallResult::Remove(a.val)),
                2 => Ok(GeCallResult::SwapHandler(fresh, a.args, a.val)),
                _ => Err(Error::InvalidMessage("scripted".into())),
            }
        })
    }
    fn handle_info<'a>(&'a mut self, msg: OwnedTerm) -> Pin<Box<dyn Future<Output = edp_node::Result<EventResult>> + Send + 'a>> {
        let a = self.next(format!("hinfo:{}:{}", self.uid, term_text(&msg)));
        let fresh = self.fresh(&a);
        Box::pin(async move {
            match a.kind {
                0 => Ok(EventResult::Ok),
                1 => Ok(EventResult::Remove),
                2 => Ok(EventResult::SwapHandler(fresh, a.args)),
                _ => Err(Error::InvalidMessage("scripted".into())),
            }
        })
    }
    fn terminate<'a>(&'a mut self, reason: OwnedTerm) -> Pin<Box<dyn Future<Output = ()> + Send + 'a>> {
        {
            let mut s = self.sh.lock().unwrap();
            s.log.push((self.uid, format!("hterm:{}:{}", self.uid, term_text(&reason))));
            s.answers.push(9);
        }
        Box::pin(async move {})
    }
    fn id(&self) -> OwnedTerm {
        self.hid.clone()
    }
}

#[derive(Clone)]
enum GeOp {
    Msg(Msg, Env),
    Add(u32, OwnedTerm, OwnedTerm),
    Del(OwnedTerm),
    Term,
}

impl GeOp {
    fn text(&self, w: &World) -> String {
        match self {
            GeOp::Msg(m, e) => format!("M{}~{}", m.text(), e.text(w)),
            GeOp::Add(u, h, a) => format!("A{}!{}!{}", u, term_text(h), term_text(a)),
            GeOp::Del(k) => format!("D{}", term_text(k)),
            GeOp::Term => "T".into(),
        }
    }
}

fn oracle_text(o: &HashMap<(u32, u32), HAns>) -> String {
    let mut keys: Vec<&(u32, u32)> = o.keys().collect();
    keys.sort();
    join_or(
        ";",
        &keys
            .iter()
            .map(|k| {
                let a = &o[k];
                format!("{}.{}~{}~{}~{}~{}~{}", k.0, k.1, ["o", "r", "s", "e"][a.kind as usize], term_text(&a.val), a.new_uid, term_text(&a.new_key), term_text(&a.args))
            })
            .collect::<Vec<_>>(),
    )
}

/// scripted answers for the handler instances 1..=first and for every instance a swap introduces (uids from 100)
fn gen_oracle(r: &mut Rng, uids: &[u32], density: u64) -> HashMap<(u32, u32), HAns> {
    let mut o = HashMap::new();
    let mut todo: Vec<u32> = uids.to_vec();
    let mut next_uid = 100u32;
    while let Some(u) = todo.pop() {
        for k in 0..6u32 {
            if !r.chance(density, 10) {
                continue;
            }
            let kind = match r.below(10) {
                0..=4 => 0,
                5 | 6 => 1,
                7 | 8 => 2,
                _ => 3,
            };
            let mut a = HAns { kind, val: if r.chance(1, 3) { small(r) } else { tup(vec![atom("v"), int((u * 10 + k) as i64)]) }, ..HAns::default() };
            if kind == 2 && next_uid < 112 {
                a.new_uid = next_uid;
                next_uid += 1;
                a.new_key = hid(r.below(HIDS as u64) as usize);
                a.args = small(r);
                todo.push(a.new_uid);
            } else if kind == 2 {
                a.kind = 0;
            }
            o.insert((u, k), a);
        }
    }
    o
}

fn per_uid_text(log: &[(u32, String)]) -> String {
    let mut uids: Vec<u32> = log.iter().map(|e| e.0).collect();
    uids.sort();
    uids.dedup();
    join_or(";", &uids.iter().map(|u| format!("{}={}", u, log.iter().filter(|e| e.0 == *u).map(|e| e.1.clone()).collect::<Vec<_>>().join("&"))).collect::<Vec<_>>())
}

fn ge_ops_text(w: &World, ops: &[GeOp]) -> String {
    ops.iter().map(|o| o.text(w)).collect::<Vec<_>>().join(" ")
}

async fn ge_direct_one(ctx: &mut Ctx, w: &World, oracle: HashMap<(u32, u32), HAns>, ops: &[GeOp], what: &str) {
    let mut bx = Boxes::new(w);
    let sh = Arc::new(Mutex::new(GeShared { oracle, log: vec![], answers: vec![] }));
    let mut mgr = GenEventManager::new(bx.registry.clone());
    let mut sends: Vec<String> = vec![];
    let mut got: Vec<(ExternalPid, OwnedTerm)> = vec![];
    let mut results: Vec<String> = vec![];
    for op in ops {
        match op {
            GeOp::Msg(m, e) => {
                bx.apply(w, *e).await;
                let r = mgr.handle_message(m.real(w)).await;
                if r.is_err() {
                    ctx.fail("c18b-event-manager-ended", &format!("{} message={} (no callback result ends an event manager)", what, m.text()));
                }
                let arrived = bx.drain(w);
                if arrived.len() > 1 {
                    ctx.fail("c18b-more-than-one-message-for-one-message", &format!("{} message={} arrived={}", what, m.text(), got_text(&arrived)));
                }
                for (p, b) in &arrived {
                    sends.push(format!("send:{}:{}", pid_text(p), canon_body(b)));
                }
                got.extend(arrived);
            }
            GeOp::Add(u, h, a) => {
                let r = mgr.add_handler(Box::new(ScriptedHandler { uid: *u, hid: h.clone(), n: 0, sh: sh.clone() }), a.clone()).await;
                results.push(if r.is_ok() { "ok".into() } else { "err".into() });
            }
            GeOp::Del(k) => {
                let r = mgr.delete_handler(k.clone()).await;
                results.push(if r.is_ok() { "ok".into() } else { "err".into() });
            }
            GeOp::Term => Process::terminate(&mut mgr).await,
        }
    }
    let g = sh.lock().unwrap();
    let req = ge_ops_text(w, ops);
    if let Some(why) = life_check(&g) {
        ctx.fail("c18b-handler-called-after-it-left", &format!("{}: {} oracle={} ops={}", what, why, oracle_text(&g.oracle), req));
    }
    ctx.tie("ge", &format!("c18bge {} {}", oracle_text(&g.oracle), req), &format!("{}|{}|{}", per_uid_text(&g.log), join_or("&", &sends), join_or(",", &results)));
    ctx.prop("gen", &format!("c18bgespec {} {}", got_text(&got), req), "ok");
    ctx.count("ge_direct_cases");
    ctx.add("ge_direct_replies", got.len() as u64);
    ctx.add("ge_direct_callbacks", g.log.len() as u64);
}

fn gen_ge_ops(r: &mut Rng, w: &World, direct: bool) -> (u32, Vec<GeOp>) {
    let first = r.below(4) as u32;
    let mut ops = vec![];
    for u in 1..=first {
        // mostly distinct ids, sometimes the id of a handler that is already there (the entry is overwritten)
        let h = if r.chance(1, 6) { hid(0) } else { hid(u as usize - 1) };
        ops.push(GeOp::Add(u, h, small(r)));
    }
    let mut env = Env { a: true, b: true, closed: r.chance(1, 2) };
    let mut refs = 0u32;
    let n = r.range(2, 10) as usize;
    let mut extra = first;
    for _ in 0..n {
        if direct && r.chance(1, 12) {
            ops.push(GeOp::Del(hid(r.below(HIDS as u64) as usize)));
        } else if direct && r.chance(1, 14) {
            extra += 1;
            ops.push(GeOp::Add(20 + extra, hid(r.below(HIDS as u64) as usize), small(r)));
        } else {
            if direct {
                env = Env::pick(r, env);
            }
            ops.push(GeOp::Msg(gen_msg(r, true, w, &mut refs), env));
        }
    }
    // what is installed in the end shows in a last event and a last which_handlers
    ops.push(GeOp::Msg(Msg::Regular(None, tup(vec![atom("$gen_notify"), atom("probe")])), Env { a: true, b: true, closed: env.closed }));
    ops.push(GeOp::Msg(
        Msg::Regular(None, tup(vec![atom("$gen_which_handlers"), tup(vec![pidt(&w.a), OwnedTerm::Reference(ExternalReference::new(w.node.clone(), 1, vec![9999]))])])),
        Env { a: true, b: true, closed: env.closed },
    ));
    if direct {
        ops.push(GeOp::Term);
    }
    (first + 30, ops)
}

async fn gen_event_direct(ctx: &mut Ctx) {
    let w = World::direct("c18bge@localhost");
    let all = Env { a: true, b: true, closed: true };
    let call = |from: &ExternalPid, k: u32, h: OwnedTerm, req: OwnedTerm| {
        Msg::Regular(None, tup(vec![atom("$gen_call"), tup(vec![pidt(from), OwnedTerm::Reference(ExternalReference::new(w.node.clone(), 1, vec![k]))]), h, req]))
    };
    // directed: the reply to a caller with a closed mailbox, then a live caller; a handler that leaves by Remove is not
    // called again; a swap inside a call; a call for a handler that is not there
    let mut o = HashMap::new();
    o.insert((1u32, 2u32), HAns { kind: 1, val: atom("bye"), ..HAns::default() });
    o.insert((2u32, 1u32), HAns { kind: 2, val: atom("swapped"), new_uid: 100, new_key: hid(2), args: atom("swapargs"), ..HAns::default() });
    let ops = vec![
        GeOp::Add(1, hid(0), atom("a1")),
        GeOp::Add(2, hid(1), atom("a2")),
        GeOp::Msg(call(&w.closed, 1, hid(0), atom("q1")), all),
        GeOp::Msg(call(&w.a, 2, hid(0), atom("q2")), all),
        GeOp::Msg(call(&w.b, 3, hid(0), atom("q3")), all),
        GeOp::Msg(call(&w.a, 4, hid(1), atom("q4")), all),
        GeOp::Msg(call(&w.a, 5, hid(2), atom("q5")), all),
        GeOp::Msg(call(&w.a, 6, hid(1), atom("q6")), all),
        GeOp::Msg(Msg::Regular(Some(w.b.clone()), tup(vec![atom("$gen_sync_notify"), atom("ev")])), all),
        GeOp::Msg(Msg::Regular(Some(w.closed.clone()), tup(vec![atom("$gen_sync_notify"), atom("ev2")])), all),
        GeOp::Msg(Msg::Regular(None, tup(vec![atom("$gen_which_handlers"), tup(vec![pidt(&w.a), OwnedTerm::Reference(ExternalReference::new(w.node.clone(), 1, vec![7]))])])), all),
        GeOp::Term,
    ];
    ge_direct_one(ctx, &w, o, &ops, "directed").await;
    let cases = ctx.n(900, 9000);
    for i in 0..cases {
        let (_, ops) = gen_ge_ops(&mut ctx.rng, &w, true);
        let density = ctx.rng.range(1, 7);
        // the instances that can exist: 1..=3 (added first), 21.. (added later), 100.. (swapped in)
        let uids: Vec<u32> = ops.iter().filter_map(|o| if let GeOp::Add(u, _, _) = o { Some(*u) } else { None }).collect();
        let oracle = gen_oracle(&mut ctx.rng, &uids, density);
        ge_direct_one(ctx, &w, oracle, &ops, &format!("ge {}", i)).await;
    }
}

struct ManagerProcess {
    mgr: GenEventManager,
    handled: Arc<Mutex<usize>>,
}

impl Process for ManagerProcess {
    async fn handle_message(&mut self, msg: Message) -> edp_node::Result<()> {
        let r = self.mgr.handle_message(msg).await;
        *self.handled.lock().unwrap() += 1;
        r
    }
    async fn terminate(&mut self) {
        Process::terminate(&mut self.mgr).await
    }
}

/// `full`: as for the gen_server — the first message is a which_handlers from caller `a`, whose mailbox is full
async fn gen_event_node(ctx: &mut Ctx, full: bool) {
    let cases = if full { ctx.n(3, 30) } else { ctx.n(100, 1200) };
    for i in 0..cases {
        let Some(nw) = node_world().await else {
            ctx.fail("c18b-node-start-failed", &format!("ge node {}", i));
            continue;
        };
        let w = nw.w.clone();
        let fills = if full {
            match fill_a(&nw).await {
                Some(n) => n,
                None => {
                    ctx.fail("c18b-full-setup", &format!("ge node {}", i));
                    continue;
                }
            }
        } else {
            0
        };
        let (_, mut ops) = gen_ge_ops(&mut ctx.rng, &w, false);
        if full {
            let at = ops.iter().position(|o| matches!(o, GeOp::Msg(..))).unwrap_or(ops.len());
            let which = tup(vec![atom("$gen_which_handlers"), tup(vec![pidt(&w.a), OwnedTerm::Reference(ExternalReference::new(w.node.clone(), 1, vec![9998]))])]);
            ops.insert(at, GeOp::Msg(Msg::Regular(None, which), Env { a: true, b: true, closed: true }));
            let call = tup(vec![atom("$gen_call"), tup(vec![pidt(&w.a), OwnedTerm::Reference(ExternalReference::new(w.node.clone(), 1, vec![9997]))]), hid(0), atom("get")]);
            ops.insert(at + 1, GeOp::Msg(Msg::Regular(None, call), Env { a: true, b: true, closed: true }));
            ops.insert(at + 2, GeOp::Msg(Msg::Regular(Some(w.a.clone()), tup(vec![atom("$gen_sync_notify"), atom("ev")])), Env { a: true, b: true, closed: true }));
        }
        let env = Env { a: true, b: true, closed: true };
        for o in ops.iter_mut() {
            if let GeOp::Msg(m, e) = o {
                *e = env;
                // only what a Node can deliver: Regular messages; through `Node::send` the message has no sender
                if !matches!(m, Msg::Regular(..)) {
                    *m = Msg::Regular(None, atom("plain"));
                }
            }
        }
        let density = ctx.rng.range(1, 7);
        let oracle = gen_oracle(&mut ctx.rng, &[1, 2, 3], density);
        let sh = Arc::new(Mutex::new(GeShared { oracle, log: vec![], answers: vec![] }));
        let mut mgr = GenEventManager::new(nw.node.registry());
        for o in &ops {
            if let GeOp::Add(u, h, a) = o {
                let _ = mgr.add_handler(Box::new(ScriptedHandler { uid: *u, hid: h.clone(), n: 0, sh: sh.clone() }), a.clone()).await;
            }
        }
        let handled = Arc::new(Mutex::new(0usize));
        let Ok(mpid) = nw.node.spawn(ManagerProcess { mgr, handled: handled.clone() }).await else {
            ctx.fail("c18b-spawn-failed", &format!("ge node {}", i));
            continue;
        };
        let mut total = 0usize;
        for o in &ops {
            if let GeOp::Msg(Msg::Regular(from, body), _) = o {
                total += 1;
                match from {
                    // a sender can only be named through the process handle
                    Some(_) => {
                        if let Some(h) = nw.node.registry().get(&mpid).await {
                            let _ = h.send(Message::Regular { from: from.clone(), body: body.clone() }).await;
                        }
                    }
                    None => {
                        let _ = nw.node.send(&mpid, body.clone()).await;
                    }
                }
            }
        }
        if full {
            tokio::time::sleep(std::time::Duration::from_millis(40)).await;
            nw.ga.0.store(false, std::sync::atomic::Ordering::SeqCst);
        }
        let h2 = handled.clone();
        if !wait_until(move || *h2.lock().unwrap() >= total).await {
            ctx.fail("c18b-event-manager-ended", &format!("ge node {}: handled {} of {} messages", i, *handled.lock().unwrap(), total));
        }
        if nw.node.registry().get(&mpid).await.is_none() {
            ctx.fail("c18b-event-manager-ended", &format!("ge node {}: the manager process is gone", i));
        }
        if !fence(&nw).await {
            ctx.fail("c18b-callers-hung", &format!("ge node {}", i));
        }
        let g = sh.lock().unwrap();
        let (proj, got) = proj_text(&nw);
        let req = ge_ops_text(&w, &ops);
        if let Some(why) = life_check(&g) {
            ctx.fail("c18b-handler-called-after-it-left", &format!("ge node {}: {} oracle={} ops={}", i, why, oracle_text(&g.oracle), req));
        }
        ctx.tie("genode", &format!("c18bgen {} {}", oracle_text(&g.oracle), req), &format!("{}|{}", per_uid_text(&g.log), proj));
        ctx.prop("gen", &format!("c18bgespec {} {}", got_text(&got), req), "ok");
        if full {
            if !fills_in_order(&nw, fills) {
                ctx.fail("c18b-full-mailbox-lost-or-reordered", &format!("ge node: {} fillers, caller saw {} messages; ops={}", fills, nw.la.lock().unwrap().len(), req));
            }
            ctx.count("ge_node_full_caller");
            ctx.add("full_mailbox_fillers", fills as u64);
        }
        ctx.count("ge_node_cases");
        ctx.add("ge_node_replies", got.len() as u64);
    }
}

// ------------------------------------------------------------------------------------------------ entry

pub fn run(ctx: &mut Ctx) {
    let rt = tokio::runtime::Builder::new_current_thread().enable_all().build().unwrap();
    rt.block_on(async {
        let _epmd = FakeEpmd::start().await;
        gen_server_direct(ctx).await;
        gen_event_direct(ctx).await;
        gen_server_node(ctx, false).await;
        gen_event_node(ctx, false).await;
        gen_server_node(ctx, true).await;
        gen_event_node(ctx, true).await;
    });
}
