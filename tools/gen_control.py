#!/usr/bin/env python3
"""Translator for C08: re-extracts the control-message tables from crates/edp_client/src/control.rs.

Imported by tools/gen_tables.py (`run(read, emit, num)`); writes lean/EdpVerif/Generated/Control.lean
(`Edp.Gen.controlTable : Edp.Control.Table`).  Extracted on every run:

  * `enum ControlMessageType`            every `Name = n`
  * `impl TryFrom<u8> for ..`            every `n => Ok(Self::Name)` (and that the rest is `Err`)
  * `enum ControlMessage`                every variant with its declared fields and their types
  * `unlink_id_from_term`, `unlink_id_to_term`   the whole body, as a normalised text (error values elided)
  * `from_term`                          the prelude checks (as a set of required patterns) and, per arm of the
                                         `match ControlMessageType::from_u8(msg_type)`: type name, arity guard, the
                                         variant built, and for each field the element index it is filled from
  * `to_term`, `into_term`               per arm: variant, the `ControlMessageType::X as i64` head, element order

Everything the hand-written interpreter in Impl/Control.lean assumes about the *shape* of the code is checked here
as a pattern; a pattern that no longer matches prints `BROKEN Control: ..` (check.py treats it like a broken proof).
Matching is whitespace-insensitive and independent of the order of arms, variants and fields.
"""
import re

SRC = "crates/edp_client/src/control.rs"


def strip_comments(s):
    out = []
    i, n = 0, len(s)
    while i < n:
        c = s[i]
        if c == '"':
            j = i + 1
            while j < n and s[j] != '"':
                j += 2 if s[j] == "\\" else 1
            out.append(s[i:j + 1])
            i = j + 1
        elif s.startswith("//", i):
            j = s.find("\n", i)
            i = n if j < 0 else j
        elif s.startswith("/*", i):
            j = s.find("*/", i + 2)
            i = n if j < 0 else j + 2
        else:
            out.append(c)
            i += 1
    return "".join(out)


OPEN = {"(": ")", "[": "]", "{": "}"}
CLOSE = {")", "]", "}"}


def skip_string(s, i):
    """s[i] == '"' -> index just after the closing quote"""
    j = i + 1
    while j < len(s) and s[j] != '"':
        j += 2 if s[j] == "\\" else 1
    return j + 1


def match_close(s, i):
    """s[i] is an opening bracket -> index of the matching closing bracket (or -1)"""
    depth = 0
    j = i
    while j < len(s):
        c = s[j]
        if c == '"':
            j = skip_string(s, j)
            continue
        if c in OPEN:
            depth += 1
        elif c in CLOSE:
            depth -= 1
            if depth == 0:
                return j
        j += 1
    return -1


def block_after(s, pattern, opener="{"):
    """inner text of the first `opener`-block that follows the first match of `pattern`"""
    m = re.search(pattern, s)
    if not m:
        return None
    i = s.find(opener, m.end() - (1 if m.group(0).endswith(opener) else 0))
    if i < 0:
        return None
    j = match_close(s, i)
    if j < 0:
        return None
    return s[i + 1:j]


def split_top(s, sep=","):
    """split at `sep` outside brackets and strings"""
    parts, depth, cur, i = [], 0, [], 0
    while i < len(s):
        c = s[i]
        if c == '"':
            j = skip_string(s, i)
            cur.append(s[i:j])
            i = j
            continue
        if c in OPEN:
            depth += 1
        elif c in CLOSE:
            depth -= 1
        if c == sep and depth == 0:
            parts.append("".join(cur))
            cur = []
        else:
            cur.append(c)
        i += 1
    parts.append("".join(cur))
    return [p.strip() for p in parts if p.strip()]


def split_arms(s):
    """arms of a `match` body: [(pattern text, body text)]"""
    arms = []
    i, n = 0, len(s)
    while i < n:
        # pattern: up to `=>` at depth 0
        depth, j = 0, i
        found = -1
        while j < n:
            c = s[j]
            if c == '"':
                j = skip_string(s, j)
                continue
            if c in OPEN:
                depth += 1
            elif c in CLOSE:
                depth -= 1
            elif depth == 0 and s.startswith("=>", j):
                found = j
                break
            j += 1
        if found < 0:
            break
        pat = s[i:found].strip()
        k = found + 2
        while k < n and s[k].isspace():
            k += 1
        if k < n and s[k] == "{":
            e = match_close(s, k)
            body = s[k:e + 1]
            k = e + 1
            while k < n and (s[k].isspace() or s[k] == ","):
                k += 1
        else:
            depth, e = 0, k
            while e < n:
                c = s[e]
                if c == '"':
                    e = skip_string(s, e)
                    continue
                if c in OPEN:
                    depth += 1
                elif c in CLOSE:
                    depth -= 1
                elif c == "," and depth == 0:
                    break
                e += 1
            body = s[k:e]
            k = e + 1
        arms.append((pat, body.strip()))
        i = k
    return arms


def squash(s):
    """remove whitespace that separates punctuation, keep single spaces between words; drop trailing commas"""
    s = re.sub(r"\s+", " ", s.strip())
    s = re.sub(r" ?([(){}\[\],:;&*=<>!.]) ?", r"\1", s)
    s = re.sub(r",([)\]}])", r"\1", s)
    return s


def tight(s):
    """squash, then drop every space that is not between two word characters"""
    return re.sub(r"(?<=\W) | (?=\W)", "", squash(s))


def elide(s, heads=("Err(", "map_err(")):
    """replace the (balanced) argument of every `Err(..)` / `map_err(..)` by `…`: error values are one class"""
    out, i = [], 0
    while i < len(s):
        for h in heads:
            if s.startswith(h, i) and (i == 0 or not (s[i - 1].isalnum() or s[i - 1] == "_")):
                j = match_close(s, i + len(h) - 1)
                if j > 0:
                    out.append(h + "…)")
                    i = j + 1
                    break
        else:
            out.append(s[i])
            i += 1
    return "".join(out)


# the two helpers the unlink arms call, whitespace- and error-text-insensitive (Impl/Control.lean:
# `unlinkIdFromTerm`, `unlinkIdToTerm` are written against exactly this text)
UNLINK_FROM_SIG = ("term:&OwnedTerm,what:&str", "Result<u64>")
UNLINK_FROM_BODY = (
    "match term{OwnedTerm::Integer(i)=>u64::try_from(*i).map_err(…),"
    "OwnedTerm::BigInt(big)=>{let significant=big.digits.iter().rposition(|&d|d!=0).map_or(0,|p|p+1);"
    "if significant>0&&big.sign.is_negative(){return Err(…);}"
    "if significant>8{return Err(…);}"
    "Ok(big.digits[..significant].iter().rev().fold(0u64,|acc,&digit|(acc<<8)|digit as u64))}"
    "_=>Err(…)}")
UNLINK_TO_SIG = ("id:u64", "OwnedTerm")
UNLINK_TO_BODY = ("match i64::try_from(id){Ok(i)=>OwnedTerm::Integer(i),"
                  "Err(…)=>OwnedTerm::BigInt(BigInt::new(false,id.to_le_bytes().to_vec()))}")


def lstr(s):
    return '"' + s + '"'


def run(read, emit, num):
    broken = []
    raw = read(SRC)
    table = {"enum": [], "try": [], "variants": [], "from": [], "to": [], "into": []}
    if raw is None:
        broken.append(SRC + " missing")
        raw = ""
    src = strip_comments(raw)

    # --- enum ControlMessageType -------------------------------------------------------------------------------
    b = block_after(src, r"\benum\s+ControlMessageType\b")
    if b is None:
        broken.append("enum ControlMessageType not found")
    else:
        for item in split_top(b):
            m = re.fullmatch(r"(\w+)\s*=\s*([0-9_]+)", item)
            if not m:
                broken.append(f"enum ControlMessageType: unrecognised item `{squash(item)[:60]}`")
                continue
            table["enum"].append((m.group(1), num(m.group(2))))
        if not re.search(r"#\[repr\(u8\)\]\s*pub\s+enum\s+ControlMessageType", src):
            broken.append("enum ControlMessageType is no longer #[repr(u8)]")

    # --- TryFrom<u8> / from_u8 / as_u8 --------------------------------------------------------------------------
    b = block_after(src, r"\bimpl\s+TryFrom\s*<\s*u8\s*>\s*for\s+ControlMessageType\b")
    mb = block_after(b, r"\bmatch\s+value\s*\{") if b else None
    if mb is None:
        broken.append("TryFrom<u8> for ControlMessageType: `match value` not found")
    else:
        default = False
        for pat, body in split_arms(mb):
            m = re.fullmatch(r"[0-9_]+", pat)
            mo = re.fullmatch(r"Ok\(Self::(\w+)\)", squash(body))
            if m and mo:
                table["try"].append((num(pat), mo.group(1)))
            elif pat == "_" and re.fullmatch(r"Err\(value\)", squash(body)):
                default = True
            else:
                broken.append(f"TryFrom<u8>: unrecognised arm `{squash(pat)[:40]} => {squash(body)[:40]}`")
        if not default:
            broken.append("TryFrom<u8>: default arm `_ => Err(value)` not found")
    b = block_after(src, r"\bfn\s+from_u8\s*\(")
    if b is None or squash(b) != "value.try_into().ok()":
        broken.append("from_u8 is no longer `value.try_into().ok()`")

    # --- the unlink-id helpers ------------------------------------------------------------------------------------------
    for fn_, sig, want in (("unlink_id_from_term", UNLINK_FROM_SIG, UNLINK_FROM_BODY),
                           ("unlink_id_to_term", UNLINK_TO_SIG, UNLINK_TO_BODY)):
        m = re.search(r"\bfn\s+" + fn_ + r"\s*\(([^)]*)\)\s*->\s*([^{]+)\{", src)
        hb = block_after(src, r"\bfn\s+" + fn_ + r"\s*\(")
        if not m or hb is None:
            broken.append(f"fn {fn_} not found")
        elif (tight(m.group(1)), tight(m.group(2))) != sig:
            broken.append(f"fn {fn_}: signature changed to ({tight(m.group(1))}) -> {tight(m.group(2))}")
        elif elide(tight(hb)) != want:
            broken.append(f"fn {fn_}: body is no longer the modelled one: `{elide(tight(hb))[:200]}`")

    # --- enum ControlMessage ---------------------------------------------------------------------------------------
    b = block_after(src, r"\benum\s+ControlMessage\b(?!Type)")
    generic_decl = False
    if b is None:
        broken.append("enum ControlMessage not found")
    else:
        for item in split_top(b):
            item = re.sub(r"#\[[^\]]*\]", "", item).strip()
            m = re.fullmatch(r"(\w+)\s*(\{(.*)\})?", item, re.S)
            if not m:
                broken.append(f"enum ControlMessage: unrecognised variant `{squash(item)[:60]}`")
                continue
            name, fields = m.group(1), []
            for f in split_top(m.group(3) or ""):
                fm = re.fullmatch(r"(?:pub\s+)?(\w+)\s*:\s*(.+)", f, re.S)
                if not fm:
                    broken.append(f"enum ControlMessage::{name}: unrecognised field `{squash(f)[:40]}`")
                    continue
                fields.append((fm.group(1), squash(fm.group(2))))
            if name == "Generic":
                generic_decl = fields == [("message_type", "u8"), ("fields", "Vec<OwnedTerm>")]
                continue
            for fn_, ty in fields:
                if ty not in ("OwnedTerm", "u64"):
                    broken.append(f"enum ControlMessage::{name}.{fn_}: type `{ty}` is not modelled")
            table["variants"].append((name, [(fn_, ty == "u64") for fn_, ty in fields]))
        if not generic_decl:
            broken.append("ControlMessage::Generic is no longer { message_type: u8, fields: Vec<OwnedTerm> }")

    # --- from_term -------------------------------------------------------------------------------------------------------
    ft = block_after(src, r"\bfn\s+from_term\s*\(\s*term\s*:\s*&\s*OwnedTerm\s*\)")
    if ft is None:
        broken.append("fn from_term(term: &OwnedTerm) not found")
    else:
        sq = squash(ft)
        prelude = {
            "elements = term.as_tuple().ok_or_else(..)?.to_vec()": r"let mut elements=term\.as_tuple\(\)\.ok_or_else\(.*?\)\?\.to_vec\(\);",
            "empty tuple is an error": r"if elements\.is_empty\(\)\{return Err\(",
            "type = elements[0].as_integer() or error": r"let msg_type_raw=elements\[0\]\.as_integer\(\)\.ok_or_else\(.*?\)\?;",
            "range check 0..=255 or error": r"if!\(0\.\.=255\)\.contains\(&msg_type_raw\)\{return Err\(",
            "msg_type = msg_type_raw as u8": r"let msg_type=msg_type_raw as u8;",
        }
        pos = 0
        for what, pat in prelude.items():
            m = re.compile(pat, re.S).search(sq, pos)
            if not m:
                broken.append(f"from_term prelude: `{what}` not found (or out of order)")
            else:
                pos = m.end()
        mb = block_after(ft, r"\bmatch\s+ControlMessageType::from_u8\s*\(\s*msg_type\s*\)\s*\{")
        if mb is None:
            broken.append("from_term: `match ControlMessageType::from_u8(msg_type)` not found")
        else:
            seen_default = False
            for pat, body in split_arms(mb):
                p, bq = squash(pat), squash(body)
                if seen_default:
                    broken.append(f"from_term: arm `{p[:50]}` after the default arm")
                if p == "_":
                    seen_default = True
                    if not re.fullmatch(
                            r"Ok\(ControlMessage::Generic\{(message_type:msg_type,fields:elements\[1\.\.\]\.to_vec\(\)"
                            r"|fields:elements\[1\.\.\]\.to_vec\(\),message_type:msg_type)\}\)", bq):
                        broken.append("from_term: default arm is no longer Generic{message_type: msg_type, fields: elements[1..].to_vec()}")
                    continue
                m = re.fullmatch(r"Some\(ControlMessageType::(\w+)\)if elements\.len\(\)==([0-9_]+)", p)
                if not m:
                    broken.append(f"from_term: unrecognised arm pattern `{p[:70]}`")
                    continue
                ty, arity = m.group(1), num(m.group(2))
                # statements before the final Ok(..)
                inner = bq[1:-1] if bq.startswith("{") and bq.endswith("}") else bq
                mo = re.search(r"Ok\(ControlMessage::(\w+)(\{(.*)\})?\)$", inner, re.S)
                if not mo:
                    broken.append(f"from_term arm {ty}: result is not `Ok(ControlMessage::V {{..}})`")
                    continue
                variant = mo.group(1)
                stmts = inner[:mo.start()]
                lets = {}
                rest = stmts
                for lm in re.finditer(
                        r"let (\w+)=unlink_id_from_term\(&elements\[([0-9_]+)\],\"[^\"]*\"\)\?;", stmts, re.S):
                    lets[lm.group(1)] = num(lm.group(2))
                    rest = rest.replace(lm.group(0), "")
                if rest.strip():
                    broken.append(f"from_term arm {ty}: unrecognised statements `{rest[:60]}`")
                uids, elems = [], []
                for f in split_top(mo.group(3) or ""):
                    fm = re.fullmatch(r"(\w+):(.+)", f, re.S)
                    if not fm and re.fullmatch(r"\w+", f):
                        fm = re.fullmatch(r"(\w+)", f)  # field-init shorthand `id` = `id: id`
                        name, ex = f, f
                    elif not fm:
                        broken.append(f"from_term arm {ty}: unrecognised field initialiser `{f[:50]}`")
                        continue
                    else:
                        name, ex = fm.group(1), fm.group(2)
                    em = re.fullmatch(r"elements\[([0-9_]+)\]\.clone\(\)|mem::take\(&mut elements\[([0-9_]+)\]\)", ex)
                    um = re.fullmatch(r"(\w+)", ex)
                    if em:
                        elems.append((name, "elem", num(em.group(1) or em.group(2))))
                    elif um and um.group(1) in lets:
                        uids.append((name, "uid", lets[um.group(1)]))
                    else:
                        broken.append(f"from_term arm {ty}: initialiser of `{name}` not modelled: `{ex[:50]}`")
                # evaluation order: the `let` statements run before the struct literal
                table["from"].append((ty, arity, variant, uids + elems))
            if not seen_default:
                broken.append("from_term: default arm not found")

    # --- to_term / into_term -------------------------------------------------------------------------------------------
    def serialiser(fn_name, sig, key, fld_re, uid_re, generic_re):
        fb = block_after(src, r"\bfn\s+" + fn_name + r"\s*\(\s*" + sig + r"\s*\)")
        mb_ = block_after(fb, r"\bmatch\s+self\s*\{") if fb else None
        if mb_ is None:
            broken.append(f"{fn_name}: `match self` not found")
            return
        if squash(fb).find("match self{") != 0:
            broken.append(f"{fn_name}: statements before `match self`")
        seen_generic = False
        for pat, body in split_arms(mb_):
            p, bq = squash(pat), squash(body)
            m = re.fullmatch(r"ControlMessage::(\w+)(\{(.*)\})?", p)
            if not m:
                broken.append(f"{fn_name}: unrecognised arm pattern `{p[:60]}`")
                continue
            variant = m.group(1)
            binds = split_top(m.group(3) or "")
            if variant == "Generic":
                seen_generic = True
                if sorted(binds) != ["fields", "message_type"] or not re.fullmatch(generic_re, bq):
                    broken.append(f"{fn_name}: Generic arm no longer builds [Integer(message_type as i64)] ++ fields")
                continue
            if any(not re.fullmatch(r"\w+", x) for x in binds):
                broken.append(f"{fn_name} arm {variant}: binding pattern `{p[:60]}` not modelled")
                continue
            mo = re.fullmatch(r"OwnedTerm::Tuple\(vec!\[(.*)\]\)", bq, re.S)
            if not mo:
                broken.append(f"{fn_name} arm {variant}: body is not `OwnedTerm::Tuple(vec![..])`")
                continue
            els = split_top(mo.group(1))
            hm = re.fullmatch(r"OwnedTerm::Integer\(ControlMessageType::(\w+) as i64\)", els[0]) if els else None
            if not hm:
                broken.append(f"{fn_name} arm {variant}: first element is not `Integer(ControlMessageType::X as i64)`")
                continue
            outs = []
            for e in els[1:]:
                f1, u1 = re.fullmatch(fld_re, e), re.fullmatch(uid_re, e)
                if f1 and f1.group(1) in binds:
                    outs.append(("fld", f1.group(1)))
                elif u1 and u1.group(1) in binds:
                    outs.append(("uid", u1.group(1)))
                else:
                    broken.append(f"{fn_name} arm {variant}: element `{e[:50]}` not modelled")
            table[key].append((variant, hm.group(1), outs))
        if not seen_generic:
            broken.append(f"{fn_name}: Generic arm not found")

    serialiser("to_term", r"&\s*self", "to", r"(\w+)\.clone\(\)", r"unlink_id_to_term\(\*(\w+)\)",
               r"\{let mut elements=vec!\[OwnedTerm::Integer\(\*message_type as i64\)\];"
               r"elements\.extend_from_slice\(fields\);OwnedTerm::Tuple\(elements\)\}")
    serialiser("into_term", r"self", "into", r"(\w+)", r"unlink_id_to_term\((\w+)\)",
               r"\{let mut elements=vec!\[OwnedTerm::Integer\(message_type as i64\)\];"
               r"elements\.extend\(fields\);OwnedTerm::Tuple\(elements\)\}")

    for k in ("enum", "try", "variants", "from", "to", "into"):
        if not table[k]:
            broken.append(f"nothing extracted for `{k}`")

    # --- emit ---------------------------------------------------------------------------------------------------------------
    def src_(kind, i):
        return f".{kind} {i}"

    def out_(kind, f):
        return f".{kind} {lstr(f)}"

    body = "import EdpVerif.Impl.Control\nnamespace Edp.Gen\nopen Edp.Control\n\n"
    body += "/-- extracted from " + SRC + " -/\ndef controlTable : Table where\n"
    body += "  enumTags := [\n" + ",\n".join(f"    ({lstr(n)}, {v})" for n, v in table["enum"]) + "]\n"
    body += "  tryFrom := [\n" + ",\n".join(f"    ({v}, {lstr(n)})" for v, n in table["try"]) + "]\n"
    body += "  variants := [\n" + ",\n".join(
        f"    ({lstr(n)}, [" + ", ".join(f"({lstr(f)}, {'true' if u else 'false'})" for f, u in fs) + "])"
        for n, fs in table["variants"]) + "]\n"
    body += "  fromArms := [\n" + ",\n".join(
        f"    {{ ty := {lstr(ty)}, arity := {ar}, variant := {lstr(v)}, fields := ["
        + ", ".join(f"({lstr(f)}, {src_(k, i)})" for f, k, i in fs) + "] }"
        for ty, ar, v, fs in table["from"]) + "]\n"
    for key, fld in (("to", "toArms"), ("into", "intoArms")):
        body += f"  {fld} := [\n" + ",\n".join(
            f"    {{ variant := {lstr(v)}, head := {lstr(h)}, outs := [" + ", ".join(out_(k, f) for k, f in outs) + "] }"
            for v, h, outs in table[key]) + "]\n"
    body += "\nend Edp.Gen\n"
    emit("Control", body, broken)
