import EdpVerif.Impl.DecodeCtx
/-!
C13, clause 3 and the tie between the two models of the zero-copy decoder: the parser family WITH its error context
(`decC`, Impl/DecodeCtx.lean) does exactly what the context-free generic model in its zero-copy configuration does
(`dec x cBorrowed`, Impl/Decode.lean) — same term, same rest, same error — and on the way never underflows
`original_len - input.len()`, never hands a sub-parser more bytes than it got, and keeps every offset it leaves behind or
reports between the start of the term being parsed and the end of the input.  One lemma per tag with a context
(`ctx_<tag>`), `ctx_inv` dispatches; the top-level statements are in Props/C13.lean.
-/
set_option linter.unusedSectionVars false
namespace Edp

/-- what a parser with context (`c`) and its context-free twin (`d`) have to do with each other on an input of `bl`
bytes that starts at or behind offset `lo` of an original input of `orig` bytes: same result and rest; the rest is not
longer than the input; every offset left behind or reported lies between `lo` and `orig`; no underflow -/
def RelT {α : Type} (orig bl lo : Nat) : BRes α → Except DErr (α × Bytes) → Prop
  | .ok v r off, d => d = .ok (v, r) ∧ r.length ≤ bl ∧ lo ≤ off ∧ off ≤ orig
  | .fail e o _, d => d = .error e ∧ lo ≤ o ∧ o ≤ orig
  | .panic, _ => False

def InvT (x : Ext) (orig fuel : Nat) : Prop :=
  ∀ depth path bs, bs.length ≤ orig →
    RelT orig bs.length (orig - bs.length) (decC x orig fuel depth path bs) (dec x cBorrowed fuel depth bs)
def InvN (x : Ext) (orig fuel : Nat) : Prop :=
  ∀ depth path k i n bs off lo, bs.length ≤ orig → off ≤ orig → lo ≤ off → lo ≤ orig - bs.length →
    RelT orig bs.length lo (decCN x orig fuel depth path k i n bs off) (decN x cBorrowed fuel depth n bs)
def InvKV (x : Ext) (orig fuel : Nat) : Prop :=
  ∀ depth path n bs m off lo, bs.length ≤ orig → off ≤ orig → lo ≤ off → lo ≤ orig - bs.length →
    RelT orig bs.length lo (decCKV x orig fuel depth path n bs m off) (decKV x cBorrowed fuel depth n bs m)

theorem rdU_len {k : Nat} {bs : Bytes} {v : Nat} {r : Bytes} (h : rdU k bs = .ok (v, r)) : bs.length = k + r.length := by
  simp only [rdU] at h
  cases hr : rdN k bs with
  | none => simp [hr] at h
  | some p =>
    obtain ⟨a, b⟩ := p
    simp [hr] at h
    obtain ⟨rfl, rfl⟩ := h
    exact rdN_length k bs a b hr

theorem takeE_len {n : Nat} {bs a r : Bytes} (h : takeE n bs = .ok (a, r)) : r.length ≤ bs.length := by
  simp only [takeE, takeN] at h
  by_cases hn : n ≤ bs.length
  · simp [hn] at h; obtain ⟨_, rfl⟩ := h; simp
  · simp [hn] at h

theorem rdWords_len : ∀ (n : Nat) (bs : Bytes) (ids : List Nat) (r : Bytes), rdWords n bs = .ok (ids, r) → r.length ≤ bs.length := by
  intro n
  induction n with
  | zero => intro bs ids r h; simp [rdWords] at h; simp [h.2]
  | succ n ih =>
    intro bs ids r h
    simp only [rdWords] at h
    cases hr : rdU 4 bs with
    | error e => simp [hr] at h
    | ok p =>
      obtain ⟨w, b⟩ := p
      simp only [hr] at h
      cases hw : rdWords n b with
      | error e => simp [hw] at h
      | ok q =>
        obtain ⟨ws, b'⟩ := q
        simp [hw] at h
        have := ih b ws b' hw
        have := rdU_len hr
        obtain ⟨_, rfl⟩ := h
        omega

variable {x : Ext} {orig fuel : Nat}

set_option hygiene false in
macro "open_c" n:num : tactic => `(tactic| (
  rw [decC.eq_2, dec.eq_3]
  simp only [List.length_cons] at hl
  simp only [show ($n : UInt8).toNat = $n by decide, List.length_cons]
  have hnp : ¬ (r.length + 1 > orig) := by omega
  simp only [hnp, ↓reduceIte]
  by_cases hdep : depth > MAX_NESTING_DEPTH
  · simp [hdep, RelT]
  simp only [hdep, ↓reduceIte, show cBorrowed.borrowed = true from rfl, Bool.true_and,
    show ownedOnlyTags.contains $n = false by decide, show ctxLeafTags.contains $n = false by decide, Bool.false_eq_true]))

syntax "c_rd " term : tactic
set_option hygiene false in
macro_rules
  | `(tactic| c_rd $e) => `(tactic| (
    rcases hr : $e with e | ⟨v, r1⟩
    · first | (simp [RelT]; done) | (simp [RelT]; omega)
    try simp only []
    first | have hlen := rdU_len hr | have hlen := takeE_len hr | have hlen := rdWords_len _ _ _ _ hr))

syntax "c_sub " term:max term:max term:max : tactic
set_option hygiene false in
macro_rules
  | `(tactic| c_sub $d $p $b) => `(tactic| (
    have hsub := ih $d $p $b (by omega)
    revert hsub
    generalize decC x orig fuel $d $p $b = cres
    generalize dec x cBorrowed fuel $d $b = dres
    intro hsub
    rcases cres with ⟨t, r2, off2⟩ | ⟨e, o, q⟩ | _
    rotate_left
    · obtain ⟨rfl, hlo, ho⟩ := hsub; simp [RelT, ho]; omega
    · exact hsub.elim
    obtain ⟨rfl, hl2, hlo2, ho2⟩ := hsub
    try simp only []))

syntax "c_subN " term:max term:max term:max term:max term:max term:max term:max : tactic
set_option hygiene false in
macro_rules
  | `(tactic| c_subN $d $p $k $i $n $b $o) => `(tactic| (
    have hsub := ihN $d $p $k $i $n $b $o (orig - (r.length + 1)) (by omega) (by omega) (by omega) (by omega)
    revert hsub
    generalize decCN x orig fuel $d $p $k $i $n $b $o = cres
    generalize decN x cBorrowed fuel $d $n $b = dres
    intro hsub
    rcases cres with ⟨l, r2, off2⟩ | ⟨e, o, q⟩ | _
    rotate_left
    · obtain ⟨rfl, hlo, ho⟩ := hsub; simp [RelT, ho]; omega
    · exact hsub.elim
    obtain ⟨rfl, hl2, hlo2, ho2⟩ := hsub
    try simp only []))

syntax "c_if " term : tactic
set_option hygiene false in
macro_rules
  | `(tactic| c_if $c) => `(tactic| (
    by_cases hlim : $c
    · simp [hlim, RelT]; try omega
    simp only [hlim, ↓reduceIte]))

set_option hygiene false in
macro "c_kind" : tactic => `(tactic| (
  cases t <;> (first | (simp [RelT]; done) | (simp [RelT]; omega) | skip)
  rename_i pv
  try simp only []))
set_option hygiene false in
macro "c_fin" : tactic => `(tactic| (first | (simp [RelT]; done) | (simp [RelT]; omega) | (simp [RelT, *]; done) | (simp [RelT, *]; omega)))

syntax "c_subKV " term:max term:max term:max term:max term:max term:max : tactic
set_option hygiene false in
macro_rules
  | `(tactic| c_subKV $d $p $n $b $m $o) => `(tactic| (
    have hsub := ihKV $d $p $n $b $m $o (orig - (r.length + 1)) (by omega) (by omega) (by omega) (by omega)
    revert hsub
    generalize decCKV x orig fuel $d $p $n $b $m $o = cres
    generalize decKV x cBorrowed fuel $d $n $b $m = dres
    intro hsub
    rcases cres with ⟨l, r2, off2⟩ | ⟨e, o, q⟩ | _
    rotate_left
    · obtain ⟨rfl, hlo, ho⟩ := hsub; simp [RelT, ho]; omega
    · exact hsub.elim
    obtain ⟨rfl, hl2, hlo2, ho2⟩ := hsub
    try simp only []))

section
variable (ih : InvT x orig fuel) (ihN : InvN x orig fuel) (ihKV : InvKV x orig fuel)
variable (depth : Nat) (path : List Seg) (r : Bytes)
include ih ihN ihKV

theorem ctx_104 (hl : (104 :: r).length ≤ orig) :
    RelT orig (104 :: r).length (orig - (104 :: r).length) (decC x orig (fuel + 1) depth path (104 :: r)) (dec x cBorrowed (fuel + 1) depth (104 :: r)) := by
  open_c 104
  c_rd (rdU 1 r)
  c_subN (depth + 1) path SeqKind.tuple 0 v r1 (orig - (r.length + 1))
  c_fin

theorem ctx_105 (hl : (105 :: r).length ≤ orig) :
    RelT orig (105 :: r).length (orig - (105 :: r).length) (decC x orig (fuel + 1) depth path (105 :: r)) (dec x cBorrowed (fuel + 1) depth (105 :: r)) := by
  open_c 105
  c_rd (rdU 4 r)
  c_if (v > MAX_TUPLE_SIZE)
  c_subN (depth + 1) path SeqKind.tuple 0 v r1 (orig - (r.length + 1))
  c_fin

theorem ctx_88 (hl : (88 :: r).length ≤ orig) :
    RelT orig (88 :: r).length (orig - (88 :: r).length) (decC x orig (fuel + 1) depth path (88 :: r)) (dec x cBorrowed (fuel + 1) depth (88 :: r)) := by
  open_c 88
  c_sub (depth + 1) path r
  c_kind
  c_rd (rdU 4 r2)
  c_rd (rdU 4 r1)
  c_rd (rdU 4 r1)
  c_fin

theorem ctx_120 (hl : (120 :: r).length ≤ orig) :
    RelT orig (120 :: r).length (orig - (120 :: r).length) (decC x orig (fuel + 1) depth path (120 :: r)) (dec x cBorrowed (fuel + 1) depth (120 :: r)) := by
  open_c 120
  c_sub (depth + 1) path r
  c_kind
  c_rd (rdU 8 r2)
  c_rd (rdU 4 r1)
  c_fin

theorem ctx_89 (hl : (89 :: r).length ≤ orig) :
    RelT orig (89 :: r).length (orig - (89 :: r).length) (decC x orig (fuel + 1) depth path (89 :: r)) (dec x cBorrowed (fuel + 1) depth (89 :: r)) := by
  open_c 89
  c_sub (depth + 1) path r
  c_kind
  c_rd (rdU 4 r2)
  c_rd (rdU 4 r1)
  c_fin

theorem ctx_90 (hl : (90 :: r).length ≤ orig) :
    RelT orig (90 :: r).length (orig - (90 :: r).length) (decC x orig (fuel + 1) depth path (90 :: r)) (dec x cBorrowed (fuel + 1) depth (90 :: r)) := by
  open_c 90
  c_rd (rdU 2 r)
  c_sub (depth + 1) path r1
  c_kind
  c_rd (rdU 4 r2)
  rename_i len _ _ _
  c_rd (rdWords len r1)
  c_fin

theorem ctx_113 (hl : (113 :: r).length ≤ orig) :
    RelT orig (113 :: r).length (orig - (113 :: r).length) (decC x orig (fuel + 1) depth path (113 :: r)) (dec x cBorrowed (fuel + 1) depth (113 :: r)) := by
  open_c 113
  c_sub (depth + 1) path r
  c_kind
  c_sub (depth + 1) path r2
  c_kind
  c_sub (depth + 1) path r2
  c_kind
  split <;> c_fin

theorem ctx_108 (hl : (108 :: r).length ≤ orig) :
    RelT orig (108 :: r).length (orig - (108 :: r).length) (decC x orig (fuel + 1) depth path (108 :: r)) (dec x cBorrowed (fuel + 1) depth (108 :: r)) := by
  open_c 108
  c_rd (rdU 4 r)
  c_if (v > MAX_LIST_SIZE)
  c_subN (depth + 1) path SeqKind.list 0 v r1 (orig - (r.length + 1))
  c_sub (depth + 1) (path ++ [Seg.tail]) r2
  cases t <;> c_fin

theorem ctx_116 (hl : (116 :: r).length ≤ orig) :
    RelT orig (116 :: r).length (orig - (116 :: r).length) (decC x orig (fuel + 1) depth path (116 :: r)) (dec x cBorrowed (fuel + 1) depth (116 :: r)) := by
  open_c 116
  c_rd (rdU 4 r)
  c_if (v > MAX_MAP_SIZE)
  c_subKV (depth + 1) path v r1 [] (orig - (r.length + 1))
  c_fin

theorem ctx_112 (hl : (112 :: r).length ≤ orig) :
    RelT orig (112 :: r).length (orig - (112 :: r).length) (decC x orig (fuel + 1) depth path (112 :: r)) (dec x cBorrowed (fuel + 1) depth (112 :: r)) := by
  open_c 112
  c_rd (rdU 4 r)
  c_rd (rdU 1 r1)
  c_rd (takeE 16 r1)
  c_rd (rdU 4 r1)
  c_rd (rdU 4 r1)
  c_sub (depth + 1) path r1
  c_kind
  c_sub (depth + 1) path r2
  c_kind
  c_if (pv < 0)
  c_sub (depth + 1) path r2
  c_kind
  c_if (pv < 0)
  c_sub (depth + 1) path r2
  c_kind
  c_subN (depth + 1) path SeqKind.freeVar 0 v r2 off2
  c_fin

end

grind_pattern rdU_len => rdU k bs, Prod.mk v r
grind_pattern takeE_len => takeE n bs, Prod.mk a r

/-- the thirteen context-free parsers neither recurse nor look at the depth -/
theorem leaf_dec (x : Ext) (fuel depth : Nat) (tagB : UInt8) (r : Bytes) (hleaf : tagB.toNat ∈ ctxLeafTags)
    (hdep : ¬ depth > MAX_NESTING_DEPTH) :
    dec x cBorrowed (fuel + 1) depth (tagB :: r) = dec x cBorrowed 1 0 (tagB :: r) := by
  rw [dec.eq_3, dec.eq_3]
  simp only [hdep, ↓reduceIte, show ¬ (0 > MAX_NESTING_DEPTH) by decide]
  simp only [ctxLeafTags, List.mem_cons, List.mem_nil_iff, or_false] at hleaf
  rcases hleaf with h | h | h | h | h | h | h | h | h | h | h | h | h <;> simp only [h] <;> rfl

theorem leaf_len (x : Ext) (tagB : UInt8) (r : Bytes) (t : Term) (r' : Bytes) (hleaf : tagB.toNat ∈ ctxLeafTags)
    (h : dec x cBorrowed 1 0 (tagB :: r) = .ok (t, r')) : r'.length ≤ r.length + 1 := by
  rw [dec.eq_3] at h
  simp only [ctxLeafTags, List.mem_cons, List.mem_nil_iff, or_false] at hleaf
  rcases hleaf with h' | h' | h' | h' | h' | h' | h' | h' | h' | h' | h' | h' | h' <;>
    simp only [h', show ¬ (0 > MAX_NESTING_DEPTH) by decide, ↓reduceIte, show cBorrowed.borrowed = true from rfl, Bool.true_and,
      decAtomBody, decLatin1Body, decBig] at h <;>
    (try simp only [show ∀ n, (ownedOnlyTags.contains n = true) = (n ∈ ownedOnlyTags) by simp] at h) <;>
    (repeat' (split at h <;> try (simp at h; done))) <;>
    (try simp at h) <;>
    (first | omega | grind)

/-- a tag for which the zero-copy decoder has no parser: both models refuse, at this term's offset -/
theorem ctx_other (x : Ext) (orig fuel depth : Nat) (path : List Seg) (tagB : UInt8) (r : Bytes) (hl : (tagB :: r).length ≤ orig)
    (hleaf : ¬ tagB.toNat ∈ ctxLeafTags) (hnode : ¬ tagB.toNat ∈ ctxNodeTags) :
    RelT orig (tagB :: r).length (orig - (tagB :: r).length) (decC x orig (fuel + 1) depth path (tagB :: r))
      (dec x cBorrowed (fuel + 1) depth (tagB :: r)) := by
  rw [decC.eq_2, dec.eq_3]
  simp only [List.length_cons] at hl
  simp only [List.length_cons]
  have hnp : ¬ (r.length + 1 > orig) := by omega
  simp only [hnp, ↓reduceIte]
  by_cases hdep : depth > MAX_NESTING_DEPTH
  · simp [hdep, RelT]
  have hlf : ctxLeafTags.contains tagB.toNat = false := by simpa using hleaf
  simp only [hdep, ↓reduceIte, show cBorrowed.borrowed = true from rfl, Bool.true_and, hlf, Bool.false_eq_true]
  simp only [ctxLeafTags, ctxNodeTags, List.mem_cons, List.mem_nil_iff, or_false, not_or] at hleaf hnode
  have hC : ∀ (c : BRes Term), (c = .fail .err (orig - (r.length + 1)) path) →
      ∀ d : DRes, d = .error .err → RelT orig (r.length + 1) (orig - (r.length + 1)) c d := by
    intro c hc d hd; subst hc; subst hd; simp [RelT]
  apply hC
  · split <;> first | rfl | (exfalso; omega)
  · by_cases hoo : ownedOnlyTags.contains tagB.toNat = true
    · rw [if_pos hoo]
    · rw [if_neg hoo]
      split <;> first | rfl | (exfalso; omega) | (exfalso; simp [ownedOnlyTags] at hoo; omega)

/-- the context model against the context-free model of the zero-copy decoder, all fuels, depths, paths and inputs -/
theorem ctx_inv (x : Ext) (orig : Nat) : ∀ fuel, InvT x orig fuel ∧ InvN x orig fuel ∧ InvKV x orig fuel := by
  intro fuel
  induction fuel with
  | zero =>
    refine ⟨?_, ?_, ?_⟩
    · intro depth path bs hl
      have : ¬ (bs.length > orig) := by omega
      simp [decC, dec, this, RelT]
    · intro depth path k i n bs off lo hl ho hlo hlo2
      cases n with
      | zero => simp [decCN, decN, RelT]; omega
      | succ n => simp [decCN, decN, RelT]; omega
    · intro depth path n bs m off lo hl ho hlo hlo2
      cases n with
      | zero => simp [decCKV, decKV, RelT]; omega
      | succ n => simp [decCKV, decKV, RelT]; omega
  | succ fuel ihh =>
    obtain ⟨ih, ihN, ihKV⟩ := ihh
    refine ⟨?_, ?_, ?_⟩
    · intro depth path bs hl
      cases bs with
      | nil =>
        have hd : dec x cBorrowed (fuel + 1) depth [] = .error .err := by simp [dec]
        rw [decC.eq_2, hd]
        simp only [List.length_nil, Nat.not_lt_zero, ↓reduceIte, Nat.sub_zero, gt_iff_lt]
        split <;> simp [RelT]
      | cons tagB r =>
        by_cases hleaf : tagB.toNat ∈ ctxLeafTags
        · rw [decC.eq_2]
          simp only [List.length_cons] at hl
          simp only [List.length_cons]
          have hnp : ¬ (r.length + 1 > orig) := by omega
          simp only [hnp, ↓reduceIte]
          by_cases hdep : depth > MAX_NESTING_DEPTH
          · have hd : dec x cBorrowed (fuel + 1) depth (tagB :: r) = .error .err := by rw [dec.eq_3]; simp [hdep]
            simp [hdep, RelT, hd]
          have hlf : ctxLeafTags.contains tagB.toNat = true := by simpa using hleaf
          simp only [hdep, ↓reduceIte, hlf]
          rw [leaf_dec x fuel depth tagB r hleaf hdep]
          cases hd : dec x cBorrowed 1 0 (tagB :: r) with
          | error e => simp [RelT]
          | ok pr =>
            obtain ⟨t, r'⟩ := pr
            have := leaf_len x tagB r t r' hleaf hd
            simp [RelT]; omega
        by_cases h104 : tagB.toNat = 104
        · have ht : tagB = 104 := UInt8.toNat_inj.mp (by simpa using h104)
          subst ht
          exact ctx_104 ih ihN ihKV depth path r hl
        by_cases h105 : tagB.toNat = 105
        · have ht : tagB = 105 := UInt8.toNat_inj.mp (by simpa using h105)
          subst ht
          exact ctx_105 ih ihN ihKV depth path r hl
        by_cases h108 : tagB.toNat = 108
        · have ht : tagB = 108 := UInt8.toNat_inj.mp (by simpa using h108)
          subst ht
          exact ctx_108 ih ihN ihKV depth path r hl
        by_cases h116 : tagB.toNat = 116
        · have ht : tagB = 116 := UInt8.toNat_inj.mp (by simpa using h116)
          subst ht
          exact ctx_116 ih ihN ihKV depth path r hl
        by_cases h88 : tagB.toNat = 88
        · have ht : tagB = 88 := UInt8.toNat_inj.mp (by simpa using h88)
          subst ht
          exact ctx_88 ih ihN ihKV depth path r hl
        by_cases h90 : tagB.toNat = 90
        · have ht : tagB = 90 := UInt8.toNat_inj.mp (by simpa using h90)
          subst ht
          exact ctx_90 ih ihN ihKV depth path r hl
        by_cases h120 : tagB.toNat = 120
        · have ht : tagB = 120 := UInt8.toNat_inj.mp (by simpa using h120)
          subst ht
          exact ctx_120 ih ihN ihKV depth path r hl
        by_cases h89 : tagB.toNat = 89
        · have ht : tagB = 89 := UInt8.toNat_inj.mp (by simpa using h89)
          subst ht
          exact ctx_89 ih ihN ihKV depth path r hl
        by_cases h113 : tagB.toNat = 113
        · have ht : tagB = 113 := UInt8.toNat_inj.mp (by simpa using h113)
          subst ht
          exact ctx_113 ih ihN ihKV depth path r hl
        by_cases h112 : tagB.toNat = 112
        · have ht : tagB = 112 := UInt8.toNat_inj.mp (by simpa using h112)
          subst ht
          exact ctx_112 ih ihN ihKV depth path r hl
        exact ctx_other x orig fuel depth path tagB r hl hleaf (by
          simp only [ctxNodeTags, List.mem_cons, List.mem_nil_iff, or_false, not_or]
          exact ⟨h104, h105, h108, h116, h88, h90, h120, h89, h113, h112⟩)
    · intro depth path k i n bs off lo hl ho hlo hlo2
      cases n with
      | zero => simp [decCN, decN, RelT]; omega
      | succ n =>
        simp only [decCN, decN]
        have hsub := ih depth (path ++ [k.seg i]) bs hl
        revert hsub
        generalize decC x orig fuel depth (path ++ [k.seg i]) bs = cres
        generalize dec x cBorrowed fuel depth bs = dres
        intro hsub
        rcases cres with ⟨t, r2, off2⟩ | ⟨e, o, q⟩ | _
        rotate_left
        · obtain ⟨rfl, hlo', ho'⟩ := hsub; simp [RelT, ho']; omega
        · exact hsub.elim
        obtain ⟨rfl, hl2, hlo2', ho2⟩ := hsub
        simp only []
        have hsubN := ihN depth path k (i + 1) n r2 off2 lo (by omega) ho2 (by omega) (by omega)
        revert hsubN
        generalize decCN x orig fuel depth path k (i + 1) n r2 off2 = cres
        generalize decN x cBorrowed fuel depth n r2 = dres
        intro hsubN
        rcases cres with ⟨l, r3, off3⟩ | ⟨e, o, q⟩ | _
        rotate_left
        · obtain ⟨rfl, hlo', ho'⟩ := hsubN; simp [RelT, ho']; omega
        · exact hsubN.elim
        obtain ⟨rfl, hl3, hlo3, ho3⟩ := hsubN
        simp [RelT]; omega
    · intro depth path n bs m off lo hl ho hlo hlo2
      cases n with
      | zero => simp [decCKV, decKV, RelT]; omega
      | succ n =>
        simp only [decCKV, decKV]
        have hsub := ih depth (path ++ [Seg.mapKey]) bs hl
        revert hsub
        generalize decC x orig fuel depth (path ++ [Seg.mapKey]) bs = cres
        generalize dec x cBorrowed fuel depth bs = dres
        intro hsub
        rcases cres with ⟨kt, r2, off2⟩ | ⟨e, o, q⟩ | _
        rotate_left
        · obtain ⟨rfl, hlo', ho'⟩ := hsub; simp [RelT, ho']; omega
        · exact hsub.elim
        obtain ⟨rfl, hl2, hlo2', ho2⟩ := hsub
        simp only []
        have hsub2 := ih depth (path ++ [Seg.mapValue (keyDisplay kt)]) r2 (by omega)
        revert hsub2
        generalize decC x orig fuel depth (path ++ [Seg.mapValue (keyDisplay kt)]) r2 = cres
        generalize dec x cBorrowed fuel depth r2 = dres
        intro hsub2
        rcases cres with ⟨vt, r3, off3⟩ | ⟨e, o, q⟩ | _
        rotate_left
        · obtain ⟨rfl, hlo', ho'⟩ := hsub2; simp [RelT, ho']; omega
        · exact hsub2.elim
        obtain ⟨rfl, hl3, hlo3, ho3⟩ := hsub2
        simp only []
        have hsubK := ihKV depth path n r3 (mapInsert m kt vt) off3 lo (by omega) ho3 (by omega) (by omega)
        revert hsubK
        generalize decCKV x orig fuel depth path n r3 (mapInsert m kt vt) off3 = cres
        generalize decKV x cBorrowed fuel depth n r3 (mapInsert m kt vt) = dres
        intro hsubK
        rcases cres with ⟨l, r4, off4⟩ | ⟨e, o, q⟩ | _
        · obtain ⟨rfl, hl4, hlo4, ho4⟩ := hsubK; simp [RelT]; omega
        · obtain ⟨rfl, hlo', ho'⟩ := hsubK; simp [RelT, ho']; omega
        · exact hsubK.elim

/-- the two top-level entry points -/
theorem ctx_top (x : Ext) (r : Bytes) :
    RelT (r.length + 1) r.length 1 (decC x (r.length + 1) (r.length + 1 + x.extra) 0 [] r)
      (dec x cBorrowed (r.length + 1 + x.extra) 0 r) := by
  have h := (ctx_inv x (r.length + 1) (r.length + 1 + x.extra)).1 0 [] r (by omega)
  have e : r.length + 1 - r.length = 1 := by omega
  rw [e] at h
  exact h

end Edp
