import EdpVerif.Impl.Handshake
import EdpVerif.Spec.Handshake
/-! Helper lemmas for C04: the model's decoders are the Spec parsers (hence never panic); the state machine refines the
protocol automaton of `Spec.Handshake`; how the automaton can reach `established`. -/
namespace Edp.Lemmas.Handshake
open Edp
open Edp.Impl.Handshake
open Edp.Spec.Handshake (Op Phase Conn Side Resp connStep connRun connResps parseAck parseChallenge parseStatus)

/-! ### the regenerated constants are the values the proofs below compute with
(if handshake.rs changes a tag, these stop compiling: the model would no longer be the Spec's message) -/

@[simp] theorem tagN_eq : tagN = 78 := by decide
@[simp] theorem tagNOld_eq : tagNOld = 110 := by decide
@[simp] theorem tagS_eq : tagS = 115 := by decide
@[simp] theorem tagA_eq : tagA = 97 := by decide
@[simp] theorem tagR_eq : tagR = 114 := by decide
@[simp] theorem tagC_eq : tagC = 99 := by decide
@[simp] theorem version5_eq : version5 = 5 := by decide

theorem rdN_some_of_le : ∀ (k : Nat) (bs : Bytes), k ≤ bs.length → ∃ v r, rdN k bs = some (v, r) := by
  intro k
  induction k with
  | zero => intro bs _; exact ⟨0, bs, rfl⟩
  | succ k ih =>
    intro bs h
    cases bs with
    | nil => simp at h
    | cons b bs =>
      obtain ⟨v, r, hr⟩ := ih bs (by simpa using h)
      exact ⟨b.toNat * 256 ^ k + v, r, by simp [rdN, hr]⟩

theorem rdN_none_of_lt : ∀ (k : Nat) (bs : Bytes), bs.length < k → rdN k bs = none := by
  intro k
  induction k with
  | zero => intro bs h; omega
  | succ k ih =>
    intro bs h
    cases bs with
    | nil => rfl
    | cons b bs => simp [rdN, ih bs (by simpa using h)]

/-- a successful read: the value, the rest, and how much is left -/
theorem getN_of_le (k : Nat) (bs : Bytes) (h : k ≤ bs.length) :
    ∃ v r, rdN k bs = some (v, r) ∧ getN k bs = .ok (v, r) ∧ bs.length = k + r.length := by
  obtain ⟨v, r, hr⟩ := rdN_some_of_le k bs h
  exact ⟨v, r, hr, by simp [getN, hr], rdN_length k bs v r hr⟩

/-! ### decoders = Spec parsers -/

theorem decodeAck_eq (bs : Bytes) :
    decodeAck bs = match parseAck bs with
      | some d => .ok d
      | none => .err .malformed := by
  cases bs with
  | nil => simp [decodeAck, parseAck]
  | cons t r =>
    by_cases ht : t = 97
    · by_cases hl : 16 ≤ r.length
      · simp [decodeAck, parseAck, getU8, copy16, ht, hl]
      · simp [decodeAck, parseAck, getU8, ht, hl]
    · simp [decodeAck, parseAck, getU8, ht]

def convMsg (m : Spec.Handshake.ChallengeMsg) : ChallengeMsg := ⟨m.flags, m.challenge, m.creation, m.name⟩

theorem decodeChallenge_eq (bs : Bytes) :
    decodeChallenge bs = match parseChallenge bs with
      | some m => .ok (convMsg m)
      | none => .err .malformed := by
  cases bs with
  | nil => simp [decodeChallenge, parseChallenge]
  | cons t r =>
    by_cases ht : t = 78
    · by_cases hl : r.length < 18
      · -- too short: some field read fails in the Spec
        have hspec : parseChallenge (t :: r) = none := by
          simp only [parseChallenge, ht]
          cases h8 : rdN 8 r with
          | none => simp
          | some p8 =>
            obtain ⟨f, r1⟩ := p8
            have l1 := rdN_length 8 r f r1 h8
            cases h4 : rdN 4 r1 with
            | none => simp [h4]
            | some p4 =>
              obtain ⟨c, r2⟩ := p4
              have l2 := rdN_length 4 r1 c r2 h4
              cases h4' : rdN 4 r2 with
              | none => simp [h4, h4']
              | some p4' =>
                obtain ⟨cr, r3⟩ := p4'
                have l3 := rdN_length 4 r2 cr r3 h4'
                have : rdN 2 r3 = none := rdN_none_of_lt 2 r3 (by omega)
                simp [h4, h4', this]
        rw [hspec]
        simp [decodeChallenge, getU8, ht, hl]
      · have hl' : 18 ≤ r.length := by omega
        obtain ⟨f, r1, h8, g8, l1⟩ := getN_of_le 8 r (by omega)
        obtain ⟨c, r2, h4, g4, l2⟩ := getN_of_le 4 r1 (by omega)
        obtain ⟨cr, r3, h4', g4', l3⟩ := getN_of_le 4 r2 (by omega)
        obtain ⟨nl, r4, h2, g2, l4⟩ := getN_of_le 2 r3 (by omega)
        have hnot : ¬ (r.length < 8 + 4 + 4 + 2) := by omega
        simp only [decodeChallenge, parseChallenge, getU8, tagN_eq, ht, h8, h4, h4', h2, g8, g4, g4', g2, HRes.bind_ok]
        by_cases hn : nl ≤ r4.length
        · by_cases hu : validUtf8 (r4.take nl) = true
          · simp [hnot, hn, hu, sliceTo, convMsg]
          · simp [hnot, hn, hu, sliceTo]
        · simp [hnot, hn, sliceTo]
    · simp [decodeChallenge, parseChallenge, getU8, ht]

def convStatus : Spec.Handshake.Status → Status
  | .ok => .ok
  | .okSimultaneous => .okSimultaneous
  | .nok => .nok
  | .notAllowed => .notAllowed
  | .alive => .alive

theorem convStatus_isOk (s : Spec.Handshake.Status) : (convStatus s).isOk = s.accepts := by
  cases s <;> rfl

theorem decodeStatus_eq (bs : Bytes) :
    decodeStatus bs = match parseStatus bs with
      | some s => .ok (convStatus s)
      | none => .err .malformed := by
  cases bs with
  | nil => simp [decodeStatus, parseStatus]
  | cons t r =>
    by_cases ht : t = 115
    · simp only [decodeStatus, parseStatus, getU8, tagS_eq, ht, HRes.bind_ok,
        Spec.Handshake.txtOk, Spec.Handshake.txtOkSimultaneous, Spec.Handshake.txtNok,
        Spec.Handshake.txtNotAllowed, Spec.Handshake.txtAlive]
      by_cases h1 : r = [111, 107]
      · subst h1; simp [convStatus]; decide
      by_cases h2 : r = [111, 107, 95, 115, 105, 109, 117, 108, 116, 97, 110, 101, 111, 117, 115]
      · subst h2; simp [convStatus]; decide
      by_cases h3 : r = [110, 111, 107]
      · subst h3; simp [convStatus]; decide
      by_cases h4 : r = [110, 111, 116, 95, 97, 108, 108, 111, 119, 101, 100]
      · subst h4; simp [convStatus]; decide
      by_cases h5 : r = [97, 108, 105, 118, 101]
      · subst h5; simp [convStatus]; decide
      simp [h1, h2, h3, h4, h5]
    · simp [decodeStatus, parseStatus, getU8, ht]


/-! ### the two decoders the state machine does not use -/

theorem decodeReply_no_panic (bs : Bytes) : decodeReply bs ≠ .panic := by
  cases bs with
  | nil => simp [decodeReply]
  | cons t r =>
    by_cases ht : t = 114
    · by_cases hl : r.length < 20
      · simp [decodeReply, getU8, ht, hl]
      · obtain ⟨c, r1, _, g4, l1⟩ := getN_of_le 4 r (by omega)
        have h16 : 16 ≤ r1.length := by omega
        simp [decodeReply, getU8, ht, hl, g4, copy16, h16]
    · simp [decodeReply, getU8, ht]

theorem decodeSendName_no_panic (bs : Bytes) : decodeSendName bs ≠ .panic := by
  cases bs with
  | nil => simp [decodeSendName]
  | cons t r =>
    by_cases ht : t = 78
    · by_cases hl : r.length < 14
      · simp [decodeSendName, getU8, ht, hl]
      · obtain ⟨f, r1, _, g8, l1⟩ := getN_of_le 8 r (by omega)
        obtain ⟨cr, r2, _, g4, l2⟩ := getN_of_le 4 r1 (by omega)
        obtain ⟨nl, r3, _, g2, l3⟩ := getN_of_le 2 r2 (by omega)
        have hnot : ¬ (r.length < 8 + 4 + 2) := by omega
        simp only [decodeSendName, getU8, tagN_eq, ht, g8, g4, g2, HRes.bind_ok]
        by_cases hn : r3.length < nl
        · simp [hnot, hn]
        · have hn' : nl ≤ r3.length := by omega
          by_cases hu : validUtf8 (r3.take nl) = true <;> simp [hnot, hn, sliceTo, hn', hu]
    · simp [decodeSendName, getU8, ht]

/-! ### one step of the state machine -/

/-- no call panics -/
theorem step_no_panic (cfg : Cfg) (dg : Bytes → Nat → Bytes) (s : State) (op : Op) :
    (step cfg dg s op).2 ≠ .panic := by
  cases op with
  | beginConnect => simp only [step]; split <;> simp
  | prepareSendName =>
    simp only [step]; split
    · simp
    · by_cases h : cfg.name.length > 255 <;> simp [encodeSendNameOld, h]
  | handleStatus b =>
    simp only [step, decodeStatus_eq]; split
    · simp
    · cases parseStatus b with
      | none => simp
      | some st => simp only []; split <;> simp
  | prepareComplement => simp only [step]; split <;> simp
  | handleChallenge b c =>
    simp only [step, decodeChallenge_eq]; split
    · simp
    · cases parseChallenge b <;> simp
  | prepareChallengeReply =>
    simp only [step]; split
    · simp
    · split <;> simp
  | handleChallengeAck b =>
    simp only [step, decodeAck_eq]; split
    · simp
    · cases parseAck b with
      | none => simp
      | some d =>
        simp only []
        split
        · simp
        · split <;> simp
  | disconnect => simp [step]

/-- a call made in another state than the one it belongs to: `InvalidStateTransition`, nothing changes -/
def needs : Op → Option ConnState
  | .beginConnect => some .disconnected
  | .prepareSendName => some .connecting
  | .handleStatus _ => some .awaitingStatus
  | .prepareComplement => some .awaitingChallenge
  | .handleChallenge _ _ => some .awaitingChallenge
  | .prepareChallengeReply => some .sendingChallengeReply
  | .handleChallengeAck _ => some .awaitingChallengeAck
  | .disconnect => none

theorem step_out_of_order (cfg : Cfg) (dg : Bytes → Nat → Bytes) (s : State) (op : Op) (st : ConnState)
    (hn : needs op = some st) (hs : s.state ≠ st) : step cfg dg s op = (s, .err .invalidTransition) := by
  cases op <;> simp only [needs, Option.some.injEq, reduceCtorEq] at hn <;> subst hn <;> simp [step, hs]

/-- what an error result says about the state afterwards -/
theorem step_err_state (cfg : Cfg) (dg : Bytes → Nat → Bytes) (s : State) (op : Op) (e : Err)
    (h : (step cfg dg s op).2 = .err e) :
    ((e = .invalidTransition ∨ e = .stateMsg) ∧ (step cfg dg s op).1 = s) ∨
    (e = .nameTooLong ∧ (step cfg dg s op).1.state = .sendingName) ∨
    ((e = .refused ∨ e = .malformed ∨ e = .auth) ∧ (step cfg dg s op).1.state = .failed) := by
  obtain ⟨st, our, their, neg⟩ := s
  cases op with
  | beginConnect => cases st <;> simp [step] at h ⊢ <;> subst_vars <;> simp
  | prepareSendName =>
    by_cases hn : cfg.name.length > 255 <;> cases st <;> simp [step, encodeSendNameOld, hn] at h ⊢ <;> subst_vars <;> simp
  | handleStatus b =>
    cases hp : parseStatus b with
    | none => cases st <;> simp [step, decodeStatus_eq, hp] at h ⊢ <;> subst_vars <;> simp
    | some x =>
      by_cases hx : (convStatus x).isOk = true <;> cases st <;>
        simp [step, decodeStatus_eq, hp, hx] at h ⊢ <;> subst_vars <;> simp
  | prepareComplement => cases st <;> simp [step] at h ⊢ <;> subst_vars <;> simp
  | handleChallenge b c =>
    cases hp : parseChallenge b with
    | none => cases st <;> simp [step, decodeChallenge_eq, hp] at h ⊢ <;> subst_vars <;> simp
    | some m => cases st <;> simp [step, decodeChallenge_eq, hp] at h ⊢ <;> subst_vars <;> simp
  | prepareChallengeReply =>
    cases st <;> cases our <;> cases their <;> simp [step] at h ⊢ <;> subst_vars <;> simp
  | handleChallengeAck b =>
    cases hp : parseAck b with
    | none => cases st <;> simp [step, decodeAck_eq, hp] at h ⊢ <;> subst_vars <;> simp
    | some d =>
      cases our with
      | none => cases st <;> simp [step, decodeAck_eq, hp] at h ⊢ <;> subst_vars <;> simp
      | some o =>
        by_cases hd : d = dg cfg.cookie o <;> cases st <;>
          simp [step, decodeAck_eq, hp, hd] at h ⊢ <;> subst_vars <;> simp
  | disconnect => simp [step] at h

theorem runFrom_cons (cfg : Cfg) (dg : Bytes → Nat → Bytes) (s : State) (op : Op) (ops : List Op) :
    runFrom cfg dg s (op :: ops) = runFrom cfg dg (step cfg dg s op).1 ops := rfl

theorem runFrom_append (cfg : Cfg) (dg : Bytes → Nat → Bytes) (s : State) (a b : List Op) :
    runFrom cfg dg s (a ++ b) = runFrom cfg dg (runFrom cfg dg s a) b := by
  simp [runFrom, List.foldl_append]

/-! ### the state machine refines the protocol automaton -/

def sideOf (cfg : Cfg) : Side := ⟨cfg.name, cfg.cookie, cfg.flags, cfg.creation⟩

/-- the phase a machine state stands for. `SendingName` is only ever left standing when the name was refused
(the handshake is over); a reply/ack state without the challenge it needs cannot be reached and counts as dead. -/
def absPhase (s : State) : Phase :=
  match s.state with
  | .disconnected => .idle
  | .connecting => .begun
  | .sendingName => .dead
  | .awaitingStatus => .nameSent
  | .awaitingChallenge => .accepted
  | .sendingChallengeReply =>
    match s.our, s.their with
    | some c, some t => .challenged c t
    | _, _ => .dead
  | .awaitingChallengeAck =>
    match s.our with
    | some c => .replied c
    | none => .dead
  | .connected => .established
  | .failed => .dead

def abs (s : State) : Conn := ⟨absPhase s, s.neg⟩

/-- a call's result as the automaton sees it (a panic is nothing the automaton can answer) -/
def respOf : Out → Option Resp
  | .unit => some .ok
  | .bytes b => some (.sent b)
  | .err _ => some .error
  | .panic => none

theorem abs_init : abs State.init = Conn.empty := rfl

theorem connected_iff (s : State) : s.state = .connected ↔ (abs s).phase = .established := by
  obtain ⟨st, our, their, neg⟩ := s
  cases st <;> cases our <;> cases their <;> simp [abs, absPhase]

theorem abs_replied (s : State) (c : Nat) (h : (abs s).phase = .replied c) :
    s.state = .awaitingChallengeAck ∧ s.our = some c := by
  obtain ⟨st, our, their, neg⟩ := s
  cases st <;> cases our <;> cases their <;> simp_all [abs, absPhase]

theorem step_refines (cfg : Cfg) (dg : Bytes → Nat → Bytes) (s : State) (op : Op) :
    abs (step cfg dg s op).1 = (connStep (sideOf cfg) dg (abs s) op).1 ∧
    respOf (step cfg dg s op).2 = some (connStep (sideOf cfg) dg (abs s) op).2 := by
  obtain ⟨st, our, their, neg⟩ := s
  cases op with
  | beginConnect =>
    cases st <;> cases our <;> cases their <;> simp [step, connStep, abs, absPhase, respOf]
  | prepareSendName =>
    by_cases hn : cfg.name.length > 255
    · have hn' : ¬ cfg.name.length ≤ 255 := by omega
      cases st <;> cases our <;> cases their <;>
        simp [step, connStep, abs, absPhase, respOf, sideOf, encodeSendNameOld, hn, hn']
    · have hn' : cfg.name.length ≤ 255 := by omega
      cases st <;> cases our <;> cases their <;>
        simp [step, connStep, abs, absPhase, respOf, sideOf, encodeSendNameOld, hn, hn', Spec.Handshake.sendNameOld]
  | handleStatus b =>
    cases hp : parseStatus b with
    | none =>
      cases st <;> cases our <;> cases their <;>
        simp [step, connStep, abs, absPhase, respOf, decodeStatus_eq, hp]
    | some x =>
      have hx := convStatus_isOk x
      cases ha : x.accepts <;> cases st <;> cases our <;> cases their <;>
        simp [step, connStep, abs, absPhase, respOf, decodeStatus_eq, hp, hx, ha]
  | prepareComplement =>
    cases st <;> cases our <;> cases their <;>
      simp [step, connStep, abs, absPhase, respOf, sideOf, Spec.Handshake.complement]
  | handleChallenge b c =>
    cases hp : parseChallenge b with
    | none =>
      cases st <;> cases our <;> cases their <;>
        simp [step, connStep, abs, absPhase, respOf, decodeChallenge_eq, hp]
    | some m =>
      cases st <;> cases our <;> cases their <;>
        simp [step, connStep, abs, absPhase, respOf, sideOf, decodeChallenge_eq, hp, convMsg]
  | prepareChallengeReply =>
    cases st <;> cases our <;> cases their <;>
      simp [step, connStep, abs, absPhase, respOf, sideOf, encodeReply, Spec.Handshake.reply]
  | handleChallengeAck b =>
    cases hp : parseAck b with
    | none =>
      cases st <;> cases our <;> cases their <;>
        simp [step, connStep, abs, absPhase, respOf, decodeAck_eq, hp]
    | some d =>
      cases our with
      | none =>
        cases st <;> cases their <;> simp [step, connStep, abs, absPhase, respOf, decodeAck_eq, hp]
      | some o =>
        by_cases hd : d = dg cfg.cookie o
        · cases st <;> cases their <;> simp [step, connStep, abs, absPhase, respOf, sideOf, decodeAck_eq, hp, hd]
        · cases st <;> cases their <;> simp [step, connStep, abs, absPhase, respOf, sideOf, decodeAck_eq, hp, hd]
  | disconnect => simp [step, connStep, abs, absPhase, respOf, Conn.empty]

theorem connRun_cons (p : Side) (dg : Bytes → Nat → Bytes) (h : Conn) (op : Op) (ops : List Op) :
    connRun p dg h (op :: ops) = connRun p dg (connStep p dg h op).1 ops := rfl

theorem connRun_append (p : Side) (dg : Bytes → Nat → Bytes) (h : Conn) (a b : List Op) :
    connRun p dg h (a ++ b) = connRun p dg (connRun p dg h a) b := by
  simp [connRun, List.foldl_append]

theorem runFrom_refines (cfg : Cfg) (dg : Bytes → Nat → Bytes) (ops : List Op) :
    ∀ s, abs (runFrom cfg dg s ops) = connRun (sideOf cfg) dg (abs s) ops := by
  induction ops with
  | nil => intro s; rfl
  | cons op rest ih =>
    intro s
    rw [runFrom_cons, connRun_cons, ih, (step_refines cfg dg s op).1]

theorem outs_refine (cfg : Cfg) (dg : Bytes → Nat → Bytes) (ops : List Op) :
    ∀ s, (outsFrom cfg dg s ops).map respOf = (connResps (sideOf cfg) dg (abs s) ops).map some := by
  induction ops with
  | nil => intro s; rfl
  | cons op rest ih =>
    intro s
    simp only [outsFrom, connResps, List.map_cons]
    rw [ih, (step_refines cfg dg s op).1, (step_refines cfg dg s op).2]

/-! ### how the automaton gets into a phase: the last entry, then only events that do not lead out -/

section LastEntry
variable (p : Side) (dg : Bytes → Nat → Bytes)

theorem last_entry {P : Conn → Prop} {leaves : Op → Bool}
    (hb : ∀ h op, P h → leaves op = true → ¬ P (connStep p dg h op).1) :
    ∀ (ops : List Op) (h : Conn), P (connRun p dg h ops) →
      (P h ∧ ∀ o ∈ ops, leaves o = false) ∨
      ∃ pre op post, ops = pre ++ op :: post ∧ ¬ P (connRun p dg h pre) ∧
        P (connStep p dg (connRun p dg h pre) op).1 ∧ ∀ o ∈ post, leaves o = false := by
  intro ops
  induction ops with
  | nil => intro h hp; exact .inl ⟨hp, by simp⟩
  | cons op rest ih =>
    intro h hp
    rw [connRun_cons] at hp
    rcases ih _ hp with ⟨hp', hall⟩ | ⟨pre, o, post, e, hnp, hpo, hall⟩
    · by_cases hph : P h
      · cases hl : leaves op with
        | true => exact absurd hp' (hb h op hph hl)
        | false =>
          left
          refine ⟨hph, ?_⟩
          intro o ho
          rcases List.mem_cons.mp ho with rfl | h'
          · exact hl
          · exact hall o h'
      · right
        exact ⟨[], op, rest, rfl, hph, hp', hall⟩
    · right
      exact ⟨op :: pre, o, post, by simp [e], hnp, hpo, hall⟩

end LastEntry

theorem isDisconnect_eq (o : Op) : o.isDisconnect = true ↔ o = .disconnect := by
  cases o <;> simp [Op.isDisconnect]

/-- any event list ends in a stretch without `disconnect`, preceded by nothing or by a `disconnect` -/
theorem split_last_disconnect (l : List Op) :
    ∃ a b, l = a ++ b ∧ (a = [] ∨ ∃ q, a = q ++ [Op.disconnect]) ∧ ∀ o ∈ b, o.isDisconnect = false := by
  induction l with
  | nil => exact ⟨[], [], rfl, .inl rfl, by simp⟩
  | cons x t ih =>
    obtain ⟨a, b, e, ha, hb⟩ := ih
    rcases ha with rfl | ⟨q, rfl⟩
    · cases hx : x.isDisconnect with
      | true =>
        have : x = .disconnect := (isDisconnect_eq x).mp hx
        subst this
        exact ⟨[.disconnect], b, by simp [e], .inr ⟨[], rfl⟩, hb⟩
      | false =>
        refine ⟨[], x :: b, by simp [e], .inl rfl, ?_⟩
        intro o ho
        rcases List.mem_cons.mp ho with rfl | h'
        · exact hx
        · exact hb o h'
    · exact ⟨x :: (q ++ [.disconnect]), b, by simp [e], .inr ⟨x :: q, by simp⟩, hb⟩

section Phases
variable (p : Side) (dg : Bytes → Nat → Bytes)

/-! per phase: events that are not the phase's way out keep it (`stay`), the way out leaves it (`exit`), and the only
way in (`enter`) -/

theorem stay_idle (h : Conn) (op : Op) (hp : h.phase = .idle) (hl : op.isBegin = false) :
    (connStep p dg h op).1.phase = .idle := by
  obtain ⟨ph, ng⟩ := h
  simp only at hp; subst hp
  cases op <;> simp_all [connStep, Op.isBegin, Conn.empty]

theorem exit_idle (h : Conn) (op : Op) (hp : h.phase = .idle) (hl : op.isBegin = true) :
    ¬ (connStep p dg h op).1.phase = .idle := by
  obtain ⟨ph, ng⟩ := h
  simp only at hp; subst hp
  cases op <;> simp_all [connStep, Op.isBegin]

theorem enter_idle (h : Conn) (op : Op) (hn : ¬ h.phase = .idle) (hp : (connStep p dg h op).1.phase = .idle) :
    op = .disconnect := by
  obtain ⟨ph, ng⟩ := h
  cases op <;> cases ph <;> simp_all [connStep] <;> (repeat' split at hp) <;> simp_all

theorem stay_begun (h : Conn) (op : Op) (hp : h.phase = .begun) (hl : (op.isSendName || op.isDisconnect) = false) :
    (connStep p dg h op).1.phase = .begun := by
  obtain ⟨ph, ng⟩ := h
  simp only at hp; subst hp
  cases op <;> simp_all [connStep, Op.isSendName, Op.isDisconnect]

theorem exit_begun (h : Conn) (op : Op) (hp : h.phase = .begun) (hl : (op.isSendName || op.isDisconnect) = true) :
    ¬ (connStep p dg h op).1.phase = .begun := by
  obtain ⟨ph, ng⟩ := h
  simp only at hp; subst hp
  cases op <;> simp_all [connStep, Op.isSendName, Op.isDisconnect, Conn.empty] <;> split <;> simp

theorem enter_begun (h : Conn) (op : Op) (hn : ¬ h.phase = .begun) (hp : (connStep p dg h op).1.phase = .begun) :
    op = .beginConnect ∧ h.phase = .idle := by
  obtain ⟨ph, ng⟩ := h
  cases op <;> cases ph <;> simp_all [connStep, Conn.empty] <;> (repeat' split at hp) <;> simp_all

theorem stay_nameSent (h : Conn) (op : Op) (hp : h.phase = .nameSent) (hl : (op.isStatus || op.isDisconnect) = false) :
    (connStep p dg h op).1.phase = .nameSent := by
  obtain ⟨ph, ng⟩ := h
  simp only at hp; subst hp
  cases op <;> simp_all [connStep, Op.isStatus, Op.isDisconnect]

theorem exit_nameSent (h : Conn) (op : Op) (hp : h.phase = .nameSent) (hl : (op.isStatus || op.isDisconnect) = true) :
    ¬ (connStep p dg h op).1.phase = .nameSent := by
  obtain ⟨ph, ng⟩ := h
  simp only at hp; subst hp
  cases op <;> simp_all [connStep, Op.isStatus, Op.isDisconnect, Conn.empty] <;> (repeat' split) <;> simp

theorem enter_nameSent (h : Conn) (op : Op) (hn : ¬ h.phase = .nameSent)
    (hp : (connStep p dg h op).1.phase = .nameSent) :
    op = .prepareSendName ∧ p.name.length ≤ 255 ∧ h.phase = .begun := by
  obtain ⟨ph, ng⟩ := h
  cases op <;> cases ph <;> simp_all [connStep, Conn.empty] <;> (repeat' split at hp) <;> simp_all

theorem stay_accepted (h : Conn) (op : Op) (hp : h.phase = .accepted) (hl : (op.isChallenge || op.isDisconnect) = false) :
    (connStep p dg h op).1.phase = .accepted := by
  obtain ⟨ph, ng⟩ := h
  simp only at hp; subst hp
  cases op <;> simp_all [connStep, Op.isChallenge, Op.isDisconnect]

theorem exit_accepted (h : Conn) (op : Op) (hp : h.phase = .accepted) (hl : (op.isChallenge || op.isDisconnect) = true) :
    ¬ (connStep p dg h op).1.phase = .accepted := by
  obtain ⟨ph, ng⟩ := h
  simp only at hp; subst hp
  cases op <;> simp_all [connStep, Op.isChallenge, Op.isDisconnect, Conn.empty] <;> (repeat' split) <;> simp

theorem enter_accepted (h : Conn) (op : Op) (hn : ¬ h.phase = .accepted)
    (hp : (connStep p dg h op).1.phase = .accepted) :
    ∃ b st, op = .handleStatus b ∧ parseStatus b = some st ∧ st.accepts = true ∧ h.phase = .nameSent := by
  obtain ⟨ph, ng⟩ := h
  cases op <;> cases ph <;> simp_all [connStep, Conn.empty] <;> (repeat' split at hp) <;> simp_all

theorem stay_challenged (c t : Nat) (h : Conn) (op : Op) (hp : h.phase = .challenged c t)
    (hl : (op.isReply || op.isDisconnect) = false) : (connStep p dg h op).1.phase = .challenged c t := by
  obtain ⟨ph, ng⟩ := h
  simp only at hp; subst hp
  cases op <;> simp_all [connStep, Op.isReply, Op.isDisconnect]

theorem exit_challenged (c t : Nat) (h : Conn) (op : Op) (hp : h.phase = .challenged c t)
    (hl : (op.isReply || op.isDisconnect) = true) : ¬ (connStep p dg h op).1.phase = .challenged c t := by
  obtain ⟨ph, ng⟩ := h
  simp only at hp; subst hp
  cases op <;> simp_all [connStep, Op.isReply, Op.isDisconnect, Conn.empty]

theorem enter_challenged (c t : Nat) (h : Conn) (op : Op) (hn : ¬ h.phase = .challenged c t)
    (hp : (connStep p dg h op).1.phase = .challenged c t) :
    ∃ b m, op = .handleChallenge b c ∧ parseChallenge b = some m ∧ m.challenge = t ∧ h.phase = .accepted := by
  obtain ⟨ph, ng⟩ := h
  cases op <;> cases ph <;> simp_all [connStep, Conn.empty] <;> (repeat' split at hp) <;> simp_all

theorem stay_replied (c : Nat) (h : Conn) (op : Op) (hp : h.phase = .replied c)
    (hl : (op.isAck || op.isDisconnect) = false) : (connStep p dg h op).1.phase = .replied c := by
  obtain ⟨ph, ng⟩ := h
  simp only at hp; subst hp
  cases op <;> simp_all [connStep, Op.isAck, Op.isDisconnect]

theorem exit_replied (c : Nat) (h : Conn) (op : Op) (hp : h.phase = .replied c)
    (hl : (op.isAck || op.isDisconnect) = true) : ¬ (connStep p dg h op).1.phase = .replied c := by
  obtain ⟨ph, ng⟩ := h
  simp only at hp; subst hp
  cases op <;> simp_all [connStep, Op.isAck, Op.isDisconnect, Conn.empty] <;> split <;> simp

theorem enter_replied (c : Nat) (h : Conn) (op : Op) (hn : ¬ h.phase = .replied c)
    (hp : (connStep p dg h op).1.phase = .replied c) :
    op = .prepareChallengeReply ∧ ∃ t, h.phase = .challenged c t := by
  obtain ⟨ph, ng⟩ := h
  cases op <;> cases ph <;> simp_all [connStep, Conn.empty] <;> (repeat' split at hp) <;> simp_all

theorem stay_established (h : Conn) (op : Op) (hp : h.phase = .established) (hl : op.isDisconnect = false) :
    (connStep p dg h op).1.phase = .established := by
  obtain ⟨ph, ng⟩ := h
  simp only at hp; subst hp
  cases op <;> simp_all [connStep, Op.isDisconnect]

theorem exit_established (h : Conn) (op : Op) (hp : h.phase = .established) (hl : op.isDisconnect = true) :
    ¬ (connStep p dg h op).1.phase = .established := by
  obtain ⟨ph, ng⟩ := h
  simp only at hp; subst hp
  cases op <;> simp_all [connStep, Op.isDisconnect, Conn.empty]

theorem enter_established (h : Conn) (op : Op) (hn : ¬ h.phase = .established)
    (hp : (connStep p dg h op).1.phase = .established) :
    ∃ a c, op = .handleChallengeAck a ∧ h.phase = .replied c ∧ parseAck a = some (dg p.cookie c) := by
  obtain ⟨ph, ng⟩ := h
  cases op <;> cases ph <;> simp_all [connStep, Conn.empty] <;> (repeat' split at hp) <;> simp_all

/-! the same with the negotiated set carried along (it is fixed by the challenge and kept until `disconnect`) -/

theorem enter_challenged_neg (c t : Nat) (ng : Option Nat) (h : Conn) (op : Op)
    (hn : ¬ (h.phase = .challenged c t ∧ h.neg = ng))
    (hp : (connStep p dg h op).1.phase = .challenged c t ∧ (connStep p dg h op).1.neg = ng) :
    ∃ b m, op = .handleChallenge b c ∧ parseChallenge b = some m ∧ m.challenge = t ∧
      ng = some (m.flags &&& p.flags) ∧ h.phase = .accepted := by
  obtain ⟨ph, ng'⟩ := h
  cases op <;> cases ph <;> simp_all [connStep, Conn.empty] <;> (repeat' split at hp) <;> simp_all

theorem enter_replied_neg (c : Nat) (ng : Option Nat) (h : Conn) (op : Op)
    (hn : ¬ (h.phase = .replied c ∧ h.neg = ng))
    (hp : (connStep p dg h op).1.phase = .replied c ∧ (connStep p dg h op).1.neg = ng) :
    op = .prepareChallengeReply ∧ ∃ t, h.phase = .challenged c t ∧ h.neg = ng := by
  obtain ⟨ph, ng'⟩ := h
  cases op <;> cases ph <;> simp_all [connStep, Conn.empty] <;> (repeat' split at hp) <;> simp_all

theorem enter_established_neg (ng : Option Nat) (h : Conn) (op : Op)
    (hn : ¬ (h.phase = .established ∧ h.neg = ng))
    (hp : (connStep p dg h op).1.phase = .established ∧ (connStep p dg h op).1.neg = ng) :
    ∃ a c, op = .handleChallengeAck a ∧ h.phase = .replied c ∧ h.neg = ng ∧ parseAck a = some (dg p.cookie c) := by
  obtain ⟨ph, ng'⟩ := h
  cases op <;> cases ph <;> simp_all [connStep, Conn.empty] <;> (repeat' split at hp) <;> simp_all

end Phases

/-- THE shape of every event sequence that ends `established`, from a fresh connecting side: after the last
`disconnect` (if any) there is a `beginConnect`, then the first `prepareSendName` after it (name of at most 255 bytes),
then the first `handleStatus` after that (accepting), the first `handleChallenge` after that (well-formed; `c` is the
challenge this side generated in that call), the first `prepareChallengeReply` after that, the first
`handleChallengeAck` after that — carrying the digest of the cookie and `c` — and no `disconnect` since. -/
theorem established_decomp (p : Side) (dg : Bytes → Nat → Bytes) (ops : List Op)
    (he : (connRun p dg Conn.empty ops).phase = .established) :
    ∃ pre g0 g1 g2 sb g3 cb c g4 g5 ab post,
      ops = pre ++ g0 ++ Op.beginConnect :: g1 ++ Op.prepareSendName :: g2 ++ Op.handleStatus sb :: g3 ++
        Op.handleChallenge cb c :: g4 ++ Op.prepareChallengeReply :: g5 ++ Op.handleChallengeAck ab :: post ∧
      (pre = [] ∨ ∃ q, pre = q ++ [Op.disconnect]) ∧
      (∀ o ∈ g0, o.isBegin = false ∧ o.isDisconnect = false) ∧
      (∀ o ∈ g1, (o.isSendName || o.isDisconnect) = false) ∧
      (∀ o ∈ g2, (o.isStatus || o.isDisconnect) = false) ∧
      (∀ o ∈ g3, (o.isChallenge || o.isDisconnect) = false) ∧
      (∀ o ∈ g4, (o.isReply || o.isDisconnect) = false) ∧
      (∀ o ∈ g5, (o.isAck || o.isDisconnect) = false) ∧
      (∀ o ∈ post, o.isDisconnect = false) ∧
      p.name.length ≤ 255 ∧
      (∃ st, parseStatus sb = some st ∧ st.accepts = true) ∧
      (∃ m, parseChallenge cb = some m ∧ (connRun p dg Conn.empty ops).neg = some (m.flags &&& p.flags)) ∧
      parseAck ab = some (dg p.cookie c) := by
  generalize hng : (connRun p dg Conn.empty ops).neg = ng
  have he' : (connRun p dg Conn.empty ops).phase = .established ∧ (connRun p dg Conn.empty ops).neg = ng := ⟨he, hng⟩
  -- established: the last entry is an ack accepted while `replied c`
  rcases last_entry p dg (P := fun h => h.phase = .established ∧ h.neg = ng) (leaves := Op.isDisconnect)
      (fun h op hp hl hq => exit_established p dg h op hp.1 hl hq.1) ops Conn.empty he'
    with ⟨h0, _⟩ | ⟨p6, o6, post, e6, hn6, hp6, hpost⟩
  · simp [Conn.empty] at h0
  obtain ⟨ab, c, rfl, hr5, hng5, hack⟩ := enter_established_neg p dg ng _ _ hn6 hp6
  -- replied c: the last entry is the reply, made while `challenged c t`
  rcases last_entry p dg (P := fun h => h.phase = .replied c ∧ h.neg = ng) (leaves := fun o => o.isAck || o.isDisconnect)
      (fun h op hp hl hq => exit_replied p dg c h op hp.1 hl hq.1) p6 Conn.empty ⟨hr5, hng5⟩
    with ⟨h0, _⟩ | ⟨p5, o5, g5, e5, hn5, hp5, hg5⟩
  · simp [Conn.empty] at h0
  obtain ⟨rfl, t, hr4, hng4⟩ := enter_replied_neg p dg c ng _ _ hn5 hp5
  -- challenged c t: the last entry is a well-formed challenge, handled while `accepted`
  rcases last_entry p dg (P := fun h => h.phase = .challenged c t ∧ h.neg = ng)
      (leaves := fun o => o.isReply || o.isDisconnect)
      (fun h op hp hl hq => exit_challenged p dg c t h op hp.1 hl hq.1) p5 Conn.empty ⟨hr4, hng4⟩
    with ⟨h0, _⟩ | ⟨p4, o4, g4, e4, hn4, hp4, hg4⟩
  · simp [Conn.empty] at h0
  obtain ⟨cb, m, rfl, hm, _, hngm, hr3⟩ := enter_challenged_neg p dg c t ng _ _ hn4 hp4
  -- accepted: the last entry is an accepting status, handled while `nameSent`
  rcases last_entry p dg (P := fun h => h.phase = .accepted) (leaves := fun o => o.isChallenge || o.isDisconnect)
      (exit_accepted p dg) p4 Conn.empty hr3 with ⟨h0, _⟩ | ⟨p3, o3, g3, e3, hn3, hp3, hg3⟩
  · simp [Conn.empty] at h0
  obtain ⟨sb, st, rfl, hst, hacc, hr2⟩ := enter_accepted p dg _ _ hn3 hp3
  -- nameSent: the last entry is the send_name, made while `begun`
  rcases last_entry p dg (P := fun h => h.phase = .nameSent) (leaves := fun o => o.isStatus || o.isDisconnect)
      (exit_nameSent p dg) p3 Conn.empty hr2 with ⟨h0, _⟩ | ⟨p2, o2, g2, e2, hn2, hp2, hg2⟩
  · simp [Conn.empty] at h0
  obtain ⟨rfl, hname, hr1⟩ := enter_nameSent p dg _ _ hn2 hp2
  -- begun: the last entry is begin_connect, made while `idle`
  rcases last_entry p dg (P := fun h => h.phase = .begun) (leaves := fun o => o.isSendName || o.isDisconnect)
      (exit_begun p dg) p2 Conn.empty hr1 with ⟨h0, _⟩ | ⟨p1, o1, g1, e1, hn1, hp1, hg1⟩
  · simp [Conn.empty] at h0
  obtain ⟨rfl, hr0⟩ := enter_begun p dg _ _ hn1 hp1
  -- idle: from the start, or entered by a disconnect; no begin_connect since
  have hidle : ∃ pre g0, p1 = pre ++ g0 ∧ (pre = [] ∨ ∃ q, pre = q ++ [Op.disconnect]) ∧
      ∀ o ∈ g0, o.isBegin = false ∧ o.isDisconnect = false := by
    rcases last_entry p dg (P := fun h => h.phase = .idle) (leaves := Op.isBegin)
        (exit_idle p dg) p1 Conn.empty hr0 with ⟨_, hall⟩ | ⟨p0, o0, g0', e0, hn0, hp0, hg0⟩
    · obtain ⟨a, b, e, ha, hb⟩ := split_last_disconnect p1
      refine ⟨a, b, e, ha, fun o ho => ⟨hall o (by rw [e]; simp [ho]), hb o ho⟩⟩
    · have hd := enter_idle p dg _ _ hn0 hp0
      subst hd
      obtain ⟨a, b, e, ha, hb⟩ := split_last_disconnect g0'
      refine ⟨p0 ++ Op.disconnect :: a, b, by simp [e0, e], ?_, fun o ho => ⟨hg0 o (by rw [e]; simp [ho]), hb o ho⟩⟩
      rcases ha with rfl | ⟨q, rfl⟩
      · exact .inr ⟨p0, by simp⟩
      · exact .inr ⟨p0 ++ Op.disconnect :: q, by simp⟩
  obtain ⟨pre, g0, e0, hpre, hg0⟩ := hidle
  refine ⟨pre, g0, g1, g2, sb, g3, cb, c, g4, g5, ab, post, ?_, hpre, hg0, hg1, hg2, hg3, hg4, hg5, hpost, hname,
    ⟨st, hst, hacc⟩, ⟨m, hm, hngm⟩, hack⟩
  subst e0 e1 e2 e3 e4 e5 e6
  simp [List.append_assoc]

section Converse
variable (p : Side) (dg : Bytes → Nat → Bytes)

theorem run_stay {P : Conn → Prop} {leaves : Op → Bool}
    (ha : ∀ h op, P h → leaves op = false → P (connStep p dg h op).1) :
    ∀ (ops : List Op) (h : Conn), P h → (∀ o ∈ ops, leaves o = false) → P (connRun p dg h ops) := by
  intro ops
  induction ops with
  | nil => intro h hp _; exact hp
  | cons op rest ih =>
    intro h hp hall
    rw [connRun_cons]
    exact ih _ (ha h op hp (hall op (by simp))) (fun o ho => hall o (by simp [ho]))

theorem fwd_begin (h : Conn) (hp : h.phase = .idle) : (connStep p dg h .beginConnect).1.phase = .begun := by
  obtain ⟨ph, ng⟩ := h
  simp only at hp; subst hp; simp [connStep]

theorem fwd_name (h : Conn) (hp : h.phase = .begun) (hn : p.name.length ≤ 255) :
    (connStep p dg h .prepareSendName).1.phase = .nameSent := by
  obtain ⟨ph, ng⟩ := h
  simp only at hp; subst hp; simp [connStep, hn]

theorem fwd_status (h : Conn) (hp : h.phase = .nameSent) (sb : Bytes) (st : Spec.Handshake.Status)
    (hs : parseStatus sb = some st) (ha : st.accepts = true) :
    (connStep p dg h (.handleStatus sb)).1.phase = .accepted := by
  obtain ⟨ph, ng⟩ := h
  simp only at hp; subst hp; simp [connStep, hs, ha]

theorem fwd_challenge (h : Conn) (hp : h.phase = .accepted) (cb : Bytes) (c : Nat) (m : Spec.Handshake.ChallengeMsg)
    (hm : parseChallenge cb = some m) :
    (connStep p dg h (.handleChallenge cb c)).1.phase = .challenged c m.challenge := by
  obtain ⟨ph, ng⟩ := h
  simp only at hp; subst hp; simp [connStep, hm]

theorem fwd_reply (h : Conn) (c t : Nat) (hp : h.phase = .challenged c t) :
    (connStep p dg h .prepareChallengeReply).1.phase = .replied c := by
  obtain ⟨ph, ng⟩ := h
  simp only at hp; subst hp; simp [connStep]

theorem fwd_ack (h : Conn) (c : Nat) (hp : h.phase = .replied c) (ab : Bytes) (ha : parseAck ab = some (dg p.cookie c)) :
    (connStep p dg h (.handleChallengeAck ab)).1.phase = .established := by
  obtain ⟨ph, ng⟩ := h
  simp only at hp; subst hp; simp [connStep, ha]

/-- the converse of `established_decomp`: every event sequence of that shape ends `established` -/
theorem established_of_shape (pre g0 g1 g2 g3 : List Op) (sbytes cbytes : Bytes) (c : Nat)
    (g4 g5 : List Op) (ab : Bytes) (post : List Op)
    (hpre : pre = [] ∨ ∃ q, pre = q ++ [Op.disconnect])
    (hg0 : ∀ o ∈ g0, o.isBegin = false ∧ o.isDisconnect = false)
    (hg1 : ∀ o ∈ g1, (o.isSendName || o.isDisconnect) = false)
    (hg2 : ∀ o ∈ g2, (o.isStatus || o.isDisconnect) = false)
    (hg3 : ∀ o ∈ g3, (o.isChallenge || o.isDisconnect) = false)
    (hg4 : ∀ o ∈ g4, (o.isReply || o.isDisconnect) = false)
    (hg5 : ∀ o ∈ g5, (o.isAck || o.isDisconnect) = false)
    (hpost : ∀ o ∈ post, o.isDisconnect = false)
    (hname : p.name.length ≤ 255)
    (hst : ∃ st, parseStatus sbytes = some st ∧ st.accepts = true)
    (hm : ∃ m, parseChallenge cbytes = some m)
    (hack : parseAck ab = some (dg p.cookie c)) :
    (connRun p dg Conn.empty (pre ++ g0 ++ Op.beginConnect :: g1 ++ Op.prepareSendName :: g2 ++
      Op.handleStatus sbytes :: g3 ++ Op.handleChallenge cbytes c :: g4 ++ Op.prepareChallengeReply :: g5 ++
      Op.handleChallengeAck ab :: post)).phase = .established := by
  obtain ⟨st, hs, hacc⟩ := hst
  obtain ⟨m, hm⟩ := hm
  have h0 : (connRun p dg Conn.empty pre).phase = .idle := by
    rcases hpre with rfl | ⟨q, rfl⟩
    · rfl
    · simp [connRun, connStep, Conn.empty]
  have h0' := run_stay p dg (P := fun h => h.phase = .idle) (leaves := Op.isBegin) (stay_idle p dg) g0 _ h0
    (fun o ho => (hg0 o ho).1)
  have h1 := fwd_begin p dg _ h0'
  have h1' := run_stay p dg (P := fun h => h.phase = .begun) (stay_begun p dg) g1 _ h1 hg1
  have h2 := fwd_name p dg _ h1' hname
  have h2' := run_stay p dg (P := fun h => h.phase = .nameSent) (stay_nameSent p dg) g2 _ h2 hg2
  have h3 := fwd_status p dg _ h2' sbytes st hs hacc
  have h3' := run_stay p dg (P := fun h => h.phase = .accepted) (stay_accepted p dg) g3 _ h3 hg3
  have h4 := fwd_challenge p dg _ h3' cbytes c m hm
  have h4' := run_stay p dg (P := fun h => h.phase = .challenged c m.challenge) (stay_challenged p dg c m.challenge) g4 _ h4 hg4
  have h5 := fwd_reply p dg _ c m.challenge h4'
  have h5' := run_stay p dg (P := fun h => h.phase = .replied c) (stay_replied p dg c) g5 _ h5 hg5
  have h6 := fwd_ack p dg _ c h5' ab hack
  have h6' := run_stay p dg (P := fun h => h.phase = .established) (stay_established p dg) post _ h6 hpost
  simpa [connRun_append, connRun_cons, List.append_assoc] using h6'

end Converse

end Edp.Lemmas.Handshake
