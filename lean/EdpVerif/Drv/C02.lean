import EdpVerif.Drv.Etf
import EdpVerif.Impl.DecodeMeter
namespace Edp.Drv
open Edp

def classOf : Except DErr Term → String
  | .ok _ => "ok"
  | .error .panic => "panic"
  | .error _ => "err"

/-- the entry points in the order the harness's child process reports them -/
def c02Order : List EntryPoint :=
  [.decode, .decodeBorrowed, .withAtomCache, .withTrailing, .rawTerm, .withCache, .fragHeader, .fragCont]

/-- largest heap request of the resource model in bytes, and the largest inflated length -/
def meterPeak (k : Target) (m : Meter) : Nat × Nat :=
  (m.reqs.foldl (fun a q => max a (q.bytes k)) 0, m.infl.foldl (fun a i => max a i.2) 0)

/-- **Spec of "in proportion"** (the oracle for the observed allocator): the largest single request a decoding call makes
is at most what the largest wire-sized request of the model needs, or three times the inflated length of a compressed
section (the output vector grows by doubling), plus the fixed working set (atom table, zlib state and buffers, B-tree
nodes, error text) -/
def c02Slack (hasZlib : Bool) : Nat := 24576 + (if hasZlib then 98304 else 0)

def c02PeakOk (k : Target) (m : Meter) (observed : Nat) : Bool :=
  let (r, z) := meterPeak k m
  observed ≤ max r (3 * z) + c02Slack (!m.infl.isEmpty)

/-- C02 tie: outcome class of the owned and of the zero-copy decoder on an arbitrary byte string -/
def handleC02 : List String → Option String
  | ["c02class", h, o] => some <| run do
    let b ← getHex h
    let x := (parseOracle o).ext
    pure (classOf (decode x b) ++ " " ++ classOf (decodeBorrowed x b))
  -- tie: result class of every entry point (resource model's panic sites folded in), and the deepest `parse_term`
  | ["c02ep", h, o] => some <| run do
    let b ← getHex h
    let x := (parseOracle o).ext
    pure (" ".intercalate (c02Order.map fun ep => (ep.outcome Target.x64 x {} b).text))
  -- oracle: the allocator's largest single request per entry point against the model's requests
  | ["c02peak", h, o, ts, peaks] => some <| run do
    let b ← getHex h
    let x := (parseOracle o).ext
    let k : Target := { termSize := ts.toNat! }
    let obs := (peaks.splitOn ",").map String.toNat!
    let bad := (c02Order.zip obs).filterMap fun (ep, p) =>
      let m := ep.meter x {} b
      if m.maxDepth > MAX_NESTING_DEPTH + 1 then some ("depth " ++ toString m.maxDepth)
      else if c02PeakOk k m p then none
      else some (reprStr ep ++ " observed " ++ toString p ++ " model " ++ toString (meterPeak k m).1 ++ "/" ++ toString (meterPeak k m).2)
    pure (if bad.isEmpty then "ok" else "FAIL " ++ "; ".intercalate bad)
  -- the model's deepest entry and largest request, for the statistics of the run
  | ["c02meter", h, o] => some <| run do
    let b ← getHex h
    let x := (parseOracle o).ext
    let m := EntryPoint.decode.meter x {} b
    pure (toString m.maxDepth ++ " " ++ toString (meterPeak Target.x64 m).1)
  | _ => none

end Edp.Drv
