import EdpVerif.Impl.Frag
import EdpVerif.Spec.Frag
/-! Helper lemmas for C09 (fragment reassembly). -/
namespace Edp.Frag
open Edp

/-! ### the pending map -/

theorem lookup_eraseKey_self (q : Nat) (l : PMap) : lookup q (eraseKey q l) = none := by
  induction l with
  | nil => rfl
  | cons p r ih =>
    obtain ⟨k, m⟩ := p
    unfold eraseKey at *
    by_cases h : k = q
    · simp [h, ih]
    · simp [h, ih, lookup]

theorem lookup_eraseKey_ne {q q' : Nat} (h : q' ≠ q) (l : PMap) : lookup q (eraseKey q' l) = lookup q l := by
  induction l with
  | nil => rfl
  | cons p r ih =>
    obtain ⟨k, m⟩ := p
    unfold eraseKey at *
    by_cases hk : k = q'
    · subst hk
      simp [lookup, h, ih]
    · by_cases hq : k = q
      · subst hq
        have : ¬ k = q' := hk
        simp [this, lookup]
      · simp [hk, lookup, hq, ih]

theorem lookup_insertKey_self (q : Nat) (m : FragMsg) (l : PMap) : lookup q (insertKey q m l) = some m := by
  simp [insertKey, lookup]

theorem lookup_insertKey_ne {q q' : Nat} (h : q' ≠ q) (m : FragMsg) (l : PMap) :
    lookup q (insertKey q' m l) = lookup q l := by
  simp [insertKey, lookup, h, lookup_eraseKey_ne h]

/-- at most one entry per sequence id (what a `HashMap` gives) -/
def WF (l : PMap) : Prop := (l.map Prod.fst).Nodup

theorem lookup_none_of_not_mem {q : Nat} {l : PMap} (h : q ∉ l.map Prod.fst) : lookup q l = none := by
  induction l with
  | nil => rfl
  | cons p r ih =>
    obtain ⟨k, m⟩ := p
    simp only [List.map_cons, List.mem_cons, not_or] at h
    have : ¬ k = q := fun e => h.1 e.symm
    simp [lookup, this, ih h.2]

theorem mem_keys_of_lookup {q : Nat} {l : PMap} {m : FragMsg} (h : lookup q l = some m) : (q, m) ∈ l := by
  induction l with
  | nil => simp [lookup] at h
  | cons p r ih =>
    obtain ⟨k, m'⟩ := p
    by_cases hk : k = q
    · simp [lookup, hk] at h; simp [hk, h]
    · simp [lookup, hk] at h; simp [ih h]

theorem lookup_of_mem {q : Nat} {l : PMap} {m : FragMsg} (hw : WF l) (h : (q, m) ∈ l) : lookup q l = some m := by
  induction l with
  | nil => simp at h
  | cons p r ih =>
    obtain ⟨k, m'⟩ := p
    simp only [WF, List.map_cons, List.nodup_cons] at hw
    simp only [List.mem_cons, Prod.mk.injEq] at h
    rcases h with ⟨h1, h2⟩ | h
    · simp [lookup, h1, h2]
    · have : ¬ k = q := by
        intro e; subst e
        exact hw.1 (List.mem_map.mpr ⟨(k, m), h, rfl⟩)
      simp [lookup, this, ih hw.2 h]

theorem WF_eraseKey {l : PMap} (q : Nat) (h : WF l) : WF (eraseKey q l) := by
  unfold WF eraseKey at *
  exact List.Nodup.sublist (List.Sublist.map _ List.filter_sublist) h

theorem not_mem_eraseKey (q : Nat) (l : PMap) : q ∉ (eraseKey q l).map Prod.fst := by
  intro h
  obtain ⟨p, hp, e⟩ := List.mem_map.mp h
  simp [eraseKey] at hp
  exact hp.2 e

theorem WF_insertKey {l : PMap} (q : Nat) (m : FragMsg) (h : WF l) : WF (insertKey q m l) := by
  unfold insertKey WF
  simp only [List.map_cons, List.nodup_cons]
  exact ⟨not_mem_eraseKey q l, WF_eraseKey q h⟩

theorem WF_filter {l : PMap} (f : Nat × FragMsg → Bool) (h : WF l) : WF (l.filter f) := by
  unfold WF at *
  exact List.Nodup.sublist (List.Sublist.map _ List.filter_sublist) h

theorem lookup_filter {l : PMap} (f : FragMsg → Bool) (q : Nat) (hw : WF l) :
    lookup q (l.filter (fun p => f p.2)) = (lookup q l).filter f := by
  induction l with
  | nil => rfl
  | cons p r ih =>
    obtain ⟨k, m⟩ := p
    simp only [WF, List.map_cons, List.nodup_cons] at hw
    have ih := ih hw.2
    by_cases hk : k = q
    · subst hk
      have hn := lookup_none_of_not_mem hw.1
      by_cases hf : f m
      · simp [hf, lookup, Option.filter]
      · simp [hf, lookup, Option.filter, ih, hn]
    · by_cases hf : f m <;> simp [hf, lookup, hk, ih]

/-! ### one sequence's entry in isolation -/

/-- `start_fragment` as seen by the entry of its sequence -/
def startQ (st : Option FragMsg) (now fid : Nat) (cache : Option Bytes) (payload : Bytes) : Option FragMsg × Option Bytes :=
  if fid = 0 ∨ MAX_FRAGMENT_COUNT < fid then (st, none) else
  match st with
  | some msg =>
    if msg.total.isSome ∧ msg.total ≠ some fid then (some msg, none) else
    let msg := ({ msg.setTotal fid with cache := cache }).addFragment now fid payload
    if msg.isComplete then (none, msg.reassemble) else (some msg, none)
  | none =>
    let msg := (FragMsg.new (some fid) cache now).addFragment now fid payload
    if msg.isComplete then (none, msg.reassemble) else (some msg, none)

/-- `add_fragment` as seen by the entry of its sequence -/
def addQ (st : Option FragMsg) (now fid : Nat) (payload : Bytes) : Option FragMsg × Option Bytes :=
  match st with
  | some msg =>
    let msg := msg.addFragment now fid payload
    if msg.isComplete then (none, msg.reassemble) else (some msg, none)
  | none => (some ((FragMsg.new none none now).addFragment now fid payload), none)

/-- `cleanup_expired` as seen by one entry -/
def cleanQ (timeout : Nat) (st : Option FragMsg) (now : Nat) : Option FragMsg :=
  st.filter (fun m => !m.isExpired now timeout)

def stepQ (timeout : Nat) (st : Option FragMsg) : Op → Option FragMsg × Option Bytes
  | .start now _ fid cache payload => startQ st now fid cache payload
  | .add now _ fid payload => addQ st now fid payload
  | .cleanup now => (cleanQ timeout st now, none)

def afterQ (timeout : Nat) (st : Option FragMsg) : List Op → Option FragMsg
  | [] => st
  | o :: r => afterQ timeout (stepQ timeout st o).1 r

def outsQ (timeout : Nat) (st : Option FragMsg) : List Op → List (Option Bytes)
  | [] => []
  | o :: r =>
    if o.seq.isSome then (stepQ timeout st o).2 :: outsQ timeout (stepQ timeout st o).1 r
    else outsQ timeout (stepQ timeout st o).1 r

/-- the events that concern sequence `q`: its own fragments and every cleanup -/
def proj (q : Nat) (ops : List Op) : List Op := ops.filter (fun o => o.seq == some q || o.seq == none)

theorem step_timeout (a : Assembler) (o : Op) : (a.step o).1.timeout = a.timeout := by
  cases o <;> simp only [Assembler.step, Assembler.startFragment, Assembler.addFragment, Assembler.cleanupExpired]
  · split
    · rfl
    · split
      · split
        · rfl
        · split <;> rfl
      · split <;> rfl
  · split
    · split <;> rfl
    · rfl

theorem step_WF (a : Assembler) (o : Op) (h : WF a.pending) : WF (a.step o).1.pending := by
  cases o <;> simp only [Assembler.step, Assembler.startFragment, Assembler.addFragment, Assembler.cleanupExpired]
  · split
    · exact h
    · split
      · split
        · exact h
        · split <;> first | exact WF_eraseKey _ h | exact WF_insertKey _ _ h
      · split <;> first | exact h | exact WF_insertKey _ _ h
  · split
    · split <;> first | exact WF_eraseKey _ h | exact WF_insertKey _ _ h
    · exact WF_insertKey _ _ h
  · exact WF_filter _ h

/-- an event of sequence `q` acts on `q`'s entry alone -/
theorem step_self (a : Assembler) (o : Op) (q : Nat) (h : o.seq = some q) :
    lookup q (a.step o).1.pending = (stepQ a.timeout (lookup q a.pending) o).1 ∧
    (a.step o).2 = (stepQ a.timeout (lookup q a.pending) o).2 := by
  cases o with
  | start now q' fid cache payload =>
    simp only [Op.seq, Option.some.injEq] at h
    subst h
    simp only [Assembler.step, Assembler.startFragment, stepQ, startQ]
    split
    · exact ⟨rfl, rfl⟩
    · cases hl : lookup q' a.pending with
      | none =>
        simp only
        split
        · exact ⟨hl, rfl⟩
        · exact ⟨lookup_insertKey_self _ _ _, rfl⟩
      | some msg =>
        simp only
        split
        · exact ⟨hl, rfl⟩
        · split
          · exact ⟨lookup_eraseKey_self _ _, rfl⟩
          · exact ⟨lookup_insertKey_self _ _ _, rfl⟩
  | add now q' fid payload =>
    simp only [Op.seq, Option.some.injEq] at h
    subst h
    simp only [Assembler.step, Assembler.addFragment, stepQ, addQ]
    cases hl : lookup q' a.pending with
    | none => exact ⟨lookup_insertKey_self _ _ _, rfl⟩
    | some msg =>
      simp only
      split
      · exact ⟨lookup_eraseKey_self _ _, rfl⟩
      · exact ⟨lookup_insertKey_self _ _ _, rfl⟩
  | cleanup now => simp [Op.seq] at h

/-- an event of another sequence leaves `q`'s entry alone -/
theorem step_other (a : Assembler) (o : Op) (q q' : Nat) (h : o.seq = some q') (hne : q' ≠ q) :
    lookup q (a.step o).1.pending = lookup q a.pending := by
  cases o with
  | start now q'' fid cache payload =>
    simp only [Op.seq, Option.some.injEq] at h
    subst h
    simp only [Assembler.step, Assembler.startFragment]
    split
    · rfl
    · split
      · split
        · rfl
        · split <;> first | exact lookup_eraseKey_ne hne _ | exact lookup_insertKey_ne hne _ _
      · split <;> first | rfl | exact lookup_insertKey_ne hne _ _
  | add now q'' fid payload =>
    simp only [Op.seq, Option.some.injEq] at h
    subst h
    simp only [Assembler.step, Assembler.addFragment]
    split
    · split <;> first | exact lookup_eraseKey_ne hne _ | exact lookup_insertKey_ne hne _ _
    · exact lookup_insertKey_ne hne _ _
  | cleanup now => simp [Op.seq] at h

/-- a cleanup acts on every entry separately -/
theorem step_cleanup (a : Assembler) (now q : Nat) (hw : WF a.pending) :
    lookup q (a.step (.cleanup now)).1.pending = (stepQ a.timeout (lookup q a.pending) (.cleanup now)).1 ∧
    (a.step (.cleanup now)).2 = none := by
  simp only [Assembler.step, Assembler.cleanupExpired, stepQ, cleanQ, and_true]
  exact lookup_filter (fun m => !m.isExpired now a.timeout) q hw

/-- ISOLATION, factored: the entry of `q` and what the assembler returns at `q`'s events are those of the one-sequence
machine run over `q`'s own events (and the cleanups) -/
theorem after_outs_proj (q : Nat) (ops : List Op) : ∀ (a : Assembler), WF a.pending →
    lookup q (a.after ops).pending = afterQ a.timeout (lookup q a.pending) (proj q ops) ∧
    a.outsFor q ops = outsQ a.timeout (lookup q a.pending) (proj q ops) := by
  induction ops with
  | nil => intro a _; exact ⟨rfl, rfl⟩
  | cons o r ih =>
    intro a hw
    have ih := ih (a.step o).1 (step_WF a o hw)
    rw [step_timeout] at ih
    cases hs : o.seq with
    | none =>
      cases o with
      | cleanup now =>
        have hc := step_cleanup a now q hw
        simp only [Assembler.after, Assembler.outsFor, proj, List.filter_cons, Op.seq, beq_self_eq_true, Bool.or_true,
          if_true, afterQ, outsQ, Option.isSome_none, Bool.false_eq_true, if_false, reduceCtorEq]
        rw [← hc.1]
        exact ih
      | start _ _ _ _ _ => simp [Op.seq] at hs
      | add _ _ _ _ => simp [Op.seq] at hs
    | some q' =>
      by_cases hq : q' = q
      · subst hq
        have hc := step_self a o q' hs
        have hp : proj q' (o :: r) = o :: proj q' r := by simp [proj, hs]
        rw [hp]
        simp only [Assembler.after, Assembler.outsFor, hs, if_true, afterQ, outsQ, Option.isSome_some]
        rw [← hc.1, ← hc.2]
        exact ⟨ih.1, by rw [ih.2]⟩
      · have hc := step_other a o q q' hs hq
        have hp : proj q (o :: r) = proj q r := by
          have : ¬ (some q' = some q) := fun e => hq (Option.some.inj e)
          simp [proj, hs, hq]
        have hn : ¬ (some q' = some q) := fun e => hq (Option.some.inj e)
        rw [hp]
        simp only [Assembler.after, Assembler.outsFor, hs, hn, if_false]
        rw [← hc]
        exact ih

/-! ### the pending map of one sequence (`pending_fragments`) read as a slot vector -/

theorem pendGet_none_iff {k : Nat} {l : List (Nat × Bytes)} : pendGet k l = none ↔ k ∉ l.map Prod.fst := by
  induction l with
  | nil => simp [pendGet]
  | cons p r ih =>
    obtain ⟨k', d⟩ := p
    by_cases h : k' = k
    · simp [pendGet, h]
    · have : ¬ k = k' := fun e => h e.symm
      simp [pendGet, h, ih, this]

theorem pendGet_mem {k : Nat} {d : Bytes} {l : List (Nat × Bytes)} (h : pendGet k l = some d) : (k, d) ∈ l := by
  induction l with
  | nil => simp [pendGet] at h
  | cons p r ih =>
    obtain ⟨k', d'⟩ := p
    by_cases hk : k' = k
    · simp [pendGet, hk] at h; simp [hk, h]
    · simp [pendGet, hk] at h; simp [ih h]

theorem any_key_eq (l : List (Nat × Bytes)) (k : Nat) : l.any (fun p => p.1 == k) = (pendGet k l).isSome := by
  induction l with
  | nil => rfl
  | cons p r ih =>
    obtain ⟨k', d⟩ := p
    by_cases h : k' = k
    · simp [pendGet, h]
    · simp [pendGet, h, ih]

theorem pendGet_snoc (j k : Nat) (d : Bytes) (l : List (Nat × Bytes)) :
    pendGet j (l ++ [(k, d)]) = match pendGet j l with
      | some x => some x
      | none => if k = j then some d else none := by
  induction l with
  | nil => simp [pendGet]
  | cons p r ih =>
    obtain ⟨k', d'⟩ := p
    by_cases h : k' = j
    · simp [pendGet, h]
    · simp [pendGet, h, ih]

theorem pendGet_filter_le {j c : Nat} (hj : j ≤ c) (l : List (Nat × Bytes)) :
    pendGet j (l.filter (fun p => decide (p.1 ≤ c))) = pendGet j l := by
  induction l with
  | nil => rfl
  | cons p r ih =>
    obtain ⟨k', d'⟩ := p
    by_cases h : k' = j
    · subst h; simp [pendGet, hj]
    · by_cases hc : k' ≤ c <;> simp [pendGet, h, hc, ih]

/-- the pending map read as a slot vector of length `n`: entry `i` is the fragment with id `i + 1` -/
def vmap (n : Nat) (l : List (Nat × Bytes)) : List (Option Bytes) := (List.range n).map (fun i => pendGet (i + 1) l)

theorem vmap_length (n : Nat) (l : List (Nat × Bytes)) : (vmap n l).length = n := by simp [vmap]

theorem vmap_get {n i : Nat} (l : List (Nat × Bytes)) (h : i < n) : (vmap n l)[i]? = some (pendGet (i + 1) l) := by
  simp [vmap, h]

theorem vmap_of_update {n k : Nat} {d : Bytes} {l l' : List (Nat × Bytes)} (hk1 : 1 ≤ k)
    (h : ∀ j, pendGet j l' = if j = k then some d else pendGet j l) :
    vmap n l' = (vmap n l).set (k - 1) (some d) := by
  apply List.ext_getElem?
  intro i
  by_cases hi : i < n
  · rw [vmap_get _ hi, List.getElem?_set, h]
    by_cases hik : k - 1 = i
    · have : i + 1 = k := by omega
      simp [hik, this, vmap_length, hi]
    · have : ¬ i + 1 = k := by omega
      simp [hik, this, vmap_get _ hi]
  · have h1 : (vmap n l')[i]? = none := List.getElem?_eq_none (by rw [vmap_length]; omega)
    have h2 : ((vmap n l).set (k - 1) (some d))[i]? = none :=
      List.getElem?_eq_none (by rw [List.length_set, vmap_length]; omega)
    rw [h1, h2]

theorem vmap_snoc {n k : Nat} {d : Bytes} {l : List (Nat × Bytes)} (hk1 : 1 ≤ k) (hn : pendGet k l = none) :
    vmap n (l ++ [(k, d)]) = (vmap n l).set (k - 1) (some d) := by
  apply vmap_of_update hk1
  intro j
  rw [pendGet_snoc]
  by_cases hj : j = k
  · subst hj; simp [hn]
  · have : ¬ k = j := fun e => hj e.symm
    cases pendGet j l <;> simp [hj, this]

theorem vmap_cons {n k : Nat} {d : Bytes} {r : List (Nat × Bytes)} (hk1 : 1 ≤ k) :
    vmap n ((k, d) :: r) = (vmap n r).set (k - 1) (some d) := by
  apply vmap_of_update hk1
  intro j
  by_cases hj : j = k
  · subst hj; simp [pendGet]
  · have : ¬ k = j := fun e => hj e.symm
    simp [pendGet, hj, this]

/-- `received_count = pending_fragments.len()` counts the filled virtual slots -/
theorem vmap_countP {n : Nat} : ∀ (l : List (Nat × Bytes)), (l.map Prod.fst).Nodup → (∀ p ∈ l, 1 ≤ p.1 ∧ p.1 ≤ n) →
    (vmap n l).countP Option.isSome = l.length := by
  intro l
  induction l with
  | nil => intro _ _; simp [vmap, pendGet, List.countP_map]
  | cons p r ih =>
    obtain ⟨k, d⟩ := p
    intro hnd hr
    simp only [List.map_cons, List.nodup_cons] at hnd
    obtain ⟨h1, h2⟩ := hr (k, d) List.mem_cons_self
    have hidx : k - 1 < (vmap n r).length := by rw [vmap_length]; omega
    have hnone : (vmap n r)[k - 1] = none := by
      have e := vmap_get r (show k - 1 < n by omega)
      have e2 : k - 1 + 1 = k := by omega
      rw [e2, pendGet_none_iff.mpr hnd.1, List.getElem?_eq_getElem hidx] at e
      exact Option.some.inj e
    rw [vmap_cons h1, List.countP_set hidx, hnone, ih hnd.2 (fun p hp => hr p (List.mem_cons_of_mem _ hp))]
    simp

/-! ### one protocol-conforming sequence

`R[i]` is the data of the fragment with id `i + 1` (so `R = pieces.reverse`), `S` the ids seen so far. -/

/-- the slot vector of an entry whose count is `n`: the vector itself, or — above the vector limit — the pending map -/
def FragMsg.vslots (m : FragMsg) (n : Nat) : List (Option Bytes) :=
  if MAX_FRAGMENTS_VEC < n then vmap n m.pend else m.slots

/-- a slot vector `vs` and a counter `rc` that reflect exactly the ids `S` of the sequence `R` -/
def VOK (R : List Bytes) (S : List Nat) (vs : List (Option Bytes)) (rc : Nat) : Prop :=
  vs.length = R.length ∧
  (∀ i, i < R.length → vs[i]? = some (if i + 1 ∈ S then R[i]? else none)) ∧
  rc = vs.countP Option.isSome

/-- shape of the (virtual) slot vector once the count is known -/
def SlotsOK (R : List Bytes) (S : List Nat) (m : FragMsg) : Prop := VOK R S (m.vslots R.length) m.received

/-- every id `1..n` has been seen -/
def Full (R : List Bytes) (S : List Nat) : Prop := ∀ i, i < R.length → i + 1 ∈ S

theorem VOK_congr {R : List Bytes} {S S' : List Nat} {vs : List (Option Bytes)} {rc : Nat} (h : ∀ k, k ∈ S ↔ k ∈ S')
    (hs : VOK R S vs rc) : VOK R S' vs rc := by
  obtain ⟨h1, h2, h3⟩ := hs
  refine ⟨h1, ?_, h3⟩
  intro i hi
  rw [h2 i hi]
  by_cases hm : i + 1 ∈ S
  · simp [hm, (h _).mp hm]
  · have : i + 1 ∉ S' := fun x => hm ((h _).mpr x)
    simp [hm, this]

theorem SlotsOK_congr {R : List Bytes} {S S' : List Nat} {m : FragMsg} (h : ∀ k, k ∈ S ↔ k ∈ S')
    (hs : SlotsOK R S m) : SlotsOK R S' m := VOK_congr h hs

/-- one fragment of the sequence arriving at a slot vector: a duplicate changes nothing, a new one fills its slot -/
theorem vok_arrive {R : List Bytes} {S : List Nat} {vs : List (Option Bytes)} {rc k : Nat} {d : Bytes} (h : VOK R S vs rc)
    (hk1 : 1 ≤ k) (hk2 : k ≤ R.length) (hd : R[k - 1]? = some d) :
    vs[k - 1]? = some (if k ∈ S then some d else none) ∧
    (k ∈ S → VOK R (k :: S) vs rc) ∧
    (k ∉ S → VOK R (k :: S) (vs.set (k - 1) (some d)) (rc + 1)) := by
  obtain ⟨hl, hp, hr⟩ := h
  have hidx : k - 1 < vs.length := by omega
  have hs := hp (k - 1) (by omega)
  have e : k - 1 + 1 = k := by omega
  rw [e, hd] at hs
  refine ⟨hs, ?_, ?_⟩
  · intro hk
    refine ⟨hl, ?_, hr⟩
    intro i hi
    rw [hp i hi]
    by_cases hik : i + 1 = k
    · simp [hik, hk]
    · simp [List.mem_cons, hik]
  · intro hk
    rw [if_neg hk] at hs
    refine ⟨by simp [hl], ?_, ?_⟩
    · intro i hi
      simp only [List.getElem?_set]
      by_cases hik : k - 1 = i
      · subst hik; simp [hidx, e, hd]
      · have : ¬ i + 1 = k := by omega
        simp [hik, hp i hi, List.mem_cons, this]
    · rw [List.countP_set hidx]
      have hnone : vs[k - 1] = none := by
        have := List.getElem?_eq_getElem hidx
        rw [this] at hs; exact Option.some.inj hs
      simp [hnone, hr]

theorem place_total (m : FragMsg) (k : Nat) (d : Bytes) : (m.place k d).total = m.total := by
  unfold FragMsg.place
  split
  · split <;> rfl
  · rfl

theorem place_cache (m : FragMsg) (k : Nat) (d : Bytes) : (m.place k d).cache = m.cache := by
  unfold FragMsg.place
  split
  · split <;> rfl
  · rfl

theorem place_pend (m : FragMsg) (k : Nat) (d : Bytes) : (m.place k d).pend = m.pend := by
  unfold FragMsg.place
  split
  · split <;> rfl
  · rfl

theorem place_last (m : FragMsg) (k : Nat) (d : Bytes) : (m.place k d).last = m.last := by
  unfold FragMsg.place
  split
  · split <;> rfl
  · rfl

theorem buffer_total (m : FragMsg) (c : Bool) (k : Nat) (d : Bytes) : (m.buffer c k d).total = m.total := by
  unfold FragMsg.buffer; split <;> rfl

theorem buffer_cache (m : FragMsg) (c : Bool) (k : Nat) (d : Bytes) : (m.buffer c k d).cache = m.cache := by
  unfold FragMsg.buffer; split <;> rfl

theorem buffer_slots (m : FragMsg) (c : Bool) (k : Nat) (d : Bytes) : (m.buffer c k d).slots = m.slots := by
  unfold FragMsg.buffer; split <;> rfl

theorem buffer_last (m : FragMsg) (c : Bool) (k : Nat) (d : Bytes) : (m.buffer c k d).last = m.last := by
  unfold FragMsg.buffer; split <;> rfl

/-- the slot store, at or below the vector limit -/
theorem place_ok {R : List Bytes} {S : List Nat} {m : FragMsg} {k : Nat} {d : Bytes} (hv : ¬ MAX_FRAGMENTS_VEC < R.length)
    (h : SlotsOK R S m) (hk1 : 1 ≤ k) (hk2 : k ≤ R.length) (hd : R[k - 1]? = some d) :
    SlotsOK R (k :: S) (m.place k d) := by
  have ev : ∀ m' : FragMsg, m'.vslots R.length = m'.slots := fun m' => by simp [FragMsg.vslots, hv]
  unfold SlotsOK at h ⊢
  rw [ev] at h ⊢
  obtain ⟨a1, a2, a3⟩ := vok_arrive h hk1 hk2 hd
  have hidx : k - 1 < m.slots.length := by rw [h.1]; omega
  unfold FragMsg.place
  rw [if_pos hidx, a1]
  by_cases hk : k ∈ S
  · rw [if_pos hk]; exact a2 hk
  · rw [if_neg hk]; exact a3 hk

/-- the pending-map store, above the vector limit -/
theorem buffer_ok {R : List Bytes} {S : List Nat} {m : FragMsg} {k : Nat} {d : Bytes} (hv : MAX_FRAGMENTS_VEC < R.length)
    (h : SlotsOK R S m) (hk1 : 1 ≤ k) (hk2 : k ≤ R.length) (hd : R[k - 1]? = some d) :
    SlotsOK R (k :: S) (m.buffer true k d) := by
  have ev : ∀ m' : FragMsg, m'.vslots R.length = vmap R.length m'.pend := fun m' => by simp [FragMsg.vslots, hv]
  unfold SlotsOK at h ⊢
  rw [ev] at h ⊢
  obtain ⟨a1, a2, a3⟩ := vok_arrive h hk1 hk2 hd
  have e : k - 1 + 1 = k := by omega
  rw [vmap_get _ (show k - 1 < R.length by omega), e] at a1
  have a1 := Option.some.inj a1
  unfold FragMsg.buffer
  rw [any_key_eq, a1]
  by_cases hk : k ∈ S
  · simp only [if_pos hk, Option.isSome_some, if_true]; exact a2 hk
  · rw [if_neg hk] at a1
    simp only [if_neg hk, Option.isSome_none, Bool.false_eq_true, if_false, if_true]
    rw [vmap_snoc hk1 a1]
    exact a3 hk

theorem received_eq_iff {R : List Bytes} {S : List Nat} {m : FragMsg} (h : SlotsOK R S m) :
    m.received = R.length ↔ Full R S := by
  obtain ⟨hl, hp, hr⟩ := h
  generalize m.vslots R.length = vs at hl hp hr
  rw [hr, ← hl, List.countP_eq_length]
  constructor
  · intro ha i hi
    have hs := hp i hi
    by_cases hm : i + 1 ∈ S
    · exact hm
    · rw [if_neg hm] at hs
      have := ha none (List.mem_iff_getElem?.mpr ⟨i, hs⟩)
      simp at this
  · intro hf a ha
    obtain ⟨i, hi⟩ := List.mem_iff_getElem?.mp ha
    have hlt : i < R.length := by
      have := (List.getElem?_eq_some_iff.mp hi).1
      omega
    rw [hp i hlt, if_pos (hf i hlt)] at hi
    have : R[i]? = some R[i] := List.getElem?_eq_getElem hlt
    rw [this] at hi
    rw [← Option.some.inj hi]; rfl

theorem slots_full {R : List Bytes} {S : List Nat} {m : FragMsg} (h : SlotsOK R S m) (hf : Full R S) :
    ((m.vslots R.length).filterMap id).flatten = R.flatten := by
  obtain ⟨hl, hp, _⟩ := h
  have : m.vslots R.length = R.map some := by
    apply List.ext_getElem?
    intro i
    by_cases hi : i < R.length
    · rw [hp i hi, if_pos (hf i hi)]
      simp [List.getElem?_eq_getElem hi]
    · have h1 : (m.vslots R.length)[i]? = none := List.getElem?_eq_none (by omega)
      have h2 : (R.map some)[i]? = none := List.getElem?_eq_none (by simp; omega)
      rw [h1, h2]
  rw [this, List.filterMap_map]
  simp

/-- what `reassemble` appends is the (virtual) slot vector in index order -/
theorem reassemble_eq {m : FragMsg} {n : Nat} (ht : m.total = some n) (hc : m.isComplete = true) :
    m.reassemble = some (m.cache.getD [] ++ ((m.vslots n).filterMap id).flatten) := by
  unfold FragMsg.reassemble FragMsg.vslots
  rw [ht, if_pos hc]
  simp only
  split
  · rw [vmap, List.filterMap_map]; rfl
  · rfl

/-- what `reassemble` returns for a complete conforming sequence: cache, then the pieces by ASCENDING id -/
def ascending (cache : Option Bytes) (R : List Bytes) : Bytes := cache.getD [] ++ R.flatten

/-- the state of a sequence that has received the ids `S` (not all of them) -/
def Good (R : List Bytes) (cache : Option Bytes) (S : List Nat) : Option FragMsg → Prop
  | none => S = []
  | some m => S ≠ [] ∧
      (R.length ∈ S → m.total = some R.length ∧ m.cache = cache ∧ SlotsOK R S m) ∧
      (R.length ∉ S → m.total = none ∧ m.slots = [] ∧ m.received = 0 ∧ (m.pend.map Prod.fst).Nodup ∧
        (∀ p ∈ m.pend, p.1 ∈ S ∧ 1 ≤ p.1 ∧ p.1 ≤ R.length ∧ R[p.1 - 1]? = some p.2) ∧
        (∀ k ∈ S, ∃ d, (k, d) ∈ m.pend))

/-- `add_fragment` of a fragment of the sequence once the count is known -/
theorem add_ok {R : List Bytes} {S : List Nat} {m : FragMsg} {k now : Nat} {d : Bytes}
    (ht : m.total = some R.length) (hs : SlotsOK R S m)
    (hk1 : 1 ≤ k) (hk2 : k ≤ R.length) (hd : R[k - 1]? = some d) :
    SlotsOK R (k :: S) (m.addFragment now k d) ∧ (m.addFragment now k d).total = m.total ∧
      (m.addFragment now k d).cache = m.cache := by
  have hk0 : ¬ k = 0 := by omega
  have hs' : SlotsOK R S { m with last := now } := hs
  by_cases hv : MAX_FRAGMENTS_VEC < R.length
  · have hadd : m.addFragment now k d = ({ m with last := now } : FragMsg).buffer true k d := by
      simp only [FragMsg.addFragment, hk0, if_false, ht, hk2, if_true, hv]
    rw [hadd]
    exact ⟨buffer_ok hv hs' hk1 hk2 hd, buffer_total _ _ _ _, buffer_cache _ _ _ _⟩
  · have hadd : m.addFragment now k d = ({ m with last := now } : FragMsg).place k d := by
      simp only [FragMsg.addFragment, hk0, if_false, ht, hk2, if_true, hv]
    rw [hadd]
    exact ⟨place_ok hv hs' hk1 hk2 hd, place_total _ _ _, place_cache _ _ _⟩

/-- common end of `start_fragment`/`add_fragment` once the count is known -/
theorem finish {R : List Bytes} {cache : Option Bytes} {S : List Nat} {m : FragMsg} {k now : Nat} {d : Bytes}
    (ht : m.total = some R.length) (hc : m.cache = cache) (hs : SlotsOK R S m)
    (hk1 : 1 ≤ k) (hk2 : k ≤ R.length) (hd : R[k - 1]? = some d) :
    (Full R (k :: S) → (m.addFragment now k d).isComplete = true ∧
        (m.addFragment now k d).reassemble = some (ascending cache R)) ∧
    (¬ Full R (k :: S) → (m.addFragment now k d).isComplete = false ∧
        ((m.addFragment now k d).total = some R.length ∧ (m.addFragment now k d).cache = cache ∧
          SlotsOK R (k :: S) (m.addFragment now k d))) := by
  obtain ⟨hp1, hp2, hp3⟩ := add_ok (now := now) ht hs hk1 hk2 hd
  have htot : (m.addFragment now k d).total = some R.length := by rw [hp2]; exact ht
  have hcache : (m.addFragment now k d).cache = cache := by rw [hp3]; exact hc
  have hiff := received_eq_iff hp1
  constructor
  · intro hf
    have hcomp : (m.addFragment now k d).isComplete = true := by
      simp only [FragMsg.isComplete, htot]
      simpa using hiff.mpr hf
    refine ⟨hcomp, ?_⟩
    rw [reassemble_eq htot hcomp, hcache, slots_full hp1 hf, ascending]
  · intro hf
    refine ⟨?_, htot, hcache, hp1⟩
    simp only [FragMsg.isComplete, htot]
    have : ¬ (m.addFragment now k d).received = R.length := fun e => hf (hiff.mp e)
    simpa using this

/-- the drain loop of `set_total_fragments` -/
theorem fold_place {R : List Bytes} (hv : ¬ MAX_FRAGMENTS_VEC < R.length) (L : List (Nat × Bytes))
    (hL : ∀ p ∈ L, 1 ≤ p.1 ∧ p.1 ≤ R.length ∧ R[p.1 - 1]? = some p.2) :
    ∀ (S : List Nat) (m : FragMsg), SlotsOK R S m →
      SlotsOK R (L.map Prod.fst ++ S) (L.foldl (FragMsg.placePending R.length) m) ∧
      (L.foldl (FragMsg.placePending R.length) m).total = m.total ∧
      (L.foldl (FragMsg.placePending R.length) m).cache = m.cache := by
  induction L with
  | nil => intro S m h; exact ⟨h, rfl, rfl⟩
  | cons p r ih =>
    intro S m h
    obtain ⟨h1, h2, h3⟩ := hL p (List.mem_cons_self)
    have hstep : FragMsg.placePending R.length m p = m.place p.1 p.2 := by
      simp only [FragMsg.placePending]
      rw [if_pos ⟨by omega, h2⟩]
    have q1 := place_ok hv h h1 h2 h3
    obtain ⟨r1, r2, r3⟩ := ih (fun x hx => hL x (List.mem_cons_of_mem _ hx)) (p.1 :: S) (m.place p.1 p.2) q1
    simp only [List.foldl_cons, hstep]
    refine ⟨SlotsOK_congr ?_ r1, r2.trans (place_total _ _ _), r3.trans (place_cache _ _ _)⟩
    intro k
    simp only [List.mem_append, List.mem_cons, List.map_cons]
    constructor
    · rintro (a | a | a)
      · exact Or.inl (Or.inr a)
      · exact Or.inl (Or.inl a)
      · exact Or.inr a
    · rintro ((a | a) | a)
      · exact Or.inr (Or.inl a)
      · exact Or.inl a
      · exact Or.inr (Or.inr a)

theorem vok_replicate (R : List Bytes) : VOK R [] (List.replicate R.length none) 0 := by
  refine ⟨by simp, ?_, ?_⟩
  · intro i hi
    simp [hi]
  · rw [List.countP_replicate]; simp

theorem slotsOK_replicate (R : List Bytes) (m : FragMsg) (hv : ¬ MAX_FRAGMENTS_VEC < R.length)
    (h1 : m.slots = List.replicate R.length none) (h2 : m.received = 0) : SlotsOK R [] m := by
  unfold SlotsOK FragMsg.vslots
  rw [if_neg hv, h1, h2]
  exact vok_replicate R

theorem slotsOK_empty_map (R : List Bytes) (m : FragMsg) (hv : MAX_FRAGMENTS_VEC < R.length)
    (h1 : m.pend = []) (h2 : m.received = 0) : SlotsOK R [] m := by
  unfold SlotsOK FragMsg.vslots
  rw [if_pos hv, h1, h2]
  have : vmap R.length [] = List.replicate R.length none := by
    apply List.ext_getElem?
    intro i
    by_cases hi : i < R.length
    · rw [vmap_get _ hi]; simp [pendGet, hi]
    · rw [List.getElem?_eq_none (by rw [vmap_length]; omega), List.getElem?_eq_none (by simp; omega)]
  rw [this]
  exact vok_replicate R

/-- the fragments buffered before the header, once a header with a count above the vector limit has arrived -/
theorem slotsOK_of_buffered {R : List Bytes} {S : List Nat} {m : FragMsg} (hv : MAX_FRAGMENTS_VEC < R.length)
    (hnd : (m.pend.map Prod.fst).Nodup)
    (hp1 : ∀ p ∈ m.pend, p.1 ∈ S ∧ 1 ≤ p.1 ∧ p.1 ≤ R.length ∧ R[p.1 - 1]? = some p.2)
    (hp2 : ∀ k ∈ S, ∃ d, (k, d) ∈ m.pend) (hr : m.received = m.pend.length) : SlotsOK R S m := by
  unfold SlotsOK FragMsg.vslots
  rw [if_pos hv]
  refine ⟨vmap_length _ _, ?_, ?_⟩
  · intro i hi
    rw [vmap_get _ hi]
    by_cases hm : i + 1 ∈ S
    · obtain ⟨d, hd⟩ := hp2 _ hm
      cases hg : pendGet (i + 1) m.pend with
      | none =>
        exact absurd (List.mem_map.mpr ⟨(i + 1, d), hd, rfl⟩) (pendGet_none_iff.mp hg)
      | some d' =>
        have := (hp1 _ (pendGet_mem hg)).2.2.2
        simp only [Nat.add_sub_cancel] at this
        rw [if_pos hm, this]
    · rw [if_neg hm]
      congr 1
      apply pendGet_none_iff.mpr
      intro hk
      obtain ⟨p, hp, e⟩ := List.mem_map.mp hk
      exact hm (e ▸ (hp1 p hp).1)
  · rw [hr, vmap_countP m.pend hnd (fun p hp => ⟨(hp1 p hp).2.1, (hp1 p hp).2.2.1⟩)]

/-- the fragment id an event carries -/
def Op.fid : Op → Nat
  | .start _ _ fid _ _ => fid
  | .add _ _ fid _ => fid
  | .cleanup _ => 0

/-- `o` delivers one of the fragments of the conforming sequence `(q, cache, R)`: the header frame for id `n`,
a continuation frame for an id below `n` -/
def IsFrag (R : List Bytes) (q : Nat) (cache : Option Bytes) : Op → Prop
  | .start _ q' fid c d => q' = q ∧ fid = R.length ∧ c = cache ∧ R[fid - 1]? = some d
  | .add _ q' fid d => q' = q ∧ 1 ≤ fid ∧ fid < R.length ∧ R[fid - 1]? = some d
  | .cleanup _ => False

theorem not_full_of_not_mem {R : List Bytes} {S : List Nat} (hn : 1 ≤ R.length) (h : R.length ∉ S) : ¬ Full R S := by
  intro hf
  have := hf (R.length - 1) (by omega)
  have e : R.length - 1 + 1 = R.length := by omega
  rw [e] at this
  exact h this

/-- one fragment of a conforming sequence arriving at its entry -/
theorem stepQ_frag {R : List Bytes} {q : Nat} {cache : Option Bytes} {t : Nat} {st : Option FragMsg} {S : List Nat} {o : Op}
    (hn : 1 ≤ R.length) (hvm : R.length ≤ MAX_FRAGMENT_COUNT) (hg : Good R cache S st) (ho : IsFrag R q cache o) :
    (Full R (Op.fid o :: S) → stepQ t st o = (none, some (ascending cache R))) ∧
    (¬ Full R (Op.fid o :: S) → Good R cache (Op.fid o :: S) (stepQ t st o).1 ∧ (stepQ t st o).2 = none) := by
  cases o with
  | cleanup now => exact absurd ho (by simp [IsFrag])
  | start now q' fid c d =>
    obtain ⟨_, hfid, hc, hd⟩ := ho
    subst hfid; subst hc
    have hguard : ¬ (R.length = 0 ∨ MAX_FRAGMENT_COUNT < R.length) := by omega
    -- after `set_total_fragments` (and the cache assignment) the count is known and the slots reflect `S`
    have key : ∀ (m : FragMsg), m.total = some R.length → m.cache = c → SlotsOK R S m →
        (Full R (R.length :: S) →
          (if (m.addFragment now R.length d).isComplete then ((none : Option FragMsg), (m.addFragment now R.length d).reassemble)
            else (some (m.addFragment now R.length d), none)) = (none, some (ascending c R))) ∧
        (¬ Full R (R.length :: S) →
          Good R c (R.length :: S) (if (m.addFragment now R.length d).isComplete then
              ((none : Option FragMsg), (m.addFragment now R.length d).reassemble)
            else (some (m.addFragment now R.length d), none)).1 ∧
          (if (m.addFragment now R.length d).isComplete then ((none : Option FragMsg), (m.addFragment now R.length d).reassemble)
            else (some (m.addFragment now R.length d), none)).2 = none) := by
      intro m ht hcache hs
      obtain ⟨f1, f2⟩ := finish (now := now) ht hcache hs hn (Nat.le_refl _) hd
      constructor
      · intro hf
        obtain ⟨a, b⟩ := f1 hf
        rw [a, b]; rfl
      · intro hf
        obtain ⟨a, b1, b2, b3⟩ := f2 hf
        rw [a]
        refine ⟨⟨by simp, fun _ => ⟨b1, b2, b3⟩, fun hx => absurd (List.mem_cons_self) hx⟩, rfl⟩
    simp only [stepQ, startQ, Op.fid, if_neg hguard]
    cases st with
    | none =>
      have hS : S = [] := hg
      subst hS
      simp only
      apply key
      · rfl
      · rfl
      · by_cases hv : MAX_FRAGMENTS_VEC < R.length
        · exact slotsOK_empty_map R _ hv rfl rfl
        · apply slotsOK_replicate R _ hv
          · simp [FragMsg.new, hv]
          · rfl
    | some m =>
      obtain ⟨hne, hB, hA⟩ := hg
      simp only
      by_cases hmem : R.length ∈ S
      · obtain ⟨ht, hcache, hs⟩ := hB hmem
        have hnc : ¬ (m.total.isSome ∧ m.total ≠ some R.length) := by rw [ht]; simp
        rw [if_neg hnc]
        have hst : m.setTotal R.length = m := by simp [FragMsg.setTotal, ht]
        rw [hst]
        exact key { m with cache := c } ht rfl hs
      · obtain ⟨ht, hsl, hr, hnd, hp1, hp2⟩ := hA hmem
        have hnc : ¬ (m.total.isSome ∧ m.total ≠ some R.length) := by rw [ht]; simp
        rw [if_neg hnc]
        have hne' : ¬ m.total = some R.length := by rw [ht]; simp
        by_cases hv : MAX_FRAGMENTS_VEC < R.length
        · have hkeep : m.pend.filter (fun p => decide (p.1 ≤ R.length)) = m.pend := by
            apply List.filter_eq_self.mpr
            intro p hp
            simpa using (hp1 p hp).2.2.1
          have hst : m.setTotal R.length = { m with total := some R.length, received := m.pend.length } := by
            simp only [FragMsg.setTotal, if_neg hne', if_pos hv, hkeep]
          rw [hst]
          apply key
          · rfl
          · rfl
          · exact slotsOK_of_buffered (m := { m with total := some R.length, received := m.pend.length, cache := c })
              hv hnd hp1 hp2 rfl
        · have hst : m.setTotal R.length =
              m.pend.foldl (FragMsg.placePending R.length)
                { m with total := some R.length, slots := resize m.slots R.length, pend := [] } := by
            simp only [FragMsg.setTotal, if_neg hne', if_neg hv]
          have h0 : SlotsOK R [] ({ m with total := some R.length, slots := resize m.slots R.length, pend := [] } : FragMsg) := by
            apply slotsOK_replicate R _ hv
            · simp [resize, hsl]
            · exact hr
          obtain ⟨g1, g2, g3⟩ := fold_place hv m.pend (fun p hp => (hp1 p hp).2) [] _ h0
          rw [hst]
          apply key
          · exact g2
          · rfl
          · refine SlotsOK_congr ?_ g1
            intro k
            simp only [List.append_nil, List.mem_map]
            constructor
            · rintro ⟨p, hp, rfl⟩; exact (hp1 p hp).1
            · intro hk
              obtain ⟨d', hd'⟩ := hp2 k hk
              exact ⟨(k, d'), hd', rfl⟩
  | add now q' fid d =>
    obtain ⟨_, hf1, hf2, hd⟩ := ho
    simp only [stepQ, addQ, Op.fid]
    have hfid0 : ¬ fid = 0 := by omega
    have hnot : R.length ∉ fid :: S → ¬ Full R (fid :: S) := not_full_of_not_mem hn
    cases st with
    | none =>
      have hS : S = [] := hg
      subst hS
      have hnm : R.length ∉ [fid] := by simp; omega
      refine ⟨fun hf => absurd hf (hnot hnm), fun _ => ⟨?_, rfl⟩⟩
      simp only [FragMsg.new, FragMsg.addFragment, FragMsg.buffer, hfid0, if_false, List.any_nil, Bool.false_eq_true,
        List.nil_append]
      refine ⟨by simp, fun hx => absurd hx hnm, fun _ => ⟨rfl, rfl, rfl, by simp, ?_, ?_⟩⟩
      · intro p hp
        simp only [List.mem_singleton] at hp
        subst hp
        exact ⟨List.mem_cons_self, hf1, by simp only; omega, hd⟩
      · intro k hk
        simp only [List.mem_singleton] at hk
        subst hk
        exact ⟨d, List.mem_cons_self⟩
    | some m =>
      obtain ⟨hne, hB, hA⟩ := hg
      simp only
      by_cases hmem : R.length ∈ S
      · obtain ⟨ht, hcache, hs⟩ := hB hmem
        obtain ⟨f1, f2⟩ := finish (now := now) ht hcache hs hf1 (Nat.le_of_lt hf2) hd
        constructor
        · intro hf
          obtain ⟨a, b⟩ := f1 hf
          rw [a, b]; rfl
        · intro hf
          obtain ⟨a, b1, b2, b3⟩ := f2 hf
          rw [a]
          exact ⟨⟨by simp, fun _ => ⟨b1, b2, b3⟩, fun hx => absurd (List.mem_cons_of_mem _ hmem) hx⟩, rfl⟩
      · obtain ⟨ht, hsl, hr, hnd, hp1, hp2⟩ := hA hmem
        have hnm : R.length ∉ fid :: S := by
          simp only [List.mem_cons, not_or]; exact ⟨by omega, hmem⟩
        refine ⟨fun hf => absurd hf (hnot hnm), fun _ => ?_⟩
        by_cases hany : m.pend.any (fun p => p.1 == fid) = true
        · have hadd : m.addFragment now fid d = { m with last := now } := by
            simp only [FragMsg.addFragment, FragMsg.buffer, hfid0, if_false, ht, hany, if_true]
          rw [hadd]
          have hinc : ({ m with last := now } : FragMsg).isComplete = false := by simp [FragMsg.isComplete, ht]
          rw [hinc]
          refine ⟨⟨by simp, fun hx => absurd hx hnm, fun _ => ⟨ht, hsl, hr, hnd, ?_, ?_⟩⟩, rfl⟩
          · intro p hp
            obtain ⟨a, b⟩ := hp1 p hp
            exact ⟨List.mem_cons_of_mem _ a, b⟩
          · intro k hk
            simp only [List.mem_cons] at hk
            rcases hk with rfl | hk
            · obtain ⟨p, hp, he⟩ := List.any_eq_true.mp hany
              have : p.1 = k := by simpa using he
              exact ⟨p.2, by rw [← this]; exact hp⟩
            · exact hp2 k hk
        · have hadd : m.addFragment now fid d = { m with last := now, pend := m.pend ++ [(fid, d)] } := by
            simp only [FragMsg.addFragment, FragMsg.buffer, hfid0, if_false, ht, hany]
            rfl
          rw [hadd]
          have hinc : ({ m with last := now, pend := m.pend ++ [(fid, d)] } : FragMsg).isComplete = false := by
            simp [FragMsg.isComplete, ht]
          rw [hinc]
          have hfresh : fid ∉ m.pend.map Prod.fst := by
            apply pendGet_none_iff.mp
            have := any_key_eq m.pend fid
            cases hg : pendGet fid m.pend with
            | none => rfl
            | some x => rw [hg] at this; exact absurd this hany
          refine ⟨⟨by simp, fun hx => absurd hx hnm, fun _ => ⟨ht, hsl, hr, ?_, ?_, ?_⟩⟩, rfl⟩
          · simp only [List.map_append, List.map_cons, List.map_nil]
            rw [List.nodup_append]
            refine ⟨hnd, by simp, ?_⟩
            intro a ha b hb
            simp only [List.mem_singleton] at hb
            subst hb
            intro e; subst e; exact hfresh ha
          · intro p hp
            simp only [List.mem_append, List.mem_singleton] at hp
            rcases hp with hp | rfl
            · obtain ⟨a, b⟩ := hp1 p hp
              exact ⟨List.mem_cons_of_mem _ a, b⟩
            · exact ⟨List.mem_cons_self, hf1, by simp only; omega, hd⟩
          · intro k hk
            simp only [List.mem_cons] at hk
            rcases hk with rfl | hk
            · exact ⟨d, by simp⟩
            · obtain ⟨d', hd'⟩ := hp2 k hk
              exact ⟨d', by simp [hd']⟩

/-! ### runs of the one-sequence machine -/

theorem afterQ_append (t : Nat) (L1 L2 : List Op) : ∀ st, afterQ t st (L1 ++ L2) = afterQ t (afterQ t st L1) L2 := by
  induction L1 with
  | nil => intro st; rfl
  | cons o r ih => intro st; simp only [List.cons_append, afterQ, ih]

theorem outsQ_append (t : Nat) (L1 L2 : List Op) :
    ∀ st, outsQ t st (L1 ++ L2) = outsQ t st L1 ++ outsQ t (afterQ t st L1) L2 := by
  induction L1 with
  | nil => intro st; rfl
  | cons o r ih =>
    intro st
    simp only [List.cons_append, outsQ, afterQ, ih]
    split <;> rfl

/-- an event that concerns a conforming, unexpiring sequence: one of its fragments, or a cleanup that finds nothing expired -/
def Conf (R : List Bytes) (q : Nat) (cache : Option Bytes) (t : Nat) (o : Op) : Prop :=
  IsFrag R q cache o ∨ ∃ now, o = .cleanup now ∧ now ≤ t

/-- the fragment ids delivered by a list of events -/
def fidsOf (L : List Op) : List Nat := (L.filter (fun o => o.seq.isSome)).map Op.fid

theorem Full_mono {R : List Bytes} {S S' : List Nat} (h : ∀ k ∈ S, k ∈ S') (hf : Full R S) : Full R S' :=
  fun i hi => h _ (hf i hi)

theorem cleanQ_unexpired {t now : Nat} (h : now ≤ t) (st : Option FragMsg) : cleanQ t st now = st := by
  cases st with
  | none => rfl
  | some m =>
    have : m.isExpired now t = false := by
      simp only [FragMsg.isExpired, decide_eq_false_iff_not]; omega
    simp [cleanQ, Option.filter, this]

theorem isFrag_seq {R : List Bytes} {q : Nat} {cache : Option Bytes} {o : Op} (h : IsFrag R q cache o) : o.seq = some q := by
  cases o with
  | start _ _ _ _ _ => simp [Op.seq, h.1]
  | add _ _ _ _ => simp [Op.seq, h.1]
  | cleanup _ => exact absurd h (by simp [IsFrag])

/-- as long as some id is missing nothing is returned, and the entry is the `Good` one for the ids seen -/
theorem run_incomplete {R : List Bytes} {q : Nat} {cache : Option Bytes} {t : Nat}
    (hn : 1 ≤ R.length) (hv : R.length ≤ MAX_FRAGMENT_COUNT) :
    ∀ (L : List Op) (S : List Nat) (st : Option FragMsg), Good R cache S st → (∀ o ∈ L, Conf R q cache t o) →
      ¬ Full R ((fidsOf L).reverse ++ S) →
      Good R cache ((fidsOf L).reverse ++ S) (afterQ t st L) ∧ outsQ t st L = (fidsOf L).map (fun _ => none) := by
  intro L
  induction L with
  | nil => intro S st hg _ _; exact ⟨hg, rfl⟩
  | cons o r ih =>
    intro S st hg hc hnf
    rcases hc o List.mem_cons_self with hfrag | ⟨now, rfl, hnow⟩
    · have hseq := isFrag_seq hfrag
      have hfo : fidsOf (o :: r) = Op.fid o :: fidsOf r := by simp [fidsOf, hseq]
      rw [hfo] at hnf ⊢
      have hS : (Op.fid o :: fidsOf r).reverse ++ S = (fidsOf r).reverse ++ (Op.fid o :: S) := by simp
      rw [hS] at hnf ⊢
      have hnf1 : ¬ Full R (Op.fid o :: S) := fun hf => hnf (Full_mono (fun k hk => List.mem_append_right _ hk) hf)
      obtain ⟨g1, g2⟩ := (stepQ_frag (t := t) hn hv hg hfrag).2 hnf1
      obtain ⟨i1, i2⟩ := ih (Op.fid o :: S) _ g1 (fun x hx => hc x (List.mem_cons_of_mem _ hx)) hnf
      refine ⟨i1, ?_⟩
      simp only [outsQ, hseq, Option.isSome_some, if_true, g2, i2, List.map_cons]
    · have hfo : fidsOf (Op.cleanup now :: r) = fidsOf r := by simp [fidsOf, Op.seq]
      rw [hfo] at hnf ⊢
      have hstep : stepQ t st (Op.cleanup now) = (st, none) := by simp [stepQ, cleanQ_unexpired hnow]
      obtain ⟨i1, i2⟩ := ih S st hg (fun x hx => hc x (List.mem_cons_of_mem _ hx)) hnf
      refine ⟨by simpa only [afterQ, hstep] using i1, ?_⟩
      simp only [outsQ, Op.seq, Option.isSome_none, Bool.false_eq_true, if_false, hstep, i2]

/-- EXACTLY ONCE: from a sequence not yet started, whatever precedes the last missing fragment returns nothing, the last
missing fragment returns the pieces in ascending id, and nothing is returned afterwards unless all ids arrive again -/
theorem run_complete {R : List Bytes} {q : Nat} {cache : Option Bytes} {t : Nat}
    (hn : 1 ≤ R.length) (hv : R.length ≤ MAX_FRAGMENT_COUNT) (pre post : List Op) (l : Op)
    (hpre : ∀ o ∈ pre, Conf R q cache t o) (hl : IsFrag R q cache l) (hpost : ∀ o ∈ post, Conf R q cache t o)
    (hmiss : ¬ Full R (fidsOf pre).reverse) (hfull : Full R (Op.fid l :: (fidsOf pre).reverse))
    (hagain : ¬ Full R (fidsOf post).reverse) :
    outsQ t none (pre ++ l :: post) =
      (fidsOf pre).map (fun _ => none) ++ some (ascending cache R) :: (fidsOf post).map (fun _ => none) ∧
    Good R cache (fidsOf post).reverse (afterQ t none (pre ++ l :: post)) := by
  have hg0 : Good R cache [] none := rfl
  obtain ⟨a1, a2⟩ := run_incomplete (q := q) (t := t) hn hv pre [] none hg0 hpre (by simpa using hmiss)
  simp only [List.append_nil] at a1
  have hstep := (stepQ_frag (t := t) hn hv a1 hl).1 hfull
  obtain ⟨b1, b2⟩ := run_incomplete (q := q) (t := t) hn hv post [] none hg0 hpost (by simpa using hagain)
  simp only [List.append_nil] at b1
  have hseq := isFrag_seq hl
  constructor
  · rw [outsQ_append, a2]
    simp only [outsQ, hseq, Option.isSome_some, if_true, hstep, b2]
  · rw [afterQ_append]
    simp only [afterQ, hstep]
    exact b1

/-! ### vocabulary of the property theorems, and its link to the one-sequence lemmas -/

/-- the event by which the fragment `f` reaches the assembler when the clock shows `now`:
`start_fragment` for the header frame, `add_fragment` for a continuation frame -/
def fragOp (now : Nat) (f : Spec.Frag.Frag) : Op :=
  if f.hdr then .start now f.seq f.fid f.cache f.data else .add now f.seq f.fid f.data

/-- `o` delivers one of the fragments into which the protocol splits the pieces `ps` of sequence `q` -/
def Delivers (q : Nat) (cache : Option Bytes) (ps : List Bytes) (o : Op) : Prop :=
  ∃ now f, f ∈ Spec.Frag.number q cache ps ∧ o = fragOp now f

/-- number of events of sequence `q` -/
def cnt (q : Nat) (ops : List Op) : Nat := ops.countP (fun o => o.seq == some q)

/-- no cleanup in `ops` runs later than `t` (so with timeout `t` it finds nothing expired) -/
def Unexpiring (t : Nat) (ops : List Op) : Prop := ∀ now, Op.cleanup now ∈ ops → now ≤ t

theorem isFrag_of_delivers {q : Nat} {cache : Option Bytes} {ps : List Bytes} {o : Op} (h : Delivers q cache ps o) :
    IsFrag ps.reverse q cache o := by
  obtain ⟨now, f, hf, rfl⟩ := h
  obtain ⟨i, hi, rfl⟩ := List.mem_mapIdx.mp hf
  by_cases h0 : i = 0
  · subst h0
    simp only [fragOp, beq_self_eq_true, if_true, IsFrag, List.length_reverse, Nat.sub_zero, true_and]
    rw [List.getElem?_reverse (by omega)]
    have : ps.length - 1 - (ps.length - 1) = 0 := by omega
    rw [this]
    exact List.getElem?_eq_getElem hi
  · have hb : (i == 0) = false := by simpa using h0
    simp only [fragOp, hb, Bool.false_eq_true, if_false, IsFrag, List.length_reverse, true_and]
    refine ⟨by omega, by omega, ?_⟩
    rw [List.getElem?_reverse (by omega)]
    have : ps.length - 1 - (ps.length - i - 1) = i := by omega
    rw [this]
    exact List.getElem?_eq_getElem hi

theorem isFrag_fid_range {R : List Bytes} {q : Nat} {cache : Option Bytes} {o : Op} (hn : 1 ≤ R.length)
    (h : IsFrag R q cache o) : 1 ≤ Op.fid o ∧ Op.fid o ≤ R.length := by
  cases o with
  | start _ _ fid _ _ => obtain ⟨_, h2, _⟩ := h; simp only [Op.fid]; omega
  | add _ _ fid _ => obtain ⟨_, h2, h3, _⟩ := h; simp only [Op.fid]; omega
  | cleanup _ => exact absurd h (by simp [IsFrag])

theorem mem_proj {q : Nat} {X : List Op} {o : Op} : o ∈ proj q X ↔ o ∈ X ∧ (o.seq = some q ∨ o.seq = none) := by
  simp [proj, List.mem_filter]

theorem proj_append (q : Nat) (X Y : List Op) : proj q (X ++ Y) = proj q X ++ proj q Y := by
  simp [proj]

theorem proj_cons_self {q : Nat} {l : Op} (h : l.seq = some q) (Y : List Op) : proj q (l :: Y) = l :: proj q Y := by
  simp [proj, h]

theorem mem_fidsOf_proj {q k : Nat} {X : List Op} :
    k ∈ fidsOf (proj q X) ↔ ∃ o ∈ X, o.seq = some q ∧ Op.fid o = k := by
  simp only [fidsOf, proj, List.mem_map, List.mem_filter]
  constructor
  · rintro ⟨o, ⟨⟨ho, hs⟩, hsome⟩, rfl⟩
    refine ⟨o, ho, ?_, rfl⟩
    cases hq : o.seq with
    | none => simp [hq] at hsome
    | some q' => simpa [hq] using hs
  · rintro ⟨o, ho, hs, rfl⟩
    exact ⟨o, ⟨⟨ho, by simp [hs]⟩, by simp [hs]⟩, rfl⟩

theorem length_fidsOf_proj (q : Nat) (X : List Op) : (fidsOf (proj q X)).length = cnt q X := by
  simp only [fidsOf, proj, List.length_map, cnt, List.filter_filter, List.countP_eq_length_filter]
  congr 1
  apply List.filter_congr
  intro o _
  cases o.seq <;> simp

theorem conf_of_proj {q t : Nat} {cache : Option Bytes} {ps : List Bytes} {X : List Op}
    (hd : ∀ o ∈ X, o.seq = some q → Delivers q cache ps o) (hu : Unexpiring t X) :
    ∀ o ∈ proj q X, Conf ps.reverse q cache t o := by
  intro o ho
  obtain ⟨hX, hs | hs⟩ := mem_proj.mp ho
  · exact Or.inl (isFrag_of_delivers (hd o hX hs))
  · cases o with
    | cleanup now => exact Or.inr ⟨now, rfl, hu now hX⟩
    | start _ _ _ _ _ => simp [Op.seq] at hs
    | add _ _ _ _ => simp [Op.seq] at hs

theorem good_none_iff {R : List Bytes} {cache : Option Bytes} {S : List Nat} {st : Option FragMsg}
    (h : Good R cache S st) : st = none ↔ S = [] := by
  cases st with
  | none => exact ⟨fun _ => h, fun _ => rfl⟩
  | some m => exact ⟨fun e => by simp at e, fun e => absurd e h.1⟩

/-! ### small facts about `add_fragment` -/

theorem addFragment_total (m : FragMsg) (now fid : Nat) (d : Bytes) : (m.addFragment now fid d).total = m.total := by
  unfold FragMsg.addFragment
  simp only
  split
  · rfl
  · split
    · split
      · split
        · rw [buffer_total]
        · rw [place_total]
      · rfl
    · rw [buffer_total]

/-! ### no complete sequence is ever held -/

theorem stepQ_incomplete {t : Nat} {st : Option FragMsg} {o : Op} (h : ∀ m, st = some m → m.isComplete = false) :
    ∀ m, (stepQ t st o).1 = some m → m.isComplete = false := by
  intro m hm
  cases o with
  | cleanup now =>
    simp only [stepQ, cleanQ] at hm
    cases st with
    | none => simp at hm
    | some m' =>
      simp only [Option.filter] at hm
      split at hm
      · exact h m hm
      · simp at hm
  | add now q fid d =>
    simp only [stepQ, addQ] at hm
    cases st with
    | none =>
      simp only [Option.some.injEq] at hm
      subst hm
      simp [FragMsg.isComplete, addFragment_total, FragMsg.new]
    | some m' =>
      simp only at hm
      split at hm
      · simp at hm
      · rename_i hc
        simp only [Option.some.injEq] at hm
        subst hm; simpa using hc
  | start now q fid c d =>
    simp only [stepQ, startQ] at hm
    split at hm
    · exact h m hm
    · cases st with
      | none =>
        simp only at hm
        split at hm
        · simp at hm
        · rename_i hc
          simp only [Option.some.injEq] at hm
          subst hm; simpa using hc
      | some m' =>
        simp only at hm
        split at hm
        · simp only [Option.some.injEq] at hm
          subst hm; exact h _ rfl
        · split at hm
          · simp at hm
          · rename_i hc
            simp only [Option.some.injEq] at hm
            subst hm; simpa using hc

/-- every entry is incomplete -/
def AllIncomplete (l : PMap) : Prop := ∀ q m, lookup q l = some m → m.isComplete = false

theorem step_allIncomplete (a : Assembler) (o : Op) (hw : WF a.pending) (h : AllIncomplete a.pending) :
    AllIncomplete (a.step o).1.pending := by
  intro q m hm
  cases hs : o.seq with
  | none =>
    cases o with
    | cleanup now =>
      rw [(step_cleanup a now q hw).1] at hm
      exact stepQ_incomplete (fun m' hm' => h q m' hm') m hm
    | start _ _ _ _ _ => simp [Op.seq] at hs
    | add _ _ _ _ => simp [Op.seq] at hs
  | some q' =>
    by_cases hq : q' = q
    · subst hq
      rw [(step_self a o q' hs).1] at hm
      exact stepQ_incomplete (fun m' hm' => h q' m' hm') m hm
    · rw [step_other a o q q' hs hq] at hm
      exact h q m hm

theorem after_invariants (ops : List Op) : ∀ (a : Assembler), WF a.pending → AllIncomplete a.pending →
    WF (a.after ops).pending ∧ AllIncomplete (a.after ops).pending := by
  induction ops with
  | nil => intro a hw hi; exact ⟨hw, hi⟩
  | cons o r ih =>
    intro a hw hi
    exact ih _ (step_WF a o hw) (step_allIncomplete a o hw hi)

theorem afterQ_cleanups_none (t : Nat) (L : List Op) (h : ∀ o ∈ L, o.seq = none) : afterQ t none L = none := by
  induction L with
  | nil => rfl
  | cons o r ih =>
    have ho := h o List.mem_cons_self
    cases o with
    | cleanup now =>
      simp only [afterQ, stepQ, cleanQ, Option.filter_none]
      exact ih (fun x hx => h x (List.mem_cons_of_mem _ hx))
    | start _ _ _ _ _ => simp [Op.seq] at ho
    | add _ _ _ _ => simp [Op.seq] at ho

theorem addFragment_last (m : FragMsg) (now fid : Nat) (d : Bytes) : (m.addFragment now fid d).last = now := by
  unfold FragMsg.addFragment
  simp only
  split
  · rfl
  · split
    · split
      · split
        · rw [buffer_last]
        · rw [place_last]
      · rfl
    · rw [buffer_last]

/-! ### arrival orders given as permutations -/

/-- the fragment an event carries (inverse of `fragOp`) -/
def Op.toFrag : Op → Option Spec.Frag.Frag
  | .start _ q fid c d => some ⟨q, fid, true, c, d⟩
  | .add _ q fid d => some ⟨q, fid, false, none, d⟩
  | .cleanup _ => none

theorem fragOp_of_toFrag {o : Op} {f : Spec.Frag.Frag} (h : o.toFrag = some f) :
    (∃ now, o = fragOp now f) ∧ f.fid = Op.fid o := by
  cases o with
  | start now q fid c d =>
    simp only [Op.toFrag, Option.some.injEq] at h
    subst h
    exact ⟨⟨now, rfl⟩, rfl⟩
  | add now q fid d =>
    simp only [Op.toFrag, Option.some.injEq] at h
    subst h
    exact ⟨⟨now, rfl⟩, rfl⟩
  | cleanup now => simp [Op.toFrag] at h

theorem toFrag_isSome {o : Op} {q : Nat} (h : o.seq = some q) : ∃ f, o.toFrag = some f := by
  cases o with
  | start now q fid c d => exact ⟨_, rfl⟩
  | add now q fid d => exact ⟨_, rfl⟩
  | cleanup now => simp [Op.seq] at h

theorem fids_filterMap (q : Nat) : ∀ (L : List Op), (∀ o ∈ L, o.seq = some q) →
    (L.filterMap Op.toFrag).map (·.fid) = L.map Op.fid := by
  intro L
  induction L with
  | nil => intro _; rfl
  | cons o r ih =>
    intro h
    obtain ⟨f, hf⟩ := toFrag_isSome (h o List.mem_cons_self)
    simp only [List.filterMap_cons, hf, List.map_cons, (fragOp_of_toFrag hf).2,
      ih (fun x hx => h x (List.mem_cons_of_mem _ hx))]

theorem number_fids_nodup (q : Nat) (cache : Option Bytes) (ps : List Bytes) :
    ((Spec.Frag.number q cache ps).map (·.fid)).Nodup := by
  rw [List.Nodup, List.pairwise_iff_getElem]
  intro i j hi hj hij
  simp only [Spec.Frag.number, List.length_map, List.length_mapIdx] at hi hj
  simp only [Spec.Frag.number, List.getElem_map, List.getElem_mapIdx]
  omega

theorem number_has_fid (q : Nat) (cache : Option Bytes) (ps : List Bytes) (k : Nat) (h1 : 1 ≤ k) (h2 : k ≤ ps.length) :
    ∃ f ∈ Spec.Frag.number q cache ps, f.fid = k := by
  have hi : ps.length - k < ps.length := by omega
  refine ⟨_, List.mem_mapIdx.mpr ⟨ps.length - k, hi, rfl⟩, ?_⟩
  simp only
  omega

theorem exists_last {α : Type} (p : α → Bool) : ∀ (l : List α), (∃ x ∈ l, p x = true) →
    ∃ pre x post, l = pre ++ x :: post ∧ p x = true ∧ ∀ y ∈ post, p y = false := by
  intro l
  induction l with
  | nil => rintro ⟨x, hx, _⟩; simp at hx
  | cons a r ih =>
    intro h
    by_cases hr : ∃ x ∈ r, p x = true
    · obtain ⟨pre, x, post, e, hx, hp⟩ := ih hr
      exact ⟨a :: pre, x, post, by rw [e]; rfl, hx, hp⟩
    · obtain ⟨x, hx, hpx⟩ := h
      have hall : ∀ y ∈ r, p y = false := by
        intro y hy
        cases hpy : p y with
        | false => rfl
        | true => exact absurd ⟨y, hy, hpy⟩ hr
      rcases List.mem_cons.mp hx with rfl | hx'
      · exact ⟨[], x, r, rfl, hpx, hall⟩
      · rw [hall x hx'] at hpx; simp at hpx

/-! ### one received frame: `cleanup_expired`, then at most one fragment operation (`Assembler.onFrame`) -/

/-- every entry was touched within the timeout before `now` -/
def Unexpired (t now : Nat) (l : PMap) : Prop := ∀ q m, lookup q l = some m → now - m.last ≤ t

theorem setTotal_last (m : FragMsg) (c : Nat) : (m.setTotal c).last = m.last := by
  unfold FragMsg.setTotal
  split
  · rfl
  · simp only
    split
    · rfl
    · generalize hm0 : ({ m with total := some c, slots := resize m.slots c, pend := [] } : FragMsg) = m0
      have h0 : m0.last = m.last := by rw [← hm0]
      rw [← h0]
      generalize m.pend = L
      clear hm0 h0
      induction L generalizing m0 with
      | nil => rfl
      | cons p r ih =>
        simp only [List.foldl_cons]
        rw [ih]
        unfold FragMsg.placePending
        split
        · rw [place_last]
        · rfl

/-- an event of a sequence leaves its entry alone or stamps it with the clock value it read -/
theorem stepQ_last {t : Nat} {st : Option FragMsg} {o : Op} (ho : o.seq.isSome) {m : FragMsg}
    (h : (stepQ t st o).1 = some m) : st = some m ∨ m.last = Op.now o := by
  cases o with
  | cleanup now => simp [Op.seq] at ho
  | add now q fid d =>
    simp only [stepQ, addQ] at h
    cases st with
    | none =>
      simp only [Option.some.injEq] at h
      right; rw [← h, addFragment_last]; rfl
    | some m' =>
      simp only at h
      split at h
      · simp at h
      · simp only [Option.some.injEq] at h
        right; rw [← h, addFragment_last]; rfl
  | start now q fid c d =>
    simp only [stepQ, startQ] at h
    split at h
    · left; exact h
    · cases st with
      | none =>
        simp only at h
        split at h
        · simp at h
        · simp only [Option.some.injEq] at h
          right; rw [← h, addFragment_last]; rfl
      | some m' =>
        simp only at h
        split at h
        · left; exact h
        · split at h
          · simp at h
          · simp only [Option.some.injEq] at h
            right; rw [← h, addFragment_last]; rfl

theorem cleanup_unexpired (a : Assembler) (hw : WF a.pending) (now : Nat) :
    Unexpired a.timeout now (a.cleanupExpired now).1.pending := by
  intro q m hm
  have := lookup_filter (l := a.pending) (fun m => !m.isExpired now a.timeout) q hw
  simp only [Assembler.cleanupExpired] at hm
  rw [this] at hm
  cases hl : lookup q a.pending with
  | none => rw [hl] at hm; simp at hm
  | some m' =>
    rw [hl] at hm
    simp only [Option.filter] at hm
    split at hm
    · rename_i hne
      simp only [Option.some.injEq] at hm
      subst hm
      simp only [FragMsg.isExpired, Bool.not_eq_true', decide_eq_false_iff_not] at hne
      omega
    · simp at hm

theorem cleanup_timeout (a : Assembler) (now : Nat) : (a.cleanupExpired now).1.timeout = a.timeout := rfl

theorem onFrame_timeout (a : Assembler) (now : Nat) (o : Option Op) : (a.onFrame now o).1.timeout = a.timeout := by
  cases o with
  | none => rfl
  | some op => simp only [Assembler.onFrame]; rw [step_timeout]; rfl

theorem cleanup_eq_step (a : Assembler) (now : Nat) : (a.cleanupExpired now).1 = (a.step (.cleanup now)).1 := rfl

theorem onFrame_invariants (a : Assembler) (now : Nat) (o : Option Op) (hw : WF a.pending) (hi : AllIncomplete a.pending) :
    WF (a.onFrame now o).1.pending ∧ AllIncomplete (a.onFrame now o).1.pending := by
  have w1 := step_WF a (.cleanup now) hw
  have i1 := step_allIncomplete a (.cleanup now) hw hi
  cases o with
  | none => exact ⟨w1, i1⟩
  | some op =>
    simp only [Assembler.onFrame, cleanup_eq_step]
    exact ⟨step_WF _ op w1, step_allIncomplete _ op w1 i1⟩

/-- after a frame received at `now`, every entry held is unexpired at `now` (the clock does not run backwards between the
expiry and the fragment operation of the same frame) -/
theorem onFrame_unexpired (a : Assembler) (now : Nat) (o : Option Op) (hw : WF a.pending)
    (hmono : ∀ op, o = some op → now ≤ Op.now op) : Unexpired a.timeout now (a.onFrame now o).1.pending := by
  have u1 := cleanup_unexpired a hw now
  cases o with
  | none => exact u1
  | some op =>
    have hnow := hmono op rfl
    intro q m hm
    simp only [Assembler.onFrame] at hm
    cases hs : op.seq with
    | none =>
      cases op with
      | cleanup now' =>
        have w1 : WF (a.cleanupExpired now).1.pending := step_WF a (.cleanup now) hw
        have := cleanup_unexpired (a.cleanupExpired now).1 w1 now' q m hm
        simp only [Op.now] at hnow
        rw [cleanup_timeout] at this
        omega
      | start _ _ _ _ _ => simp [Op.seq] at hs
      | add _ _ _ _ => simp [Op.seq] at hs
    | some q' =>
      by_cases hq : q' = q
      · subst hq
        rw [(step_self _ op q' hs).1] at hm
        rcases stepQ_last (by rw [hs]; rfl) hm with h | h
        · exact u1 q' m h
        · rw [h]; omega
      · rw [step_other _ op q q' hs hq] at hm
        exact u1 q m hm

theorem afterFrames_invariants (frames : List (Nat × Option Op)) : ∀ (a : Assembler), WF a.pending → AllIncomplete a.pending →
    WF (a.afterFrames frames).pending ∧ AllIncomplete (a.afterFrames frames).pending ∧
      (a.afterFrames frames).timeout = a.timeout := by
  induction frames with
  | nil => intro a hw hi; exact ⟨hw, hi, rfl⟩
  | cons f r ih =>
    intro a hw hi
    obtain ⟨w, i⟩ := onFrame_invariants a f.1 f.2 hw hi
    obtain ⟨a1, a2, a3⟩ := ih _ w i
    exact ⟨a1, a2, a3.trans (onFrame_timeout _ _ _)⟩

theorem after_invariants_wf (ops : List Op) : ∀ (a : Assembler), WF a.pending → WF (a.after ops).pending := by
  induction ops with
  | nil => intro a hw; exact hw
  | cons o r ih => intro a hw; exact ih _ (step_WF a o hw)

theorem after_timeout (ops : List Op) : ∀ (a : Assembler), (a.after ops).timeout = a.timeout := by
  induction ops with
  | nil => intro a; rfl
  | cons o r ih => intro a; simp only [Assembler.after]; rw [ih, step_timeout]

end Edp.Frag
