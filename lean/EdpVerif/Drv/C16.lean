import EdpVerif.Drv.Common
namespace Edp.Drv

/-- driver requests of property C16 (stub: nothing handled yet) -/
def handleC16 : List String → Option String
  | _ => none

end Edp.Drv
